//! Case generators.  A case is a self-contained request script (it starts with its own
//! `cfg` line).  Every random choice comes from one PRNG seeded by (seed, property, case
//! index), so a case can be regenerated and a failure replays exactly.

pub struct Rng(u64);
impl Rng {
    pub fn new(seed: u64) -> Self {
        let mut r = Rng(seed ^ 0x9E3779B97F4A7C15);
        for _ in 0..4 {
            r.next();
        }
        r
    }
    pub fn next(&mut self) -> u64 {
        // splitmix64
        self.0 = self.0.wrapping_add(0x9E3779B97F4A7C15);
        let mut z = self.0;
        z = (z ^ (z >> 30)).wrapping_mul(0xBF58476D1CE4E5B9);
        z = (z ^ (z >> 27)).wrapping_mul(0x94D049BB133111EB);
        z ^ (z >> 31)
    }
    pub fn below(&mut self, n: u64) -> u64 {
        if n == 0 {
            0
        } else {
            self.next() % n
        }
    }
    pub fn range(&mut self, lo: u64, hi: u64) -> u64 {
        lo + self.below(hi - lo + 1)
    }
    pub fn pick<'a, T>(&mut self, v: &'a [T]) -> &'a T {
        &v[self.below(v.len() as u64) as usize]
    }
    pub fn chance(&mut self, num: u64, den: u64) -> bool {
        self.below(den) < num
    }
}

#[derive(Default, Clone)]
pub struct Case {
    pub structure: String,
    pub tags: Vec<String>,
    pub lines: Vec<String>,
    pub nontrivial: bool,
}

impl Case {
    pub fn new(structure: &str) -> Self {
        Case { structure: structure.into(), ..Default::default() }
    }
    pub fn tag(&mut self, t: impl Into<String>) {
        self.tags.push(t.into());
    }
    pub fn l(&mut self, s: impl Into<String>) {
        self.lines.push(s.into());
    }
}

pub const TYS: [(&str, u32); 6] = [("u8", 8), ("u16", 16), ("u32", 32), ("u64", 64), ("usize", 64), ("u128", 128)];

fn ty_max(bits: u32) -> u128 {
    if bits == 128 {
        u128::MAX
    } else {
        (1u128 << bits) - 1
    }
}

/// huge arguments on which `x << 1`, `x + 1`, `x + len`, `as u32` or `as i64` wrap while `x` itself is far out of
/// range: every call with one of them must be answered `None`
pub fn huge_args(n: usize) -> Vec<usize> {
    let top = 1usize << 63;
    vec![top, top + 1, top + n / 2, top + n.saturating_sub(1), top + n, (1usize << 62) + 1, 1 << 32, (1 << 32) + 1, (1usize << 32) + n / 2,
         usize::MAX / 2, usize::MAX / 2 + 1, usize::MAX - n, usize::MAX - n / 2, usize::MAX - 1, usize::MAX]
}

pub fn join<T: ToString>(v: &[T]) -> String {
    v.iter().map(|x| x.to_string()).collect::<Vec<_>>().join(" ")
}

/// numbers mined from the functions of the crate whose source differs from the baseline the model was
/// written against (`tools/srcmap.py --hints`, passed in `VERIF_HINTS`): literals and named constants of the
/// changed code.  Empty on the unchanged tree.  The generators aim lengths, counts, symbol values, alphabet
/// sizes and query arguments at them (and at sums / products / multiples of them), so that a special case
/// keyed on a magic number or on a relation between two periods is actually exercised.
pub fn hints() -> &'static Vec<usize> {
    static H: std::sync::OnceLock<Vec<usize>> = std::sync::OnceLock::new();
    H.get_or_init(|| {
        std::env::var("VERIF_HINTS").unwrap_or_default().split(',').filter_map(|x| x.trim().parse::<usize>().ok()).filter(|&x| x >= 2 && x <= 3_000_000).collect()
    })
}

/// a number built from the hints: h, h±1, k·h (+-1), h1 + h2 (+-1), h1·h2 (+-1), |h1 - h2|
pub fn hint_number(r: &mut Rng, max: usize) -> Option<usize> {
    let hs = hints();
    if hs.is_empty() {
        return None;
    }
    for _ in 0..8 {
        let h1 = *r.pick(hs);
        let h2 = *r.pick(hs);
        let base = match r.below(8) {
            0 | 1 => h1,
            2 | 3 => h1 * r.range(1, 6) as usize,
            4 => h1 + h2,
            5 => h1.saturating_mul(h2),
            6 => h1.max(h2) - h1.min(h2),
            _ => h1 * r.range(1, 40) as usize + h2,
        };
        let n = (base + [0usize, 0, 1, 0, 2][r.below(5) as usize]).saturating_sub([0usize, 1, 0, 0, 0][r.below(5) as usize]);
        if n >= 1 && n <= max {
            return Some(n);
        }
    }
    None
}

/// a length near a structural boundary
pub fn boundary_len(r: &mut Rng, max: usize) -> usize {
    let bases: [usize; 14] = [64, 128, 256, 512, 1024, 2048, 4096, 8192, 16384, 32768, 65536, 131072, 2048 * 3, 4096 * 3];
    loop {
        let b = *r.pick(&bases);
        let k = r.range(1, 3) as usize;
        let d = r.range(0, 4) as i64 - 2;
        let n = (b * k) as i64 + d;
        if n >= 1 && (n as usize) <= max {
            return n as usize;
        }
        if max < 62 {
            return r.range(1, max as u64) as usize;
        }
    }
}

pub fn some_len(r: &mut Rng, max: usize) -> usize {
    if !hints().is_empty() && r.chance(1, 3) {
        if let Some(n) = hint_number(r, max.max(30_000)) {
            return n;
        }
    }
    match r.below(14) {
        10 | 11 => {
            // exact multiples of the structural periods (and +-1)
            let b = *r.pick(&[256usize, 512, 2048, 4096, 8192]);
            let k = r.range(1, (max / b).max(1).min(24) as u64) as usize;
            let n = (b * k + [0usize, 0, 0, 1][r.below(4) as usize]).saturating_sub([0usize, 0, 1, 0][r.below(4) as usize]);
            n.max(1).min(max.max(1))
        }
        0 => r.range(1, 3) as usize,
        1..=3 => r.range(1, max.min(300) as u64) as usize,
        4..=7 => boundary_len(r, max),
        8 | 9 => {
            // stratified by the position of the end *inside* a superblock: which block of the superblock the
            // sequence ends in (first and last block favoured) and where in that block
            let (b, per) = *r.pick(&[(256usize, 8usize), (512, 8), (64, 8), (512, 64), (32, 32)]);
            let sb = b * per;
            let k = r.range(0, (max / sb).min(40) as u64) as usize;
            let j = match r.below(4) {
                0 | 1 => per - 1,
                2 => 0,
                _ => r.below(per as u64) as usize,
            };
            let off = *r.pick(&[0usize, 1, b / 2, b - 2, b - 1]);
            (sb * k + b * j + off).max(1).min(max.max(1))
        }
        _ => r.range(1, max as u64) as usize,
    }
}

/// sequence over an alphabet `alpha` (actual symbol values) with a given shape
pub fn shaped_seq(r: &mut Rng, n: usize, alpha: &[u128], shape: u64) -> Vec<u128> {
    if n == 0 || alpha.is_empty() {
        return vec![];
    }
    let a = alpha.len();
    let mut v = Vec::with_capacity(n);
    // diff-directed: one symbol occurs *exactly* a hint-derived number of times (spread, at the start, or at
    // the end), the others fill the rest
    if !hints().is_empty() && n >= 2 && r.chance(1, 3) {
        if let Some(t) = hint_number(r, n) {
            let c = alpha[r.below(a as u64) as usize];
            let others: Vec<u128> = alpha.iter().copied().filter(|&x| x != c).collect();
            if !others.is_empty() || t == n {
                let place = r.below(4);
                let mut left = t;
                for i in 0..n {
                    let rest = n - i;
                    let take = match place {
                        0 => i < t,
                        1 => rest <= left,
                        _ => left > 0 && (rest <= left || r.below(rest as u64) < left as u64),
                    };
                    if take && left > 0 {
                        v.push(c);
                        left -= 1;
                    } else {
                        v.push(others[r.below(others.len() as u64) as usize]);
                    }
                }
                return v;
            }
        }
    }
    match shape {
        0 => {
            for _ in 0..n {
                v.push(alpha[r.below(a as u64) as usize]);
            }
        }
        1 => {
            let c = alpha[r.below(a as u64) as usize];
            v.resize(n, c);
        }
        2 => {
            let p = r.range(1, a.min(17) as u64) as usize;
            for i in 0..n {
                v.push(alpha[i % p]);
            }
        }
        3 => {
            // long runs
            while v.len() < n {
                let c = alpha[r.below(a as u64) as usize];
                let len = r.range(1, (n / 3).max(1) as u64) as usize;
                for _ in 0..len.min(n - v.len()) {
                    v.push(c);
                }
            }
        }
        4 => {
            // one rare symbol
            let common = alpha[r.below(a as u64) as usize];
            let rare = alpha[r.below(a as u64) as usize];
            v.resize(n, common);
            let k = r.range(1, 3) as usize;
            for _ in 0..k {
                let p = r.below(n as u64) as usize;
                v[p] = rare;
            }
        }
        5 => {
            // geometric / zipf-like
            for _ in 0..n {
                let mut i = 0;
                while i + 1 < a && r.chance(1, 2) {
                    i += 1;
                }
                v.push(alpha[i]);
            }
        }
        6 => {
            // sorted blocks: each symbol in one contiguous block
            for i in 0..n {
                v.push(alpha[i * a / n]);
            }
        }
        _ => {
            // clusters of one symbol whose sizes sit on the sampling periods, separated by
            // long gaps in which it does not occur (select across empty superblocks / hints)
            let c = alpha[r.below(a as u64) as usize];
            let others: Vec<u128> = alpha.iter().copied().filter(|&x| x != c).collect();
            let filler = |r: &mut Rng| if others.is_empty() { c } else { others[r.below(others.len() as u64) as usize] };
            while v.len() < n {
                let base = *r.pick(&[32usize, 64, 256, 512, 1024, 2048, 4096, 8192, 8192, 16384]);
                let size = (base + [0usize, 0, 1, 2][r.below(4) as usize]).saturating_sub([0usize, 0, 1, 0][r.below(4) as usize]).max(1);
                let dense = r.chance(1, 2);
                let mut put = 0;
                while put < size && v.len() < n {
                    if dense || r.chance(1, 3) {
                        v.push(c);
                        put += 1;
                    } else {
                        let f = filler(r);
                        v.push(f);
                    }
                }
                let gap = *r.pick(&[0usize, 1, 255, 2048, 4096, 5000, 9000, 20000]);
                for _ in 0..gap {
                    if v.len() >= n {
                        break;
                    }
                    let f = filler(r);
                    if f == c {
                        break;
                    }
                    v.push(f);
                }
            }
        }
    }
    v
}

/// occurrence indexes of `s` that sit next to a long gap (>= 1024 positions without `s`)
pub fn gap_ks(v: &[u128], s: u128) -> Vec<usize> {
    let mut out = vec![];
    let mut last: Option<usize> = None;
    let mut k = 0usize;
    for (i, &x) in v.iter().enumerate() {
        if x == s {
            if let Some(l) = last {
                if i - l >= 1024 && out.len() < 12 {
                    out.push(k - 1);
                    out.push(k);
                }
            }
            last = Some(i);
            k += 1;
        }
    }
    out
}

/// alphabet (set of symbol values, first element is not necessarily smallest) for a type
pub fn alphabet(r: &mut Rng, bits: u32, max_card: usize) -> Vec<u128> {
    let tmax = ty_max(bits);
    let kind = r.below(10);
    let card = match r.below(6) {
        0 => 1,
        1 => 2,
        2 => *r.pick(&[3usize, 4, 5, 15, 16, 17, 63, 64, 65]),
        3 => *r.pick(&[4usize, 7, 10, 13, 16, 19, 22]),
        _ => r.range(2, max_card as u64) as usize,
    }
    .min(max_card)
    .max(1);
    let mut top: u128 = match kind {
        0 => tmax,
        1 => {
            // 4^k + {-1,0,1}
            let k = r.range(1, (bits / 2 - 1) as u64) as u32;
            let base = 1u128 << (2 * k);
            (base + r.range(0, 2) as u128 - 1).min(tmax)
        }
        2 if bits > 32 => (1u128 << r.range(32, (bits - 1) as u64)) + r.below(1000) as u128,
        3 if bits > 64 => (1u128 << r.range(64, 127)) + r.below(1000) as u128,
        _ => (card as u128 - 1) + r.below(3 * card as u64) as u128,
    };
    // diff-directed: the largest symbol (or the number of symbols) is a hint-derived number
    let mut card = card;
    if !hints().is_empty() && r.chance(1, 3) {
        if let Some(h) = hint_number(r, 2_000_000) {
            if r.chance(1, 2) && h <= max_card {
                card = h.max(1);
            } else {
                top = (h as u128).min(tmax);
            }
        }
    }
    if top < card as u128 - 1 {
        top = card as u128 - 1;
    }
    top = top.min(tmax);
    let card = card.min(top as usize + 1);
    // choose `card` distinct values in 0..=top, always containing `top`
    let mut vals = vec![top];
    let mut guard = 0;
    while vals.len() < card && guard < 10 * card {
        guard += 1;
        let x = if top < u64::MAX as u128 { r.below(top as u64 + 1) as u128 } else { { let w = (r.next() as u128) << 64 | r.next() as u128; if top == u128::MAX { w } else { w % (top + 1) } } };
        if !vals.contains(&x) {
            vals.push(x);
        }
    }
    // cast-alias twins: two symbols that agree modulo 2^8 / 2^16 / 2^32 / 2^64 (whatever a narrowing `as` in
    // the code under test would keep), for the element types wide enough to hold them
    if bits > 8 && vals.len() >= 2 && r.chance(1, 3) {
        let widths: Vec<u32> = [8u32, 16, 32, 64].iter().copied().filter(|&w| w < bits).collect();
        // the widest narrowing (u128 -> usize, u64 -> u32, …) half of the time
        let w = if r.chance(1, 2) { *widths.last().unwrap() } else { *r.pick(&widths) };
        let x = vals[r.below(vals.len() as u64) as usize];
        let twin = (x & ((1u128 << w) - 1)) + ((1 + r.below(3) as u128) << w);
        if twin <= tmax && !vals.contains(&twin) {
            let k = r.below(vals.len() as u64) as usize;
            if vals[k] != x {
                vals[k] = twin;
            } else {
                vals.push(twin);
            }
        }
    }
    // shuffle so that frequency shapes do not correlate with value
    for i in (1..vals.len()).rev() {
        let j = r.below(i as u64 + 1) as usize;
        vals.swap(i, j);
    }
    vals
}

fn count(v: &[u128], c: u128) -> usize {
    v.iter().filter(|&&x| x == c).count()
}

/// query arguments for a tree over `v`
pub fn tree_queries(r: &mut Rng, c: &mut Case, v: &[u128], bits: u32, budget: usize, ops: &[&str], huff: bool) {
    let n = v.len();
    let tmax = ty_max(bits);
    let max = v.iter().copied().max().unwrap_or(0);
    let mut syms: Vec<u128> = vec![];
    let mut distinct: Vec<u128> = v.to_vec();
    distinct.sort();
    distinct.dedup();
    if distinct.len() <= 12 {
        syms.extend(distinct.iter().copied());
    } else {
        for _ in 0..10 {
            syms.push(*r.pick(&distinct));
        }
        syms.push(distinct[0]);
        syms.push(*distinct.last().unwrap());
    }
    // symbols that do not occur / out of the alphabet
    for d in [0u128, 1, 2, 3] {
        syms.push(d.min(tmax));
    }
    for d in [1u128, 2, 3] {
        if max >= d {
            syms.push(max - d);
        }
        if max <= tmax - d {
            syms.push(max + d);
        }
    }
    syms.push(tmax);
    if max < tmax {
        syms.push(max + (tmax - max) / 2);
    }
    if bits > 32 {
        syms.push((1u128 << 32) + (max & 0xFFFF_FFFF));
    }
    if bits > 64 {
        syms.push((1u128 << 64) + (max & 0xFFFF_FFFF_FFFF_FFFF));
    }
    syms.sort();
    syms.dedup();

    let mut poss: Vec<usize> = vec![];
    if n <= 40 {
        poss.extend(0..=n + 1);
    } else {
        poss.extend([0, 1, 2, n - 1, n, n + 1, n / 2]);
        for b in [128usize, 256, 512, 2048, 4096, 8192] {
            let k = r.range(1, (n / b).max(1) as u64) as usize * b;
            for d in [-1i64, 0, 1] {
                let p = k as i64 + d;
                if p >= 0 && (p as usize) <= n {
                    poss.push(p as usize);
                }
            }
        }
        for _ in 0..12 {
            poss.push(r.below(n as u64 + 1) as usize);
        }
    }
    poss.extend(huge_args(n));
    poss.push(1usize << 43);
    for &h in hints().iter() {
        for p in [h.saturating_sub(1), h, h + 1] {
            if p <= n + 1 {
                poss.push(p);
            }
        }
        if let Some(p) = hint_number(r, n + 1) {
            poss.push(p);
        }
    }
    poss.sort();
    poss.dedup();

    let per_op = (budget / ops.len().max(1)).max(8);
    for &op in ops {
        match op {
            "get" | "get_unchecked" => {
                let mut k = 0;
                for &p in &poss {
                    if op == "get_unchecked" && p >= n {
                        continue;
                    }
                    c.l(format!("q 0 {} {}", op, p));
                    k += 1;
                    if k > per_op {
                        break;
                    }
                }
            }
            "rank" | "rank_prefetch" | "rank_unchecked" | "rank_prefetch_unchecked" => {
                let unchecked = op.ends_with("unchecked");
                let mut k = 0;
                'o: for round in 0..3 {
                    for &s in &syms {
                        let p = if round == 0 { *r.pick(&poss) } else if round == 1 { n } else { r.below(n as u64 + 2) as usize };
                        if unchecked && (p > n || count(v, s) == 0 && (huff || !valid_plain(s, max, n))) {
                            continue;
                        }
                        c.l(format!("q 0 {} {} {}", op, s, p));
                        k += 1;
                        if k > per_op {
                            break 'o;
                        }
                    }
                }
                // every position for one occurring symbol on small inputs
                if n <= 40 && n > 0 {
                    let s = v[r.below(n as u64) as usize];
                    for p in 0..=n + 1 {
                        if unchecked && p > n {
                            continue;
                        }
                        c.l(format!("q 0 {} {} {}", op, s, p));
                    }
                }
            }
            "select" | "select_unchecked" => {
                let unchecked = op == "select_unchecked";
                let mut k = 0;
                for &s in &syms {
                    let cnt = count(v, s);
                    let mut ks: Vec<usize> = vec![0, 1, cnt.saturating_sub(1), cnt, cnt + 1, usize::MAX, usize::MAX - 1, cnt / 2, 1 << 63, (1 << 63) + cnt / 2, usize::MAX - cnt, (1 << 32) + 1];
                    for m in [8192usize, 16384, 24576] {
                        if cnt >= m {
                            ks.extend([m - 2, m - 1, m, m + 1]);
                        }
                    }
                    ks.extend(gap_ks(v, s));
                    for &h in hints().iter() {
                        ks.extend([h.saturating_sub(1), h, h + 1]);
                    }
                    if cnt > 0 {
                        for _ in 0..3 {
                            ks.push(r.below(cnt as u64) as usize);
                        }
                    }
                    ks.sort();
                    ks.dedup();
                    for kk in ks {
                        if unchecked && kk >= cnt {
                            continue;
                        }
                        c.l(format!("q 0 {} {} {}", op, s, kk));
                        k += 1;
                    }
                    if k > per_op {
                        break;
                    }
                }
            }
            _ => c.l(format!("q 0 {}", op)),
        }
    }
    // cast-alias twins among the occurring symbols: queried back to back (x, y, x), as a cache keyed by a
    // narrowed symbol would need
    {
        let mut pairs = 0;
        'tw: for (i, &x) in distinct.iter().enumerate() {
            for &y in distinct.iter().skip(i + 1) {
                let d = y - x;
                if x != y && [8u32, 16, 32, 64].iter().any(|&w| w < 128 && d % (1u128 << w) == 0) {
                    for &op in ops {
                        match op {
                            "select" | "select_unchecked" => {
                                for z in [x, y, x] {
                                    c.l(format!("q 0 {} {} 0", op, z));
                                }
                            }
                            "rank" | "rank_unchecked" | "rank_prefetch" | "rank_prefetch_unchecked" => {
                                for z in [x, y, x] {
                                    c.l(format!("q 0 {} {} {}", op, z, n));
                                }
                            }
                            _ => {}
                        }
                    }
                    pairs += 1;
                    if pairs >= 4 {
                        break 'tw;
                    }
                }
            }
            if i > 300 {
                break;
            }
        }
    }
    // larger alphabets: a sweep over (a sample of) *all* symbols — the rare ones with their long codes too —
    // at their first and last occurrence
    if distinct.len() > 12 && distinct.len() <= 400 {
        let step = distinct.len() / 120 + 1;
        let off = r.below(step as u64) as usize;
        let mut first: std::collections::HashMap<u128, usize> = std::collections::HashMap::new();
        let mut cnt: std::collections::HashMap<u128, usize> = std::collections::HashMap::new();
        for (i, &x) in v.iter().enumerate() {
            first.entry(x).or_insert(i);
            *cnt.entry(x).or_insert(0) += 1;
        }
        for &sy in distinct.iter().skip(off).step_by(step) {
            let p = first[&sy];
            let k = cnt[&sy];
            for &op in ops {
                match op {
                    "get" | "get_unchecked" => c.l(format!("q 0 {} {}", op, p)),
                    "rank" | "rank_unchecked" | "rank_prefetch" | "rank_prefetch_unchecked" => {
                        c.l(format!("q 0 {} {} {}", op, sy, p + 1));
                        c.l(format!("q 0 {} {} {}", op, sy, n));
                    }
                    "select" | "select_unchecked" => {
                        c.l(format!("q 0 {} {} 0", op, sy));
                        c.l(format!("q 0 {} {} {}", op, sy, k - 1));
                    }
                    _ => {}
                }
            }
        }
    }
}

fn valid_plain(s: u128, max: u128, n: usize) -> bool {
    n > 0 && s <= max
}

pub struct TreeOpts<'a> {
    pub fam: &'a str,
    pub b: usize,
    pub pfs: bool,
    pub ty: (&'a str, u32),
    pub path: &'a str,
    pub max_len: usize,
    pub ops: &'a [&'a str],
    pub budget: usize,
    pub extra: &'a [&'a str],
    pub max_card: usize,
    pub max_symbol: Option<u128>,
}

pub fn tree_case(r: &mut Rng, o: &TreeOpts) -> Case {
    let mut c = Case::new(o.fam);
    let empty = r.chance(1, 25);
    let n = if empty { 0 } else { some_len(r, o.max_len) };
    let mut alpha = alphabet(r, o.ty.1, o.max_card);
    if let Some(ms) = o.max_symbol {
        for x in alpha.iter_mut() {
            *x %= ms + 1;
        }
        alpha.sort();
        alpha.dedup();
    }
    // Huffman tables are indexed by symbol value: make sure large values (beyond 2^16, 2^17)
    // occur, and occur as the *frequent* symbol (index 0 is the most likely one in the skewed shapes)
    if let Some(ms) = o.max_symbol {
        if ms >= 150_000 && o.ty.1 >= 32 && !alpha.is_empty() {
            let big = 131_072 + r.below((ms - 131_072) as u64 + 1) as u128;
            if !alpha.contains(&big) {
                let k = if r.chance(2, 3) { 0 } else { r.below(alpha.len() as u64) as usize };
                alpha[k] = big;
            }
        }
    }
    let shape = r.below(9);
    let v = if n == 0 { vec![] } else { shaped_seq(r, n, &alpha, shape) };
    let distinct = {
        let mut d = v.clone();
        d.sort();
        d.dedup();
        d.len()
    };
    c.tag(format!("fam={}", o.fam));
    c.tag(format!("cfg={}{}", o.b, if o.pfs { "pfs" } else { "" }));
    c.tag(format!("ty={}", o.ty.0));
    c.tag(format!("shape={}", shape));
    c.tag(format!("lenclass={}", len_class(n)));
    c.tag(format!("alph={}", card_class(distinct)));
    c.nontrivial = n >= 2 && distinct >= 2;
    c.l(format!("cfg {} {} {} * {}", o.b, o.pfs as u8, o.ty.1, o.ty.0));
    if o.fam == "hqwt" || o.fam == "hwt" {
        c.l(format!("tie {}", r.next() | 1));
    }
    let kind = if o.path.is_empty() { o.fam.to_string() } else { format!("{}:{}", o.fam, o.path) };
    c.l(format!("mk 0 {} {}", kind, join(&v)));
    if o.fam == "hqwt" || o.fam == "hwt" {
        c.l("lenschk 0");
    }
    for e in o.extra {
        c.l(e.to_string());
    }
    tree_queries(r, &mut c, &v, o.ty.1, o.budget, o.ops, o.fam == "hqwt" || o.fam == "hwt");
    c
}

pub fn len_class(n: usize) -> &'static str {
    match n {
        0 => "0",
        1..=2 => "1-2",
        3..=255 => "<256",
        256..=2047 => "<2048",
        2048..=8191 => "<8192",
        8192..=65535 => "<65536",
        _ => ">=65536",
    }
}
pub fn card_class(n: usize) -> &'static str {
    match n {
        0 => "0",
        1 => "1",
        2 => "2",
        3..=4 => "3-4",
        5..=16 => "5-16",
        17..=64 => "17-64",
        _ => ">64",
    }
}

/// bit vector as (len, positions of ones) with a given density class / run structure
pub fn shaped_bits(r: &mut Rng, n: usize, shape: u64) -> Vec<usize> {
    let mut ps = vec![];
    // diff-directed: exactly a hint-derived number of ones (or of zeros), or ones at a hint-derived distance
    if !hints().is_empty() && n >= 2 && r.chance(1, 3) {
        if let Some(t) = hint_number(r, n) {
            match r.below(4) {
                0 => {
                    // t ones, spread
                    let mut left = t;
                    for i in 0..n {
                        let rest = n - i;
                        if left > 0 && (rest <= left || r.below(rest as u64) < left as u64) {
                            ps.push(i);
                            left -= 1;
                        }
                    }
                }
                1 => {
                    // t zeros, spread
                    let mut left = t;
                    for i in 0..n {
                        let rest = n - i;
                        if left > 0 && (rest <= left || r.below(rest as u64) < left as u64) {
                            left -= 1;
                        } else {
                            ps.push(i);
                        }
                    }
                }
                2 => {
                    // ones exactly t apart (with a random phase), a few doubled
                    let mut p = r.below(t as u64) as usize;
                    while p < n {
                        ps.push(p);
                        if r.chance(1, 8) && p + 1 < n {
                            ps.push(p + 1);
                        }
                        p += t.max(2);
                    }
                }
                _ => {
                    // a dense prefix of t ones, then sparse
                    ps.extend(0..t.min(n));
                    let mut p = t + r.range(1, 70000) as usize;
                    while p < n {
                        ps.push(p);
                        p += r.range(1, 70000) as usize;
                    }
                }
            }
            ps.dedup();
            return ps;
        }
    }
    match shape {
        0 => {} // all zeros
        1 => ps.extend(0..n),
        2 => {
            for i in 0..n {
                if r.chance(1, 2) {
                    ps.push(i)
                }
            }
        }
        3 => {
            let d = *r.pick(&[3u64, 17, 64, 100, 513, 4096]);
            for i in 0..n {
                if r.below(d) == 0 {
                    ps.push(i)
                }
            }
        }
        4 => {
            let d = *r.pick(&[3u64, 17, 64, 100, 513]);
            for i in 0..n {
                if r.below(d) != 0 {
                    ps.push(i)
                }
            }
        }
        5 => {
            // long runs
            let mut i = 0;
            let mut bit = r.chance(1, 2);
            while i < n {
                let len = r.range(1, (n / 4).max(1) as u64) as usize;
                if bit {
                    ps.extend(i..(i + len).min(n));
                }
                i += len;
                bit = !bit;
            }
        }
        7 | 8 => {
            // clusters of ones (shape 7) or of zeros (shape 8) sized on the hint periods,
            // separated by long gaps
            let mut member = vec![false; n];
            let mut i = 0usize;
            while i < n {
                let base = *r.pick(&[32usize, 64, 512, 1024, 1024, 2048, 4096, 8192, 8192, 16384]);
                let size = (base + [0usize, 0, 1, 2][r.below(4) as usize]).saturating_sub([0usize, 0, 1, 0][r.below(4) as usize]).max(1);
                let dense = r.chance(1, 2);
                let mut put = 0;
                while put < size && i < n {
                    if dense || r.chance(1, 3) {
                        member[i] = true;
                        put += 1;
                    }
                    i += 1;
                }
                i += *r.pick(&[0usize, 1, 63, 512, 4096, 5000, 9000, 33000, 70000]);
            }
            for (i, &m) in member.iter().enumerate() {
                if m == (shape == 7) {
                    ps.push(i);
                }
            }
        }
        _ => {
            // a few isolated ones / zeros
            let k = r.range(1, 4);
            let inv = r.chance(1, 2);
            let mut chosen: Vec<usize> = (0..k).map(|_| r.below(n as u64) as usize).collect();
            chosen.sort();
            chosen.dedup();
            if inv {
                ps.extend((0..n).filter(|i| !chosen.contains(i)));
            } else {
                ps = chosen;
            }
        }
    }
    ps
}

pub fn bits_queries(r: &mut Rng, c: &mut Case, slot: usize, n: usize, ones: &[usize], ops: &[&str], budget: usize) {
    let n1 = ones.len();
    let n0 = n - n1;
    let mut poss: Vec<usize> = vec![0, 1, n.saturating_sub(1), n, n + 1, n / 2, usize::MAX];
    poss.extend(huge_args(n));
    if n <= 70 {
        poss.extend(0..=n + 1);
    } else {
        for b in [64usize, 512, 4096, 32768] {
            let k = r.range(1, (n / b).max(1) as u64) as usize * b;
            for d in [-1i64, 0, 1] {
                let p = k as i64 + d;
                if p >= 0 && (p as usize) <= n + 1 {
                    poss.push(p as usize);
                }
            }
        }
        for _ in 0..(budget / 4).min(40) {
            poss.push(r.below(n as u64 + 1) as usize);
        }
    }
    for &h in hints().iter() {
        for p in [h.saturating_sub(1), h, h + 1] {
            if p <= n + 1 {
                poss.push(p);
            }
        }
        if let Some(p) = hint_number(r, n + 1) {
            poss.push(p);
        }
    }
    poss.sort();
    poss.dedup();
    for &op in ops {
        match op {
            "get" | "rank1" | "rank0" => {
                for &p in &poss {
                    c.l(format!("q {} {} {}", slot, op, p));
                }
            }
            "get_unchecked" => {
                for &p in poss.iter().filter(|&&p| p < n) {
                    c.l(format!("q {} {} {}", slot, op, p));
                }
            }
            "rank1_unchecked" | "rank0_unchecked" => {
                for &p in poss.iter().filter(|&&p| p <= n && n > 0) {
                    c.l(format!("q {} {} {}", slot, op, p));
                }
            }
            "select1" | "select0" | "select1_unchecked" | "select0_unchecked" => {
                let cnt = if op.starts_with("select1") { n1 } else { n0 };
                let mut ks: Vec<usize> = vec![0, 1, cnt.saturating_sub(1), cnt, cnt + 1, usize::MAX, cnt / 2, cnt / 3, 1 << 63, (1 << 63) + cnt / 2, usize::MAX - cnt, (1 << 32) + 1];
                for m in [1024usize, 2048, 8192, 16384, 32, 64, 1023, 1025].iter().chain(hints().iter()) {
                    let m = *m;
                    if cnt > m {
                        ks.extend([m - 1, m, m + 1]);
                    }
                }
                if cnt > 0 {
                    for _ in 0..(budget / 4).min(40) {
                        ks.push(r.below(cnt as u64) as usize);
                    }
                }
                {
                    // occurrences adjacent to long gaps
                    let want_one = op.starts_with("select1");
                    let mut k = 0usize;
                    let mut last: Option<usize> = None;
                    let mut added = 0;
                    let mut oi = 0usize;
                    for i in 0..n {
                        let is_one = oi < ones.len() && ones[oi] == i;
                        if is_one {
                            oi += 1;
                        }
                        if is_one == want_one {
                            if let Some(l) = last {
                                if i - l >= 512 && added < 16 {
                                    ks.push(k - 1);
                                    ks.push(k);
                                    added += 1;
                                }
                            }
                            last = Some(i);
                            k += 1;
                        }
                    }
                }
                ks.sort();
                ks.dedup();
                for k in ks {
                    if op.ends_with("unchecked") && k >= cnt {
                        continue;
                    }
                    c.l(format!("q {} {} {}", slot, op, k));
                }
            }
            _ => c.l(format!("q {} {}", slot, op)),
        }
    }
}

pub fn bits_case(r: &mut Rng, structure: &str, max_len: usize) -> (Case, usize, Vec<usize>) {
    let mut c = Case::new(structure);
    let empty = r.chance(1, 25);
    let n = if empty { 0 } else { some_len(r, max_len) };
    let shape = r.below(10);
    let ones = if n == 0 { vec![] } else { shaped_bits(r, n, shape) };
    c.tag(format!("struct={}", structure));
    c.tag(format!("shape={}", shape));
    c.tag(format!("lenclass={}", len_class(n)));
    c.tag(format!("ones={}", len_class(ones.len())));
    c.nontrivial = n >= 2 && !ones.is_empty() && ones.len() < n;
    c.l("cfg 256 0 8 * u8");
    c.l(format!("mk 0 bvbits {} {}", n, join(&ones)));
    (c, n, ones)
}
