//! Verification harness for `qwt`.
//!
//!   gen  <prop> <quick|thorough> <seed> <out.script> <out.cases.json>
//!   run  <script> <out.impl> [--from-case N]
//!   info                              (profile, features, struct sizes, Send/Sync assertions)
mod alloc_count;
mod dump;
mod gen;
mod interp;
mod props;
#[cfg(feature = "utilsq")]
mod utilq;
#[cfg(not(feature = "utilsq"))]
mod utilq {
    /// fallback build without the `qwt::utils` calls
    pub fn utils_q(_f: &str, _args: &[&str]) -> String {
        "no-utilsq".into()
    }
}

use std::fs::File;
use std::io::{BufRead, BufReader, BufWriter, Write};

#[global_allocator]
static GLOBAL: alloc_count::Counting = alloc_count::Counting;

/// compile-time `Send + Sync` assertions for every public query structure (C18): if one of
/// these types stops being `Send + Sync` the harness no longer compiles.
#[cfg(feature = "syncassert")]
#[allow(dead_code)]
fn assert_send_sync() {
    fn ok<T: Send + Sync>() {}
    ok::<qwt::BitVector>();
    ok::<qwt::BitVectorMut>();
    ok::<qwt::QVector>();
    ok::<qwt::QVectorBuilder>();
    ok::<qwt::RSQVector256>();
    ok::<qwt::RSQVector512>();
    ok::<qwt::RSNarrow>();
    ok::<qwt::RSWide>();
    ok::<qwt::DArray<false>>();
    ok::<qwt::DArray<true>>();
    ok::<qwt::QWT256<u8>>();
    ok::<qwt::QWT512<u64>>();
    ok::<qwt::QWT256Pfs<u32>>();
    ok::<qwt::QWT512Pfs<u128>>();
    ok::<qwt::HQWT256<u8>>();
    ok::<qwt::HQWT512<u64>>();
    ok::<qwt::HQWT256Pfs<u16>>();
    ok::<qwt::HQWT512Pfs<usize>>();
    ok::<qwt::WT<u8>>();
    ok::<qwt::HWT<u64>>();
    ok::<qwt::quadwt::huffqwt::PrefixCode>();
}

fn json_str(s: &str) -> String {
    let mut o = String::from("\"");
    for ch in s.chars() {
        match ch {
            '"' => o.push_str("\\\""),
            '\\' => o.push_str("\\\\"),
            '\n' => o.push_str("\\n"),
            c => o.push(c),
        }
    }
    o.push('"');
    o
}

fn main() {
    let args: Vec<String> = std::env::args().collect();
    if args.len() < 2 {
        eprintln!("usage: gen|run|info");
        std::process::exit(2);
    }
    match args[1].as_str() {
        "info" => {
            println!(
                "{{\"debug_assertions\":{},\"prefetch\":{},\"size_rsq256\":{},\"size_rsq512\":{},\"size_rsn\":{},\"size_rsw\":{},\"size_bv\":{},\"size_qv\":{}}}",
                cfg!(debug_assertions),
                cfg!(feature = "prefetch"),
                std::mem::size_of::<qwt::RSQVector256>(),
                std::mem::size_of::<qwt::RSQVector512>(),
                std::mem::size_of::<qwt::RSNarrow>(),
                std::mem::size_of::<qwt::RSWide>(),
                std::mem::size_of::<qwt::BitVector>(),
                std::mem::size_of::<qwt::QVector>()
            );
        }
        "gen" => {
            let prop = &args[2];
            let tier = if args[3] == "thorough" { props::Tier::Thorough } else { props::Tier::Quick };
            // one seed, or several joined by ',' (the case lists are concatenated)
            let mut cases = vec![];
            for sd in args[4].split(',') {
                let seed: u64 = sd.parse().unwrap_or(1);
                cases.extend(props::cases(prop, tier, seed));
            }
            let first: u64 = args[4].split(',').next().and_then(|x| x.parse().ok()).unwrap_or(1);
            cases.extend(props::scale_cases_for(prop, tier, first));
            let mut w = BufWriter::new(File::create(&args[5]).unwrap());
            let mut meta = BufWriter::new(File::create(&args[6]).unwrap());
            writeln!(meta, "[").unwrap();
            let mut line_no = 0usize;
            for (i, c) in cases.iter().enumerate() {
                writeln!(w, "case {} {} {}", i, c.structure, c.tags.join(" ")).unwrap();
                let start = line_no;
                line_no += 1;
                for l in &c.lines {
                    writeln!(w, "{}", l).unwrap();
                    line_no += 1;
                }
                writeln!(
                    meta,
                    "{{\"case\":{},\"structure\":{},\"tags\":[{}],\"start\":{},\"lines\":{},\"nontrivial\":{}}}{}",
                    i,
                    json_str(&c.structure),
                    c.tags.iter().map(|t| json_str(t)).collect::<Vec<_>>().join(","),
                    start,
                    c.lines.len() + 1,
                    c.nontrivial,
                    if i + 1 < cases.len() { "," } else { "" }
                )
                .unwrap();
            }
            writeln!(meta, "]").unwrap();
        }
        "run" => {
            interp::install_panic_hook();
            let script = &args[2];
            let out = &args[3];
            let mut from_case: usize = 0;
            if args.len() >= 6 && args[4] == "--from-case" {
                from_case = args[5].parse().unwrap();
            }
            let f = BufReader::new(File::open(script).unwrap());
            let mut w = std::fs::OpenOptions::new().create(true).append(true).open(out).unwrap();
            let mut it = interp::Interp::new();
            let mut skipping = from_case > 0;
            // queries of the current case per slot, for `threads`
            let mut hist: Vec<(usize, String, String)> = vec![];
            for line in f.lines() {
                let line = line.unwrap();
                if line.starts_with("case ") {
                    let id: usize = line.split(' ').nth(1).unwrap().parse().unwrap();
                    skipping = id < from_case;
                    hist.clear();
                    if !skipping {
                        it = interp::Interp::new();
                        qwt::verif_hooks::set_tie_seed(0);
                    }
                }
                if skipping {
                    continue;
                }
                // marker of the request being executed (crash attribution)
                let res = if line.starts_with("eq ") {
                    let t: Vec<&str> = line.split(' ').collect();
                    interp::guard(|| it.eq_slots(t[1].parse().unwrap(), t[2].parse().unwrap()))
                } else if line.starts_with("threads ") {
                    let k: usize = line.split(' ').nth(1).unwrap().parse().unwrap();
                    threads_check(&it, k, &hist)
                } else {
                    let r = it.step(&line);
                    if line.starts_with("q ") {
                        let k: usize = line.split(' ').nth(1).unwrap().parse().unwrap();
                        hist.push((k, line.clone(), r.clone()));
                    }
                    r
                };
                writeln!(w, "{}", res).unwrap();
            }
        }
        _ => {
            eprintln!("unknown subcommand");
            std::process::exit(2);
        }
    }
}

/// 16 threads repeat, in different orders, the queries of this case on the shared value and
/// must obtain exactly the answers the single thread obtained.
fn threads_check(it: &interp::Interp, k: usize, hist: &[(usize, String, String)]) -> String {
    // without the Send + Sync assertions sharing the value across threads would be unsound
    if !cfg!(feature = "syncassert") {
        return "skipped:no-syncassert".into();
    }
    let qs: Vec<&(usize, String, String)> = hist.iter().filter(|h| h.0 == k).collect();
    if qs.is_empty() {
        return "ok".into();
    }
    let it_ref = SharedInterp(it as *const interp::Interp);
    let bad = std::sync::atomic::AtomicUsize::new(0);
    std::thread::scope(|s| {
        for t in 0..16usize {
            let qs = &qs;
            let bad = &bad;
            let it_ref = &it_ref;
            s.spawn(move || {
                interp::install_panic_hook();
                let n = qs.len();
                for j in 0..(6 * n).min(6000) {
                    let idx = (j * (2 * t + 1) + t * 7919) % n;
                    let (_, line, expect) = qs[idx];
                    let got = it_ref.query(line);
                    if &got != expect {
                        bad.fetch_add(1, std::sync::atomic::Ordering::Relaxed);
                    }
                }
            });
        }
    });
    if bad.load(std::sync::atomic::Ordering::Relaxed) == 0 {
        "ok".into()
    } else {
        format!("MISMATCH:{}", bad.load(std::sync::atomic::Ordering::Relaxed))
    }
}

/// shared read-only view of the interpreter for the thread test.  Sound because all slot
/// types are `Sync` (asserted above) and `query` only takes `&self`.
struct SharedInterp(*const interp::Interp);
unsafe impl Sync for SharedInterp {}
impl SharedInterp {
    fn query(&self, line: &str) -> String {
        let it = unsafe { &*self.0 };
        it.query_only(line)
    }
}
