//! Counting global allocator: live heap bytes (requested sizes), used for C14–C16.
use std::alloc::{GlobalAlloc, Layout, System};
use std::sync::atomic::{AtomicI64, Ordering};

pub struct Counting;
static LIVE: AtomicI64 = AtomicI64::new(0);

unsafe impl GlobalAlloc for Counting {
    unsafe fn alloc(&self, l: Layout) -> *mut u8 {
        let p = System.alloc(l);
        if !p.is_null() {
            LIVE.fetch_add(l.size() as i64, Ordering::Relaxed);
        }
        p
    }
    unsafe fn dealloc(&self, p: *mut u8, l: Layout) {
        System.dealloc(p, l);
        LIVE.fetch_sub(l.size() as i64, Ordering::Relaxed);
    }
    unsafe fn alloc_zeroed(&self, l: Layout) -> *mut u8 {
        let p = System.alloc_zeroed(l);
        if !p.is_null() {
            LIVE.fetch_add(l.size() as i64, Ordering::Relaxed);
        }
        p
    }
    unsafe fn realloc(&self, p: *mut u8, l: Layout, new_size: usize) -> *mut u8 {
        let q = System.realloc(p, l, new_size);
        if !q.is_null() {
            LIVE.fetch_add(new_size as i64 - l.size() as i64, Ordering::Relaxed);
        }
        q
    }
}

pub fn live_bytes() -> i64 {
    LIVE.load(Ordering::Relaxed)
}
