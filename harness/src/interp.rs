//! Interpreter of request scripts against the real crate.  Every request line yields exactly
//! one outcome line, in the same notation the Lean driver uses for the model.
use crate::alloc_count::live_bytes;
use crate::dump::dump;
use num_traits::AsPrimitive;
use qwt::*;
use serde::de::DeserializeOwned;
use serde::Serialize;
use std::any::Any;
use std::cell::RefCell;
use std::fmt::Debug;
use std::panic::{catch_unwind, AssertUnwindSafe};

thread_local! {
    pub static LAST_PANIC: RefCell<String> = RefCell::new(String::new());
}

pub fn install_panic_hook() {
    std::panic::set_hook(Box::new(|info| {
        let msg = if let Some(s) = info.payload().downcast_ref::<&str>() {
            s.to_string()
        } else if let Some(s) = info.payload().downcast_ref::<String>() {
            s.clone()
        } else {
            "panic".to_string()
        };
        LAST_PANIC.with(|p| *p.borrow_mut() = msg);
    }));
}

pub fn classify(msg: &str) -> &'static str {
    let m = msg;
    if m.contains("overflow") {
        "overflow"
    } else if m.contains("index out of bounds")
        || m.contains("out of range for slice")
        || m.contains("range end index")
        || m.contains("range start index")
        || m.contains("slice index starts")
    {
        "index"
    } else if m.contains("Option::unwrap()")
        || m.contains("could not translate symbol")
        || m.contains("error while finding max code length")
        || m.contains("some error occurred during code translation")
        || m.contains("called `Result::unwrap()`")
    {
        "unwrap"
    } else if m.contains("assertion") || m.contains("Sequence must be strictly increasing") || m.contains("Cannot a value convert") {
        "assert"
    } else {
        "panic"
    }
}

/// run `f`, mapping a panic to `F:<class>`
pub fn guard<F: FnOnce() -> String>(f: F) -> String {
    match catch_unwind(AssertUnwindSafe(f)) {
        Ok(s) => s,
        Err(_) => {
            let m = LAST_PANIC.with(|p| p.borrow().clone());
            format!("F:{}", classify(&m))
        }
    }
}

pub fn o_opt(v: Option<usize>) -> String {
    match v {
        Some(x) => format!("S:{}", x),
        None => "N".into(),
    }
}
pub fn o_optb(v: Option<bool>) -> String {
    match v {
        Some(x) => format!("S:{}", x as u8),
        None => "N".into(),
    }
}
pub fn o_val(v: usize) -> String {
    format!("V:{}", v)
}
pub fn o_list<I: IntoIterator<Item = u128>>(it: I) -> String {
    format!("L:{}", it.into_iter().map(|x| x.to_string()).collect::<Vec<_>>().join(","))
}

pub fn fnv(bytes: &[u8]) -> u64 {
    let mut h: u64 = 14695981039346656037;
    for &b in bytes {
        h ^= b as u64;
        h = h.wrapping_mul(1099511628211);
    }
    h
}
pub fn enc_str(bytes: &[u8]) -> String {
    format!("{}:{}", bytes.len(), fnv(bytes))
}

pub trait Elem:
    WTIndexable + AsPrimitive<usize> + Serialize + DeserializeOwned + Debug + Default + Send + Sync + Copy + 'static
where
    usize: AsPrimitive<Self>,
{
    fn from_u128(v: u128) -> Self;
    fn to_u128(self) -> u128;
}
macro_rules! elem {
    ($($t:ty),*) => {$(
        impl Elem for $t {
            fn from_u128(v: u128) -> Self { v as $t }
            fn to_u128(self) -> u128 { self as u128 }
        }
    )*};
}
elem!(u8, u16, u32, u64, usize, u128);

/// type-erased wavelet tree
#[cfg(feature = "syncassert")]
pub trait MaybeSync: Send + Sync {}
#[cfg(feature = "syncassert")]
impl<T: Send + Sync> MaybeSync for T {}
#[cfg(not(feature = "syncassert"))]
pub trait MaybeSync {}
#[cfg(not(feature = "syncassert"))]
impl<T> MaybeSync for T {}

pub trait DynTree: MaybeSync {
    fn q(&self, op: &str, a: &[u128], s: &str) -> String;
    fn dump(&self) -> String;
    fn enc(&self) -> Vec<u8>;
    fn usage(&self) -> usize;
    fn scaled(&self) -> [f64; 3];
    fn self_size(&self) -> usize;
    fn roundtrip(&self) -> Result<Box<dyn DynTree>, String>;
    fn clone_box(&self) -> Box<dyn DynTree>;
    fn eq_dyn(&self, other: &dyn Any) -> bool;
    fn ne_dyn(&self, other: &dyn Any) -> bool;
    /// `self.clone_from(other)` when `other` has the same type
    fn clone_from_dyn(&mut self, other: &dyn Any) -> bool;
    fn as_any(&self) -> &dyn Any;
    fn into_iter_collect(self: Box<Self>) -> String;
}

/// amounts of the `nth` / `nth_back` letters (see `opsOf` in the Lean driver)
fn nth_amount(c: char) -> Option<usize> {
    match c.to_ascii_lowercase() {
        't' => Some(1),
        'u' => Some(2),
        'v' => Some(5),
        'w' => Some(64),
        'x' => Some(255),
        'y' => Some(256),
        'z' => Some(1000),
        'o' => Some(usize::MAX - 1),
        'p' => Some(1usize << 63),
        'q' => Some(usize::MAX),
        _ => None,
    }
}

fn o_item<V: Into<u128>>(v: Option<V>) -> String {
    match v {
        Some(v) => format!("S:{}", v.into()),
        None => "N".into(),
    }
}

/// `size_hint()` as `Z:<lower>:<upper or ->`; the comparer checks `lower <= remaining <= upper`
fn o_hint(h: (usize, Option<usize>)) -> String {
    match h.1 {
        Some(u) => format!("Z:{}:{}", h.0, u),
        None => format!("Z:{}:-", h.0),
    }
}

/// history of calls on a double-ended exact-size iterator: `n` next, `b` next_back, `l` len,
/// `c` by_ref().count(), `a` by_ref().last(), `t..z` nth(k), `T..Z` nth_back(k), `h` size_hint()
/// (the iterator is driven *directly* — not through `map` or another adaptor, which would replace an
/// overridden `nth` / `nth_back` / `count` / `last` by the provided method; `conv` is applied to the results)
fn iterhist<I, V: Into<u128>>(it: I, ops: &str, conv: impl Fn(I::Item) -> V) -> String
where
    I: DoubleEndedIterator + ExactSizeIterator,
    I::Item: Ord,
{
    let o_item = |v: Option<I::Item>| o_item(v.map(&conv));
    let mut out = vec![];
    let mut slot = Some(it);
    for c in ops.chars() {
        // terminal calls that consume the iterator itself (so that an overridden `count` / `last` / `fold` /
        // `rfold` is reached — `by_ref()` goes through `try_fold`): `#` count, `$` last, `%` fold, `^` rev().fold
        if "#$%^mMer".contains(c) {
            let it = slot.take().unwrap();
            out.push(match c {
                '#' => format!("V:{}", it.count()),
                '$' => o_item(it.last()),
                '%' => o_list(it.fold(vec![], |mut a, x| { a.push(conv(x).into()); a })),
                'm' => o_item(it.min()),
                'M' => o_item(it.max()),
                'e' => {
                    let mut a = vec![];
                    it.for_each(|x| a.push(conv(x).into()));
                    o_list(a)
                }
                'r' => o_item(it.reduce(|a, b| if a >= b { a } else { b })),
                _ => o_list(it.rev().fold(vec![], |mut a, x| { a.push(conv(x).into()); a })),
            });
            break;
        }
        let it = slot.as_mut().unwrap();
        match c {
            'n' => out.push(o_item(it.next())),
            'b' => out.push(o_item(it.next_back())),
            'c' => out.push(format!("V:{}", it.by_ref().count())),
            'a' => out.push(o_item(it.by_ref().last())),
            'h' => out.push(o_hint(it.size_hint())),
            _ => match nth_amount(c) {
                Some(k) if c.is_ascii_uppercase() => out.push(o_item(it.nth_back(k))),
                Some(k) => out.push(o_item(it.nth(k))),
                None => out.push(format!("V:{}", it.len())),
            },
        }
    }
    out.join(" ")
}

/// the same for one-ended iterators: `n` next, `c` count, `a` last, `t..z` nth(k), `h` size_hint(), and the
/// terminal consuming calls `#` count, `$` last, `%` fold
pub fn fwdhist<I, V: Into<u128>>(it: I, ops: &str, conv: impl Fn(I::Item) -> V) -> String
where
    I: Iterator,
    I::Item: Ord,
{
    let o_item = |v: Option<I::Item>| o_item(v.map(&conv));
    let mut out = vec![];
    let mut slot = Some(it);
    for c in ops.chars() {
        if "#$%mMer".contains(c) {
            let it = slot.take().unwrap();
            out.push(match c {
                '#' => format!("V:{}", it.count()),
                '$' => o_item(it.last()),
                'm' => o_item(it.min()),
                'M' => o_item(it.max()),
                'e' => {
                    let mut a = vec![];
                    it.for_each(|x| a.push(conv(x).into()));
                    o_list(a)
                }
                'r' => o_item(it.reduce(|a, b| if a >= b { a } else { b })),
                _ => o_list(it.fold(vec![], |mut a, x| { a.push(conv(x).into()); a })),
            });
            break;
        }
        let it = slot.as_mut().unwrap();
        match c {
            'c' => out.push(format!("V:{}", it.by_ref().count())),
            'a' => out.push(o_item(it.by_ref().last())),
            'h' => out.push(o_hint(it.size_hint())),
            _ => match nth_amount(c) {
                Some(k) => out.push(o_item(it.nth(k))),
                None => out.push(o_item(it.next())),
            },
        }
    }
    out.join(" ")
}

struct U128Of<T>(T);

macro_rules! impl_tree {
    ($ty:ident, $rs:ty, $extra:tt, quad=$quad:tt, sigma=$sig:tt) => {
        impl<T: Elem> DynTree for $ty<T, $rs, $extra>
        where
            usize: AsPrimitive<T>,
        {
            fn q(&self, op: &str, a: &[u128], s: &str) -> String {
                let g = |i: usize| a.get(i).copied().unwrap_or(0);
                let sym = |i: usize| T::from_u128(g(i));
                let pos = |i: usize| g(i) as usize;
                match op {
                    "len" => o_val(self.len()),
                    "is_empty" => o_val(self.is_empty() as usize),
                    "n_levels" => o_val(self.n_levels()),
                    "sigma" => impl_tree!(@sigma $sig, self),
                    "get" => match self.get(pos(0)) {
                        Some(v) => format!("S:{}", v.to_u128()),
                        None => "N".into(),
                    },
                    "get_unchecked" => format!("V:{}", unsafe { self.get_unchecked(pos(0)) }.to_u128()),
                    "rank" => o_opt(self.rank(sym(0), pos(1))),
                    "rank_unchecked" => o_val(unsafe { self.rank_unchecked(sym(0), pos(1)) }),
                    "select" => o_opt(self.select(sym(0), pos(1))),
                    "select_unchecked" => o_val(unsafe { self.select_unchecked(sym(0), pos(1)) }),
                    "rank_prefetch" => impl_tree!(@pf $quad, self, sym(0), pos(1)),
                    "rank_prefetch_unchecked" => impl_tree!(@pfu $quad, self, sym(0), pos(1)),
                    "iterhist" => iterhist(self.iter(), s, |x| U128Of(x)),
                    // Debug::fmt of the tree and of its iterator must not panic (text not compared)
                    "debug" => {
                        let a = format!("{:?}", self);
                        if a.is_empty() { "V:0".into() } else { "U".into() }
                    }
                    "iter" => o_list(self.iter().map(|x| x.to_u128())),
                    "iter_ref" => o_list((&*self).into_iter().map(|x| x.to_u128())),
                    _ => "bad-op".into(),
                }
            }
            fn dump(&self) -> String {
                dump(self)
            }
            fn enc(&self) -> Vec<u8> {
                bincode::serialize(self).unwrap()
            }
            fn usage(&self) -> usize {
                self.space_usage_byte()
            }
            fn scaled(&self) -> [f64; 3] {
                [self.space_usage_KiB(), self.space_usage_MiB(), self.space_usage_GiB()]
            }
            fn self_size(&self) -> usize {
                std::mem::size_of_val(self)
            }
            fn roundtrip(&self) -> Result<Box<dyn DynTree>, String> {
                let b = bincode::serialize(self).map_err(|e| e.to_string())?;
                let t: Self = bincode::deserialize(&b).map_err(|e| e.to_string())?;
                Ok(Box::new(t))
            }
            fn clone_box(&self) -> Box<dyn DynTree> {
                Box::new(self.clone())
            }
            fn eq_dyn(&self, other: &dyn Any) -> bool {
                other.downcast_ref::<Self>().map(|o| o == self).unwrap_or(false)
            }
            fn ne_dyn(&self, other: &dyn Any) -> bool {
                other.downcast_ref::<Self>().map(|o| o != self).unwrap_or(true)
            }
            fn clone_from_dyn(&mut self, other: &dyn Any) -> bool {
                match other.downcast_ref::<Self>() {
                    Some(o) => {
                        self.clone_from(o);
                        true
                    }
                    None => false,
                }
            }
            fn as_any(&self) -> &dyn Any {
                self
            }
            fn into_iter_collect(self: Box<Self>) -> String {
                o_list((*self).into_iter().map(|x| x.to_u128()))
            }
        }
    };
    (@sigma yes, $s:ident) => { match $s.sigma() { Some(v) => format!("S:{}", v.to_u128()), None => "N".into() } };
    (@sigma no, $s:ident) => { "bad-op".to_string() };
    (@pf yes, $s:ident, $c:expr, $i:expr) => { o_opt($s.rank_prefetch($c, $i)) };
    (@pf no, $s:ident, $c:expr, $i:expr) => { "bad-op".to_string() };
    (@pfu yes, $s:ident, $c:expr, $i:expr) => { o_val(unsafe { $s.rank_prefetch_unchecked($c, $i) }) };
    (@pfu no, $s:ident, $c:expr, $i:expr) => { "bad-op".to_string() };
}

impl<T: Elem> From<U128Of<T>> for u128
where
    usize: AsPrimitive<T>,
{
    fn from(v: U128Of<T>) -> u128 {
        v.0.to_u128()
    }
}

impl_tree!(QWaveletTree, RSQVector256, false, quad = yes, sigma = yes);
impl_tree!(QWaveletTree, RSQVector512, false, quad = yes, sigma = yes);
impl_tree!(QWaveletTree, RSQVector256, true, quad = yes, sigma = yes);
impl_tree!(QWaveletTree, RSQVector512, true, quad = yes, sigma = yes);
impl_tree!(HuffQWaveletTree, RSQVector256, false, quad = yes, sigma = no);
impl_tree!(HuffQWaveletTree, RSQVector512, false, quad = yes, sigma = no);
impl_tree!(HuffQWaveletTree, RSQVector256, true, quad = yes, sigma = no);
impl_tree!(HuffQWaveletTree, RSQVector512, true, quad = yes, sigma = no);
impl_tree!(WaveletTree, RSWide, false, quad = no, sigma = no);
impl_tree!(WaveletTree, RSWide, true, quad = no, sigma = no);

#[derive(Clone, Copy, PartialEq, Debug)]
pub struct Cfg {
    pub b: usize,
    pub pfs: bool,
    pub ty: Ty,
}
#[derive(Clone, Copy, PartialEq, Debug)]
pub enum Ty {
    U8,
    U16,
    U32,
    U64,
    Usize,
    U128,
}
impl Ty {
    pub fn parse(s: &str) -> Ty {
        match s {
            "u8" => Ty::U8,
            "u16" => Ty::U16,
            "u32" => Ty::U32,
            "u64" => Ty::U64,
            "usize" => Ty::Usize,
            "u128" => Ty::U128,
            _ => Ty::U8,
        }
    }
}

/// how the tree is constructed
#[derive(Clone, Copy, PartialEq)]
pub enum Path {
    New,
    From,
    Iter,
    /// collect from an iterator without an exact size hint (`filter`)
    IterX,
    /// `From<Vec<T>>` of a vector with spare capacity (3x its length)
    FromCap,
    Default,
}

pub struct Built {
    pub tree: Box<dyn DynTree>,
    pub heap: i64,
}

fn build_t<T: Elem, W>(vals: &[u128], path: Path) -> Built
where
    usize: AsPrimitive<T>,
    W: DynTree + From<Vec<T>> + FromIterator<T> + Default + 'static,
    W: NewFromSlice<T>,
{
    let mut v: Vec<T> = vals.iter().map(|&x| T::from_u128(x)).collect();
    v.shrink_to_fit();
    let vec_bytes = (v.capacity() * std::mem::size_of::<T>()) as i64;
    let before = live_bytes();
    let (tree, adj): (W, i64) = match path {
        Path::New => (W::new_from(&mut v[..]), 0),
        Path::From => (W::from(v), vec_bytes),
        Path::Iter => {
            let t = v.iter().copied().collect::<W>();
            (t, 0)
        }
        Path::IterX => {
            let t = v.iter().copied().filter(|_| true).collect::<W>();
            (t, 0)
        }
        Path::FromCap => {
            let mut big: Vec<T> = Vec::with_capacity(3 * v.len() + 16);
            big.extend_from_slice(&v);
            let before2 = live_bytes();
            let t = W::from(big);
            // the input vector (with its spare capacity) is consumed: what remains live is the tree
            let h2 = live_bytes() - before2 + ((3 * v.len() + 16) * std::mem::size_of::<T>()) as i64;
            return Built { tree: Box::new(t), heap: h2 - (qwt::verif_hooks::last_craft().len() * std::mem::size_of::<(usize, u32)>()) as i64 };
        }
        Path::Default => (W::default(), 0),
    };
    // the verification hook keeps the recorded (symbol, length) list alive in a static: that
    // is harness state, not memory retained by the tree
    let hook_bytes = (qwt::verif_hooks::last_craft().len() * std::mem::size_of::<(usize, u32)>()) as i64;
    let after = live_bytes();
    Built { tree: Box::new(tree), heap: after - before + adj - hook_bytes }
}

pub trait NewFromSlice<T> {
    fn new_from(s: &mut [T]) -> Self;
}
macro_rules! impl_new {
    ($ty:ident, $rs:ty, $extra:tt) => {
        impl<T: Elem> NewFromSlice<T> for $ty<T, $rs, $extra>
        where
            usize: AsPrimitive<T>,
        {
            fn new_from(s: &mut [T]) -> Self {
                Self::new(s)
            }
        }
    };
}
impl_new!(QWaveletTree, RSQVector256, false);
impl_new!(QWaveletTree, RSQVector512, false);
impl_new!(QWaveletTree, RSQVector256, true);
impl_new!(QWaveletTree, RSQVector512, true);
impl_new!(HuffQWaveletTree, RSQVector256, false);
impl_new!(HuffQWaveletTree, RSQVector512, false);
impl_new!(HuffQWaveletTree, RSQVector256, true);
impl_new!(HuffQWaveletTree, RSQVector512, true);
impl_new!(WaveletTree, RSWide, false);
impl_new!(WaveletTree, RSWide, true);

macro_rules! by_ty {
    ($cfg:expr, $f:ident, $fam:ident, $rs:ty, $extra:tt, $vals:expr, $path:expr) => {
        match $cfg.ty {
            Ty::U8 => $f::<u8, $fam<u8, $rs, $extra>>($vals, $path),
            Ty::U16 => $f::<u16, $fam<u16, $rs, $extra>>($vals, $path),
            Ty::U32 => $f::<u32, $fam<u32, $rs, $extra>>($vals, $path),
            Ty::U64 => $f::<u64, $fam<u64, $rs, $extra>>($vals, $path),
            Ty::Usize => $f::<usize, $fam<usize, $rs, $extra>>($vals, $path),
            Ty::U128 => $f::<u128, $fam<u128, $rs, $extra>>($vals, $path),
        }
    };
}

pub fn build_tree(cfg: Cfg, fam: &str, vals: &[u128], path: Path) -> Built {
    match (fam, cfg.b, cfg.pfs) {
        ("qwt", 256, false) => by_ty!(cfg, build_t, QWaveletTree, RSQVector256, false, vals, path),
        ("qwt", 512, false) => by_ty!(cfg, build_t, QWaveletTree, RSQVector512, false, vals, path),
        ("qwt", 256, true) => by_ty!(cfg, build_t, QWaveletTree, RSQVector256, true, vals, path),
        ("qwt", 512, true) => by_ty!(cfg, build_t, QWaveletTree, RSQVector512, true, vals, path),
        ("hqwt", 256, false) => by_ty!(cfg, build_t, HuffQWaveletTree, RSQVector256, false, vals, path),
        ("hqwt", 512, false) => by_ty!(cfg, build_t, HuffQWaveletTree, RSQVector512, false, vals, path),
        ("hqwt", 256, true) => by_ty!(cfg, build_t, HuffQWaveletTree, RSQVector256, true, vals, path),
        ("hqwt", 512, true) => by_ty!(cfg, build_t, HuffQWaveletTree, RSQVector512, true, vals, path),
        ("wt", _, _) => by_ty!(cfg, build_t, WaveletTree, RSWide, false, vals, path),
        ("hwt", _, _) => by_ty!(cfg, build_t, WaveletTree, RSWide, true, vals, path),
        _ => panic!("bad tree family"),
    }
}

/// quad vector built from a typed integer iterator (all twelve primitive integer types)
pub fn qv_from_typed(ty: &str, vals: &[i128]) -> QVector {
    macro_rules! t {
        ($t:ty) => {
            vals.iter().map(|&v| v as $t).collect::<QVector>()
        };
    }
    match ty {
        "i8" => t!(i8),
        "i16" => t!(i16),
        "i32" => t!(i32),
        "i64" => t!(i64),
        "i128" => t!(i128),
        "isize" => t!(isize),
        "u8" => t!(u8),
        "u16" => t!(u16),
        "u32" => t!(u32),
        "u64" => t!(u64),
        "u128" => t!(u128),
        _ => t!(usize),
    }
}

pub fn qvb_extend_typed(b: &mut QVectorBuilder, ty: &str, vals: &[i128]) {
    macro_rules! t {
        ($t:ty) => {
            b.extend(vals.iter().map(|&v| v as $t))
        };
    }
    match ty {
        "i8" => t!(i8),
        "i16" => t!(i16),
        "i32" => t!(i32),
        "i64" => t!(i64),
        "i128" => t!(i128),
        "isize" => t!(isize),
        "u8" => t!(u8),
        "u16" => t!(u16),
        "u32" => t!(u32),
        "u64" => t!(u64),
        "u128" => t!(u128),
        _ => t!(usize),
    }
}

pub enum Slot {
    Empty,
    Err,
    Qv(QVector, i64),
    Qvb(QVectorBuilder),
    Rsq256(RSQVector256, i64),
    Rsq512(RSQVector512, i64),
    Bv(BitVector, i64),
    Bvm(BitVectorMut, i64),
    Rsn(RSNarrow, i64),
    Rsw(RSWide, i64),
    Da0(DArray<false>, i64),
    Da1(DArray<true>, i64),
    Tree(Box<dyn DynTree>, i64),
}

pub struct Interp {
    pub cfg: Cfg,
    pub slots: Vec<Slot>,
}

fn bits_from(len: usize, ps: &[usize]) -> Vec<bool> {
    let mut v = vec![false; len];
    for &p in ps {
        if p < len {
            v[p] = true;
        }
    }
    v
}

macro_rules! rsq_q {
    ($r:expr, $op:expr, $g:expr) => {{
        let r = $r;
        let g = $g;
        match $op {
            "len" => o_val(r.len()),
            "is_empty" => o_val(r.is_empty() as usize),
            "get" => o_opt(r.get(g(0)).map(|x| x as usize)),
            "get_unchecked" => o_val(unsafe { r.get_unchecked(g(0)) } as usize),
            "rank" => o_opt(r.rank(g(0) as u8, g(1))),
            "rank_unchecked" => o_val(unsafe { r.rank_unchecked(g(0) as u8, g(1)) }),
            "select" => o_opt(r.select(g(0) as u8, g(1))),
            "select_unchecked" => o_val(unsafe { r.select_unchecked(g(0) as u8, g(1)) }),
            "occs" => o_opt(r.occs(g(0) as u8)),
            "occs_unchecked" => o_val(unsafe { r.occs_unchecked(g(0) as u8) }),
            "occs_smaller" => o_opt(r.occs_smaller(g(0) as u8)),
            "occs_smaller_unchecked" => o_val(unsafe { r.occs_smaller_unchecked(g(0) as u8) }),
            "iter" => o_list(r.iter().map(|x| x as u128)),
            "prefetch_info" => {
                r.prefetch_info(g(0));
                "U".into()
            }
            "prefetch_data" => {
                r.prefetch_data(g(0));
                "U".into()
            }
            _ => "bad-op".into(),
        }
    }};
}

macro_rules! bv_q {
    ($b:expr, $op:expr, $g:expr) => {{
        let b = $b;
        let g = $g;
        match $op {
            "len" => o_val(b.len()),
            "is_empty" => o_val(b.is_empty() as usize),
            "get" => o_optb(b.get(g(0))),
            "get_unchecked" => o_val(unsafe { b.get_unchecked(g(0)) } as usize),
            "count_ones" => o_val(b.count_ones()),
            "count_zeros" => o_val(b.count_zeros()),
            "get_bits" => match b.get_bits(g(0), g(1)) {
                Some(v) => format!("S:{}", v),
                None => "N".into(),
            },
            "get_bits_unchecked" => format!("V:{}", unsafe { b.get_bits_unchecked(g(0), g(1)) }),
            "get_word" => format!("V:{}", b.get_word(g(0))),
            "iter" => o_list(b.iter().map(|x| x as u128)),
            "ones" => o_list(b.ones().map(|x| x as u128)),
            "zeros" => o_list(b.zeros().map(|x| x as u128)),
            "ones_with_pos" => o_list(b.ones_with_pos(g(0)).map(|x| x as u128)),
            "zeros_with_pos" => o_list(b.zeros_with_pos(g(0)).map(|x| x as u128)),
            "ones_after" => {
                let mut it = b.ones_with_pos(g(0));
                while it.next().is_some() {}
                [it.next(), it.next(), it.next()].iter().map(|x| o_opt(*x)).collect::<Vec<_>>().join(" ")
            }
            "zeros_after" => {
                let mut it = b.zeros_with_pos(g(0));
                while it.next().is_some() {}
                [it.next(), it.next(), it.next()].iter().map(|x| o_opt(*x)).collect::<Vec<_>>().join(" ")
            }
            _ => "bad-op".into(),
        }
    }};
}

macro_rules! rsbin_q {
    ($r:expr, $op:expr, $g:expr, wide=$wide:tt) => {{
        let r = $r;
        let g = $g;
        match $op {
            "get" => o_optb(r.get(g(0))),
            "rank1" => o_opt(r.rank1(g(0))),
            "rank0" => o_opt(r.rank0(g(0))),
            "rank1_unchecked" => o_val(unsafe { r.rank1_unchecked(g(0)) }),
            "rank0_unchecked" => o_val(unsafe { r.rank0_unchecked(g(0)) }),
            "select1" => o_opt(r.select1(g(0))),
            "select0" => o_opt(r.select0(g(0))),
            "select1_unchecked" => o_val(unsafe { r.select1_unchecked(g(0)) }),
            "select0_unchecked" => o_val(unsafe { r.select0_unchecked(g(0)) }),
            "n_ones" => o_val(r.n_ones()),
            "n_zeros" => o_val(RankBin::n_zeros(r)),
            "bv_len" => rsbin_q!(@len $wide, r),
            "prefetch_info" => rsbin_q!(@pfi $wide, r, g(0)),
            "prefetch_data" => rsbin_q!(@pfd $wide, r, g(0)),
            _ => "bad-op".into(),
        }
    }};
    (@len yes, $r:ident) => { o_val($r.bv_len()) };
    (@len no, $r:ident) => { "bad-op".to_string() };
    (@pfi yes, $r:ident, $p:expr) => {{ $r.prefetch_info($p); "U".to_string() }};
    (@pfi no, $r:ident, $p:expr) => { "bad-op".to_string() };
    (@pfd yes, $r:ident, $p:expr) => {{ $r.prefetch_data($p); "U".to_string() }};
    (@pfd no, $r:ident, $p:expr) => { "bad-op".to_string() };
}

macro_rules! da_q {
    ($d:expr, $op:expr, $g:expr) => {{
        let d = $d;
        let g = $g;
        match $op {
            "len" => o_val(d.len()),
            "is_empty" => o_val(d.is_empty() as usize),
            "get" => o_optb(d.get(g(0))),
            "get_unchecked" => o_val(unsafe { d.get_unchecked(g(0)) } as usize),
            "count_ones" => o_val(d.count_ones()),
            "count_zeros" => o_val(d.count_zeros()),
            "select1" => o_opt(d.select1(g(0))),
            "select0" => o_opt(d.select0(g(0))),
            "select1_unchecked" => o_val(unsafe { d.select1_unchecked(g(0)) }),
            "select0_unchecked" => o_val(unsafe { d.select0_unchecked(g(0)) }),
            "ones" => o_list(d.ones().map(|x| x as u128)),
            "zeros" => o_list(d.zeros().map(|x| x as u128)),
            "ones_with_pos" => o_list(d.ones_with_pos(g(0)).map(|x| x as u128)),
            "zeros_with_pos" => o_list(d.zeros_with_pos(g(0)).map(|x| x as u128)),
            "ones_after" => {
                let mut it = d.ones_with_pos(g(0));
                while it.next().is_some() {}
                [it.next(), it.next(), it.next()].iter().map(|x| o_opt(*x)).collect::<Vec<_>>().join(" ")
            }
            "zeros_after" => {
                let mut it = d.zeros_with_pos(g(0));
                while it.next().is_some() {}
                [it.next(), it.next(), it.next()].iter().map(|x| o_opt(*x)).collect::<Vec<_>>().join(" ")
            }
            "iter" => o_list(d.iter().map(|x| x as u128)),
            _ => "bad-op".into(),
        }
    }};
}

fn lens_suffix() -> String {
    let f = qwt::verif_hooks::last_craft();
    let mut s = format!(" lens {}", f.len());
    for (sym, l) in f {
        s.push_str(&format!(" {} {}", sym, l));
    }
    s
}

impl Interp {
    pub fn new() -> Self {
        Interp { cfg: Cfg { b: 256, pfs: false, ty: Ty::U8 }, slots: (0..16).map(|_| Slot::Empty).collect() }
    }
    fn set(&mut self, k: usize, s: Slot) {
        while self.slots.len() <= k {
            self.slots.push(Slot::Empty);
        }
        self.slots[k] = s;
    }

    pub fn step(&mut self, line: &str) -> String {
        let toks: Vec<&str> = line.trim().split(' ').collect();
        match toks[0] {
            "case" => "ok".into(),
            "tie" => {
                qwt::verif_hooks::set_tie_seed(toks[1].parse().unwrap_or(0));
                "ok".into()
            }
            "cfg" => {
                self.cfg = Cfg {
                    b: toks[1].parse().unwrap(),
                    pfs: toks[2] == "1",
                    ty: Ty::parse(toks.get(5).copied().unwrap_or("u8")),
                };
                "ok".into()
            }
            "mk" => {
                let k: usize = toks[1].parse().unwrap();
                let r = catch_unwind(AssertUnwindSafe(|| self.mk(toks[2], &toks[3..])));
                match r {
                    Ok((slot, msg)) => {
                        self.set(k, slot);
                        msg
                    }
                    Err(_) => {
                        self.set(k, Slot::Err);
                        let m = LAST_PANIC.with(|p| p.borrow().clone());
                        format!("F:{}", classify(&m))
                    }
                }
            }
            // cf <dst> <src>: `dst.clone_from(&src)` (the second method of `Clone`) on two values of the same type
            "cf" => {
                let d: usize = toks[1].parse().unwrap();
                let sidx: usize = toks[2].parse().unwrap();
                if d == sidx || d >= self.slots.len() || sidx >= self.slots.len() {
                    return "bad-op".into();
                }
                let mut dst = std::mem::replace(&mut self.slots[d], Slot::Empty);
                let src = &self.slots[sidx];
                let r = catch_unwind(AssertUnwindSafe(|| match (&mut dst, src) {
                    (Slot::Qv(a, _), Slot::Qv(b, _)) => { a.clone_from(b); true }
                    (Slot::Qvb(a), Slot::Qvb(b)) => { a.clone_from(b); true }
                    (Slot::Rsq256(a, _), Slot::Rsq256(b, _)) => { a.clone_from(b); true }
                    (Slot::Rsq512(a, _), Slot::Rsq512(b, _)) => { a.clone_from(b); true }
                    (Slot::Bv(a, _), Slot::Bv(b, _)) => { a.clone_from(b); true }
                    (Slot::Bvm(a, _), Slot::Bvm(b, _)) => { a.clone_from(b); true }
                    (Slot::Rsn(a, _), Slot::Rsn(b, _)) => { a.clone_from(b); true }
                    (Slot::Rsw(a, _), Slot::Rsw(b, _)) => { a.clone_from(b); true }
                    (Slot::Da0(a, _), Slot::Da0(b, _)) => { a.clone_from(b); true }
                    (Slot::Da1(a, _), Slot::Da1(b, _)) => { a.clone_from(b); true }
                    (Slot::Tree(a, _), Slot::Tree(b, _)) => a.clone_from_dyn(b.as_any()),
                    _ => false,
                }));
                self.slots[d] = dst;
                match r {
                    Ok(true) => "ok".into(),
                    Ok(false) => "bad-op".into(),
                    Err(_) => {
                        let m = LAST_PANIC.with(|p| p.borrow().clone());
                        format!("F:{}", classify(&m))
                    }
                }
            }
            "op" => {
                let k: usize = toks[1].parse().unwrap();
                let mut slot = std::mem::replace(&mut self.slots[k], Slot::Empty);
                let r = catch_unwind(AssertUnwindSafe(|| Self::op(&mut slot, toks[2], &toks[3..])));
                self.slots[k] = slot;
                match r {
                    Ok(s) => s,
                    Err(_) => {
                        let m = LAST_PANIC.with(|p| p.borrow().clone());
                        format!("F:{}", classify(&m))
                    }
                }
            }
            "q" => {
                let k: usize = toks[1].parse().unwrap();
                guard(|| self.q(k, toks[2], &toks[3..]))
            }
            "dump" => {
                let k: usize = toks[1].parse().unwrap();
                guard(|| self.dump(k))
            }
            "enc" => {
                let k: usize = toks[1].parse().unwrap();
                guard(|| enc_str(&self.enc(k)))
            }
            "space" => {
                let k: usize = toks[1].parse().unwrap();
                guard(|| self.space(k))
            }
            "wf" | "lenschk" => "V:1".into(),
            "free" => {
                let k: usize = toks[1].parse().unwrap();
                self.set(k, Slot::Empty);
                "ok".into()
            }
            "u" => guard(|| crate::utilq::utils_q(toks[1], &toks[2..])),
            _ => "bad-op".into(),
        }
    }

    fn mk(&self, kind_full: &str, args: &[&str]) -> (Slot, String) {
        let mut parts = kind_full.split(':');
        let kind = parts.next().unwrap();
        let variant = parts.next().unwrap_or("");
        let ok = "ok".to_string();
        match kind {
            "qv" => {
                let vals: Vec<i128> = args.iter().map(|x| x.parse().unwrap()).collect();
                let before = live_bytes();
                let q = qv_from_typed(if variant.is_empty() { "i64" } else { variant }, &vals);
                let h = live_bytes() - before;
                (Slot::Qv(q, h), ok)
            }
            // QVector through the other construction paths (the retained heap is measured around the whole
            // construction): `qvx` collects from an iterator without an exact size hint, `qvpush <cap|-> …` pushes
            // into a builder made by `new()` / `with_capacity(cap)`, `qvext <cap|-> …` extends it in chunks
            "qvx" => {
                let vals: Vec<i128> = args.iter().map(|x| x.parse().unwrap()).collect();
                let before = live_bytes();
                let q: QVector = vals.iter().map(|&x| x as i64).filter(|_| true).collect();
                let h = live_bytes() - before;
                (Slot::Qv(q, h), ok)
            }
            // `qvchain <h> …`: collected from an exact-size header of `h` values chained with a filtered rest (the
            // size hint has a positive lower bound and no upper bound); `qvnf <k> …`: collected / extended from a
            // *non-fused* source that answers None after `k` values and would go on afterwards if polled again
            // `qvfilt …`: collected from a `filter` that really drops elements (tokens written `x<value>`): the
            // upper bound of the size hint is larger than what the source yields
            "qvfilt" => {
                let all: Vec<(bool, i64)> = args.iter().map(|x| match x.strip_prefix('x') {
                    Some(v) => (false, v.parse::<i128>().unwrap() as i64),
                    None => (true, x.parse::<i128>().unwrap() as i64),
                }).collect();
                let before = live_bytes();
                let q: QVector = all.iter().filter(|p| p.0).map(|p| p.1).collect();
                let hp = live_bytes() - before;
                (Slot::Qv(q, hp), ok)
            }
            "qvchain" => {
                let h: usize = args[0].parse().unwrap();
                let vals: Vec<i64> = args[1..].iter().map(|x| x.parse::<i128>().unwrap() as i64).collect();
                let h = h.min(vals.len());
                let before = live_bytes();
                let q: QVector = vals[..h].iter().copied().chain(vals[h..].iter().copied().filter(|_| true)).collect();
                let hp = live_bytes() - before;
                (Slot::Qv(q, hp), ok)
            }
            "qvnf" | "qvnfext" => {
                let k: usize = args[0].parse().unwrap();
                let vals: Vec<i64> = args[1..].iter().map(|x| x.parse::<i128>().unwrap() as i64).collect();
                let k = k.min(vals.len());
                let mut i = 0usize;
                let mut gave_none = false;
                let src = std::iter::from_fn(|| {
                    if i == k && !gave_none {
                        gave_none = true;
                        return None;
                    }
                    let r = vals.get(i).copied();
                    i += 1;
                    r
                });
                let before = live_bytes();
                let q: QVector = if kind == "qvnf" {
                    src.collect()
                } else {
                    let mut b = QVectorBuilder::new();
                    b.extend(src);
                    b.build()
                };
                let hp = live_bytes() - before;
                (Slot::Qv(q, hp), ok)
            }
            "qvpush" | "qvext" => {
                let vals: Vec<i128> = args[1..].iter().map(|x| x.parse().unwrap()).collect();
                let before = live_bytes();
                let mut b = if args[0] == "-" { QVectorBuilder::new() } else { QVectorBuilder::with_capacity(args[0].parse().unwrap()) };
                if kind == "qvpush" {
                    for &x in &vals {
                        b.push(x as u8);
                    }
                } else {
                    for ch in vals.chunks(97) {
                        b.extend(ch.iter().map(|&x| x as i64).filter(|_| true));
                    }
                }
                let q = b.build();
                let h = live_bytes() - before;
                (Slot::Qv(q, h), ok)
            }
            "qvb" => (Slot::Qvb(QVectorBuilder::new()), ok),
            "qvbcap" => (Slot::Qvb(QVectorBuilder::with_capacity(args[0].parse().unwrap())), ok),
            "rsq" | "rsqdefault" => {
                let b: usize = args[0].parse().unwrap();
                let vals: Vec<i128> = args[1..].iter().map(|x| x.parse().unwrap()).collect();
                macro_rules! mk_rsq {
                    ($t:ty, $slot:ident) => {{
                        let before = live_bytes();
                        let r: $t = if kind == "rsqdefault" {
                            <$t>::default()
                        } else {
                            match variant {
                                "new" => {
                                    let v: Vec<u64> = vals.iter().map(|&x| x as u64).collect();
                                    let before2 = live_bytes();
                                    let r = <$t>::new(&v);
                                    let h = live_bytes() - before2;
                                    return (Slot::$slot(r, h), ok);
                                }
                                "fromqv" => {
                                    let q = qv_from_typed("i64", &vals);
                                    <$t>::from(q)
                                }
                                "inexact" => vals.iter().map(|&x| x as i64).filter(|_| true).collect::<$t>(),
                                "frombuilder" => {
                                    let mut b = QVectorBuilder::new();
                                    for &x in &vals {
                                        b.push(x as u8);
                                    }
                                    <$t>::from(b.build())
                                }
                                _ => vals.iter().map(|&x| x as i64).collect::<$t>(),
                            }
                        };
                        let h = live_bytes() - before;
                        (Slot::$slot(r, h), ok)
                    }};
                }
                if b == 512 {
                    mk_rsq!(RSQVector512, Rsq512)
                } else {
                    mk_rsq!(RSQVector256, Rsq256)
                }
            }
            "bvbits" => {
                let len: usize = args[0].parse().unwrap();
                let ps: Vec<usize> = args[1..].iter().map(|x| x.parse().unwrap()).collect();
                let bits = bits_from(len, &ps);
                let before = live_bytes();
                if variant == "mut" {
                    let b: BitVectorMut = bits.iter().copied().collect();
                    let h = live_bytes() - before;
                    (Slot::Bvm(b, h), ok)
                } else {
                    let b: BitVector = bits.iter().copied().collect();
                    let h = live_bytes() - before;
                    (Slot::Bv(b, h), ok)
                }
            }
            "bvzpos" => {
                // length, then the positions of the ZERO bits (every other bit is one)
                let len: usize = args[0].parse().unwrap();
                let zs: Vec<usize> = args[1..].iter().map(|x| x.parse().unwrap()).collect();
                let bits: Vec<bool> = bits_from(len, &zs).iter().map(|b| !*b).collect();
                let before = live_bytes();
                let b: BitVector = bits.iter().copied().collect();
                let h = live_bytes() - before;
                (Slot::Bv(b, h), ok)
            }
            "bvpos" => {
                let ps: Vec<usize> = args.iter().map(|x| x.parse().unwrap()).collect();
                let before = live_bytes();
                if variant == "mut" {
                    let b: BitVectorMut = ps.iter().copied().collect();
                    let h = live_bytes() - before;
                    (Slot::Bvm(b, h), ok)
                } else {
                    let b: BitVector = ps.iter().copied().collect();
                    let h = live_bytes() - before;
                    (Slot::Bv(b, h), ok)
                }
            }
            "bvnew" => (Slot::Bvm(BitVectorMut::new(), 0), ok),
            "bvzeros" => {
                let before = live_bytes();
                let b = BitVectorMut::with_zeros(args[0].parse().unwrap());
                (Slot::Bvm(b, live_bytes() - before), ok)
            }
            "bvcap" => {
                let before = live_bytes();
                let b = BitVectorMut::with_capacity(args[0].parse().unwrap());
                (Slot::Bvm(b, live_bytes() - before), ok)
            }
            "copy" => {
                // freeze / thaw / clone of a bit vector, clone of anything else
                let src: usize = args[0].parse().unwrap();
                let before = live_bytes();
                match (&self.slots[src], variant) {
                    (Slot::Bvm(b, _), "freeze") => {
                        let bv: BitVector = b.clone().into();
                        let h = live_bytes() - before;
                        (Slot::Bv(bv, h), ok)
                    }
                    (Slot::Bv(b, _), "thaw") => {
                        let m: BitVectorMut = b.clone().into();
                        (Slot::Bvm(m, live_bytes() - before), ok)
                    }
                    (Slot::Bvm(b, _), _) => {
                        let m = b.clone();
                        (Slot::Bvm(m, live_bytes() - before), ok)
                    }
                    (Slot::Bv(b, h), _) => (Slot::Bv(b.clone(), *h), ok),
                    (Slot::Qv(q, h), _) => (Slot::Qv(q.clone(), *h), ok),
                    (Slot::Qvb(q), "build") => {
                        let qv = q.clone().build();
                        let h = live_bytes() - before;
                        (Slot::Qv(qv, h), ok)
                    }
                    (Slot::Qvb(q), _) => (Slot::Qvb(q.clone()), ok),
                    (Slot::Rsq256(r, h), _) => (Slot::Rsq256(r.clone(), *h), ok),
                    (Slot::Rsq512(r, h), _) => (Slot::Rsq512(r.clone(), *h), ok),
                    (Slot::Rsn(r, h), _) => (Slot::Rsn(r.clone(), *h), ok),
                    (Slot::Rsw(r, h), _) => (Slot::Rsw(r.clone(), *h), ok),
                    (Slot::Da0(r, h), _) => (Slot::Da0(r.clone(), *h), ok),
                    (Slot::Da1(r, h), _) => (Slot::Da1(r.clone(), *h), ok),
                    (Slot::Tree(t, h), "serde") => match t.roundtrip() {
                        Ok(t2) => (Slot::Tree(t2, *h), ok),
                        Err(e) => (Slot::Err, format!("F:deserialize({})", e)),
                    },
                    (Slot::Tree(t, h), _) => (Slot::Tree(t.clone_box(), *h), ok),
                    _ => (Slot::Err, "bad-op".into()),
                }
            }
            "serde" => {
                // deserialize(serialize(slot)) for the non-tree structures
                let src: usize = args[0].parse().unwrap();
                macro_rules! rt {
                    ($v:expr, $t:ty) => {{
                        let b = bincode::serialize($v).unwrap();
                        bincode::deserialize::<$t>(&b)
                    }};
                }
                match &self.slots[src] {
                    Slot::Qv(q, h) => match rt!(q, QVector) { Ok(x) => (Slot::Qv(x, *h), ok), Err(e) => (Slot::Err, format!("F:deserialize({})", e)) },
                    Slot::Bv(q, h) => match rt!(q, BitVector) { Ok(x) => (Slot::Bv(x, *h), ok), Err(e) => (Slot::Err, format!("F:deserialize({})", e)) },
                    Slot::Bvm(q, h) => match rt!(q, BitVectorMut) { Ok(x) => (Slot::Bvm(x, *h), ok), Err(e) => (Slot::Err, format!("F:deserialize({})", e)) },
                    Slot::Rsq256(q, h) => match rt!(q, RSQVector256) { Ok(x) => (Slot::Rsq256(x, *h), ok), Err(e) => (Slot::Err, format!("F:deserialize({})", e)) },
                    Slot::Rsq512(q, h) => match rt!(q, RSQVector512) { Ok(x) => (Slot::Rsq512(x, *h), ok), Err(e) => (Slot::Err, format!("F:deserialize({})", e)) },
                    Slot::Rsn(q, h) => match rt!(q, RSNarrow) { Ok(x) => (Slot::Rsn(x, *h), ok), Err(e) => (Slot::Err, format!("F:deserialize({})", e)) },
                    Slot::Rsw(q, h) => match rt!(q, RSWide) { Ok(x) => (Slot::Rsw(x, *h), ok), Err(e) => (Slot::Err, format!("F:deserialize({})", e)) },
                    Slot::Da0(q, h) => match rt!(q, DArray<false>) { Ok(x) => (Slot::Da0(x, *h), ok), Err(e) => (Slot::Err, format!("F:deserialize({})", e)) },
                    Slot::Da1(q, h) => match rt!(q, DArray<true>) { Ok(x) => (Slot::Da1(x, *h), ok), Err(e) => (Slot::Err, format!("F:deserialize({})", e)) },
                    Slot::Tree(t, h) => match t.roundtrip() { Ok(x) => (Slot::Tree(x, *h), ok), Err(e) => (Slot::Err, format!("F:deserialize({})", e)) },
                    _ => (Slot::Err, "bad-op".into()),
                }
            }
            "rsn" | "rsw" | "da" => {
                let (s0, src): (bool, usize) = if kind == "da" {
                    (args[0] == "1", args[1].parse().unwrap())
                } else {
                    (false, args[0].parse().unwrap())
                };
                let bv = match &self.slots[src] {
                    Slot::Bv(b, _) => b.clone(),
                    Slot::Bvm(b, _) => b.clone().into(),
                    _ => return (Slot::Err, "bad-op".into()),
                };
                let bv_heap = (bv.n_lines() * 64) as i64;
                let before = live_bytes();
                match kind {
                    "rsn" => {
                        let r = if variant == "from" { RSNarrow::from(bv) } else { RSNarrow::new(bv) };
                        (Slot::Rsn(r, live_bytes() - before + bv_heap), ok)
                    }
                    "rsw" => {
                        let r = if variant == "from" { RSWide::from(bv) } else { RSWide::new(bv) };
                        (Slot::Rsw(r, live_bytes() - before + bv_heap), ok)
                    }
                    _ => {
                        if s0 {
                            let r = DArray::<true>::new(bv);
                            (Slot::Da1(r, live_bytes() - before + bv_heap), ok)
                        } else {
                            let r = DArray::<false>::new(bv);
                            (Slot::Da0(r, live_bytes() - before + bv_heap), ok)
                        }
                    }
                }
            }
            "dabits" | "dapos" => {
                // DArray directly from an iterator of bools / positions
                let s0 = args[0] == "1";
                if kind == "dabits" {
                    let len: usize = args[1].parse().unwrap();
                    let ps: Vec<usize> = args[2..].iter().map(|x| x.parse().unwrap()).collect();
                    let bits = bits_from(len, &ps);
                    if s0 {
                        (Slot::Da1(bits.into_iter().collect(), 0), ok)
                    } else {
                        (Slot::Da0(bits.into_iter().collect(), 0), ok)
                    }
                } else {
                    let ps: Vec<usize> = args[1..].iter().map(|x| x.parse().unwrap()).collect();
                    if s0 {
                        (Slot::Da1(ps.into_iter().collect(), 0), ok)
                    } else {
                        (Slot::Da0(ps.into_iter().collect(), 0), ok)
                    }
                }
            }
            "dadefault" => {
                if args[0] == "1" {
                    (Slot::Da1(DArray::<true>::default(), 0), ok)
                } else {
                    (Slot::Da0(DArray::<false>::default(), 0), ok)
                }
            }
            "rsndefault" => (Slot::Rsn(RSNarrow::default(), 0), ok),
            "rswdefault" => (Slot::Rsw(RSWide::default(), 0), ok),
            "qwt" | "hqwt" | "wt" | "hwt" => {
                let vals: Vec<u128> = if variant == "rle" {
                    // run-length encoded: value count value count ...
                    let mut v = vec![];
                    for ch in args.chunks(2) {
                        let x: u128 = ch[0].parse().unwrap();
                        let c: usize = ch[1].parse().unwrap();
                        v.extend(std::iter::repeat(x).take(c));
                    }
                    v
                } else {
                    args.iter().map(|x| x.parse().unwrap()).collect()
                };
                let path = match variant {
                    "from" => Path::From,
                    "iter" => Path::Iter,
                    "iterx" => Path::IterX,
                    "fromcap" => Path::FromCap,
                    "default" => Path::Default,
                    _ => Path::New,
                };
                qwt::verif_hooks::record_craft(vec![]);
                let b = build_tree(self.cfg, kind, &vals, path);
                let msg = if kind == "hqwt" || kind == "hwt" { format!("ok{}", lens_suffix()) } else { ok };
                (Slot::Tree(b.tree, b.heap), msg)
            }
            _ => (Slot::Err, "bad-op".into()),
        }
    }

    fn op(slot: &mut Slot, op: &str, args: &[&str]) -> String {
        let u = |i: usize| -> usize { args[i].parse::<u128>().unwrap() as usize };
        match slot {
            Slot::Bvm(b, heap) => {
                let before = live_bytes();
                match op {
                    "push" => b.push(args[0] == "1"),
                    "append_bits" => b.append_bits(args[0].parse().unwrap(), u(1)),
                    "extend_with_zeros" => b.extend_with_zeros(u(0)),
                    "set" => b.set(u(0), args[1] == "1"),
                    "set_bits" => b.set_bits(u(0), u(1), args[2].parse().unwrap()),
                    "extend_bools" => b.extend(args.iter().map(|x| *x == "1")),
                    // the same from a source that is not fused (None after args[0] items, more if polled again)
                    // and has no exact size hint
                    "extend_bools_nf" => {
                        let k: usize = args[0].parse().unwrap();
                        let v: Vec<bool> = args[1..].iter().map(|x| *x == "1").collect();
                        let (mut i, mut gave) = (0usize, false);
                        b.extend(std::iter::from_fn(|| {
                            if i == k.min(v.len()) && !gave {
                                gave = true;
                                return None;
                            }
                            let r = v.get(i).copied();
                            i += 1;
                            r
                        }));
                    }
                    "extend_pos_nf" => {
                        let k: usize = args[0].parse().unwrap();
                        let v: Vec<usize> = args[1..].iter().map(|x| x.parse::<usize>().unwrap()).collect();
                        let (mut i, mut gave) = (0usize, false);
                        b.extend(std::iter::from_fn(|| {
                            if i == k.min(v.len()) && !gave {
                                gave = true;
                                return None;
                            }
                            let r = v.get(i).copied();
                            i += 1;
                            r
                        }));
                    }
                    "extend_pos" => b.extend(args.iter().map(|x| x.parse::<usize>().unwrap())),
                    "roundtrip" => {
                        let tmp = std::mem::take(b);
                        let bv: BitVector = tmp.into();
                        *b = bv.clone().into();
                    }
                    "shrink_to_fit" => b.shrink_to_fit(),
                    _ => return "bad-op".into(),
                }
                *heap += live_bytes() - before;
                "U".into()
            }
            Slot::Qvb(q) => {
                match op {
                    "push" => q.push(args[0].parse::<i128>().unwrap() as u8),
                    "extend" => {
                        let ty = args[0];
                        let vals: Vec<i128> = args[1..].iter().map(|x| x.parse().unwrap()).collect();
                        qvb_extend_typed(q, ty, &vals)
                    }
                    _ => return "bad-op".into(),
                }
                "U".into()
            }
            _ => "bad-op".into(),
        }
    }

    fn q(&self, k: usize, op: &str, args: &[&str]) -> String {
        let nums: Vec<u128> = args.iter().map(|x| x.parse::<u128>().unwrap_or(0)).collect();
        let g = |i: usize| -> usize { nums.get(i).copied().unwrap_or(0) as usize };
        // `<op>_pair`: the checked method and — only when it answers Some(v) — its unchecked twin on the same
        // arguments (the documented precondition then holds): `S:v` when both agree, `D:…` when they differ
        if let Some(base) = op.strip_suffix("_pair") {
            let checked = self.q(k, base, args);
            if let Some(v) = checked.strip_prefix("S:") {
                let un = self.q(k, &format!("{}_unchecked", base), args);
                // (`bad-op`: this harness has no unchecked twin for that method of that type)
                return if un == format!("V:{}", v) || un == "bad-op" { checked } else { format!("D:checked={}:unchecked={}", checked, un) };
            }
            return checked;
        }
        if op == "debug" {
            // `Debug::fmt` is a safe public method too: it must not panic; its text is not compared
            let txt = match &self.slots[k] {
                Slot::Qv(x, _) => format!("{:?}", x),
                Slot::Rsq256(x, _) => format!("{:?}", x),
                Slot::Rsq512(x, _) => format!("{:?}", x),
                Slot::Bv(x, _) => format!("{:?}", x),
                Slot::Bvm(x, _) => format!("{:?}", x),
                Slot::Rsn(x, _) => format!("{:?}", x),
                Slot::Rsw(x, _) => format!("{:?}", x),
                Slot::Da0(x, _) => format!("{:?}", x),
                Slot::Da1(x, _) => format!("{:?}", x),
                Slot::Tree(t, _) => return t.q("debug", &[], ""),
                _ => return "bad-op".into(),
            };
            return if txt.is_empty() { "V:0".into() } else { "U".into() };
        }
        match &self.slots[k] {
            Slot::Err => "E".into(),
            Slot::Empty => "bad-slot".into(),
            Slot::Qv(q, _) => match op {
                "len" => o_val(q.len()),
                "is_empty" => o_val(q.is_empty() as usize),
                "get" => o_opt(q.get(g(0)).map(|x| x as usize)),
                "get_unchecked" => o_val(unsafe { q.get_unchecked(g(0)) } as usize),
                "iter" => o_list(q.iter().map(|x| x as u128)),
                "into_iter" => o_list(q.clone().into_iter().map(|x| x as u128)),
                "fwdhist" => fwdhist(q.iter(), args.first().copied().unwrap_or(""), |x| x),
                "fwdhist_into" => fwdhist(q.clone().into_iter(), args.first().copied().unwrap_or(""), |x| x),
                _ => "bad-op".into(),
            },
            Slot::Qvb(qb) => {
                let q = qb.clone().build();
                match op {
                    "len" => o_val(q.len()),
                    "is_empty" => o_val(q.is_empty() as usize),
                    "get" => o_opt(q.get(g(0)).map(|x| x as usize)),
                    "iter" => o_list(q.iter().map(|x| x as u128)),
                    "fwdhist" => fwdhist(q.iter(), args.first().copied().unwrap_or(""), |x| x),
                    _ => "bad-op".into(),
                }
            }
            Slot::Rsq256(r, _) if op == "fwdhist" => fwdhist(r.iter(), args.first().copied().unwrap_or(""), |x| x),
            Slot::Rsq512(r, _) if op == "fwdhist" => fwdhist(r.iter(), args.first().copied().unwrap_or(""), |x| x),
            Slot::Rsq256(r, _) if op == "fwdhist_into" => fwdhist(r.clone().into_iter(), args.first().copied().unwrap_or(""), |x| x),
            Slot::Rsq512(r, _) if op == "fwdhist_into" => fwdhist(r.clone().into_iter(), args.first().copied().unwrap_or(""), |x| x),
            Slot::Rsq256(r, _) => rsq_q!(r, op, g),
            Slot::Rsq512(r, _) => rsq_q!(r, op, g),
            Slot::Bv(b, _) => match op {
                "into_iter" => o_list(b.clone().into_iter().map(|x| x as u128)),
                "fwdhist" => fwdhist(b.iter(), args.first().copied().unwrap_or(""), |x| x as u8),
                "fwdhist_into" => fwdhist(b.clone().into_iter(), args.first().copied().unwrap_or(""), |x| x as u8),
                "ones_hist" => fwdhist(b.ones_with_pos(g(0)), args.get(1).copied().unwrap_or(""), |x| x as u128),
                "zeros_hist" => fwdhist(b.zeros_with_pos(g(0)), args.get(1).copied().unwrap_or(""), |x| x as u128),
                "n_lines" => o_val(b.n_lines()),
                "prefetch_line" => {
                    b.prefetch_line(g(0));
                    "U".into()
                }
                "iterlen" => {
                    // ExactSizeIterator::len after every `next`, including after exhaustion
                    let mut it = b.clone().into_iter();
                    let mut out = vec![it.len() as u128];
                    for _ in 0..b.len() + 2 {
                        let _ = it.next();
                        out.push(it.len() as u128);
                    }
                    o_list(out)
                }
                "iterlen_ref" => {
                    let mut it = b.iter();
                    let mut out = vec![it.len() as u128];
                    for _ in 0..b.len() + 2 {
                        let _ = it.next();
                        out.push(it.len() as u128);
                    }
                    o_list(out)
                }
                _ => bv_q!(b, op, g),
            },
            Slot::Bvm(b, _) => match op {
                "into_iter" => o_list(b.clone().into_iter().map(|x| x as u128)),
                "fwdhist" => fwdhist(b.iter(), args.first().copied().unwrap_or(""), |x| x as u8),
                "fwdhist_into" => fwdhist(b.clone().into_iter(), args.first().copied().unwrap_or(""), |x| x as u8),
                "ones_hist" => fwdhist(b.ones_with_pos(g(0)), args.get(1).copied().unwrap_or(""), |x| x as u128),
                "zeros_hist" => fwdhist(b.zeros_with_pos(g(0)), args.get(1).copied().unwrap_or(""), |x| x as u128),
                _ => bv_q!(b, op, g),
            },
            Slot::Rsn(r, _) => rsbin_q!(r, op, g, wide = no),
            Slot::Rsw(r, _) => rsbin_q!(r, op, g, wide = yes),
            Slot::Da0(d, _) if op == "fwdhist" => fwdhist(d.iter(), args.first().copied().unwrap_or(""), |x| x as u8),
            Slot::Da1(d, _) if op == "fwdhist" => fwdhist(d.iter(), args.first().copied().unwrap_or(""), |x| x as u8),
            Slot::Da0(d, _) if op == "ones_hist" => fwdhist(d.ones_with_pos(g(0)), args.get(1).copied().unwrap_or(""), |x| x as u128),
            Slot::Da1(d, _) if op == "ones_hist" => fwdhist(d.ones_with_pos(g(0)), args.get(1).copied().unwrap_or(""), |x| x as u128),
            Slot::Da0(d, _) if op == "zeros_hist" => fwdhist(d.zeros_with_pos(g(0)), args.get(1).copied().unwrap_or(""), |x| x as u128),
            Slot::Da1(d, _) if op == "zeros_hist" => fwdhist(d.zeros_with_pos(g(0)), args.get(1).copied().unwrap_or(""), |x| x as u128),
            Slot::Da0(d, _) => da_q!(d, op, g),
            Slot::Da1(d, _) => da_q!(d, op, g),
            Slot::Tree(t, _) => match op {
                "into_iter" => t.clone_box().into_iter_collect(),
                "eq" => {
                    let other = g(0);
                    match &self.slots[other] {
                        Slot::Tree(o, _) => o_val(t.eq_dyn(o.as_any()) as usize),
                        _ => "bad-op".into(),
                    }
                }
                _ => t.q(op, &nums, args.first().copied().unwrap_or("")),
            },
        }
    }

    /// a `q` request evaluated through `&self` only (used by the thread test)
    pub fn query_only(&self, line: &str) -> String {
        let toks: Vec<&str> = line.trim().split(' ').collect();
        if toks[0] != "q" {
            return "bad-op".into();
        }
        let k: usize = toks[1].parse().unwrap();
        guard(|| self.q(k, toks[2], &toks[3..]))
    }

    pub fn eq_slots(&self, a: usize, b: usize) -> String {
        // `==` in both directions and `!=` (PartialEq::ne can be overridden): all three must tell the same story
        macro_rules! three {
            ($x:expr, $y:expr) => {{
                let (e1, e2, n1) = ($x == $y, $y == $x, $x != $y);
                if e1 == e2 && e1 != n1 {
                    o_val(e1 as usize)
                } else {
                    format!("V:inconsistent(eq={},sym={},ne={})", e1, e2, n1)
                }
            }};
        }
        match (&self.slots[a], &self.slots[b]) {
            (Slot::Qv(x, _), Slot::Qv(y, _)) => three!(x, y),
            (Slot::Bv(x, _), Slot::Bv(y, _)) => three!(x, y),
            (Slot::Bvm(x, _), Slot::Bvm(y, _)) => three!(x, y),
            (Slot::Rsq256(x, _), Slot::Rsq256(y, _)) => three!(x, y),
            (Slot::Rsq512(x, _), Slot::Rsq512(y, _)) => three!(x, y),
            (Slot::Rsn(x, _), Slot::Rsn(y, _)) => three!(x, y),
            (Slot::Rsw(x, _), Slot::Rsw(y, _)) => three!(x, y),
            (Slot::Da0(x, _), Slot::Da0(y, _)) => three!(x, y),
            (Slot::Da1(x, _), Slot::Da1(y, _)) => three!(x, y),
            (Slot::Tree(x, _), Slot::Tree(y, _)) => {
                let (e1, e2, n1) = (x.eq_dyn(y.as_any()), y.eq_dyn(x.as_any()), x.ne_dyn(y.as_any()));
                if e1 == e2 && e1 != n1 {
                    o_val(e1 as usize)
                } else {
                    format!("V:inconsistent(eq={},sym={},ne={})", e1, e2, n1)
                }
            }
            _ => o_val(0),
        }
    }

    fn dump(&self, k: usize) -> String {
        match &self.slots[k] {
            Slot::Qv(q, _) => dump(q),
            Slot::Qvb(q) => dump(&q.clone().build()),
            Slot::Rsq256(r, _) => dump(r),
            Slot::Rsq512(r, _) => dump(r),
            Slot::Bv(b, _) => dump(b),
            Slot::Bvm(b, _) => dump(b),
            Slot::Rsn(r, _) => dump(r),
            Slot::Rsw(r, _) => dump(r),
            Slot::Da0(d, _) => dump(d),
            Slot::Da1(d, _) => dump(d),
            Slot::Tree(t, _) => t.dump(),
            _ => "bad-slot".into(),
        }
    }

    pub fn enc(&self, k: usize) -> Vec<u8> {
        match &self.slots[k] {
            Slot::Qv(q, _) => bincode::serialize(q).unwrap(),
            Slot::Qvb(q) => bincode::serialize(&q.clone().build()).unwrap(),
            Slot::Rsq256(r, _) => bincode::serialize(r).unwrap(),
            Slot::Rsq512(r, _) => bincode::serialize(r).unwrap(),
            Slot::Bv(b, _) => bincode::serialize(b).unwrap(),
            Slot::Bvm(b, _) => bincode::serialize(b).unwrap(),
            Slot::Rsn(r, _) => bincode::serialize(r).unwrap(),
            Slot::Rsw(r, _) => bincode::serialize(r).unwrap(),
            Slot::Da0(d, _) => bincode::serialize(d).unwrap(),
            Slot::Da1(d, _) => bincode::serialize(d).unwrap(),
            Slot::Tree(t, _) => t.enc(),
            _ => vec![],
        }
    }

    fn space(&self, k: usize) -> String {
        // heap bytes, size_of_val, space_usage_byte, then the bit patterns of the KiB/MiB/GiB variants
        let f = |h: i64, s: usize, u: usize, sc: [f64; 3]| {
            format!("{} {} {} {:016x} {:016x} {:016x}", h, s, u, sc[0].to_bits(), sc[1].to_bits(), sc[2].to_bits())
        };
        macro_rules! sp {
            ($v:expr, $h:expr) => {
                f(*$h, std::mem::size_of_val($v), $v.space_usage_byte(), [$v.space_usage_KiB(), $v.space_usage_MiB(), $v.space_usage_GiB()])
            };
        }
        match &self.slots[k] {
            Slot::Qv(q, h) => sp!(q, h),
            Slot::Rsq256(r, h) => sp!(r, h),
            Slot::Rsq512(r, h) => sp!(r, h),
            Slot::Bv(b, h) => sp!(b, h),
            Slot::Bvm(b, h) => sp!(b, h),
            Slot::Rsn(r, h) => sp!(r, h),
            Slot::Rsw(r, h) => sp!(r, h),
            Slot::Da0(d, h) => sp!(d, h),
            Slot::Da1(d, h) => sp!(d, h),
            Slot::Tree(t, h) => f(*h, t.self_size(), t.usage(), t.scaled()),
            _ => "bad-slot".into(),
        }
    }
}
