//! A `serde::Serializer` that renders any `Serialize` value as canonical text:
//! structs as `{field:value,...}` with fields sorted by name, sequences / tuples / arrays as
//! `[a,b,...]`, `Option` as `none` / `some(v)`, unit structs (`PhantomData`) as `()`.
//! This is how the harness observes the private fields of the crate's structures without
//! any hook (every struct derives `Serialize` over all its fields).
use serde::ser::{self, Serialize};
use std::fmt::{self, Display};

#[derive(Debug)]
pub struct DErr(String);
impl Display for DErr {
    fn fmt(&self, f: &mut fmt::Formatter<'_>) -> fmt::Result {
        f.write_str(&self.0)
    }
}
impl std::error::Error for DErr {}
impl ser::Error for DErr {
    fn custom<T: Display>(msg: T) -> Self {
        DErr(msg.to_string())
    }
}

pub fn dump<T: Serialize>(v: &T) -> String {
    v.serialize(Ser).unwrap_or_else(|e| format!("DUMP-ERROR({})", e))
}

/// value of the named top-level field (rendered), if the value is a struct
pub fn field<T: Serialize>(v: &T, name: &str) -> Option<String> {
    let s = dump(v);
    split_top_fields(&s).into_iter().find(|(k, _)| k == name).map(|(_, v)| v)
}

pub fn split_top_fields(s: &str) -> Vec<(String, String)> {
    let b = s.as_bytes();
    if b.first() != Some(&b'{') {
        return vec![];
    }
    let inner = &s[1..s.len() - 1];
    let mut out = vec![];
    let mut depth = 0i32;
    let mut start = 0;
    let ib = inner.as_bytes();
    for i in 0..=ib.len() {
        let c = if i < ib.len() { ib[i] } else { b',' };
        match c {
            b'{' | b'[' | b'(' => depth += 1,
            b'}' | b']' | b')' => depth -= 1,
            b',' if depth == 0 => {
                let part = &inner[start..i];
                if let Some(p) = part.find(':') {
                    out.push((part[..p].to_string(), part[p + 1..].to_string()));
                }
                start = i + 1;
            }
            _ => {}
        }
    }
    out
}

struct Ser;

pub struct SeqS(Vec<String>);
pub struct StructS(Vec<(String, String)>);

macro_rules! num {
    ($f:ident, $t:ty) => {
        fn $f(self, v: $t) -> Result<String, DErr> {
            Ok(v.to_string())
        }
    };
}

impl ser::Serializer for Ser {
    type Ok = String;
    type Error = DErr;
    type SerializeSeq = SeqS;
    type SerializeTuple = SeqS;
    type SerializeTupleStruct = SeqS;
    type SerializeTupleVariant = SeqS;
    type SerializeMap = SeqS;
    type SerializeStruct = StructS;
    type SerializeStructVariant = StructS;

    num!(serialize_i8, i8);
    num!(serialize_i16, i16);
    num!(serialize_i32, i32);
    num!(serialize_i64, i64);
    num!(serialize_i128, i128);
    num!(serialize_u8, u8);
    num!(serialize_u16, u16);
    num!(serialize_u32, u32);
    num!(serialize_u64, u64);
    num!(serialize_u128, u128);
    num!(serialize_f32, f32);
    num!(serialize_f64, f64);
    fn serialize_bool(self, v: bool) -> Result<String, DErr> {
        Ok((v as u8).to_string())
    }
    fn serialize_char(self, v: char) -> Result<String, DErr> {
        Ok((v as u32).to_string())
    }
    fn serialize_str(self, v: &str) -> Result<String, DErr> {
        Ok(format!("{:?}", v))
    }
    fn serialize_bytes(self, v: &[u8]) -> Result<String, DErr> {
        Ok(format!("[{}]", v.iter().map(|b| b.to_string()).collect::<Vec<_>>().join(",")))
    }
    fn serialize_none(self) -> Result<String, DErr> {
        Ok("none".into())
    }
    fn serialize_some<T: ?Sized + Serialize>(self, v: &T) -> Result<String, DErr> {
        Ok(format!("some({})", v.serialize(Ser)?))
    }
    fn serialize_unit(self) -> Result<String, DErr> {
        Ok("()".into())
    }
    fn serialize_unit_struct(self, _n: &'static str) -> Result<String, DErr> {
        Ok("()".into())
    }
    fn serialize_unit_variant(self, _n: &'static str, i: u32, _v: &'static str) -> Result<String, DErr> {
        Ok(format!("variant{}", i))
    }
    fn serialize_newtype_struct<T: ?Sized + Serialize>(self, _n: &'static str, v: &T) -> Result<String, DErr> {
        v.serialize(Ser)
    }
    fn serialize_newtype_variant<T: ?Sized + Serialize>(
        self,
        _n: &'static str,
        i: u32,
        _v: &'static str,
        v: &T,
    ) -> Result<String, DErr> {
        Ok(format!("variant{}({})", i, v.serialize(Ser)?))
    }
    fn serialize_seq(self, _len: Option<usize>) -> Result<SeqS, DErr> {
        Ok(SeqS(vec![]))
    }
    fn serialize_tuple(self, _len: usize) -> Result<SeqS, DErr> {
        Ok(SeqS(vec![]))
    }
    fn serialize_tuple_struct(self, _n: &'static str, _len: usize) -> Result<SeqS, DErr> {
        Ok(SeqS(vec![]))
    }
    fn serialize_tuple_variant(self, _n: &'static str, _i: u32, _v: &'static str, _l: usize) -> Result<SeqS, DErr> {
        Ok(SeqS(vec![]))
    }
    fn serialize_map(self, _len: Option<usize>) -> Result<SeqS, DErr> {
        Ok(SeqS(vec![]))
    }
    fn serialize_struct(self, _n: &'static str, _len: usize) -> Result<StructS, DErr> {
        Ok(StructS(vec![]))
    }
    fn serialize_struct_variant(self, _n: &'static str, _i: u32, _v: &'static str, _l: usize) -> Result<StructS, DErr> {
        Ok(StructS(vec![]))
    }
}

impl SeqS {
    fn fin(self) -> Result<String, DErr> {
        Ok(format!("[{}]", self.0.join(",")))
    }
}
impl ser::SerializeSeq for SeqS {
    type Ok = String;
    type Error = DErr;
    fn serialize_element<T: ?Sized + Serialize>(&mut self, v: &T) -> Result<(), DErr> {
        self.0.push(v.serialize(Ser)?);
        Ok(())
    }
    fn end(self) -> Result<String, DErr> {
        self.fin()
    }
}
impl ser::SerializeTuple for SeqS {
    type Ok = String;
    type Error = DErr;
    fn serialize_element<T: ?Sized + Serialize>(&mut self, v: &T) -> Result<(), DErr> {
        self.0.push(v.serialize(Ser)?);
        Ok(())
    }
    fn end(self) -> Result<String, DErr> {
        self.fin()
    }
}
impl ser::SerializeTupleStruct for SeqS {
    type Ok = String;
    type Error = DErr;
    fn serialize_field<T: ?Sized + Serialize>(&mut self, v: &T) -> Result<(), DErr> {
        self.0.push(v.serialize(Ser)?);
        Ok(())
    }
    fn end(self) -> Result<String, DErr> {
        self.fin()
    }
}
impl ser::SerializeTupleVariant for SeqS {
    type Ok = String;
    type Error = DErr;
    fn serialize_field<T: ?Sized + Serialize>(&mut self, v: &T) -> Result<(), DErr> {
        self.0.push(v.serialize(Ser)?);
        Ok(())
    }
    fn end(self) -> Result<String, DErr> {
        self.fin()
    }
}
impl ser::SerializeMap for SeqS {
    type Ok = String;
    type Error = DErr;
    fn serialize_key<T: ?Sized + Serialize>(&mut self, v: &T) -> Result<(), DErr> {
        self.0.push(v.serialize(Ser)?);
        Ok(())
    }
    fn serialize_value<T: ?Sized + Serialize>(&mut self, v: &T) -> Result<(), DErr> {
        self.0.push(v.serialize(Ser)?);
        Ok(())
    }
    fn end(self) -> Result<String, DErr> {
        self.fin()
    }
}
impl StructS {
    fn fin(mut self) -> Result<String, DErr> {
        self.0.sort_by(|a, b| a.0.cmp(&b.0));
        Ok(format!(
            "{{{}}}",
            self.0.iter().map(|(k, v)| format!("{}:{}", k, v)).collect::<Vec<_>>().join(",")
        ))
    }
}
impl ser::SerializeStruct for StructS {
    type Ok = String;
    type Error = DErr;
    fn serialize_field<T: ?Sized + Serialize>(&mut self, k: &'static str, v: &T) -> Result<(), DErr> {
        self.0.push((k.to_string(), v.serialize(Ser)?));
        Ok(())
    }
    fn end(self) -> Result<String, DErr> {
        self.fin()
    }
}
impl ser::SerializeStructVariant for StructS {
    type Ok = String;
    type Error = DErr;
    fn serialize_field<T: ?Sized + Serialize>(&mut self, k: &'static str, v: &T) -> Result<(), DErr> {
        self.0.push((k.to_string(), v.serialize(Ser)?));
        Ok(())
    }
    fn end(self) -> Result<String, DErr> {
        self.fin()
    }
}
