//! Which cases each property is exercised with.
use crate::gen::*;

#[derive(Clone, Copy, PartialEq)]
pub enum Tier {
    Quick,
    Thorough,
}

fn scale(t: Tier, q: usize, th: usize) -> usize {
    if t == Tier::Quick {
        q
    } else {
        th
    }
}

const QWT_CFGS: [(usize, bool); 4] = [(256, false), (512, false), (256, true), (512, true)];

fn retarget(lines: &[String], from: usize, to: usize) -> Vec<String> {
    let pat = format!("q {} ", from);
    let rep = format!("q {} ", to);
    lines.iter().filter(|l| l.starts_with(&pat)).map(|l| l.replacen(&pat, &rep, 1)).collect()
}

/// `mk` lines that build, in slot `dst` (helper slot `dst + 1`), a *different* value of the same type as the one in
/// slot `s` (a shorter sequence) — the destination of a `clone_from`
fn shorter_twin(lines: &[String], s: usize, dst: usize, drop_one: bool) -> Option<Vec<String>> {
    let find_mk = |k: usize| lines.iter().rev().find(|l| l.starts_with(&format!("mk {} ", k))).cloned();
    let mk = find_mk(s)?;
    let t: Vec<&str> = mk.split(' ').filter(|x| !x.is_empty()).collect();
    if t.len() < 3 {
        return None;
    }
    let kindfull = t[2];
    let kind = kindfull.split(':').next().unwrap_or("");
    let variant = kindfull.split(':').nth(1).unwrap_or("");
    let args = &t[3..];
    let cut = |v: &[&str]| -> Vec<String> {
        let keep = if drop_one { v.len().saturating_sub(1) } else { v.len() - v.len() / 3 - if v.is_empty() { 0 } else { 1 } };
        v[..keep].iter().map(|x| x.to_string()).collect()
    };
    let bv_twin = |mkbv: &str, slot: usize| -> Option<String> {
        let t: Vec<&str> = mkbv.split(' ').filter(|x| !x.is_empty()).collect();
        if t.len() < 4 || !t[2].starts_with("bvbits") {
            return None;
        }
        let len: usize = t[3].parse().ok()?;
        let nl = if drop_one { len.saturating_sub(1) } else { len - len / 3 };
        let ps: Vec<&str> = t[4..].iter().copied().filter(|p| p.parse::<usize>().map(|x| x < nl).unwrap_or(false)).collect();
        Some(format!("mk {} {} {} {}", slot, t[2], nl, ps.join(" ")).trim_end().to_string())
    };
    match kind {
        "qwt" | "hqwt" | "wt" | "hwt" if variant != "rle" && variant != "default" => {
            Some(vec![format!("mk {} {} {}", dst, kindfull, cut(args).join(" ")).trim_end().to_string()])
        }
        "qv" => Some(vec![format!("mk {} {} {}", dst, kindfull, cut(args).join(" ")).trim_end().to_string()]),
        "rsq" if !args.is_empty() => Some(vec![format!("mk {} {} {} {}", dst, kindfull, args[0], cut(&args[1..]).join(" ")).trim_end().to_string()]),
        "bvbits" => bv_twin(&mk, dst).map(|l| vec![l]),
        "bvpos" if !args.is_empty() => Some(vec![format!("mk {} {} {}", dst, kindfull, cut(args).join(" ")).trim_end().to_string()]),
        "rsn" | "rsw" if args.len() == 1 => {
            let src = find_mk(args[0].parse().ok()?)?;
            Some(vec![bv_twin(&src, dst + 1)?, format!("mk {} {} {}", dst, kindfull, dst + 1)])
        }
        "da" if args.len() == 2 => {
            let src = find_mk(args[1].parse().ok()?)?;
            Some(vec![bv_twin(&src, dst + 1)?, format!("mk {} {} {} {}", dst, kindfull, args[0], dst + 1)])
        }
        _ => None,
    }
}

/// "every reachable state": in every `every`-th case the queried value is also cloned or sent through
/// bincode, and (a sample of) the same queries is repeated on the copy
fn reached_variants(r: &mut Rng, every: usize, out: &mut [Case]) {
    for (i, c) in out.iter_mut().enumerate() {
        if i % every != 0 {
            continue;
        }
        // the highest slot that is queried
        let mut slot = None;
        for l in &c.lines {
            if let Some(rest) = l.strip_prefix("q ") {
                if let Some(k) = rest.split(' ').next().and_then(|x| x.parse::<usize>().ok()) {
                    if k < 9 && slot.map_or(true, |s| k > s) {
                        slot = Some(k);
                    }
                }
            }
        }
        let Some(s) = slot else { continue };
        // the builder is not serialisable (and is a different type from what it builds)
        if c.lines.iter().any(|l| l.starts_with(&format!("mk {} qvb", s))) {
            continue;
        }
        let mut qs = retarget(&c.lines, s, 9);
        if qs.is_empty() {
            continue;
        }
        let keep = 80usize;
        if qs.len() > keep {
            let step = qs.len() / keep + 1;
            let off = r.below(step as u64) as usize;
            qs = qs.into_iter().skip(off).step_by(step).collect();
        }
        // a clone, a bincode round trip, or `clone_from` into an existing different value of the same type
        let how = r.below(4);
        if how == 3 {
            if let Some(twin) = shorter_twin(&c.lines, s, 9, r.chance(1, 2)) {
                c.lines.extend(twin);
                c.l(format!("cf 9 {}", s));
                c.l(format!("eq 9 {}", s));
                c.l("dump 9");
                c.tag("via=clone_from");
                c.lines.extend(qs);
                continue;
            }
        }
        let serde = how < 2;
        c.l(format!("mk 9 {} {}", if serde { "serde" } else { "copy" }, s));
        c.tag(if serde { "via=serde" } else { "via=clone" });
        c.lines.extend(qs);
    }
}

/// a sequence different from `v`. kinds 0..=2 change the multiset (one value, one element fewer, a trailing
/// zero more); kinds 3..=5 keep it and exchange two unequal elements: two that differ only in their lowest
/// bit (preferably near the end), two neighbours near the end, any two
fn different_seq(r: &mut Rng, v: &[u128], kind: u64) -> Option<Vec<u128>> {
    let mut o = v.to_vec();
    match kind {
        0 if !o.is_empty() => {
            let p = r.below(o.len() as u64) as usize;
            o[p] = if o[p] == 0 { 1 } else { o[p] - 1 };
        }
        1 if o.len() >= 2 => {
            o.pop();
        }
        0..=2 => o.push(0),
        _ => {
            let n = o.len();
            let lo = n.saturating_sub(if r.chance(2, 3) { 200 } else { n });
            let mut pair = None;
            if kind == 3 {
                for q in (lo..n).rev() {
                    if let Some(p) = (lo..q).rev().find(|&p| o[p] ^ 1 == o[q]) {
                        pair = Some((p, q));
                        break;
                    }
                }
            }
            if pair.is_none() && kind <= 4 {
                pair = (lo + 1..n).rev().find(|&q| o[q] != o[q - 1]).map(|q| (q - 1, q));
            }
            if pair.is_none() {
                for _ in 0..50 {
                    if n < 2 {
                        break;
                    }
                    let p = r.below(n as u64) as usize;
                    let q = r.below(n as u64) as usize;
                    if o[p] != o[q] {
                        pair = Some((p, q));
                        break;
                    }
                }
            }
            let (p, q) = pair?;
            o.swap(p, q);
        }
    }
    Some(o)
}

fn tree_family_cases(r: &mut Rng, t: Tier, fam: &str, ops: &[&str], extra: &[&str], n_cases: usize, out: &mut Vec<Case>) {
    let huff = fam == "hqwt" || fam == "hwt";
    for i in 0..n_cases {
        let cfg = if fam == "wt" || fam == "hwt" { (256, false) } else { QWT_CFGS[i % 4] };
        let ty = TYS[(i / 4 + i) % 6];
        let big = i % 9 == 8;
        let max_len = if big { scale(t, 70_000, 1_200_000) } else if i % 3 == 1 { scale(t, 24_000, 120_000) } else { scale(t, 6_000, 60_000) };
        let o = TreeOpts {
            fam,
            b: cfg.0,
            pfs: cfg.1,
            ty,
            path: ["", "from", "iter"][i % 3],
            max_len,
            ops,
            budget: if big { 120 } else { 400 },
            extra,
            max_card: if huff { 300 } else { 2000 },
            max_symbol: if huff { Some(if i % 3 == 0 { 200_000 } else { 4_000 }) } else { None },
        };
        out.push(tree_case(r, &o));
    }
}

/// Huffman frequency profiles that give deep / incomplete codes
fn huff_profile_cases(r: &mut Rng, t: Tier, fam: &str, ops: &[&str], extra: &[&str], out: &mut Vec<Case>) {
    let n_prof = scale(t, 14, 60);
    for i in 0..n_prof {
        let mut c = Case::new(fam);
        let cfg = if fam == "hwt" { (256, false) } else { QWT_CFGS[i % 4] };
        let ty = TYS[i % 6];
        let alph = match i % 7 {
            0 => 1,
            1 => 2,
            2 => *r.pick(&[4usize, 7, 10, 13]),
            3 => *r.pick(&[3usize, 5, 6, 8, 9, 11]),
            4 => r.range(14, 40) as usize,
            5 => r.range(2, 12) as usize,
            _ => r.range(40, 250) as usize,
        };
        // frequencies: fibonacci-like (deep), geometric, uniform, one dominant, caterpillar
        let mut freqs: Vec<usize> = vec![];
        // 5..=7: text-like profiles (Zipf, steep Zipf, a staircase of groups of 2^g symbols whose weights fall
        // by 4 per group): long codes whose deep part is *bushy*, i.e. long code words with ones in their
        // high bits — on the narrow element types too
        let style = if i % 5 == 4 { 4 } else if alph >= 14 && r.chance(2, 3) { 5 + r.below(3) } else { r.below(4) };
        let ty = if style >= 5 && r.chance(1, 2) { TYS[0] } else { ty };
        // caterpillar: a chain of internal nodes, D-1 leaves hanging at every level (deep codes)
        let alph = if style == 4 {
            if fam == "hwt" { r.range(12, scale(t, 22, 28) as u64) as usize } else { 4 + 3 * r.range(6, scale(t, 10, 13) as u64) as usize }
        } else {
            alph
        };
        let (mut a, mut b2) = (1usize, 1usize);
        for k in 0..alph {
            let f = match style {
                0 => {
                    let f = a;
                    let nx = a + b2;
                    a = b2;
                    b2 = nx.min(4000);
                    f
                }
                1 => 1usize << (k.min(11)),
                2 => r.range(1, 4) as usize,
                3 => {
                    if k == 0 {
                        2000
                    } else {
                        r.range(1, 3) as usize
                    }
                }
                5 => 6000 / (k + 1),
                6 => (20000.0 / ((k + 1) as f64).powf(1.5)) as usize,
                7 => {
                    let g = (k + 1).ilog2();
                    (1usize << 14) >> (2 * g).min(14)
                }
                _ => {
                    if fam == "hwt" {
                        // Fibonacci weights: binary code of depth alph - 1
                        let f = a;
                        let nx = a + b2;
                        a = b2;
                        b2 = nx;
                        f
                    } else if k < 4 {
                        1
                    } else {
                        3usize.pow(((k - 4) / 3 + 1) as u32)
                    }
                }
            };
            freqs.push(f.max(1));
        }
        let total: usize = freqs.iter().sum();
        let cap = if style == 4 { usize::MAX } else { scale(t, 30_000, 400_000) };
        if total > cap {
            let s = total / cap + 1;
            for f in freqs.iter_mut() {
                *f = (*f / s).max(1);
            }
        }
        let mut syms: Vec<u128> = vec![];
        while syms.len() < alph {
            let s = r.below(if ty.1 == 8 { 256 } else { 3000 }) as u128;
            if !syms.contains(&s) {
                syms.push(s);
            }
        }
        // every third profile on a wide element type: the most frequent symbol has a large
        // *value* (the code table is indexed by value; sort keys must not mix value and length)
        if ty.1 >= 32 && alph >= 2 && (i % 3 == 2 || r.chance(1, 2)) {
            let heavy = (0..alph).max_by_key(|&k| freqs[k]).unwrap();
            syms[heavy] = *r.pick(&[65_536u128, 200_000, 262_144, 300_000, 1 << 19, 1 << 20, (1 << 20) + 12345]);
        }
        let mut v: Vec<u128> = vec![];
        for (s, f) in syms.iter().zip(freqs.iter()) {
            for _ in 0..*f {
                v.push(*s);
            }
        }
        // shuffle
        for k in (1..v.len()).rev() {
            let j = r.below(k as u64 + 1) as usize;
            v.swap(k, j);
        }
        c.tag(format!("fam={}", fam));
        c.tag(format!("cfg={}{}", cfg.0, if cfg.1 { "pfs" } else { "" }));
        c.tag(format!("ty={}", ty.0));
        c.tag(format!("profile={}", style));
        c.tag(format!("alph={}", card_class(alph)));
        c.tag(format!("lenclass={}", len_class(v.len())));
        c.nontrivial = alph >= 2;
        c.l(format!("cfg {} {} {} * {}", cfg.0, cfg.1 as u8, ty.1, ty.0));
        c.l(format!("tie {}", r.next() | 1));
        c.l(format!("mk 0 {} {}", fam, join(&v)));
        c.l("lenschk 0");
        for e in extra {
            c.l(e.to_string());
        }
        tree_queries(r, &mut c, &v, ty.1, 300, ops, true);
        // a second tree in the same case over the *same multiset of counts attached to other symbols* (most and
        // least frequent symbol exchanged): same n, same symbol set, same frequency profile, different text —
        // whatever the first construction left behind (caches, scratch state) must not leak into the second
        if alph >= 2 && v.len() <= 120_000 {
            let hi = (0..alph).max_by_key(|&k| freqs[k]).unwrap();
            let lo = (0..alph).min_by_key(|&k| freqs[k]).unwrap();
            if freqs[hi] != freqs[lo] {
                let (a, b) = (syms[hi], syms[lo]);
                let v2: Vec<u128> = v.iter().map(|&x| if x == a { b } else if x == b { a } else { x }).collect();
                c.l(format!("tie {}", r.next() | 1));
                c.l(format!("mk 1 {} {}", fam, join(&v2)));
                c.l("lenschk 1");
                for e in extra {
                    c.l(e.replace(" 0", " 1"));
                }
                let mut c2 = Case::new(fam);
                tree_queries(r, &mut c2, &v2, ty.1, 60, ops, true);
                c.lines.extend(retarget(&c2.lines, 0, 1));
                c.tag("second=permuted");
            }
        }
        out.push(c);
    }
}

/// the queries of an `RSQVector` case over the sequence `v`
fn rsq_queries(r: &mut Rng, c: &mut Case, v: &[u128], ops: &[&str], big: bool) {
    let n = v.len();
    let cnt = |s: u128| v.iter().filter(|&&x| x == s).count();
    let mut poss: Vec<usize> = vec![0, 1, n.saturating_sub(1), n, n + 1, usize::MAX];
    poss.extend(huge_args(n));
    if n <= 600 {
        poss.extend((0..=n + 1).step_by(if n <= 70 { 1 } else { 7 }));
    }
    for bb in [128usize, 256, 512, 2048, 4096] {
        for _ in 0..2 {
            let k = r.range(0, (n / bb) as u64) as usize * bb;
            for d in [-1i64, 0, 1] {
                let p = k as i64 + d;
                if p >= 0 && (p as usize) <= n + 1 {
                    poss.push(p as usize);
                }
            }
        }
    }
    for _ in 0..(if big { 10 } else { 40 }) {
        poss.push(r.below(n as u64 + 1) as usize);
    }
    poss.sort();
    poss.dedup();
    for &op in ops {
        match op {
            "get" => {
                for &p in &poss {
                    c.l(format!("q 0 get {}", p));
                }
            }
            "get_unchecked" => {
                for &p in poss.iter().filter(|&&p| p < n) {
                    c.l(format!("q 0 get_unchecked {}", p));
                }
            }
            "rank" => {
                for &p in &poss {
                    for s in 0..4 {
                        c.l(format!("q 0 rank {} {}", s, p));
                    }
                }
                for s in [4, 5, 7, 128, 255] {
                    c.l(format!("q 0 rank {} {}", s, r.below(n as u64 + 1)));
                }
            }
            "rank_unchecked" => {
                for &p in poss.iter().filter(|&&p| p <= n) {
                    c.l(format!("q 0 rank_unchecked {} {}", r.below(4), p));
                }
            }
            "select" | "select_unchecked" => {
                for s in 0..4u128 {
                    let k = cnt(s);
                    let mut ks = vec![0, 1, k.saturating_sub(1), k, k + 1, usize::MAX, k / 2, 1 << 63, (1 << 63) + k / 2, usize::MAX - k, (1 << 32) + 1];
                    for m in [8192usize, 16384, 24576] {
                        if k >= m {
                            ks.extend([m - 2, m - 1, m]);
                            if k > m {
                                ks.push(m + 1);
                            }
                        }
                    }
                    ks.extend(gap_ks(&v, s));
                    if k > 0 {
                        for _ in 0..(if big { 12 } else { 30 }) {
                            ks.push(r.below(k as u64) as usize);
                        }
                    }
                    ks.sort();
                    ks.dedup();
                    for kk in ks {
                        if op == "select_unchecked" && kk >= k {
                            continue;
                        }
                        c.l(format!("q 0 {} {} {}", op, s, kk));
                    }
                }
                if op == "select" {
                    for s in [4, 200, 255] {
                        c.l(format!("q 0 select {} 0", s));
                    }
                }
            }
            "occs" | "occs_smaller" => {
                for s in [0, 1, 2, 3, 4, 5, 255] {
                    c.l(format!("q 0 {} {}", op, s));
                }
            }
            "occs_unchecked" | "occs_smaller_unchecked" => {
                for s in 0..4 {
                    c.l(format!("q 0 {} {}", op, s));
                }
            }
            "fwdhist" | "fwdhist_into" => {
                for _ in 0..3 {
                    let hl = r.range(1, 40) as usize;
                    c.l(format!("q 0 {} {}", op, iter_history(r, hl, false)));
                }
            }
            _ => c.l(format!("q 0 {}", op)),
        }
    }
}

fn rsq_cases(r: &mut Rng, t: Tier, ops: &[&str], extra: &[&str], n_cases: usize, out: &mut Vec<Case>) {
    for i in 0..n_cases {
        let b = if i % 2 == 0 { 256 } else { 512 };
        let mut c = Case::new("rsq");
        let big = i % 6 == 5;
        let n = if r.chance(1, 25) { 0 } else { some_len(r, if big { scale(t, 150_000, 3_000_000) } else { scale(t, 9_000, 100_000) }) };
        let shape = r.below(9);
        let alpha: Vec<u128> = match r.below(4) {
            0 => vec![r.below(4) as u128],
            1 => vec![0, 3],
            2 => vec![2, 1, 0],
            _ => vec![0, 1, 2, 3],
        };
        let v = if n == 0 { vec![] } else { shaped_seq(r, n, &alpha, shape) };
        c.tag(format!("B={}", b));
        c.tag(format!("shape={}", shape));
        c.tag(format!("lenclass={}", len_class(n)));
        c.tag(format!("alph={}", alpha.len()));
        c.nontrivial = n > b && alpha.len() >= 2;
        c.l("cfg 256 0 8 * u8");
        let variant = ["", ":new", ":fromqv"][i % 3];
        c.l(format!("mk 0 rsq{} {} {}", variant, b, join(&v)));
        for e in extra {
            c.l(e.to_string());
        }
        rsq_queries(r, &mut c, &v, ops, big);
        out.push(c);
    }
}

/// the public prefetch entry points with arbitrary positions (in range, past the end, huge)
fn prefetch_api_cases(r: &mut Rng, n_cases: usize, out: &mut Vec<Case>) {
    for i in 0..n_cases {
        let mut c = Case::new("prefetch-api");
        let n = match i % 5 {
            0 => 0,
            1 => r.range(1, 300) as usize,
            _ => some_len(r, 20_000),
        };
        c.tag(format!("lenclass={}", len_class(n)));
        c.tag("prefetch-api");
        c.nontrivial = n >= 2;
        c.l("cfg 256 0 8 * u8");
        let alpha: Vec<u128> = vec![0, 1, 2, 3];
        let shape = r.below(9);
        let v = if n == 0 { vec![] } else { shaped_seq(r, n, &alpha, shape) };
        let ones: Vec<usize> = (0..n).filter(|_| r.chance(1, 3)).collect();
        c.l(format!("mk 0 rsq 256 {}", join(&v)));
        c.l(format!("mk 1 rsq 512 {}", join(&v)));
        c.l(format!("mk 2 bvbits {} {}", n, join(&ones)));
        c.l("mk 3 rsw 2");
        c.l(if i % 2 == 0 { "mk 4 rsqdefault 256" } else { "mk 4 rsqdefault 512" });
        c.l("mk 5 rswdefault");
        let mut poss: Vec<usize> = vec![0, 1, 255, 256, 257, 511, 512, 513, 2047, 2048, 4095, 4096, n.saturating_sub(1), n, n + 1, 2 * n + 7,
                                        1 << 32, 1 << 43, 1 << 63, usize::MAX - 511, usize::MAX - 1, usize::MAX];
        for _ in 0..6 {
            poss.push(r.below(n as u64 + 2) as usize);
            poss.push(r.next() as usize);
        }
        for &p in &poss {
            for k in [0, 1, 4] {
                c.l(format!("q {} prefetch_info {}", k, p));
                c.l(format!("q {} prefetch_data {}", k, p));
            }
            for k in [3, 5] {
                c.l(format!("q {} prefetch_info {}", k, p));
                c.l(format!("q {} prefetch_data {}", k, p));
            }
            c.l(format!("q 2 prefetch_line {}", p));
            c.l(format!("u prefetch_nta {} {}", [0usize, 1, 8, 100][i % 4], p));
        }
        // the structures still answer afterwards
        c.l(format!("q 0 rank 1 {}", n));
        c.l(format!("q 3 rank1 {}", n));
        out.push(c);
    }
}

fn rsbin_cases(r: &mut Rng, t: Tier, kinds: &[&str], ops: &[&str], extra: &[&str], n_cases: usize, out: &mut Vec<Case>) {
    for i in 0..n_cases {
        let kind = kinds[i % kinds.len()];
        let big = i % 7 == 6;
        let (mut c, n, ones) = bits_case(r, kind, if big { scale(t, 300_000, 4_000_000) } else { scale(t, 20_000, 200_000) });
        c.l(format!("mk 1 {} 0", kind));
        for e in extra {
            c.l(e.to_string());
        }
        bits_queries(r, &mut c, 1, n, &ones, ops, if big { 40 } else { 160 });
        // the same structure over a bit vector *collected from positions* given out of order and with
        // repetitions (`Extend<usize>` sets bits one by one; the cached number of ones must not count a
        // repeated position twice). Own generator state: the rest of the case is unchanged by this addition.
        if (kind == "rsn" || kind == "rsw") && i % 3 == 0 {
            let mut r2 = Rng::new(0x5EED_0001 ^ ((i as u64) << 20) ^ n as u64);
            let span = r2.range(1, 3000) as usize;
            let k = r2.range(1, 40) as usize;
            let mut ps: Vec<usize> = (0..k).map(|_| r2.below(span as u64) as usize).collect();
            for _ in 0..r2.range(1, 6) {
                let d = *r2.pick(&ps);
                let at = r2.below(ps.len() as u64 + 1) as usize;
                ps.insert(at, d);
            }
            let len = ps.iter().max().map(|x| x + 1).unwrap_or(0);
            let mut distinct = ps.clone();
            distinct.sort();
            distinct.dedup();
            // (slots above 9: the clone / serde / clone_from variants keep looking at the main structure)
            c.l(format!("mk 12 bvpos {}", join(&ps)));
            c.l(format!("mk 13 {} 12", kind));
            c.l("dump 13");
            bits_queries(&mut r2, &mut c, 13, len, &distinct, &["n_ones", "n_zeros", "rank1", "select1", "select0"], 24);
        }
        out.push(c);
    }
}

/// DArray: plans of groups of 1024 ones that are dense / sparse / exactly at the threshold
fn darray_cases(r: &mut Rng, t: Tier, extra: &[&str], n_cases: usize, out: &mut Vec<Case>) {
    for i in 0..n_cases {
        let mut c = Case::new("da");
        let s0 = i % 2 == 1;
        let mut ps: Vec<usize> = vec![];
        let mut pos = r.below(100) as usize;
        let plan_len = r.range(1, scale(t, 4, 7) as u64) as usize;
        let mut plan = String::new();
        if i % 11 == 10 {
            // random small vector instead of a plan
            let n = some_len(r, 5000);
            let sh = r.below(7); ps = shaped_bits(r, n, sh);
            plan.push_str("random");
        } else {
            for g in 0..plan_len {
                let last = g + 1 == plan_len;
                let cnt = if last && r.chance(1, 2) {
                    if r.chance(1, 2) { *r.pick(&[1usize, 2, 31, 32, 33, 64, 65, 97, 993, 1023]) } else { r.range(1, 1023) as usize }
                } else {
                    1024
                };
                let mut kind = if plan.ends_with('c') { 1 } else { r.below(5) };
                let mut cnt = cnt;
                if last && kind != 1 && r.chance(1, 3) {
                    // partial last group whose last element starts a sub-block (length = 1 mod 32)
                    // and whose span sits exactly on the dense/sparse threshold
                    kind = 2;
                    cnt = 32 * (r.range(1, 31) as usize) + 1;
                }
                match kind {
                    0 => {
                        // dense: consecutive or small gaps
                        plan.push('d');
                        let gap = r.range(1, 40) as usize;
                        for _ in 0..cnt {
                            ps.push(pos);
                            pos += r.range(1, gap as u64) as usize;
                        }
                    }
                    1 => {
                        plan.push('s');
                        let gap = r.range(65, 130) as usize;
                        for _ in 0..cnt {
                            ps.push(pos);
                            pos += gap;
                        }
                    }
                    2 => {
                        // span exactly 65536 (sparse) or 65535 (dense)
                        let exact = if r.chance(1, 2) { 65536 } else { 65535 };
                        plan.push(if exact == 65536 { 'T' } else { 't' });
                        let start = pos;
                        for k in 0..cnt {
                            if k + 1 == cnt && cnt >= 2 {
                                ps.push(start + exact);
                            } else {
                                ps.push(start + k);
                            }
                        }
                        pos = start + exact + 1;
                    }
                    4 if cnt >= 200 => {
                        // dense group whose tail is a tight cluster ending exactly at the largest
                        // 16-bit offset (sub-block offsets next to u16::MAX); a sparse group follows
                        plan.push('c');
                        let span = *r.pick(&[65535usize, 65535, 65534, 65500]);
                        let tail = r.range(33, 90) as usize;
                        let start = pos;
                        let mut head: Vec<usize> = vec![];
                        let mut q = start;
                        for _ in 0..cnt - tail {
                            head.push(q);
                            q += r.range(1, 3) as usize;
                        }
                        let mut tl: Vec<usize> = vec![];
                        let mut e = start + span;
                        for _ in 0..tail {
                            tl.push(e);
                            e -= if r.chance(1, 24) { 2 } else { 1 };
                        }
                        tl.reverse();
                        ps.extend(head);
                        ps.extend(tl);
                        pos = start + span + 1;
                    }
                    _ => {
                        // mixed: dense cluster then one far away
                        plan.push('m');
                        for k in 0..cnt {
                            ps.push(pos);
                            pos += if k % 200 == 199 { r.range(100, 30000) as usize } else { 1 };
                        }
                    }
                }
                pos += r.range(1, 50) as usize;
            }
        }
        let n = ps.last().map(|x| x + 1).unwrap_or(0) + (r.below(3) as usize) * (r.below(200) as usize);
        c.tag(format!("plan={}", plan));
        c.tag(format!("s0={}", s0 as u8));
        c.nontrivial = ps.len() > 1024;
        c.l("cfg 256 0 8 * u8");
        let zero_plan = s0 && i % 4 == 3;
        if zero_plan {
            // the plan describes the ZERO positions: select0 sees the planned groups
            c.tag("zero_plan".to_string());
            c.l(format!("mk 0 bvzpos {} {}", n.max(ps.last().map(|x| x + 1).unwrap_or(0)), join(&ps)));
        } else if i % 3 == 0 {
            c.l(format!("mk 0 bvpos {}", join(&ps)));
        } else {
            c.l(format!("mk 0 bvbits {} {}", n.max(ps.last().map(|x| x + 1).unwrap_or(0)), join(&ps)));
        }
        let nn = if i % 3 == 0 && !zero_plan { ps.last().map(|x| x + 1).unwrap_or(0) } else { n.max(ps.last().map(|x| x + 1).unwrap_or(0)) };
        c.l(format!("mk 1 da {} 0", s0 as u8));
        for e in extra {
            c.l(e.to_string());
        }
        for op in ["len", "count_ones", "count_zeros"] {
            c.l(format!("q 1 {}", op));
        }
        let (n1, n0) = if zero_plan { (nn - ps.len(), ps.len()) } else { (ps.len(), nn - ps.len()) };
        let mut sel_ks = |r: &mut Rng, cnt: usize, planned: bool| -> Vec<usize> {
            let mut ks: Vec<usize> = vec![0, 1, cnt.saturating_sub(1), cnt, cnt + 1, usize::MAX, 1 << 63, (1 << 63) + cnt / 2, usize::MAX - cnt, (1 << 32) + 1];
            for g in 0..=(cnt / 1024).min(if planned { usize::MAX } else { 80 }) {
                for d in [0usize, 1, 31, 32, 33, 1023] {
                    ks.push(g * 1024 + d);
                }
            }
            for _ in 0..60 {
                ks.push(r.below(cnt as u64 + 1) as usize);
            }
            if planned {
                // every sub-block start of the last (possibly partial) group
                let lg = (cnt.saturating_sub(1) / 1024) * 1024;
                for k in (lg..cnt).step_by(32) {
                    ks.push(k);
                }
            }
            ks.sort();
            ks.dedup();
            ks
        };
        for k in sel_ks(r, n1, !zero_plan) {
            c.l(format!("q 1 select1 {}", k));
        }
        if s0 {
            for k in sel_ks(r, n0, zero_plan) {
                c.l(format!("q 1 select0 {}", k));
            }
        }
        for p in [0, 1, nn / 2, nn.saturating_sub(1), nn, nn + 1] {
            c.l(format!("q 1 get {}", p));
        }
        if nn <= 20_000 {
            c.l("q 1 ones");
            if nn <= 5000 {
                c.l("q 1 zeros");
                c.l("q 1 iter");
            }
        }
        out.push(c);
    }
}

/// BitVectorMut operation histories
fn bvm_history_cases(r: &mut Rng, t: Tier, n_cases: usize, out: &mut Vec<Case>) {
    for i in 0..n_cases {
        let mut c = Case::new("bvm");
        c.l("cfg 256 0 8 * u8");
        let mut len: usize = 0;
        match i % 4 {
            0 => c.l("mk 0 bvnew"),
            1 => {
                len = *r.pick(&[0usize, 1, 63, 64, 65, 511, 512, 513, 700]);
                c.l(format!("mk 0 bvzeros {}", len));
            }
            2 => {
                len = r.range(0, 700) as usize;
                let sh = r.below(7); let ones = shaped_bits(r, len.max(1), sh).into_iter().filter(|&p| p < len).collect::<Vec<_>>();
                c.l(format!("mk 0 bvbits:mut {} {}", len, join(&ones)));
            }
            _ => {
                // positions in any order, with repetitions in half of the cases (Extend<usize> sets bits one by one)
                let mut ps: Vec<usize> = (0..r.below(30)).map(|_| r.below(1200) as usize).collect();
                if r.chance(1, 2) {
                    ps.sort();
                    ps.dedup();
                } else if !ps.is_empty() {
                    for _ in 0..r.range(1, 6) {
                        let d = *r.pick(&ps);
                        let at = r.below(ps.len() as u64 + 1) as usize;
                        ps.insert(at, d);
                    }
                    c.tag("positions=repeated");
                }
                len = ps.iter().max().map(|x| x + 1).unwrap_or(0);
                c.l(format!("mk 0 bvpos:mut {}", join(&ps)));
            }
        }
        let steps = r.range(5, scale(t, 60, 400) as u64);
        let mut nt = 0;
        for _ in 0..steps {
            match r.below(13) {
                0 | 1 => {
                    c.l(format!("op 0 push {}", r.below(2)));
                    len += 1;
                }
                // zero-length operations at the start, inside and exactly at the end (accepted no-ops)
                12 => {
                    let at = *r.pick(&[0usize, len / 2, len.saturating_sub(1), len, len]);
                    c.l(format!("op 0 set_bits {} 0 0", at));
                    if r.chance(1, 2) {
                        c.l("op 0 append_bits 0 0");
                        c.l("op 0 extend_with_zeros 0");
                        c.l("op 0 extend_bools");
                        c.l("op 0 extend_pos");
                    }
                    c.l(format!("q 0 get_bits {} 0", at));
                }
                2 | 3 => {
                    let l = r.range(0, 64) as usize;
                    let bits = if l == 64 { r.next() } else { r.next() & ((1u64 << l) - 1) };
                    c.l(format!("op 0 append_bits {} {}", bits, l));
                    len += l;
                }
                4 => {
                    let z = *r.pick(&[0usize, 1, 5, 63, 64, 65, 300, 512, 513]);
                    c.l(format!("op 0 extend_with_zeros {}", z));
                    len += z;
                }
                5 | 6 if len > 0 => {
                    c.l(format!("op 0 set {} {}", r.below(len as u64), r.below(2)));
                    nt += 1;
                }
                7 | 8 if len > 0 => {
                    let l = r.range(1, 64.min(len) as u64) as usize;
                    let idx = r.below((len - l) as u64 + 1) as usize;
                    let bits = if l == 64 { r.next() } else { r.next() & ((1u64 << l) - 1) };
                    c.l(format!("op 0 set_bits {} {} {}", idx, l, bits));
                    nt += 1;
                }
                9 => {
                    let k = r.range(0, 40) as usize;
                    let bs: Vec<u64> = (0..k).map(|_| r.below(2)).collect();
                    if r.chance(1, 3) {
                        // non-fused source: None after kk items
                        let kk = r.below(k as u64 + 1) as usize;
                        c.l(format!("op 0 extend_bools_nf {} {}", kk, join(&bs)).trim_end().to_string());
                        len += kk;
                    } else {
                        c.l(format!("op 0 extend_bools {}", join(&bs)));
                        len += k;
                    }
                }
                10 => {
                    let k = r.range(0, 6) as usize;
                    let mut ps: Vec<usize> = (0..k).map(|_| r.below(len as u64 + 200) as usize).collect();
                    // repeat a position of the list / hit positions inside the vector (bits that may already be set)
                    if !ps.is_empty() && r.chance(1, 2) {
                        let d = *r.pick(&ps);
                        ps.push(d);
                        if len > 0 {
                            ps.push(r.below(len as u64) as usize);
                            ps.push(len - 1);
                        }
                    }
                    for &p in &ps {
                        if p >= len {
                            len = p + 1;
                        }
                    }
                    c.l(format!("op 0 extend_pos {}", join(&ps)));
                }
                _ => c.l("op 0 roundtrip"),
            }
            if r.chance(1, 6) {
                c.l("q 0 count_ones");
                c.l("q 0 len");
            }
        }
        c.nontrivial = nt > 0 && len > 64;
        c.tag(format!("lenclass={}", len_class(len)));
        c.tag(format!("init={}", i % 4));
        // observers on the mutable vector, then on the frozen copy
        c.l("mk 1 copy:freeze 0");
        for slot in [0usize, 1] {
            for op in ["len", "count_ones", "count_zeros", "iter", "ones", "zeros", "dump"] {
                if op == "dump" {
                    c.l(format!("dump {}", slot));
                } else {
                    c.l(format!("q {} {}", slot, op));
                }
            }
            for p in huge_args(len) {
                c.l(format!("q {} get {}", slot, p));
            }
            for p in [0, 1, len / 2, len.saturating_sub(1), len, len + 1, 63, 64, 65, 511, 512, 513, usize::MAX] {
                c.l(format!("q {} get {}", slot, p));
                c.l(format!("q {} ones_with_pos {}", slot, p.min(1 << 40)));
                c.l(format!("q {} zeros_with_pos {}", slot, p.min(1 << 40)));
            }
            // get_bits: every length at a few starts, every start at a few lengths
            let starts: Vec<usize> = if len <= 140 { (0..=len).collect() } else { (0..40).map(|_| r.below(len as u64 + 1) as usize).chain([0, len - 64, len - 1, len, 448, 449, 512 - 64].into_iter().filter(|&x| x <= len)).collect() };
            for &s in &starts {
                for l in [1usize, 2, 63, 64, (r.range(1, 64)) as usize, len.saturating_sub(s).min(64).max(1)] {
                    c.l(format!("q {} get_bits {} {}", slot, s, l));
                }
            }
            for (s, l) in [(0usize, 0usize), (0, 65), (len, 1), (len + 1, 1), (usize::MAX, 1), (usize::MAX, 64), (len.saturating_sub(1), 2),
                           (1usize << 63, 1), ((1usize << 63) + len / 2, 1), (usize::MAX - 63, 64), (usize::MAX - 64, 64), (usize::MAX - len, 1), (0, usize::MAX), (1, usize::MAX), (len / 2, usize::MAX - 1)] {
                c.l(format!("q {} get_bits {} {}", slot, s, l));
            }
            let nwords = 8 * ((len + 511) / 512);
            for w in 0..nwords.min(20) {
                c.l(format!("q {} get_word {}", slot, w));
            }
            if nwords > 0 {
                c.l(format!("q {} get_word {}", slot, nwords - 1));
            }
        }
        c.l("eq 0 0");
        c.l("mk 2 copy:thaw 1");
        c.l("eq 0 2");
        // position iterators driven through histories (nth / count / last / min / max / fold / for_each / …)
        for slot in [0usize, 1] {
            for p in [0usize, len / 2, len.saturating_sub(r.range(1, 70) as usize), len.saturating_sub(1)] {
                let hl = r.range(0, 12) as usize;
                c.l(format!("q {} ones_hist {} {}", slot, p, iter_history(r, hl, false)));
                let hl = r.range(0, 12) as usize;
                c.l(format!("q {} zeros_hist {} {}", slot, p, iter_history(r, hl, false)));
            }
        }
        // `clone_from` into existing vectors: one bit shorter (mostly the same number of lines), the first bit
        // of the last line, longer, empty — the destination must become indistinguishable from the source
        for (slot, dl) in [(5usize, len.saturating_sub(1)), (6, (len / 512) * 512 + 1), (7, len + 700), (8, 0)] {
            let ones: Vec<usize> = (0..dl).filter(|_| r.chance(1, 3)).collect();
            c.l(format!("mk {} bvbits:mut {} {}", slot, dl, join(&ones)).trim_end().to_string());
            c.l(format!("cf {} 0", slot));
            c.l(format!("eq {} 0", slot));
            for q in ["len", "count_ones", "count_zeros", "zeros", "iter"] {
                c.l(format!("q {} {}", slot, q));
            }
            c.l(format!("q {} get {}", slot, len.saturating_sub(1)));
            c.l(format!("q {} get {}", slot, len));
            c.l(format!("op {} push 1", slot));
            c.l(format!("q {} len", slot));
            c.l(format!("q {} count_ones", slot));
            c.l(format!("dump {}", slot));
        }
        c.l(format!("mk 10 bvbits {} {}", len.saturating_sub(1), join(&(0..len.saturating_sub(1)).filter(|_| r.chance(1, 2)).collect::<Vec<_>>())).trim_end().to_string());
        c.l("cf 10 1");
        c.l("eq 10 1");
        c.l("q 10 len");
        c.l("q 10 count_zeros");
        c.l("dump 10");
        // the bit iterators (borrowing and consuming) through call histories (own generator state)
        {
            let mut r2 = Rng::new(0x5EED_0002 ^ ((i as u64) << 20) ^ len as u64);
            for slot in [0usize, 1] {
                for _ in 0..3 {
                    let hl = r2.range(1, 14) as usize;
                    c.l(format!("q {} fwdhist {}", slot, iter_history(&mut r2, hl, false)));
                    let hl = r2.range(1, 14) as usize;
                    c.l(format!("q {} fwdhist_into {}", slot, iter_history(&mut r2, hl, false)));
                }
            }
        }
        out.push(c);
    }
}

/// a history over the iterator-call letters (see `iterhist` / `fwdhist` in interp.rs): `n` next, `b` next_back,
/// `l` len, `t..z` nth(1,2,5,64,255,256,1000), capitals nth_back, `c` count, `a` last
/// short double-ended histories made of small steps from both ends (nth / nth_back of 1, 2, 5 mixed with
/// single steps and the observers), for sequences of a few dozen elements
pub fn meeting_history(r: &mut Rng, hl: usize) -> String {
    let style = r.below(3);
    let term = if r.chance(1, 3) { Some(*r.pick(&['#', '$', '%', '^', 'm', 'M', 'e', 'r'])) } else { None };
    let core: String = (0..hl)
        .map(|j| {
            let back_phase = style == 1 && j < hl / 2 || style == 2 && j % 2 == 0;
            match r.below(20) {
                0 => 'l',
                1 => 'h',
                2 if j > hl / 2 => 'c',
                3 if j > hl / 2 => 'a',
                4..=8 => {
                    if back_phase {
                        'b'
                    } else {
                        'n'
                    }
                }
                9..=11 => {
                    if back_phase {
                        'n'
                    } else {
                        'b'
                    }
                }
                12..=15 => {
                    let c = *r.pick(&['t', 'u', 'v', 'v']);
                    if back_phase {
                        c.to_ascii_uppercase()
                    } else {
                        c
                    }
                }
                _ => {
                    let c = *r.pick(&['t', 'u', 'v', 'w']);
                    if back_phase {
                        c
                    } else {
                        c.to_ascii_uppercase()
                    }
                }
            }
        })
        .collect();
    match term {
        Some(t) => format!("{}{}", core, t),
        None => core,
    }
}

pub fn iter_history(r: &mut Rng, hl: usize, double_ended: bool) -> String {
    let mut h = iter_history_core(r, hl, double_ended);
    // every third history ends in a call that consumes the iterator itself: count / last / fold / rev().fold
    if r.chance(1, 3) {
        h.push(*r.pick(if double_ended { &['#', '$', '%', '^', 'm', 'M', 'e', 'r'][..] } else { &['#', '$', '%', 'm', 'M', 'e', 'r'][..] }));
    }
    h
}

fn iter_history_core(r: &mut Rng, hl: usize, double_ended: bool) -> String {
    let small = ['t', 'u', 'v'];
    let large = ['w', 'x', 'y', 'z', 'w', 'x', 'y', 'z', 'o', 'p', 'q'];
    let style = r.below(4);
    (0..hl)
        .map(|_| {
            let roll = r.below(100);
            let nth = |r: &mut Rng| if style == 3 || r.chance(1, 4) { *r.pick(&large) } else { *r.pick(&small) };
            match roll {
                0..=39 => 'n',
                40..=59 if double_ended => 'b',
                60..=67 if double_ended => 'l',
                68..=77 if double_ended => nth(r).to_ascii_uppercase(),
                78..=79 => 'c',
                80..=81 => 'a',
                82..=86 => 'h',
                87..=99 => nth(r),
                _ => 'n',
            }
        })
        .collect()
}

fn qv_history_cases(r: &mut Rng, t: Tier, n_cases: usize, out: &mut Vec<Case>) {
    let tys = ["i8", "i16", "i32", "i64", "i128", "isize", "u8", "u16", "u32", "u64", "u128", "usize"];
    for i in 0..n_cases {
        let ty = tys[i % 12];
        let signed = ty.starts_with('i');
        let bits: u32 = match ty {
            "i8" | "u8" => 8,
            "i16" | "u16" => 16,
            "i32" | "u32" => 32,
            "i128" | "u128" => 128,
            _ => 64,
        };
        let mut c = Case::new("qv");
        c.l("cfg 256 0 8 * u8");
        let val = |r: &mut Rng| -> i128 {
            let m: i128 = if bits == 128 { i128::MAX } else { (1i128 << (bits - signed as u32)) - 1 };
            match r.below(6) {
                0 => r.below(4) as i128,
                1 => m - r.below(4) as i128,
                2 if signed => -(r.below(200) as i128) - 1,
                3 if signed => -m - 1 + r.below(4) as i128,
                4 => (r.next() as i128) & m,
                _ => r.below(300) as i128,
            }
        };
        let n = match i % 5 {
            0 => *r.pick(&[0usize, 1, 127, 128, 129, 255, 256, 257, 511, 512, 513]),
            _ => some_len(r, scale(t, 3000, 40000)),
        };
        let vals: Vec<i128> = (0..n).map(|_| val(r)).collect();
        c.tag(format!("ty={}", ty));
        c.tag(format!("lenclass={}", len_class(n)));
        c.nontrivial = n >= 2;
        if i % 2 == 0 {
            c.l(format!("mk 0 qv:{} {}", ty, join(&vals)));
        } else {
            // builder history: pushes and extends interleaved
            c.l("mk 0 qvb");
            let mut k = 0;
            while k < n {
                if r.chance(1, 2) {
                    c.l(format!("op 0 push {}", vals[k] as i8 as i128 & 0xFF));
                    k += 1;
                } else {
                    let m = (r.range(1, 300) as usize).min(n - k);
                    c.l(format!("op 0 extend {} {}", ty, join(&vals[k..k + m])));
                    k += m;
                }
            }
        }
        for op in ["len", "is_empty", "iter"] {
            c.l(format!("q 0 {}", op));
        }
        if i % 2 == 0 {
            c.l("q 0 into_iter");
        }
        for _ in 0..3 {
            let hl = r.range(1, 40) as usize;
            c.l(format!("q 0 fwdhist {}", iter_history(r, hl, false)));
            if i % 2 == 0 {
                c.l(format!("q 0 fwdhist_into {}", iter_history(r, hl, false)));
            }
        }
        c.l("dump 0");
        let mut poss: Vec<usize> = vec![0, 1, n / 2, n.saturating_sub(1), n, n + 1, 127, 128, 129, 255, 256, 257, usize::MAX];
        poss.extend(huge_args(n));
        for _ in 0..40 {
            poss.push(r.below(n as u64 + 2) as usize);
        }
        for p in poss {
            c.l(format!("q 0 get {}", p));
        }
        out.push(c);
    }
}

/// the `_with_codes` partitions called directly: random prefix-code tables (not necessarily prefix-free: the
/// partition only reads `content`/`len`), every shift `1..=max len + 1`, all element widths
fn partc_cases(r: &mut Rng, t: Tier, degrees: &[u64], out: &mut Vec<Case>) {
    for &d in degrees {
        let mut c = Case::new("utils");
        c.l("cfg 256 0 8 * u8");
        c.tag(format!("partition_with_codes:{}", d));
        c.nontrivial = true;
        for i in 0..scale(t, 40, 300) {
            let bits = [8u32, 16, 32, 64, 128][i % 5];
            let nc = r.range(1, if bits == 8 { 40 } else { 70 }) as usize;
            let step = if d == 4 { 2 } else { 1 };
            let maxl = *r.pick(&[2u64, 4, 8, 16, 30, 32]);
            let codes: Vec<(u64, u64)> = (0..nc)
                .map(|_| {
                    let len = if r.chance(1, 8) { 0 } else { (r.range(1, maxl / step) * step).min(32) };
                    let content = if len == 0 { 0 } else if len >= 32 { r.next() & 0xFFFF_FFFF } else { r.next() & ((1u64 << len) - 1) };
                    (content, len)
                })
                .collect();
            let n = r.range(0, 60) as usize;
            let vals: Vec<u128> = (0..n).map(|_| r.below(nc as u64) as u128).collect();
            let flat: Vec<u64> = codes.iter().flat_map(|x| [x.0, x.1]).collect();
            let mut shift = step;
            while shift <= maxl + step {
                c.l(format!("u part{}c {} {} {} {} {}", d, bits, shift, nc, join(&flat), join(&vals)));
                shift += step * r.range(1, 3);
            }
        }
        out.push(c);
    }
}

/// `BitVectorBitPositionsIter::{new, with_pos}` over caller-supplied words (public constructors)
fn posraw_cases(r: &mut Rng, t: Tier, out: &mut Vec<Case>) {
    let mut c = Case::new("posraw");
    c.l("cfg 256 0 8 * u8");
    c.tag("positions_iter:raw");
    c.nontrivial = true;
    for i in 0..scale(t, 120, 900) {
        let nw = r.range(0, 6) as usize;
        let ws: Vec<u64> = (0..nw)
            .map(|_| match r.below(6) {
                0 => 0,
                1 => u64::MAX,
                2 => 1u64 << 63,
                3 => r.next() & r.next() & r.next(),
                4 => r.next() | r.next(),
                _ => r.next(),
            })
            .collect();
        let cap = 64 * nw;
        let nb = match i % 5 {
            0 => cap,
            1 => cap.saturating_sub(r.below(64) as usize),
            2 => r.below(cap as u64 + 1) as usize,
            3 => cap.saturating_sub(1),
            _ => (cap / 64).saturating_sub(1) * 64 + 1,
        }
        .min(cap);
        let bit = r.below(2);
        let pos = match r.below(8) {
            0 => "-".to_string(),
            1 => nb.to_string(),
            2 => (nb + 1).to_string(),
            3 => (r.below(nw as u64 + 1) * 64).to_string(),
            4 => ((r.below(nw as u64 + 1) * 64) as usize).saturating_sub(1).to_string(),
            5 => usize::MAX.to_string(),
            _ => r.below(nb as u64 + 2).to_string(),
        };
        c.l(format!("u posraw {} {} {} {}", bit, nb, pos, join(&ws)));
    }
    out.push(c);
}

/// every construction path of the quad vectors (and of the trees from inexact iterators): builder `new()` /
/// `with_capacity(c)` + pushes, `extend` from iterators without an exact size hint, `collect` from such an
/// iterator, RSQVector from a built vector — same content, same retained memory, equal values
fn qv_path_cases(r: &mut Rng, t: Tier, n_cases: usize, space: bool, out: &mut Vec<Case>) {
    for i in 0..n_cases {
        let mut c = Case::new("qvpaths");
        let cfg = QWT_CFGS[i % 4];
        c.l(format!("cfg {} {} 8 * u8", cfg.0, cfg.1 as u8));
        let n = match i % 4 {
            0 => *r.pick(&[0usize, 1, 255, 256, 257, 511, 512, 513, 768, 1279, 1280]),
            1 => 256 * r.range(1, 40) as usize + r.below(3) as usize,
            _ => some_len(r, scale(t, 20_000, 300_000)),
        };
        let sh = r.below(8);
        let vals = if n == 0 { vec![] } else { shaped_seq(r, n, &[0, 1, 2, 3], sh) };
        let js = join(&vals);
        // the trees get the same symbols shifted by 64: four levels, the upper three with one digit only
        let jt = join(&vals.iter().map(|x| x + 64).collect::<Vec<u128>>());
        let cap = *r.pick(&[0usize, 1, n / 2, n, n + 1, 2 * n + 300, 4096]);
        c.tag(format!("lenclass={}", len_class(n)));
        c.tag(format!("cap={}", if cap == 0 { "0" } else if cap < n { "<n" } else if cap == n { "n" } else { ">n" }));
        c.nontrivial = n >= 2;
        let mks = [
            format!("mk 0 qv:i64 {}", js),
            format!("mk 1 qvx {}", js),
            format!("mk 2 qvpush - {}", js),
            format!("mk 3 qvpush {} {}", cap, js),
            format!("mk 4 qvext - {}", js),
            format!("mk 5 qvext {} {}", cap, js),
            format!("mk 6 rsq {} {}", cfg.0, js),
            format!("mk 7 rsq:inexact {} {}", cfg.0, js),
            format!("mk 8 rsq:frombuilder {} {}", cfg.0, js),
            format!("mk 9 qwt:iterx {}", jt),
            format!("mk 10 qwt:new {}", jt),
            // size hint with a positive lower bound and no upper bound (header of h values + filtered rest)
            format!("mk 11 qvchain {} {}", *r.pick(&[0usize, 1, 255, 256, 257, 512, 768, 1024, n / 2, n]), js),
            format!("mk 12 qvchain {} {}", 256 * r.range(0, (n / 256) as u64) as usize, js),
            // a `filter` that really drops elements (upper size-hint bound above what is yielded)
            format!("mk 15 qvfilt {}", {
                let mut toks: Vec<String> = vec![];
                let drop_rate = *r.pick(&[2u64, 10, 300]);
                for x in &vals {
                    while r.below(drop_rate) == 0 && toks.len() < 4 * n + 600 {
                        toks.push(format!("x{}", r.below(4)));
                    }
                    toks.push(x.to_string());
                }
                for _ in 0..r.range(0, 600) {
                    toks.push("x1".into());
                }
                toks.join(" ")
            }),
            // From<Vec> of a vector with spare capacity
            format!("mk 16 qwt:fromcap {}", jt),
        ];
        for (k, mk) in mks.iter().enumerate() {
            c.l(mk.trim_end().to_string());
            if space {
                c.l(format!("space {}", k));
            }
        }
        for k in [1usize, 2, 3, 4, 5, 11, 12, 15] {
            c.l(format!("eq 0 {}", k));
        }
        c.l("eq 10 16");
        c.l("dump 15");
        c.l("dump 16");
        // a source that is not fused: None after k values (not on a line / word boundary, and on one), more
        // values if polled again — `collect` and `extend` must stop at the first None
        for (slot, kind) in [(13usize, "qvnf"), (14, "qvnfext")] {
            let kk = match r.below(4) {
                0 => r.below(n as u64 + 1) as usize,
                1 => (128 * r.range(0, (n / 128) as u64) as usize + r.below(128) as usize).min(n),
                2 => 128 * r.range(0, (n / 128) as u64) as usize,
                _ => n.saturating_sub(1),
            };
            c.l(format!("mk {} {} {} {}", slot, kind, kk, js).trim_end().to_string());
            c.l(format!("q {} len", slot));
            c.l(format!("q {} iter", slot));
            c.l(format!("dump {}", slot));
            if space {
                c.l(format!("space {}", slot));
            }
        }
        c.l("dump 11");
        c.l("dump 12");
        c.l("q 11 iter");
        c.l("q 12 iter");
        c.l("eq 6 7");
        c.l("eq 6 8");
        c.l("eq 9 10");
        c.l("dump 3");
        c.l("dump 5");
        c.l("dump 8");
        for k in [1usize, 3, 5] {
            c.l(format!("q {} len", k));
            c.l(format!("q {} get {}", k, n / 2));
            c.l(format!("q {} get {}", k, n.saturating_sub(1)));
            c.l(format!("q {} get {}", k, n));
        }
        out.push(c);
    }
}

/// is this a run on a tree whose anchor functions differ from the baseline the model was written against?
/// (`VERIF_ESCALATE=1`, set by `check`): the quick tier then also runs the large-scale cases of the thorough tier
fn escalated() -> bool {
    std::env::var("VERIF_ESCALATE").map(|x| x == "1").unwrap_or(false)
}

/// a long sequence in which something is *size-gated*: `kind` 0 — one symbol (`rare`) occurs only every
/// ~n/24 positions (consecutive select samples / hints hundreds of superblocks apart), another (`clus`) only
/// in one cluster of ~9000 near the start; `kind` 1 — one symbol (`dom`) makes up ~97 % (more than 2^20
/// occurrences, counters beyond 20 bits); the rest is random over `base`
fn scale_seq(r: &mut Rng, n: usize, kind: u64, base: &[u128], rare: u128, clus: u128, dom: u128) -> Vec<u128> {
    let mut v: Vec<u128> = Vec::with_capacity(n);
    if kind == 0 {
        let period = (n / 24).max(2);
        let mut next_rare = r.below(period as u64) as usize;
        let cl_start = r.below(90_000) as usize;
        for i in 0..n {
            if i == next_rare {
                v.push(rare);
                next_rare += period - r.below((period / 8) as u64 + 1) as usize;
            } else if i >= cl_start && i < cl_start + 13_000 && r.chance(2, 3) {
                v.push(clus);
            } else {
                v.push(base[r.below(base.len() as u64) as usize]);
            }
        }
    } else {
        for _ in 0..n {
            if r.chance(97, 100) {
                v.push(dom);
            } else {
                v.push(base[r.below(base.len() as u64) as usize]);
            }
        }
    }
    v
}

/// large-scale cases (1–2.5 million elements): thorough tier always, quick tier when escalated
fn scale_cases(prop: &str, r: &mut Rng, out: &mut Vec<Case>) {
    let tree = |r: &mut Rng, fam: &str, cfg: (usize, bool), ty: (&str, u32), n: usize, kind: u64, ops: &[&str], out: &mut Vec<Case>| {
        let huff = fam.starts_with('h');
        let (base, rare, clus, dom): (Vec<u128>, u128, u128, u128) = if kind == 0 { (vec![0, 1, 2, 9], 200, 14, 0) } else { (vec![0, 1, 2, 7, 33], 0, 0, 3) };
        let v = scale_seq(r, n, kind, &base, rare, clus, dom);
        let mut c = Case::new(fam);
        c.tag(format!("fam={}", fam));
        c.tag("scale");
        c.tag(format!("cfg={}{}", cfg.0, if cfg.1 { "pfs" } else { "" }));
        c.tag(format!("scalekind={}", kind));
        c.nontrivial = true;
        c.l(format!("cfg {} {} {} * {}", cfg.0, cfg.1 as u8, ty.1, ty.0));
        if huff {
            c.l(format!("tie {}", r.next() | 1));
        }
        c.l(format!("mk 0 {} {}", fam, join(&v)));
        if huff {
            c.l("lenschk 0");
        }
        c.l("dump 0");
        tree_queries(r, &mut c, &v, ty.1, 260, ops, huff);
        // every occurrence of the rare symbol, and the dominant one around the 2^20-th occurrence
        let sym = if kind == 0 { rare } else { dom };
        let cnt = v.iter().filter(|&&x| x == sym).count();
        for op in ops {
            if op.starts_with("select") {
                let ks: Vec<usize> = if kind == 0 { (0..cnt).collect() } else { vec![(1 << 20) - 1, 1 << 20, (1 << 20) + 1, cnt - 1, cnt / 2, 1_050_000.min(cnt - 1)] };
                for k in ks {
                    c.l(format!("q 0 {} {} {}", op, sym, k));
                }
            } else if op.starts_with("rank") {
                for _ in 0..24 {
                    c.l(format!("q 0 {} {} {}", op, sym, n - r.below((n / 8) as u64) as usize));
                }
            }
        }
        out.push(c);
    };
    let rsq = |r: &mut Rng, b: usize, n: usize, kind: u64, ops: &[&str], out: &mut Vec<Case>| {
        let v = if kind == 0 { scale_seq(r, n, 0, &[0, 1], 3, 2, 0) } else { scale_seq(r, n, 1, &[0, 2, 3], 0, 0, 1) };
        let mut c = Case::new("rsq");
        c.tag(format!("B={}", b));
        c.tag("scale");
        c.tag(format!("scalekind={}", kind));
        c.nontrivial = true;
        c.l("cfg 256 0 8 * u8");
        c.l(format!("mk 0 rsq {} {}", b, join(&v)));
        c.l("dump 0");
        rsq_queries(r, &mut c, &v, ops, true);
        let sym: u128 = if kind == 0 { 3 } else { 1 };
        let cnt = v.iter().filter(|&&x| x == sym).count();
        for op in ops {
            if op.starts_with("select") {
                let ks: Vec<usize> = if kind == 0 { (0..cnt).collect() } else { vec![(1 << 20) - 1, 1 << 20, (1 << 20) + 1, cnt - 1, cnt / 2] };
                for k in ks {
                    c.l(format!("q 0 {} {} {}", op, sym, k));
                }
            } else if op.starts_with("rank") {
                for _ in 0..24 {
                    c.l(format!("q 0 {} {} {}", op, sym, n - r.below((n / 8) as u64) as usize));
                }
            }
        }
        out.push(c);
    };
    let bits = |r: &mut Rng, kinds: &[&str], n: usize, shape: u64, ops: &[&str], out: &mut Vec<Case>| {
        // 0: zeros are rare (one every ~1000), 1: ones are rare, 2: a dense half followed by a sparse half
        let mut ones: Vec<usize> = vec![];
        for i in 0..n {
            let one = match shape {
                0 => r.below(1000) != 0,
                1 => r.below(1000) == 0,
                _ => {
                    if i < n / 2 {
                        r.below(4000) != 0
                    } else {
                        r.below(3000) == 0
                    }
                }
            };
            if one {
                ones.push(i);
            }
        }
        let mut c = Case::new("bits");
        c.tag("scale");
        c.tag(format!("scaleshape={}", shape));
        c.nontrivial = true;
        c.l("cfg 256 0 8 * u8");
        c.l(format!("mk 0 bvbits {} {}", n, join(&ones)));
        for (k, kind) in kinds.iter().enumerate() {
            let slot = 1 + k;
            if *kind == "da" {
                c.l(format!("mk {} da 1 0", slot));
            } else {
                c.l(format!("mk {} {} 0", slot, kind));
            }
            c.l(format!("dump {}", slot));
            let ops2: Vec<&str> = ops.iter().copied().filter(|o| *kind != "da" || !o.starts_with("rank")).collect();
            bits_queries(r, &mut c, slot, n, &ones, &ops2, 120);
            // the rare bit: every occurrence
            let n1 = ones.len();
            let n0 = n - n1;
            let (op, cnt) = if n0 < n1 { ("select0", n0) } else { ("select1", n1) };
            if ops.contains(&op) {
                for k2 in (0..cnt).step_by((cnt / 1500).max(1)) {
                    c.l(format!("q {} {} {}", slot, op, k2));
                }
            }
        }
        out.push(c);
    };
    let cfg_a = QWT_CFGS[r.below(4) as usize];
    let cfg_b = QWT_CFGS[(r.below(4) as usize + 2) % 4];
    let big = |c: (usize, bool)| if c.0 == 512 { 2_300_000usize } else { 1_300_000 };
    match prop {
        "C01" => {
            tree(r, "qwt", cfg_a, TYS[0], big(cfg_a), 0, &["get", "rank", "select", "rank_prefetch"], out);
            tree(r, "qwt", cfg_b, TYS[1], big(cfg_b), 1, &["get", "rank", "select", "rank_prefetch"], out);
        }
        "C02" => {
            tree(r, "hqwt", cfg_a, TYS[0], big(cfg_a), 0, &["get", "rank", "select", "rank_prefetch"], out);
            tree(r, "hqwt", cfg_b, TYS[1], big(cfg_b), 1, &["get", "rank", "select"], out);
            out.push(deepcode_case("hqwt", false));
        }
        "C03" => {
            tree(r, "wt", (256, false), TYS[0], 1_200_000, 0, &["get", "rank", "select"], out);
            tree(r, "hwt", (256, false), TYS[1], 1_200_000, 0, &["get", "rank", "select"], out);
            tree(r, "wt", (256, false), TYS[2], 1_200_000, 1, &["get", "rank", "select"], out);
        }
        "C09" => {
            tree(r, "qwt", (cfg_a.0, true), TYS[0], big(cfg_a), 0, &["rank_prefetch", "rank"], out);
            tree(r, "hqwt", (cfg_b.0, true), TYS[1], big(cfg_b), 1, &["rank_prefetch", "rank"], out);
        }
        "C10" => {
            tree(r, "qwt", cfg_a, TYS[0], big(cfg_a), 0, &["select_unchecked", "select", "rank_unchecked", "rank"], out);
            rsq(r, 256, 1_300_000, 0, &["select_unchecked", "select", "rank_unchecked", "rank"], out);
            bits(r, &["rsw", "rsn"], 1_200_000, 0, &["select0_unchecked", "select0", "select1_unchecked", "rank1_unchecked"], out);
        }
        "C05" => {
            rsq(r, 256, 1_300_000, 0, &["get", "rank", "select", "occs"], out);
            rsq(r, 512, 2_300_000, 0, &["get", "rank", "select"], out);
            let b3 = if r.chance(1, 2) { 256 } else { 512 };
            rsq(r, b3, 1_400_000, 1, &["get", "rank", "select", "occs_smaller"], out);
        }
        "C06" => {
            for shape in 0..3 {
                bits(r, &["rsn", "rsw"], 1_200_000, shape, &["get", "rank1", "rank0", "select1", "select0"], out);
            }
        }
        "C07" => {
            for shape in 0..3 {
                bits(r, &["da"], 1_200_000, shape, &["get", "select1", "select0"], out);
            }
        }
        "C15" => {
            // code depths that only long inputs reach: the deepest legal quad code and a 30-level binary code
            for (fam, lv) in [("hqwt", 16usize), ("hqwt", 12), ("hwt", 30), ("hwt", 24)] {
                let mut c = deepcode_levels(fam, lv);
                c.l("space 0");
                c.l("q 0 n_levels");
                c.l("dump 0");
                out.push(c);
            }
        }
        "C04" | "C11" | "C19" => {
            tree(r, "qwt", cfg_a, TYS[0], big(cfg_a), 0, &["get", "rank", "select"], out);
            rsq(r, 512, 2_300_000, 0, &["rank", "select"], out);
            bits(r, &["rsn", "rsw", "da"], 1_200_000, 0, &["rank1", "select1", "select0"], out);
        }
        _ => {}
    }
}

/// the large-scale cases of a run (once per run, not once per generator seed)
pub fn scale_cases_for(prop: &str, t: Tier, seed: u64) -> Vec<Case> {
    let mut out = vec![];
    if t == Tier::Thorough || escalated() {
        let pnum: u64 = prop[1..].parse().unwrap_or(0);
        let mut r = Rng::new(seed.wrapping_mul(7_777_777).wrapping_add(pnum));
        scale_cases(prop, &mut r, &mut out);
        if t == Tier::Thorough && prop == "C03" {
            out.push(deepcode_case("hwt", false));
        }
    }
    out
}

/// The prefetch estimate of a node start may exceed the true value by one per level (`Props/C09.approx_rank_ok`
/// is sharp). This builds the extreme case on purpose, at the *second* level of a three-level tree: 64 symbols
/// with three-level codes; the 16 symbols whose first digit is 0 occur 8192 times in total (node start of the
/// first-digit-1 group on a multiple of the 2048-element sampling period), those of them whose second digit is
/// `d1` occur 2047 times, and the first element of the first-digit-1 group has second digit `d1`: then
/// `approx_rank(d1, 8192) = 2048` while `rank(d1, 8192) = 2047`. For the Huffman tree the digits are those of
/// the crafted codes, which depend on the tie order: the generator fixes the tie seed, builds a tree with these
/// 64 equally frequent symbols in-process and reads the code table from its serialised form.
fn overshoot_cases(r: &mut Rng, out: &mut Vec<Case>) {
    for (fam, b) in [("hqwt", 256usize), ("hqwt", 512), ("qwt", 256), ("qwt", 512)] {
        let tie = r.next() | 1;
        // digits (d0, d1) of every symbol 0..63
        let mut digits: Vec<(u32, u32)> = (0..64u32).map(|v| (v >> 4, (v >> 2) & 3)).collect();
        if fam == "hqwt" {
            qwt::verif_hooks::set_tie_seed(tie);
            let probe: Vec<u8> = (0..64u8).flat_map(|v| std::iter::repeat(v).take(8)).collect();
            let t = qwt::HQWT256::<u8>::from(probe);
            let bytes = match bincode::serialize(&t) {
                Ok(x) => x,
                Err(_) => continue,
            };
            // n, n_levels (u64 each), then codes_encode: u64 length + (u32 content, u32 len) per symbol value
            if bytes.len() < 24 {
                continue;
            }
            let ncodes = u64::from_le_bytes(bytes[16..24].try_into().unwrap()) as usize;
            if ncodes < 64 || bytes.len() < 24 + 8 * ncodes {
                continue;
            }
            let mut okc = true;
            for v in 0..64usize {
                let o = 24 + 8 * v;
                let content = u32::from_le_bytes(bytes[o..o + 4].try_into().unwrap());
                let len = u32::from_le_bytes(bytes[o + 4..o + 8].try_into().unwrap());
                if len != 6 {
                    okc = false;
                    break;
                }
                digits[v] = ((content >> 4) & 3, (content >> 2) & 3);
            }
            if !okc {
                continue;
            }
        }
        for d1 in 0..4u32 {
            let group_a: Vec<usize> = (0..64).filter(|&v| digits[v].0 == 0).collect();
            let sub: Vec<usize> = group_a.iter().copied().filter(|&v| digits[v].1 == d1).collect();
            let target: Vec<usize> = (0..64).filter(|&v| digits[v] == (1, d1)).collect();
            if group_a.len() != 16 || sub.len() != 4 || target.is_empty() {
                continue;
            }
            let mut cnt = vec![512usize; 64];
            cnt[sub[0]] = 511;
            let other = *group_a.iter().find(|v| !sub.contains(v)).unwrap();
            cnt[other] = 513;
            let mut v: Vec<u128> = vec![];
            for sy in 0..64usize {
                for _ in 0..cnt[sy] {
                    v.push(sy as u128);
                }
            }
            for k in (1..v.len()).rev() {
                let j = r.below(k as u64 + 1) as usize;
                v.swap(k, j);
            }
            // the first element whose first digit is 1 must have second digit d1
            if let Some(first1) = v.iter().position(|&x| digits[x as usize].0 == 1) {
                if let Some(want) = v.iter().position(|&x| digits[x as usize] == (1, d1)) {
                    v.swap(first1, want);
                }
            }
            let n = v.len();
            let mut c = Case::new(fam);
            c.tag(format!("fam={}", fam));
            c.tag("estimate-overshoot");
            c.nontrivial = true;
            c.l(format!("cfg {} 1 8 * u8", b));
            if fam == "hqwt" {
                c.l(format!("tie {}", tie));
            }
            c.l(format!("mk 0 {} {}", fam, join(&v)));
            if fam == "hqwt" {
                c.l("lenschk 0");
            }
            for &sy in target.iter().chain(sub.iter()) {
                for p in [n, n / 2, 8192, 8193, 1, n - 1] {
                    c.l(format!("q 0 rank_prefetch {} {}", sy, p));
                }
            }
            out.push(c);
        }
    }
    qwt::verif_hooks::set_tie_seed(0);
}

fn utils_cases(r: &mut Rng, t: Tier, out: &mut Vec<Case>) {
    // select_in_word: crafted words exhaustive over (byte value, k in byte, byte position)
    let mut c = Case::new("utils");
    c.l("cfg 256 0 8 * u8");
    c.tag("select_in_word:crafted");
    c.nontrivial = true;
    let stride = if t == Tier::Quick { 3 } else { 1 };
    let mut cnt = 0usize;
    for byte in 0..256u64 {
        for pos in 0..8u64 {
            if (byte as usize + pos as usize) % stride != 0 {
                continue;
            }
            // lower bytes: random filler, so that k has to skip them
            let filler = r.next() & ((1u64 << (8 * pos)) - 1).wrapping_add(0) & if pos == 0 { 0 } else { u64::MAX };
            let filler = if pos == 0 { 0 } else { filler & ((1u64 << (8 * pos)) - 1) };
            let w = filler | (byte << (8 * pos));
            let below = filler.count_ones() as u64;
            for kk in 0..=byte.count_ones() as u64 {
                c.l(format!("u select_in_word {} {}", w, below + kk));
                cnt += 1;
            }
        }
    }
    let _ = cnt;
    out.push(c);
    let mut c = Case::new("utils");
    c.l("cfg 256 0 8 * u8");
    c.tag("select_in_word:random");
    c.nontrivial = true;
    for i in 0..scale(t, 1500, 20000) {
        let w = match i % 5 {
            0 => r.next(),
            1 => r.next() & r.next(),
            2 => r.next() | r.next(),
            3 => 1u64 << r.below(64),
            _ => !(1u64 << r.below(64)),
        };
        let pc = w.count_ones() as u64;
        let k = match i % 4 {
            0 => r.below(pc.max(1)),
            1 => pc.saturating_sub(1),
            2 => pc.min(63),
            _ => r.below(64),
        };
        c.l(format!("u select_in_word {} {}", w, k));
    }
    for w in [0u64, u64::MAX, 1, 1 << 63, 0x8080808080808080, 0x0101010101010101, 0xFF, 0xFF00000000000000] {
        for k in [0u64, 1, 7, 8, 31, 32, 62, 63] {
            c.l(format!("u select_in_word {} {}", w, k));
        }
    }
    out.push(c);
    let mut c = Case::new("utils");
    c.l("cfg 256 0 8 * u8");
    c.tag("select_in_word_u128");
    c.nontrivial = true;
    for i in 0..scale(t, 1200, 15000) {
        let lo = match i % 4 {
            0 => r.next(),
            1 => 0,
            2 => u64::MAX,
            _ => r.next() & r.next() & r.next(),
        };
        let hi = match (i / 4) % 4 {
            0 => r.next(),
            1 => 0,
            2 => u64::MAX,
            _ => 1u64 << r.below(64),
        };
        let w = ((hi as u128) << 64) | lo as u128;
        let pc = w.count_ones() as u64;
        let k = match i % 5 {
            0 => r.below(pc.max(1)),
            1 => pc.saturating_sub(1),
            2 => pc.min(127),
            3 => lo.count_ones() as u64,
            _ => (lo.count_ones() as u64).saturating_sub(1),
        };
        c.l(format!("u select_in_word_u128 {} {}", w, k.min(127)));
    }
    out.push(c);
    let mut c = Case::new("utils");
    c.l("cfg 256 0 8 * u8");
    c.tag("popcnt_wide+msb");
    c.nontrivial = true;
    for _ in 0..scale(t, 200, 2000) {
        let n = *r.pick(&[0u64, 1, 2, 3, 4, 5, 6, 7, 8, 16]);
        let len = r.range(0, 18);
        let ws: Vec<u64> = (0..len).map(|_| if r.chance(1, 4) { u64::MAX } else { r.next() }).collect();
        c.l(format!("u popcnt_wide {} {}", n, join(&ws)));
    }
    // many words (accumulator widths): all ones, one byte lane saturated in every word, random
    for _ in 0..scale(t, 60, 400) {
        let n = *r.pick(&[31u64, 32, 33, 64, 100]);
        let len = n + r.below(40);
        let pat = r.below(4);
        let lane = 0xFFu64 << (8 * r.below(8));
        let ws: Vec<u64> = (0..len).map(|_| match pat {
            0 => u64::MAX,
            1 => lane | (r.next() & r.next()),
            2 => r.next(),
            _ => if r.chance(7, 8) { u64::MAX } else { r.next() },
        }).collect();
        c.l(format!("u popcnt_wide {} {}", n, join(&ws)));
    }
    for (_, bits) in TYS.iter().filter(|x| x.0 != "usize") {
        for k in 0..*bits {
            let v: u128 = 1u128 << k;
            c.l(format!("u msb {} {}", bits, v));
            c.l(format!("u msb {} {}", bits, v | (v - 1)));
            c.l(format!("u msb {} {}", bits, v | ((r.next() as u128) & (v - 1))));
        }
        c.l(format!("u msb {} 0", bits));
    }
    out.push(c);
    // partitions: all widths, all shifts
    let mut c2_lines: Vec<String> = vec![];
    for (_, bits) in TYS.iter().filter(|x| x.0 != "usize") {
        let mut c = Case::new("utils");
        c.l("cfg 256 0 8 * u8");
        c.tag(format!("partition:{}", bits));
        c.nontrivial = true;
        let tmax: u128 = if *bits == 128 { u128::MAX } else { (1u128 << bits) - 1 };
        for shift in 0..*bits {
            if t == Tier::Quick && *bits > 16 && shift % 3 != 0 && shift + 2 < *bits && shift != 63 && shift != 64 && shift != 31 && shift != 32 {
                continue;
            }
            let n = r.range(0, 40) as usize;
            let vals: Vec<u128> = (0..n).map(|_| (((r.next() as u128) << 64) | r.next() as u128) & tmax).collect();
            if shift + 1 < *bits {
                c.l(format!("u part4 {} {} {}", bits, shift, join(&vals)));
            }
            c.l(format!("u part2 {} {} {}", bits, shift, join(&vals)));
        }
        // long inputs (size-gated code paths): a few thousand elements at the shifts around the word boundaries
        for &shift in [0u32, 1, 2, 30, 31, 32, 33, 62, 63, 64, 65, 126].iter().filter(|&&sh| sh + 1 < *bits) {
            if t == Tier::Quick && r.chance(1, 2) {
                continue;
            }
            let n = some_len(r, 6000).max(2100);
            let vals: Vec<u128> = (0..n).map(|_| (((r.next() as u128) << 64) | r.next() as u128) & tmax).collect();
            c2_lines.push(format!("u part4 {} {} {}", bits, shift, join(&vals)));
            c2_lines.push(format!("u part2 {} {} {}", bits, shift, join(&vals)));
        }
        out.push(c);
    }
    {
        let mut c = Case::new("utils");
        c.l("cfg 256 0 8 * u8");
        c.tag("partition:long");
        c.nontrivial = true;
        c.lines.extend(c2_lines);
        out.push(c);
    }
    partc_cases(r, t, &[2, 4], out);
    let mut c = Case::new("utils");
    c.l("cfg 256 0 8 * u8");
    c.tag("text_remap");
    c.nontrivial = true;
    for _ in 0..scale(t, 60, 600) {
        let n = r.range(0, 80) as usize;
        let card = r.range(1, 40);
        let base: Vec<u64> = (0..card).map(|_| r.below(256)).collect();
        let vals: Vec<u64> = (0..n).map(|_| *r.pick(&base)).collect();
        c.l(format!("u text_remap {}", join(&vals)));
    }
    c.l(format!("u text_remap {}", join(&(0..256u64).rev().collect::<Vec<_>>())));
    out.push(c);
}

/// known finding: a prefix code longer than 32 bits (17 quad levels / 33 binary levels)
/// run-length input whose optimal code has exactly `levels` levels (quad: caterpillar, binary: Fibonacci)
fn deepcode_levels(fam: &str, levels: usize) -> Case {
    let mut c = Case::new(fam);
    c.tag(format!("codedepth={}", levels));
    c.tag("scale");
    c.nontrivial = true;
    let mut w: Vec<usize> = vec![];
    if fam == "hqwt" {
        let mut m: Vec<usize> = vec![1, 4];
        w.extend([1, 1, 1, 1]);
        for k in 2..(levels + 1) {
            let tt = m[k - 2] + 1;
            w.extend([tt, tt, tt]);
            let nm = m[k - 1] + 3 * tt;
            m.push(nm);
        }
    } else {
        w.extend([1, 1]);
        while w.len() < levels + 1 {
            let n = w[w.len() - 1] + w[w.len() - 2];
            w.push(n);
        }
    }
    c.l("cfg 256 0 8 * u8");
    c.l("tie 1");
    let mut args = String::new();
    for (s, cnt) in w.iter().enumerate() {
        args.push_str(&format!(" {} {}", s, cnt));
    }
    c.l(format!("mk 0 {}:rle{}", fam, args));
    c.l("lenschk 0");
    c.l("q 0 len");
    c
}

/// `over` = true: one level more than a 32-bit code word can hold (known finding); false: the deepest code
/// the crate supports (16 quad levels / 32 binary levels), with every symbol queried
fn deepcode_case(fam: &str, over: bool) -> Case {
    let mut c = Case::new(fam);
    c.tag(if over { "deepcode" } else { "maxdepth" });
    c.nontrivial = true;
    let mut w: Vec<usize> = vec![];
    if fam == "hqwt" {
        let mut m: Vec<usize> = vec![1, 4];
        w.extend([1, 1, 1, 1]);
        for k in 2..(if over { 18 } else { 17 }) {
            let tt = m[k - 2] + 1;
            w.extend([tt, tt, tt]);
            let nm = m[k - 1] + 3 * tt;
            m.push(nm);
        }
    } else {
        w.extend([1, 1]);
        while w.len() < (if over { 34 } else { 33 }) {
            let n = w[w.len() - 1] + w[w.len() - 2];
            w.push(n);
        }
    }
    c.l("cfg 256 0 8 * u8");
    c.l("tie 1");
    let mut args = String::new();
    for (s, cnt) in w.iter().enumerate() {
        args.push_str(&format!(" {} {}", s, cnt));
    }
    c.l(format!("mk 0 {}:rle{}", fam, args));
    c.l("q 0 len");
    let n: usize = w.iter().sum();
    c.l("q 0 get 0");
    c.l(format!("q 0 get {}", n - 1));
    c.l(format!("q 0 rank 0 {}", n));
    c.l(format!("q 0 rank {} {}", w.len() - 1, n));
    c.l("q 0 select 0 0");
    if !over {
        c.l("lenschk 0");
        let mut start = 0usize;
        for (sy, cnt) in w.iter().enumerate() {
            c.l(format!("q 0 get {}", start));
            c.l(format!("q 0 get {}", start + cnt - 1));
            c.l(format!("q 0 rank {} {}", sy, start + cnt));
            c.l(format!("q 0 rank {} {}", sy, n));
            c.l(format!("q 0 select {} 0", sy));
            c.l(format!("q 0 select {} {}", sy, cnt - 1));
            c.l(format!("q 0 select {} {}", sy, cnt));
            start += cnt;
        }
    }
    c
}

pub fn cases(prop: &str, t: Tier, seed: u64) -> Vec<Case> {
    let pnum: u64 = prop[1..].parse().unwrap_or(0);
    let mut r = Rng::new(seed.wrapping_mul(1000003).wrapping_add(pnum));
    let r = &mut r;
    let mut out = vec![];
    match prop {
        "C01" => tree_family_cases(r, t, "qwt", &["len", "is_empty", "sigma", "n_levels", "get", "rank", "select", "rank_prefetch"], &["dump 0"], scale(t, 160, 800), &mut out),
        "C02" => {
            tree_family_cases(r, t, "hqwt", &["len", "is_empty", "get", "rank", "select", "rank_prefetch"], &["dump 0"], scale(t, 72, 480), &mut out);
            huff_profile_cases(r, t, "hqwt", &["get", "rank", "select"], &["dump 0"], &mut out);
            partc_cases(r, t, &[4], &mut out);
            if t == Tier::Thorough {
                out.push(deepcode_case("hqwt", true));
            }
        }
        "C03" => {
            tree_family_cases(r, t, "wt", &["len", "is_empty", "n_levels", "get", "rank", "select"], &["dump 0"], scale(t, 48, 300), &mut out);
            tree_family_cases(r, t, "hwt", &["len", "is_empty", "get", "rank", "select"], &["dump 0"], scale(t, 48, 300), &mut out);
            huff_profile_cases(r, t, "hwt", &["get", "rank", "select"], &["dump 0"], &mut out);
            partc_cases(r, t, &[2], &mut out);
            if t == Tier::Thorough {
                out.push(deepcode_case("hwt", true));
            }
        }
        "C05" => rsq_cases(r, t, &["len", "is_empty", "get", "rank", "select", "occs", "occs_smaller"], &["dump 0"], scale(t, 150, 800), &mut out),
        "C06" => rsbin_cases(r, t, &["rsn", "rsw"], &["get", "rank1", "rank0", "select1", "select0", "n_ones", "n_zeros"], &["dump 1"], scale(t, 160, 900), &mut out),
        "C07" => darray_cases(r, t, &["dump 1"], scale(t, 90, 500), &mut out),
        "C08" => {
            bvm_history_cases(r, t, scale(t, 80, 600), &mut out);
            posraw_cases(r, t, &mut out);
        }
        "C09" => {
            // rank_prefetch == rank on every alias, long sequences, >= 3 levels
            for i in 0..scale(t, 40, 240) {
                let fam = if i % 2 == 0 { "qwt" } else { "hqwt" };
                let cfg = QWT_CFGS[(i / 2) % 4];
                let ty = TYS[1 + i % 5];
                let o = TreeOpts {
                    fam,
                    b: cfg.0,
                    pfs: cfg.1,
                    ty,
                    path: "",
                    max_len: if i % 4 == 3 { scale(t, 90_000, 1_200_000) } else { scale(t, 14_000, 120_000) },
                    ops: &["rank_prefetch", "rank", "rank_prefetch"],
                    budget: 500,
                    extra: &["dump 0"],
                    max_card: 300,
                    max_symbol: Some(if fam == "hqwt" { 3000 } else { 60000 }),
                };
                let mut c = tree_case(r, &o);
                // the same queries on a deserialised copy / a clone: every reachable state of the eight types
                if i % 3 != 2 {
                    let qs: Vec<String> = retarget(&c.lines, 0, 1).into_iter().filter(|l| l.contains(" rank_prefetch ")).collect();
                    c.l(if i % 3 == 0 { "mk 1 serde 0" } else { "mk 1 copy 0" });
                    c.tag(if i % 3 == 0 { "via=serde" } else { "via=clone" });
                    c.lines.extend(qs);
                }
                out.push(c);
            }
            huff_profile_cases(r, t, "hqwt", &["rank_prefetch", "rank"], &[], &mut out);
            prefetch_api_cases(r, scale(t, 8, 40), &mut out);
            // period-aligned counts: every symbol occurs 2048·k + {-1, 0, 1} times (sorted blocks, runs, or
            // shuffled), so that node boundaries and partial ranks sit on / next to the prefetch sampling period at
            // every level — where the estimate is allowed to be off by one per level (Props/C09: approx_rank_ok)
            for i in 0..scale(t, 24, 160) {
                let fam = if i % 2 == 0 { "hqwt" } else { "qwt" };
                let cfg = QWT_CFGS[(i / 2) % 4];
                let ty = TYS[i % 3];
                let alph = *r.pick(&[2usize, 3, 4, 5, 7, 9, 16, 17, 34]);
                let mut syms: Vec<u128> = vec![];
                while syms.len() < alph {
                    let sy = r.below(if ty.1 == 8 { 256 } else { 900 }) as u128;
                    if !syms.contains(&sy) {
                        syms.push(sy);
                    }
                }
                let mut v: Vec<u128> = vec![];
                let mut bounds: Vec<usize> = vec![];
                for (j, &sy) in syms.iter().enumerate() {
                    let k = if j < 3 { r.range(1, 3) } else { r.range(0, 1) } as usize;
                    let cnt = (2048 * k + [0usize, 0, 1, 1][r.below(4) as usize]).saturating_sub([0usize, 1, 0, 0][r.below(4) as usize]).max(1);
                    for _ in 0..cnt {
                        v.push(sy);
                    }
                    bounds.push(v.len());
                }
                match i % 3 {
                    0 => {}
                    1 => {
                        // exchange a few elements across block boundaries (first element of a node changes)
                        for &b in &bounds {
                            if b > 0 && b < v.len() {
                                v.swap(b - 1, b);
                            }
                        }
                    }
                    _ => {
                        for k in (1..v.len()).rev() {
                            let j = r.below(k as u64 + 1) as usize;
                            v.swap(k, j);
                        }
                    }
                }
                let n = v.len();
                let mut c = Case::new(fam);
                c.tag(format!("fam={}", fam));
                c.tag(format!("cfg={}{}", cfg.0, if cfg.1 { "pfs" } else { "" }));
                c.tag("aligned-counts");
                c.nontrivial = true;
                c.l(format!("cfg {} {} {} * {}", cfg.0, cfg.1 as u8, ty.1, ty.0));
                if fam == "hqwt" {
                    c.l(format!("tie {}", r.next() | 1));
                }
                c.l(format!("mk 0 {} {}", fam, join(&v)));
                if fam == "hqwt" {
                    c.l("lenschk 0");
                }
                let mut poss: Vec<usize> = vec![0, 1, n - 1, n, n + 1];
                for &b in &bounds {
                    for d in [0usize, 1, 2] {
                        poss.push(b.saturating_sub(d));
                        poss.push((b + d).min(n));
                    }
                }
                for m in (2048..=n).step_by(2048) {
                    poss.extend([m - 1, m, (m + 1).min(n)]);
                }
                poss.sort();
                poss.dedup();
                for &sy in &syms {
                    for &p in &poss {
                        c.l(format!("q 0 rank_prefetch {} {}", sy, p));
                    }
                }
                out.push(c);
            }
            overshoot_cases(r, &mut out);
        }
        "C10" => {
            tree_family_cases(r, t, "qwt", &["get_unchecked", "rank_unchecked", "select_unchecked", "rank_prefetch_unchecked", "get", "rank", "select"], &[], scale(t, 24, 160), &mut out);
            tree_family_cases(r, t, "hqwt", &["get_unchecked", "rank_unchecked", "select_unchecked", "rank_prefetch_unchecked", "get", "rank", "select"], &[], scale(t, 24, 160), &mut out);
            tree_family_cases(r, t, "wt", &["get_unchecked", "rank_unchecked", "select_unchecked", "get", "rank", "select"], &[], scale(t, 12, 80), &mut out);
            tree_family_cases(r, t, "hwt", &["get_unchecked", "rank_unchecked", "select_unchecked", "get", "rank", "select"], &[], scale(t, 12, 80), &mut out);
            rsq_cases(r, t, &["get_unchecked", "rank_unchecked", "select_unchecked", "occs_unchecked", "occs_smaller_unchecked", "select", "rank"], &[], scale(t, 24, 160), &mut out);
            rsbin_cases(r, t, &["rsn", "rsw"], &["get_unchecked", "rank1_unchecked", "rank0_unchecked", "select1_unchecked", "select0_unchecked", "rank1", "select1", "select0"], &[], scale(t, 24, 160), &mut out);
            // DArray group plans (dense / sparse / threshold groups in every order): checked selects, paired below
            darray_cases(r, t, &[], scale(t, 20, 120), &mut out);
            // get_bits_unchecked on bit vectors, DArray unchecked selects
            for i in 0..scale(t, 16, 100) {
                let (mut c, n, ones) = bits_case(r, "bv", 3000);
                c.l(format!("mk 1 da {} 0", i % 2));
                for _ in 0..40 {
                    if n == 0 {
                        break;
                    }
                    let l = r.range(1, 64.min(n) as u64) as usize;
                    let s = r.below((n - l) as u64 + 1) as usize;
                    c.l(format!("q 0 get_bits_unchecked {} {}", s, l));
                    c.l(format!("q 0 get_bits {} {}", s, l));
                }
                if !ones.is_empty() {
                    for _ in 0..20 {
                        c.l(format!("q 1 select1_unchecked {}", r.below(ones.len() as u64)));
                    }
                }
                if i % 2 == 1 && n > ones.len() {
                    for _ in 0..20 {
                        c.l(format!("q 1 select0_unchecked {}", r.below((n - ones.len()) as u64)));
                    }
                }
                out.push(c);
            }
        }
        "C11" => {
            let mut tmp = vec![];
            tree_family_cases(r, t, "qwt", &["len", "get", "rank", "select", "rank_prefetch"], &[], scale(t, 24, 120), &mut tmp);
            tree_family_cases(r, t, "hqwt", &["len", "get", "rank", "select", "rank_prefetch"], &[], scale(t, 24, 120), &mut tmp);
            tree_family_cases(r, t, "wt", &["len", "get", "rank", "select"], &[], scale(t, 12, 60), &mut tmp);
            tree_family_cases(r, t, "hwt", &["len", "get", "rank", "select"], &[], scale(t, 12, 60), &mut tmp);
            rsq_cases(r, t, &["len", "get", "rank", "select", "occs"], &[], scale(t, 16, 80), &mut tmp);
            for mut c in tmp {
                let qs = retarget(&c.lines, 0, 1);
                let keep: Vec<String> = c.lines.iter().filter(|l| !l.starts_with("q 0 ")).cloned().collect();
                c.lines = keep;
                c.l("enc 0");
                c.l("wf 0");
                c.l("mk 1 serde 0");
                c.l("eq 0 1");
                c.l("enc 1");
                c.lines.extend(qs);
                out.push(c);
            }
            let mut tmp = vec![];
            rsbin_cases(r, t, &["rsn", "rsw"], &["get", "rank1", "select1", "select0"], &[], scale(t, 24, 120), &mut tmp);
            for mut c in tmp {
                let qs = retarget(&c.lines, 1, 2);
                let keep: Vec<String> = c.lines.iter().filter(|l| !l.starts_with("q 1 ")).cloned().collect();
                c.lines = keep;
                c.l("enc 0");
                c.l("mk 3 serde 0");
                c.l("eq 0 3");
                c.l("enc 1");
                c.l("wf 1");
                c.l("mk 2 serde 1");
                c.l("eq 1 2");
                c.l("enc 2");
                c.lines.extend(qs);
                out.push(c);
            }
            let mut tmp = vec![];
            darray_cases(r, t, &[], scale(t, 12, 60), &mut tmp);
            for mut c in tmp {
                let qs = retarget(&c.lines, 1, 2);
                let keep: Vec<String> = c.lines.iter().filter(|l| !l.starts_with("q 1 ")).cloned().collect();
                c.lines = keep;
                c.l("enc 1");
                c.l("wf 1");
                c.l("mk 2 serde 1");
                c.l("eq 1 2");
                c.l("enc 2");
                c.lines.extend(qs);
                out.push(c);
            }
            let mut tmp = vec![];
            qv_history_cases(r, t, scale(t, 12, 60), &mut tmp);
            bvm_history_cases(r, t, scale(t, 8, 40), &mut tmp);
            for mut c in tmp {
                if c.lines.iter().any(|l| l.starts_with("mk 0 qvb")) {
                    continue;
                }
                c.lines.retain(|l| !l.starts_with("q ") && !l.starts_with("dump") && !l.starts_with("eq") && !l.starts_with("mk 1") && !l.starts_with("mk 2"));
                c.l("enc 0");
                c.l("mk 1 serde 0");
                c.l("eq 0 1");
                c.l("enc 1");
                c.l("q 1 len");
                c.l("q 1 iter");
                out.push(c);
            }
            // empty and default-constructed trees of every family, configuration and a few types
            for (k, (b, pfs)) in QWT_CFGS.iter().enumerate() {
                let ty = TYS[k % 6];
                let mut c = Case::new("defaults");
                c.tag("empty-trees");
                c.l(format!("cfg {} {} {} * {}", b, *pfs as u8, ty.1, ty.0));
                for fam in ["qwt", "hqwt", "wt", "hwt"] {
                    for how in ["default", "new", "iter"] {
                        c.l(format!("mk 0 {}:{}", fam, how));
                        c.l("enc 0");
                        c.l("wf 0");
                        c.l("mk 1 serde 0");
                        c.l("eq 0 1");
                        c.l("enc 1");
                        c.l("dump 1");
                        for q in ["len", "get 0", "rank 0 0", "select 0 0", "iter"] {
                            c.l(format!("q 1 {}", q));
                        }
                    }
                }
                out.push(c);
            }
            // stand-alone PrefixCode values (public struct, public fields): every (content, len) pair round-trips
            let mut c = Case::new("prefixcode");
            c.tag("prefixcode");
            c.nontrivial = true;
            c.l("cfg 256 0 8 * u8");
            for _ in 0..scale(t, 30, 200) {
                let k = r.range(0, 12) as usize;
                let mut v: Vec<u64> = vec![];
                for _ in 0..k {
                    v.push(match r.below(4) {
                        0 => r.next() & 0xFFFF_FFFF,
                        1 => 0,
                        2 => 0xFFFF_FFFF,
                        _ => r.below(70000),
                    });
                    v.push(*r.pick(&[0u64, 1, 2, 16, 31, 32, 33, 34, 64, 255, 256, 65536, 0xFFFF_FFFF, 0x8000_0000]));
                }
                c.l(format!("u pcrt {}", join(&v)).trim_end().to_string());
            }
            out.push(c);
            // empty / default values of every type
            let mut c = Case::new("defaults");
            c.nontrivial = false;
            c.l("cfg 256 0 8 * u8");
            c.l("mk 5 bvbits 0");
            for (k, mk) in [
                "mk 0 qv:u8", "mk 0 bvbits 0", "mk 0 rsq 256", "mk 0 rsq 512", "mk 0 bvnew",
                // `Default::default()` of every structure (not necessarily what the constructor builds from an
                // empty input) and the structures built over an empty bit vector
                "mk 0 rsqdefault 256", "mk 0 rsqdefault 512", "mk 0 rsndefault", "mk 0 rswdefault", "mk 0 dadefault 0", "mk 0 dadefault 1",
                "mk 0 rsn 5", "mk 0 rsw 5", "mk 0 da 0 5", "mk 0 da 1 5",
            ]
            .iter()
            .enumerate()
            {
                let _ = k;
                c.l(mk.to_string());
                c.l("enc 0");
                c.l("mk 1 serde 0");
                c.l("eq 0 1");
                c.l("enc 1");
                c.l("dump 1");
            }
            out.push(c);
        }
        "C12" => {
            // iterators: trees (double ended histories), bit / quad vectors, DArray
            for i in 0..scale(t, 60, 400) {
                let fam = ["qwt", "hqwt", "wt", "hwt"][i % 4];
                let cfg = QWT_CFGS[(i / 4) % 4];
                let o = TreeOpts {
                    fam,
                    b: cfg.0,
                    pfs: cfg.1,
                    ty: TYS[i % 6],
                    path: "",
                    // every third case is short, so that the two cursors meet (and cross) inside a short history
                    max_len: if i % 3 == 1 { 48 } else { scale(t, 700, 5000) },
                    ops: &[],
                    budget: 0,
                    extra: &[],
                    max_card: 60,
                    max_symbol: if fam.starts_with('h') { Some(3000) } else { None },
                };
                let mut c = tree_case(r, &o);
                if i % 3 == 1 {
                    // the front and the back cursor approach each other through every kind of call: the last
                    // calls before exhaustion (and the calls after it) are next / next_back / nth / nth_back /
                    // len / size_hint / count / last in every order
                    for _ in 0..12 {
                        let hl = r.range(2, 40) as usize;
                        c.l(format!("q 0 iterhist {}", meeting_history(r, hl)));
                    }
                }
                c.l("q 0 len");
                c.l("q 0 iter");
                c.l("q 0 iter_ref");
                c.l("q 0 into_iter");
                for _ in 0..4 {
                    let hl = r.range(1, 900) as usize;
                    let bias = r.below(3);
                    let h: String = (0..hl)
                        .map(|_| match (r.below(10), bias) {
                            (0, _) => 'l',
                            (1..=5, 0) | (1..=7, 1) | (1..=2, 2) => 'n',
                            _ => 'b',
                        })
                        .collect();
                    c.l(format!("q 0 iterhist {}", h));
                }
                // the provided methods the std adaptors are built from (nth / nth_back / count / last)
                for _ in 0..4 {
                    let hl = r.range(1, 60) as usize;
                    c.l(format!("q 0 iterhist {}", iter_history(r, hl, true)));
                }
                out.push(c);
            }
            for i in 0..scale(t, 30, 200) {
                let (mut c, _n, _ones) = bits_case(r, "bv", 1500);
                c.l("q 0 iter");
                c.l("q 0 into_iter");
                c.l("q 0 iterlen");
                c.l("q 0 iterlen_ref");
                for _ in 0..3 {
                    let hl = r.range(1, 40) as usize;
                    c.l(format!("q 0 fwdhist {}", iter_history(r, hl, false)));
                    c.l(format!("q 0 fwdhist_into {}", iter_history(r, hl, false)));
                }
                c.l("q 0 ones");
                c.l("q 0 zeros");
                for p in [0usize, 1, _n / 2, _n.saturating_sub(1), _n, _n + 1, 64, 512] {
                    c.l(format!("q 0 ones_after {}", p));
                    c.l(format!("q 0 zeros_after {}", p));
                }
                c.l(format!("mk 1 da {} 0", i % 2));
                c.l("q 1 ones_after 0");
                c.l(format!("q 1 zeros_after {}", _n / 3));
                c.l("q 1 iter");
                c.l(format!("q 1 fwdhist {}", iter_history(r, 30, false)));
                c.l("q 1 ones");
                c.l("q 1 zeros");
                out.push(c);
            }
            qv_history_cases(r, t, scale(t, 24, 120), &mut out);
            rsq_cases(r, t, &["iter", "fwdhist", "fwdhist_into"], &[], scale(t, 10, 60), &mut out);
        }
        "C13" => {
            qv_history_cases(r, t, scale(t, 120, 900), &mut out);
            qv_path_cases(r, t, scale(t, 10, 60), false, &mut out);
        }
        "C14" | "C16" => {
            let ex = ["space 0", "q 0 len", "q 0 n_levels"];
            tree_family_cases(r, t, "qwt", &["sigma"], &ex, scale(t, 48, 300), &mut out);
            tree_family_cases(r, t, "wt", &[], &ex, scale(t, 24, 150), &mut out);
            if prop == "C16" {
                tree_family_cases(r, t, "hqwt", &[], &ex, scale(t, 32, 200), &mut out);
                tree_family_cases(r, t, "hwt", &[], &ex, scale(t, 16, 100), &mut out);
                darray_cases(r, t, &["space 1"], scale(t, 16, 80), &mut out);
            }
            if prop == "C16" {
                for i in 0..scale(t, 24, 120) {
                    let mut c = Case::new("bvm");
                    c.tag("bvm-space");
                    c.nontrivial = true;
                    c.l("cfg 256 0 8 * u8");
                    let cap = *r.pick(&[0usize, 64, 1000, 4096, 100_000, 1 << 20, 1 << 24]);
                    match i % 4 {
                        0 => c.l(format!("mk 0 bvcap {}", cap)),
                        1 => c.l(format!("mk 0 bvzeros {}", cap.min(1 << 20))),
                        2 => c.l("mk 0 bvnew"),
                        _ => {
                            let n = r.range(1, 3000) as usize;
                            let sh = r.below(7);
                            c.l(format!("mk 0 bvbits:mut {} {}", n, join(&shaped_bits(r, n, sh))));
                        }
                    }
                    c.l("space 0");
                    let pushes = r.range(0, 5000) as usize;
                    for _ in 0..(pushes / 40) {
                        let l = r.range(1, 63) as usize;
                        c.l(format!("op 0 append_bits {} {}", r.next() & ((1u64 << l) - 1), l));
                    }
                    c.l("space 0");
                    c.l("op 0 shrink_to_fit");
                    c.l("space 0");
                    out.push(c);
                }
            }
            qv_path_cases(r, t, scale(t, 12, 60), true, &mut out);
            rsq_cases(r, t, &["len"], &["space 0"], scale(t, 24, 150), &mut out);
            rsbin_cases(r, t, if prop == "C14" { &["rsw"] } else { &["rsw", "rsn"] }, &[], &["space 1", "space 0"], scale(t, 24, 150), &mut out);
            // a few large inputs so that the per-level constant is negligible
            for i in 0..scale(t, 6, 24) {
                let fam = if i % 3 == 2 { "wt" } else { "qwt" };
                let cfg = QWT_CFGS[i % 4];
                let mut c = Case::new(fam);
                let ty = TYS[1 + i % 4];
                let n = scale(t, 150_000, 2_000_000) + r.below(5000) as usize;
                let sigma = *r.pick(&[3u64, 15, 16, 63, 255, 256, 1000, 65535]);
                let v: Vec<u128> = (0..n).map(|_| r.below(sigma + 1) as u128).collect();
                c.tag(format!("fam={}", fam));
                c.tag("large");
                c.tag(format!("cfg={}{}", cfg.0, if cfg.1 { "pfs" } else { "" }));
                c.nontrivial = true;
                c.l(format!("cfg {} {} {} * {}", cfg.0, cfg.1 as u8, ty.1, ty.0));
                c.l(format!("mk 0 {}:{} {}", fam, ["new", "from", "iter"][i % 3], join(&v)));
                c.l("space 0");
                c.l("q 0 len");
                c.l("q 0 n_levels");
                if fam == "qwt" {
                    c.l("q 0 sigma");
                }
                out.push(c);
            }
        }
        "C15" => {
            let ex = ["space 0", "q 0 len", "q 0 n_levels", "dump 0"];
            tree_family_cases(r, t, "hqwt", &[], &ex, scale(t, 40, 240), &mut out);
            tree_family_cases(r, t, "hwt", &[], &ex, scale(t, 24, 160), &mut out);
            huff_profile_cases(r, t, "hqwt", &[], &ex, &mut out);
            huff_profile_cases(r, t, "hwt", &[], &ex, &mut out);
            // counts above 2^16 (and, thorough, above 2^17) for several symbols plus a dominant one
            for (k, fam) in ["hwt", "hqwt"].iter().enumerate() {
                let mut c = Case::new(fam);
                c.tag("large-skewed");
                c.nontrivial = true;
                let minor = if t == Tier::Quick { 3 } else { 8 };
                let per = 66_000 + r.below(3000) as usize;
                let dom = per * minor * 85 / 15;
                c.l(format!("cfg 256 {} 8 * u8", k));
                c.l(format!("tie {}", r.next() | 1));
                let mut args = format!(" {} {}", 7, dom);
                for j in 0..minor {
                    args.push_str(&format!(" {} {}", 20 + 3 * j, per + j));
                }
                c.l(format!("mk 0 {}:rle{}", fam, args));
                c.l("lenschk 0");
                for e in ex {
                    c.l(e.to_string());
                }
                out.push(c);
            }
        }
        "C17" => utils_cases(r, t, &mut out),
        "C18" => {
            // purity: serialised bytes before == after a query batch; repeated queries
            let mut tmp = vec![];
            tree_family_cases(r, t, "qwt", &["get", "rank", "select", "rank_prefetch"], &[], scale(t, 16, 80), &mut tmp);
            tree_family_cases(r, t, "hqwt", &["get", "rank", "select", "rank_prefetch"], &[], scale(t, 16, 80), &mut tmp);
            tree_family_cases(r, t, "wt", &["get", "rank", "select"], &[], scale(t, 8, 40), &mut tmp);
            tree_family_cases(r, t, "hwt", &["get", "rank", "select"], &[], scale(t, 8, 40), &mut tmp);
            rsq_cases(r, t, &["get", "rank", "select", "occs"], &[], scale(t, 8, 40), &mut tmp);
            for mut c in tmp {
                let qs: Vec<String> = c.lines.iter().filter(|l| l.starts_with("q 0 ")).cloned().collect();
                let mk_idx = c.lines.iter().position(|l| l.starts_with("mk 0")).unwrap();
                c.lines.insert(mk_idx + 1, "enc 0".into());
                c.lines.extend(qs.clone()); // every query twice
                c.l("enc 0");
                c.l("threads 0");
                // two deserialised copies of two different values, queried alternately with the same arguments:
                // an answer must not depend on which value was queried before
                if let Some(twin) = shorter_twin(&c.lines, 0, 5, false) {
                    c.lines.extend(twin);
                    c.l("mk 6 serde 0");
                    c.l("mk 7 serde 5");
                    for l in qs.iter().filter(|l| !l.contains("_unchecked")).take(20) {
                        for sl in [6usize, 7, 6] {
                            c.lines.extend(retarget(std::slice::from_ref(l), 0, sl));
                        }
                    }
                }
                out.push(c);
            }
            let mut tmp = vec![];
            rsbin_cases(r, t, &["rsn", "rsw", "da"], &["get", "rank1", "select1", "select0"], &[], scale(t, 18, 90), &mut tmp);
            for mut c in tmp {
                // da has no rank; drop those queries
                if c.lines.iter().any(|l| l.starts_with("mk 1 da")) {
                    for l in c.lines.iter_mut() {
                        if l.starts_with("mk 1 da") {
                            *l = "mk 1 da 1 0".into();
                        }
                    }
                    c.lines.retain(|l| !l.starts_with("q 1 rank"));
                }
                let qs: Vec<String> = c.lines.iter().filter(|l| l.starts_with("q 1 ")).cloned().collect();
                let mk_idx = c.lines.iter().position(|l| l.starts_with("mk 1")).unwrap();
                c.lines.insert(mk_idx + 1, "enc 1".into());
                c.lines.extend(qs);
                c.l("enc 1");
                c.l("threads 1");
                out.push(c);
            }
        }
        "C19" => {
            // construction paths, clones, inequality of different sequences, element widths
            for i in 0..scale(t, 60, 400) {
                let fam = ["qwt", "hqwt", "wt", "hwt"][i % 4];
                let huff = fam.starts_with('h');
                let cfg = QWT_CFGS[(i / 4) % 4];
                let tyi = i % 5;
                let ty = [TYS[0], TYS[1], TYS[2], TYS[3], TYS[5]][tyi];
                let o = TreeOpts {
                    fam,
                    b: cfg.0,
                    pfs: cfg.1,
                    ty,
                    path: "new",
                    max_len: scale(t, 3000, 30000),
                    ops: &["len", "get", "rank", "select"],
                    budget: 150,
                    extra: &[],
                    max_card: 100,
                    max_symbol: if huff { Some(3000) } else { None },
                };
                let mut c = tree_case(r, &o);
                let mk = c.lines.iter().find(|l| l.starts_with("mk 0")).unwrap().clone();
                let vals = mk.splitn(4, ' ').nth(3).unwrap_or("").to_string();
                let qs0: Vec<String> = c.lines.iter().filter(|l| l.starts_with("q 0 ")).cloned().collect();
                c.l(format!("mk 1 {}:from {}", fam, vals));
                c.l(format!("mk 2 {}:iter {}", fam, vals));
                c.l("mk 3 copy 0");
                c.l("eq 0 3");
                c.l(format!("mk 7 {}:fromcap {}", fam, vals).trim_end().to_string());
                c.l(format!("mk 8 {}:iterx {}", fam, vals).trim_end().to_string());
                if !huff {
                    c.l("eq 0 1");
                    c.l("eq 0 2");
                    c.l("eq 0 7");
                    c.l("eq 0 8");
                    c.l("dump 1");
                    c.l("dump 2");
                    c.l("dump 7");
                }
                for s in [1usize, 2, 3, 7, 8] {
                    c.lines.extend(retarget(&qs0, 0, s));
                }
                // two deserialised copies of two different trees, queried alternately with the same arguments
                // (a cache keyed by something a deserialised value does not carry would mix them up)
                c.l("mk 11 serde 0");
                // a different sequence never compares equal
                let orig: Vec<u128> = vals.split(' ').filter(|x| !x.is_empty()).map(|x| x.parse().unwrap()).collect();
                for (slot, kind) in [(4usize, r.below(3)), (6, 3 + r.below(3))] {
                    if let Some(other) = different_seq(r, &orig, kind) {
                        c.l(format!("mk {} {}:new {}", slot, fam, join(&other)));
                        c.l(format!("eq 0 {}", slot));
                        c.tag(format!("differs={}", kind));
                        if slot == 6 {
                            c.l("mk 12 serde 6");
                            let sel: Vec<String> = qs0.iter().filter(|l| l.contains(" select ") || l.contains(" rank ")).take(12).cloned().collect();
                            for l in &sel {
                                for sl in [11usize, 12, 11] {
                                    c.lines.extend(retarget(std::slice::from_ref(l), 0, sl));
                                }
                            }
                        }
                    }
                }
                // the same numbers in a wider type
                if tyi < 4 {
                    let wider = [TYS[0], TYS[1], TYS[2], TYS[3], TYS[5]][tyi + 1 + (r.below((4 - tyi) as u64) as usize)];
                    c.l(format!("cfg {} {} {} * {}", cfg.0, cfg.1 as u8, wider.1, wider.0));
                    c.l(format!("mk 5 {}:new {}", fam, vals));
                    c.lines.extend(retarget(&qs0, 0, 5));
                }
                out.push(c);
            }
            // the empty sequence through every construction path of every family
            for (b, pfs) in QWT_CFGS {
                for ty in [TYS[0], TYS[3], TYS[5]] {
                    let mut c = Case::new("paths-empty");
                    c.tag("empty-paths");
                    c.l(format!("cfg {} {} {} * {}", b, pfs as u8, ty.1, ty.0));
                    for fam in ["qwt", "hqwt", "wt", "hwt"] {
                        c.l(format!("mk 0 {}:new", fam));
                        c.l(format!("mk 1 {}:from", fam));
                        c.l(format!("mk 2 {}:iter", fam));
                        c.l("mk 3 copy 0");
                        for k in 0..4 {
                            c.l(format!("q {} len", k));
                            c.l(format!("q {} n_levels", k));
                            c.l(format!("q {} get 0", k));
                            c.l(format!("q {} rank 0 0", k));
                            c.l(format!("dump {}", k));
                        }
                        c.l("eq 0 1");
                        c.l("eq 0 2");
                        c.l("eq 0 3");
                        // clone_from: the empty tree into a non-empty one and the other way round
                        c.l(format!("mk 4 {}:new 3 1 2 0 3 3 1", fam));
                        c.l(format!("mk 5 {}:new 3 1 2 0 3 3 1", fam));
                        c.l(format!("mk 6 {}:new", fam));
                        c.l("cf 4 0");
                        c.l("eq 4 0");
                        c.l("dump 4");
                        c.l("cf 6 5");
                        c.l("eq 6 5");
                        c.l("dump 6");
                        for k in [4usize, 6] {
                            for q in ["len", "n_levels", "get 0", "get 6", "rank 3 7", "rank 0 0", "select 3 2", "iter"] {
                                c.l(format!("q {} {}", k, q));
                            }
                        }
                    }
                    out.push(c);
                }
            }
            // non-tree structures: constructors agree, clones equal, different inputs differ
            for i in 0..scale(t, 40, 240) {
                let (mut c, n, ones) = bits_case(r, "paths", 4000);
                c.l(format!("mk 1 bvpos {}", join(&ones)));
                // bvpos yields length last+1: pad by a final one only when lengths agree
                if ones.last().map(|x| x + 1).unwrap_or(0) == n {
                    c.l("eq 0 1");
                }
                for (k, kind) in ["rsn", "rsw"].iter().enumerate() {
                    c.l(format!("mk {} {} 0", 2 + 2 * k, kind));
                    c.l(format!("mk {} {}:from 0", 3 + 2 * k, kind));
                    c.l(format!("eq {} {}", 2 + 2 * k, 3 + 2 * k));
                }
                c.l(format!("mk 6 da {} 0", i % 2));
                c.l(format!("mk 7 dabits {} {} {}", i % 2, n, join(&ones)));
                c.l("eq 6 7");
                // the same set of positions given out of order and with repetitions builds the same vector
                if ones.last().map(|x| x + 1).unwrap_or(0) == n && !ones.is_empty() {
                    let mut ps = ones.clone();
                    for _ in 0..r.range(1, 5) {
                        let d = *r.pick(&ones);
                        let at = r.below(ps.len() as u64 + 1) as usize;
                        ps.insert(at, d);
                    }
                    if r.chance(1, 2) {
                        ps.reverse();
                    }
                    c.l(format!("mk 8 bvpos {}", join(&ps)));
                    c.l("eq 0 8");
                    c.l("q 8 count_ones");
                    c.l("q 8 count_zeros");
                    c.l(format!("mk 9 bvpos:mut {}", join(&ps)));
                    c.l("q 9 count_ones");
                    c.l("mk 10 rsw 8");
                    c.l("eq 4 10");
                }
                c.l("mk 8 copy 6");
                c.l("eq 6 8");
                let mut other = ones.clone();
                if other.is_empty() {
                    if n > 0 {
                        other.push(n - 1);
                    }
                } else {
                    other.pop();
                }
                c.l(format!("mk 9 bvbits {} {}", n, join(&other)));
                if n > 0 {
                    c.l("eq 0 9");
                    c.l("mk 10 rsw 9");
                    c.l("eq 4 10");
                }
                // the same number of ones, one of them moved by one position (towards a zero neighbour): at the
                // very end, at the start, or anywhere
                if !ones.is_empty() && ones.len() < n {
                    let cand: Vec<usize> = ones.iter().copied().filter(|&p| (p + 1 < n && !ones.contains(&(p + 1))) || (p > 0 && !ones.contains(&(p - 1)))).collect();
                    if !cand.is_empty() {
                        let p = match r.below(3) {
                            0 => *cand.last().unwrap(),
                            1 => cand[0],
                            _ => *r.pick(&cand),
                        };
                        let q = if p + 1 < n && !ones.contains(&(p + 1)) { p + 1 } else { p - 1 };
                        let mut moved: Vec<usize> = ones.iter().copied().filter(|&x| x != p).collect();
                        moved.push(q);
                        moved.sort();
                        c.l(format!("mk 11 bvbits {} {}", n, join(&moved)));
                        c.l("eq 0 11");
                        c.l("mk 12 rsw 11");
                        c.l("eq 4 12");
                        c.l("mk 13 rsn 11");
                        c.l("eq 2 13");
                        c.l(format!("mk 14 da {} 11", i % 2));
                        c.l("eq 6 14");
                        c.tag("differs=moved-one");
                    }
                }
                out.push(c);
            }
            // every construction path of the quad vectors and of trees over them (builder, with_capacity, chained /
            // filtering / non-fused sources, From<Vec> with spare capacity), compared with ==
            qv_path_cases(r, t, scale(t, 10, 60), false, &mut out);
            let mut tmp = vec![];
            rsq_cases(r, t, &["get", "rank", "select"], &[], scale(t, 18, 100), &mut tmp);
            for mut c in tmp {
                let mk = c.lines.iter().find(|l| l.starts_with("mk 0")).unwrap().clone();
                let mut it = mk.splitn(5, ' ');
                let b = it.nth(3).unwrap_or("256").to_string();
                let vals = it.next().unwrap_or("").to_string();
                c.l(format!("mk 1 rsq:new {} {}", b, vals));
                c.l(format!("mk 2 rsq:fromqv {} {}", b, vals));
                c.l(format!("mk 3 rsq {} {}", b, vals));
                c.l("eq 0 1");
                c.l("eq 0 2");
                c.l("eq 0 3");
                c.l("mk 4 copy 0");
                c.l("eq 0 4");
                // a different sequence (one more symbol): must not compare equal
                c.l(if vals.is_empty() { format!("mk 5 rsq {} 1", b) } else { format!("mk 5 rsq {} {} 1", b, vals) });
                c.l("eq 0 5");
                // the same multiset in a different order (minimal differences: one transposition), and the
                // plain quad vectors of both
                let orig: Vec<u128> = vals.split(' ').filter(|x| !x.is_empty()).map(|x| x.parse().unwrap()).collect();
                c.l(format!("mk 8 qv:u8 {}", vals).trim_end().to_string());
                for (slot, kind) in [(6usize, 3 + r.below(3)), (7, r.below(6))] {
                    if let Some(other) = different_seq(r, &orig, kind) {
                        if other.iter().all(|&x| x < 4) {
                            c.l(format!("mk {} rsq {} {}", slot, b, join(&other)));
                            c.l(format!("eq 0 {}", slot));
                            c.l(format!("mk 9 qv:u8 {}", join(&other)));
                            c.l("eq 8 9");
                            c.tag(format!("differs={}", kind));
                        }
                    }
                }
                out.push(c);
            }
        }
        "C04" => {
            // total API: boundary arguments on every type and every way of obtaining a value
            tree_family_cases(r, t, "qwt", &["len", "sigma", "n_levels", "get", "rank", "select", "rank_prefetch", "iter"], &[], scale(t, 32, 200), &mut out);
            tree_family_cases(r, t, "hqwt", &["len", "n_levels", "get", "rank", "select", "rank_prefetch", "iter"], &[], scale(t, 32, 200), &mut out);
            tree_family_cases(r, t, "wt", &["len", "n_levels", "get", "rank", "select", "iter"], &[], scale(t, 16, 100), &mut out);
            tree_family_cases(r, t, "hwt", &["len", "n_levels", "get", "rank", "select", "iter"], &[], scale(t, 16, 100), &mut out);
            rsq_cases(r, t, &["len", "get", "rank", "select", "occs", "occs_smaller", "iter"], &[], scale(t, 24, 150), &mut out);
            rsbin_cases(r, t, &["rsn", "rsw"], &["get", "rank1", "rank0", "select1", "select0", "n_ones", "n_zeros"], &[], scale(t, 30, 200), &mut out);
            darray_cases(r, t, &[], scale(t, 12, 80), &mut out);
            bvm_history_cases(r, t, scale(t, 16, 100), &mut out);
            prefetch_api_cases(r, scale(t, 10, 40), &mut out);
            posraw_cases(r, t, &mut out);
            if t == Tier::Thorough {
                out.push(deepcode_case("hqwt", true));
            }
            // default-constructed and empty values, clones and deserialised copies of them
            for (b, pfs) in QWT_CFGS {
                for ty in TYS {
                    let mut c = Case::new("defaults");
                    c.tag("default-trees");
                    c.l(format!("cfg {} {} {} * {}", b, pfs as u8, ty.1, ty.0));
                    for fam in ["qwt", "hqwt", "wt", "hwt"] {
                        for (k, how) in ["default", "new", "from", "iter"].iter().enumerate() {
                            c.l(format!("mk {} {}:{}", k, fam, how));
                        }
                        c.l("mk 4 copy 0");
                        c.l("mk 5 serde 1");
                        for k in 0..6 {
                            for q in ["len", "is_empty", "n_levels", "get 0", "get 1", "rank 0 0", "rank 0 1", "rank 1 0", "rank 255 0", "select 0 0", "select 0 1", "select 1 0", "select 0 18446744073709551615", "iter", "into_iter", "iterhist nblnbl"] {
                                c.l(format!("q {} {}", k, q));
                            }
                            if fam == "qwt" {
                                c.l(format!("q {} sigma", k));
                            }
                            if fam == "qwt" || fam == "hqwt" {
                                for q in ["rank_prefetch 0 0", "rank_prefetch 3 1"] {
                                    c.l(format!("q {} {}", k, q));
                                }
                            }
                        }
                    }
                    out.push(c);
                }
            }
            let mut c = Case::new("defaults");
            c.tag("default-vectors");
            c.l("cfg 256 0 8 * u8");
            for mk in ["rsqdefault 256", "rsqdefault 512", "rsq 256", "rsq 512", "rsq:new 256", "rsq:fromqv 512"] {
                c.l(format!("mk 0 {}", mk));
                c.l("mk 1 copy 0");
                c.l("mk 2 serde 0");
                for k in 0..3 {
                    for q in ["len", "is_empty", "get 0", "rank 0 0", "rank 3 0", "rank 4 0", "rank 0 1", "select 0 0", "select 3 0", "select 4 0", "select 0 18446744073709551615", "occs 0", "occs 3", "occs 4", "occs 255", "occs_smaller 0", "occs_smaller 4", "iter"] {
                        c.l(format!("q {} {}", k, q));
                    }
                }
            }
            for mk in ["rsndefault", "rswdefault", "rsn 9", "rsw 9"] {
                c.l("mk 9 bvbits 0");
                c.l(format!("mk 0 {}", mk));
                c.l("mk 1 copy 0");
                c.l("mk 2 serde 0");
                for k in 0..3 {
                    for q in ["get 0", "rank1 0", "rank1 1", "rank0 0", "select1 0", "select0 0", "select1 18446744073709551615", "n_ones", "n_zeros"] {
                        c.l(format!("q {} {}", k, q));
                    }
                }
            }
            for s0 in [0, 1] {
                for mk in [format!("dadefault {}", s0), format!("da {} 9", s0), format!("dabits {} 0", s0), format!("dapos {}", s0)] {
                    c.l("mk 9 bvbits 0");
                    c.l(format!("mk 0 {}", mk));
                    c.l("mk 1 copy 0");
                    c.l("mk 2 serde 0");
                    for k in 0..3 {
                        for q in ["len", "is_empty", "count_ones", "count_zeros", "get 0", "select1 0", "select1 18446744073709551615", "ones", "zeros", "iter", "ones_with_pos 5", "zeros_with_pos 0"] {
                            c.l(format!("q {} {}", k, q));
                        }
                        c.l(format!("q {} select0 0", k)); // documented panic when s0 = 0
                    }
                }
            }
            c.l("mk 0 bvbits 0");
            c.l("mk 1 bvnew");
            c.l("mk 2 bvcap 0");
            c.l("mk 3 bvcap 1000");
            c.l("mk 4 bvzeros 0");
            for k in 0..5 {
                for q in ["len", "is_empty", "get 0", "count_ones", "count_zeros", "get_bits 0 1", "get_bits 0 0", "get_bits 18446744073709551615 1", "get_bits 18446744073709551615 64", "get_bits 1 18446744073709551615", "iter", "ones", "zeros", "ones_with_pos 0", "ones_with_pos 18446744073709551615", "zeros_with_pos 77", "into_iter"] {
                    c.l(format!("q {} {}", k, q));
                }
                c.l(format!("q {} get_word 0", k)); // documented panic
            }
            // documented panics of the mutators
            c.l("op 1 set 0 1");
            c.l("op 1 set_bits 0 1 1");
            c.l("op 1 append_bits 4 2");
            c.l("op 1 append_bits 1 65");
            c.l("op 1 append_bits 3 2");
            c.l("op 1 set_bits 0 2 7");
            c.l("op 1 set_bits 1 2 1");
            c.l("op 1 set 2 1");
            c.l("q 1 len");
            c.l("q 1 count_ones");
            c.l("mk 5 qv:u8");
            c.l("mk 6 qvb");
            for k in [5, 6] {
                for q in ["len", "is_empty", "get 0", "get 18446744073709551615", "iter"] {
                    c.l(format!("q {} {}", k, q));
                }
            }
            out.push(c);
        }
        _ => {}
    }
    // C10: every checked query of the case is repeated as a *pair* — the checked method and, when it answers
    // Some(v), its unchecked twin on the same arguments — so that all generators of valid and boundary
    // arguments (gap-adjacent selects, threshold blocks, deep codes, large scale) serve C10 as well
    if prop == "C10" {
        let twins = ["get", "rank", "select", "rank1", "rank0", "select1", "select0", "occs", "occs_smaller", "rank_prefetch", "get_bits"];
        for c in out.iter_mut() {
            let mut extra: Vec<String> = vec![];
            for l in &c.lines {
                let t: Vec<&str> = l.splitn(4, ' ').collect();
                if t.len() >= 3 && t[0] == "q" && twins.contains(&t[2]) {
                    extra.push(format!("q {} {}_pair{}", t[1], t[2], if t.len() > 3 { format!(" {}", t[3]) } else { String::new() }));
                }
            }
            c.lines.extend(extra);
        }
    }
    // C04: `Debug::fmt` is a safe public method of every structure: it must not panic on any reachable value
    // (called right after each construction: slots are reused inside a case)
    if prop == "C04" {
        let kinds = ["qwt", "hqwt", "wt", "hwt", "qv", "qvx", "qvpush", "rsq", "rsqdefault", "bvbits", "bvpos", "bvzpos", "bvnew", "bvzeros", "rsn", "rsw", "da", "dabits", "dapos", "dadefault", "rsndefault", "rswdefault", "copy", "serde"];
        for c in out.iter_mut() {
            if c.tags.iter().any(|t| t == "scale") {
                continue;
            }
            let mut lines: Vec<String> = Vec::with_capacity(c.lines.len() + 8);
            let mut budget = 24;
            for l in c.lines.drain(..) {
                let t: Vec<&str> = l.split(' ').collect();
                let dbg_slot = if t.len() >= 3 && t[0] == "mk" && kinds.contains(&t[2].split(':').next().unwrap_or("")) && l.len() < 400_000 { t[1].parse::<usize>().ok() } else { None };
                lines.push(l.clone());
                if let Some(k) = dbg_slot {
                    if budget > 0 {
                        lines.push(format!("q {} debug", k));
                        budget -= 1;
                    }
                }
            }
            c.lines = lines;
        }
    }
    // the properties quantify over every value / every reachable state: clones and deserialised copies too
    if ["C01", "C02", "C03", "C04", "C05", "C06", "C07", "C08", "C10", "C12", "C13"].contains(&prop) {
        reached_variants(r, 3, &mut out);
    }
    // C04: no history of iterator calls panics either (own generator state; appended at the end of the case)
    if prop == "C04" {
        for (ci, c) in out.iter_mut().enumerate() {
            // (short sequences only: a provided `nth(huge)` walks the whole remaining sequence)
            let is_tree = c.lines.iter().any(|l| (l.starts_with("mk 0 qwt") || l.starts_with("mk 0 hqwt") || l.starts_with("mk 0 wt") || l.starts_with("mk 0 hwt")) && l.len() < 12_000);
            if !is_tree || c.tags.iter().any(|t| t == "scale" || t == "deepcode") {
                continue;
            }
            let mut r2 = Rng::new(0x5EED_0003 ^ ((ci as u64) << 16) ^ seed);
            for _ in 0..3 {
                let hl = r2.range(1, 16) as usize;
                c.l(format!("q 0 iterhist {}", iter_history(&mut r2, hl, true)));
                let hl = r2.range(2, 16) as usize;
                c.l(format!("q 0 iterhist {}", meeting_history(&mut r2, hl)));
            }
        }
    }
    out
}
