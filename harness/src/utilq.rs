//! `u <fn> args` requests: the free functions of `qwt::utils`.
use crate::interp::{o_list, o_val};
use qwt::utils::*;

fn part<T>(vals: &[u128], shift: usize, four: bool, cast: fn(u128) -> T, back: fn(T) -> u128) -> String
where
    T: num_traits::Unsigned + num_traits::PrimInt + Ord + std::ops::Shr<usize> + num_traits::AsPrimitive<usize>,
    usize: num_traits::AsPrimitive<T>,
{
    let mut v: Vec<T> = vals.iter().map(|&x| cast(x)).collect();
    if four {
        stable_partition_of_4(&mut v, shift);
    } else {
        stable_partition_of_2(&mut v, shift);
    }
    o_list(v.into_iter().map(back))
}

fn partc<T>(vals: &[u128], shift: usize, four: bool, codes: &[qwt::quadwt::huffqwt::PrefixCode], cast: fn(u128) -> T, back: fn(T) -> u128) -> String
where
    T: num_traits::Unsigned + num_traits::PrimInt + Ord + std::ops::Shr<usize> + num_traits::AsPrimitive<usize>,
    usize: num_traits::AsPrimitive<T>,
{
    let mut v: Vec<T> = vals.iter().map(|&x| cast(x)).collect();
    if four {
        stable_partition_of_4_with_codes(&mut v, shift, codes);
    } else {
        stable_partition_of_2_with_codes(&mut v, shift, codes);
    }
    o_list(v.into_iter().map(back))
}

pub fn utils_q(f: &str, args: &[&str]) -> String {
    let n = |i: usize| -> u128 { args[i].parse::<u128>().unwrap() };
    match f {
        "select_in_word" => o_val(select_in_word(n(0) as u64, n(1) as u64) as usize),
        "select_in_word_u128" => o_val(select_in_word_u128(n(0), n(1) as u64) as usize),
        "popcnt_wide" => {
            let ws: Vec<u64> = args[1..].iter().map(|x| x.parse::<u64>().unwrap()).collect();
            let r = match n(0) {
                1 => popcnt_wide::<1>(&ws),
                2 => popcnt_wide::<2>(&ws),
                3 => popcnt_wide::<3>(&ws),
                4 => popcnt_wide::<4>(&ws),
                5 => popcnt_wide::<5>(&ws),
                6 => popcnt_wide::<6>(&ws),
                7 => popcnt_wide::<7>(&ws),
                8 => popcnt_wide::<8>(&ws),
                16 => popcnt_wide::<16>(&ws),
                31 => popcnt_wide::<31>(&ws),
                32 => popcnt_wide::<32>(&ws),
                33 => popcnt_wide::<33>(&ws),
                64 => popcnt_wide::<64>(&ws),
                100 => popcnt_wide::<100>(&ws),
                _ => popcnt_wide::<0>(&ws),
            };
            o_val(r)
        }
        "msb" => {
            let v = n(1);
            let r = match n(0) {
                8 => msb(v as u8),
                16 => msb(v as u16),
                32 => msb(v as u32),
                64 => msb(v as u64),
                _ => msb(v),
            };
            o_val(r as usize)
        }
        "part4" | "part2" => {
            let four = f == "part4";
            let shift = n(1) as usize;
            let vals: Vec<u128> = args[2..].iter().map(|x| x.parse().unwrap()).collect();
            match n(0) {
                8 => part::<u8>(&vals, shift, four, |x| x as u8, |x| x as u128),
                16 => part::<u16>(&vals, shift, four, |x| x as u16, |x| x as u128),
                32 => part::<u32>(&vals, shift, four, |x| x as u32, |x| x as u128),
                64 => part::<u64>(&vals, shift, four, |x| x as u64, |x| x as u128),
                _ => part::<u128>(&vals, shift, four, |x| x, |x| x),
            }
        }
        // u part4c <bits> <shift> <ncodes> (<content> <len>)* <vals…>: the `_with_codes` partitions called directly
        "part4c" | "part2c" => {
            let four = f == "part4c";
            let shift = n(1) as usize;
            let nc = n(2) as usize;
            let codes: Vec<qwt::quadwt::huffqwt::PrefixCode> =
                (0..nc).map(|i| qwt::quadwt::huffqwt::PrefixCode { content: n(3 + 2 * i) as u32, len: n(4 + 2 * i) as u32 }).collect();
            let vals: Vec<u128> = args[3 + 2 * nc..].iter().map(|x| x.parse().unwrap()).collect();
            match n(0) {
                8 => partc::<u8>(&vals, shift, four, &codes, |x| x as u8, |x| x as u128),
                16 => partc::<u16>(&vals, shift, four, &codes, |x| x as u16, |x| x as u128),
                32 => partc::<u32>(&vals, shift, four, &codes, |x| x as u32, |x| x as u128),
                64 => partc::<u64>(&vals, shift, four, &codes, |x| x as u64, |x| x as u128),
                _ => partc::<u128>(&vals, shift, four, &codes, |x| x, |x| x),
            }
        }
        // u posraw <bit> <n_bits> <pos|-> <words…>: BitVectorBitPositionsIter over a caller-supplied slice
        // (`-` = `new`, otherwise `with_pos`); the positions, then three more calls after the first None
        "posraw" => {
            let ws: Vec<u64> = args[3..].iter().map(|x| x.parse::<u64>().unwrap()).collect();
            let nb = n(1) as usize;
            fn drain<I: Iterator<Item = usize>>(mut it: I) -> String {
                let mut v = vec![];
                while let Some(p) = it.next() {
                    v.push(p as u128);
                }
                let after: Vec<String> = [it.next(), it.next(), it.next()].iter().map(|x| crate::interp::o_opt(*x)).collect();
                format!("{} {}", o_list(v), after.join(" "))
            }
            use qwt::bitvector::BitVectorBitPositionsIter as PI;
            match (n(0) == 1, args[2]) {
                (true, "-") => drain(PI::<true>::new(&ws, nb)),
                (false, "-") => drain(PI::<false>::new(&ws, nb)),
                (true, _) => drain(PI::<true>::with_pos(&ws, nb, n(2) as usize)),
                (false, _) => drain(PI::<false>::with_pos(&ws, nb, n(2) as usize)),
            }
        }
        // u pcrt (<content> <len>)*: bincode round trip of stand-alone `PrefixCode` values (a public serialisable
        // struct with public fields: every value is constructible) and of a vector of them
        "pcrt" => {
            use qwt::quadwt::huffqwt::PrefixCode;
            let codes: Vec<PrefixCode> = (0..args.len() / 2).map(|i| PrefixCode { content: n(2 * i) as u32, len: n(2 * i + 1) as u32 }).collect();
            let mut okv = true;
            for c in &codes {
                let b = bincode::serialize(c).unwrap();
                okv &= matches!(bincode::deserialize::<PrefixCode>(&b), Ok(ref d) if d == c);
            }
            let b = bincode::serialize(&codes).unwrap();
            okv &= matches!(bincode::deserialize::<Vec<PrefixCode>>(&b), Ok(ref d) if *d == codes);
            o_val(okv as usize)
        }
        "text_remap" => {
            let mut v: Vec<u8> = args.iter().map(|x| x.parse::<u8>().unwrap()).collect();
            let d = text_remap(&mut v);
            o_list(std::iter::once(d as u128).chain(v.into_iter().map(|x| x as u128)))
        }
        // prefetch_read_NTA on a slice of `n(0)` words (0 = empty slice) at an arbitrary offset
        "prefetch_nta" => {
            let data: Vec<u64> = vec![0x5555_5555_5555_5555; n(0) as usize];
            prefetch_read_NTA(&data, n(1) as usize);
            let d128: Vec<u128> = vec![7; n(0) as usize];
            prefetch_read_NTA(&d128, n(1) as usize);
            "U".into()
        }
        "lens_ok" => "V:1".into(),
        _ => "bad-op".into(),
    }
}
