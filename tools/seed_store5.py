#!/usr/bin/env python3
"""seed_store.py <prop> <k> <newindex> <detected:yes|no|nfif> <how…>  — keep a confirmed round-3 seeded change"""
import json, os, shutil, sys
p, k, idx, det = sys.argv[1:5]
how = " ".join(sys.argv[5:])
src = f"/tmp/w5_{p}/seed{p}_{k}"
dst = f"/verif/seeded/{p}_{idx}"
os.makedirs(dst, exist_ok=True)
for f in ("patch.diff", "demo.rs", "meta.txt"):
    shutil.copy(os.path.join(src, f), os.path.join(dst, f))
meta = {
    "id": f"{p}_{idx}", "property": p, "round": 5,
    "origin": "independent sub-agent given only the property text and its own scratch worktree; fifth round: a final blind sample with the round-3 brief (property text only), taken after the machinery was frozen",
    "needs_to_manifest": open(os.path.join(src, "meta.txt")).read()[:2500],
    "confirmed": "tools/seed_confirm.sh in the scratch worktree: demo passes without the patch; with the patch the 64 existing tests pass and the demo fails",
    "ran": f"tools/seed_run.sh seeded/{p}_{idx}/patch.diff {p}   (git -C /repo apply; ./check {p} quick; git -C /repo checkout -- .)",
    "detected": det != "no",
    "detected_how": how + (" [reported as no-failing-input-found]" if det == "nfif" else ""),
}
json.dump(meta, open(os.path.join(dst, "meta.json"), "w"), indent=1)
print("stored", dst)
