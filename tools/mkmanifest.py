#!/usr/bin/env python3
"""Regenerates MANIFEST.json from lean/obligations.json and tools/manifest_notes.json."""
import json, os
ROOT = os.path.normpath(os.path.join(os.path.dirname(os.path.abspath(__file__)), ".."))
ob = json.load(open(os.path.join(ROOT, "lean", "obligations.json")))
notes = json.load(open(os.path.join(ROOT, "tools", "manifest_notes.json")))
hooks_commits = notes["hook_commits"]
checks, na = [], []
for i in range(1, 20):
    pid = f"C{i:02d}"
    o = ob.get(pid, {})
    n = notes["props"][pid]
    if o.get("theorems") or o.get("partial"):
        checks.append({
            "property_id": pid,
            "quick_cmd": f"./check {pid} quick",
            "thorough_cmd": f"./check {pid} thorough",
            "evidence_file": f"evidence/{pid}.json",
            "replay_cmd_template": f"./check {pid} --replay {{path}}",
            "engine": "lean4-proof+correspondence",
            "level_claimed": {"category": "proof", "text": n["level_text"], "design_ref": f"DESIGN.md §7 {pid}"},
            "level_note": n["level_note"],
            "technique": "machine-checked proof in Lean 4 about a hand-written executable model; model tied to the code by extracted constants and a differential correspondence check (outcomes, private state via serde, bincode bytes, heap numbers)",
        })
    else:
        na.append({"property_id": pid, "reason": "not yet claimed: theorems for this property are still being written (its correspondence check `./check %s quick` exists and passes); Lean proof applies" % pid})
m = {
    "version": 1,
    "setup_cmd": "./setup.sh",
    "hooks": {
        "guard": "--cfg qwt_verif",
        "enable": "harness/.cargo/config.toml sets rustflags = [\"--cfg\", \"qwt_verif\"]; the harness crate depends on /repo by path, every check runs `cargo build` first",
        "baseline_off_cmd": "cd /repo && cargo test --workspace --no-fail-fast --offline",
        "source_commits": hooks_commits,
        "add_only": True,
    },
    "engines": [{"name": "lean4-proof+correspondence", "path": "check", "serves_properties": [c["property_id"] for c in checks],
                 "kind_free_text": "Lean 4 theorems (lean/Qwt/Props) about the model (lean/Qwt/Model); tools/extract.py regenerates constants from the source; harness/ runs the real crate and the compiled model on the same scripts"}],
    "checks": checks,
    "not_applicable": na,
    "notes": "See DESIGN.md. Known findings: known_findings.json. Every check exits 1 with a VIOLATION line on a violation; a broken proof/correspondence without a failing input ends the line with no-failing-input-found.",
}
json.dump(m, open(os.path.join(ROOT, "MANIFEST.json"), "w"), indent=1)
print("claimed:", [c["property_id"] for c in checks])
