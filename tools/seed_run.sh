#!/bin/bash
# usage: seed_run.sh <patch.diff> <prop> [more props]  — applies the change to /repo, runs the checks, undoes it
PATCH=$1; shift
git -C /repo apply "$PATCH" || { echo "PATCH DOES NOT APPLY to /repo"; exit 3; }
for p in "$@"; do
  (cd /verif && ./check $p quick 2>&1 | grep -E "VIOLATION|quick:|KNOWN" | cut -c1-400)
done
git -C /repo checkout -- .
git -C /repo status --short | head -3
