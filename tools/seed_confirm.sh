#!/bin/bash
# usage: seed_confirm.sh <worktree> <seeddir>   — confirms a seeded change in the scratch worktree
set -u
WT=$1; SD=$2
cd "$WT" || exit 2
git checkout -q -- . ; rm -f tests/demo_seed.rs
mkdir -p tests; cp "$SD/demo.rs" tests/demo_seed.rs
export CARGO_NET_OFFLINE=true
echo "== without patch: demo"
cargo test --offline --test demo_seed 2>&1 | grep -E "^test result|panicked" | head -3
git apply "$SD/patch.diff" || { echo "PATCH DOES NOT APPLY"; exit 3; }
echo "== with patch: existing suite"
cargo test --offline --lib 2>&1 | grep -E "^test result" | head -2
echo "== with patch: demo"
cargo test --offline --test demo_seed 2>&1 | grep -E "^test result|panicked" | head -4
git checkout -q -- . ; rm -f tests/demo_seed.rs; rmdir tests 2>/dev/null
rm -f example.qwt256 example.hqwt256
