#!/bin/bash
# usage: seed_batch.sh <prop> ...   (seeds under /tmp/wt_<prop>/seed<prop>_<k>)
for p in "$@"; do
  for k in 1 2; do
    SD=/tmp/wt_$p/seed${p}_$k
    [ -f $SD/patch.diff ] || continue
    echo "######## $p seed $k"
    /verif/tools/seed_confirm.sh /tmp/wt_$p $SD 2>&1 | grep -E "==|test result|DOES NOT" 
    /verif/tools/seed_run.sh $SD/patch.diff $p
  done
done
