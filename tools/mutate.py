#!/usr/bin/env python3
"""Mutation self-test of the checks (an experiment tool, never part of a verdict).

  mutate.py gen [--per-file N] [--seed S]     enumerate mutation sites of /repo/src, print JSON lines
  mutate.py run <mutants.jsonl> <worker> <nworkers> <outdir>
        worker k takes every nworkers-th mutant: applies it in a private copy of /repo (HEAD), keeps it only if
        the crate still compiles and the 64 unit tests pass, then runs the quick checks of the properties
        anchored in the mutated file against that copy (private copy of /verif as well) and records whether
        one of them reports a violation.  Survivors are either equivalent mutants or holes in the checks.
"""
import json
import os
import random
import re
import subprocess
import sys

REPO = "/repo"
FILES = {
    "src/utils/mod.rs": ["C17", "C01", "C03"],
    "src/qvector/mod.rs": ["C13", "C05"],
    "src/qvector/rs_qvector.rs": ["C05", "C01"],
    "src/qvector/rs_qvector/rs_support_plain.rs": ["C05", "C01"],
    "src/bitvector/mod.rs": ["C08", "C06"],
    "src/bitvector/rs_narrow.rs": ["C06", "C09"],
    "src/bitvector/rs_wide.rs": ["C06", "C03"],
    "src/darray/mod.rs": ["C07"],
    "src/quadwt/mod.rs": ["C01", "C09"],
    "src/quadwt/huffqwt.rs": ["C02", "C09"],
    "src/quadwt/prefetch_support.rs": ["C09"],
    "src/binwt/mod.rs": ["C03"],
    "src/lib.rs": ["C12", "C06"],
    "src/space_usage/mod.rs": ["C16"],
}
SECOND = ["C04", "C10", "C11", "C12", "C14", "C16", "C19"]

OPS = [
    (r" < ", " <= "), (r" <= ", " < "), (r" > ", " >= "), (r" >= ", " > "),
    (r" == ", " != "), (r" != ", " == "),
    (r" \+ ", " - "), (r" - ", " + "), (r" \* ", " + "), (r" / ", " * "), (r" % ", " / "),
    (r" >> ", " << "), (r" << ", " >> "), (r" & ", " | "), (r" \| ", " & "),
    (r" && ", " || "), (r" \|\| ", " && "),
    (r" \+= ", " -= "), (r" -= ", " += "), (r" \|= ", " &= "),
    (r" \+ 1\b", ""), (r" - 1\b", ""), (r" \+ 1\b", " + 2"), (r" - 1\b", " - 2"),
    (r"!self\.", "self."), (r"\bif !", "if "),
]
LIT = re.compile(r"(?<![\w.#'\"])(\d+)(?![\w.'\"])")


def code_lines(path):
    """(line_no, text) of lines inside fn bodies that are worth mutating"""
    out = []
    with open(os.path.join(REPO, path)) as f:
        lines = f.read().split("\n")
    skip_depth = None
    depth = 0
    for i, l in enumerate(lines):
        code = l.split("//")[0]
        st = code.strip()
        if skip_depth is None and re.search(r"\bmod tests\b|pub mod verif_hooks|#\[cfg\(qwt_verif\)\]|const K_SELECT_IN_BYTE", code):
            skip_depth = depth
            if "{" not in code and "[" not in code:
                # attribute line: skip the following item as well
                pass
        opened = code.count("{") + code.count("[")
        closed = code.count("}") + code.count("]")
        if skip_depth is not None:
            depth += opened - closed
            if depth <= skip_depth and (closed > 0) and not re.search(r"#\[cfg\(qwt_verif\)\]", code):
                skip_depth = None
            continue
        depth += opened - closed
        if not st or st.startswith(("#", "///", "//", "use ", "pub use", "mod ", "pub mod", "where", "impl", "pub struct", "struct", "type ", "pub type")):
            continue
        if re.search(r"\b(debug_assert|assert|println|dbg|write!|panic|unreachable|expect)\b", st):
            continue
        if re.match(r"(pub(\([a-z]+\))? )?(unsafe )?(const )?fn ", st) or st.startswith(("T:", "usize:", "RS:", "BRS:", "S:")):
            continue
        out.append((i, l))
    return out


def gen(per_file, seed):
    rnd = random.Random(seed)
    allm = []
    for path in FILES:
        ms = []
        for i, l in code_lines(path):
            code = l.split("//")[0]
            for pat, rep in OPS:
                for m in re.finditer(pat, code):
                    new = code[:m.start()] + rep + code[m.end():]
                    ms.append({"file": path, "line": i + 1, "old": l, "new": new + l[len(code):], "op": f"{pat.strip()}→{rep.strip()}"})
            for m in LIT.finditer(code):
                v = int(m.group(1))
                if v > 1 << 20:
                    continue
                for nv in ([v + 1] if v == 0 else [v + 1, v - 1]):
                    new = code[:m.start()] + str(nv) + code[m.end():]
                    ms.append({"file": path, "line": i + 1, "old": l, "new": new + l[len(code):], "op": f"lit {v}→{nv}"})
        rnd.shuffle(ms)
        allm += ms[:per_file] if per_file else ms
    rnd.shuffle(allm)
    for k, m in enumerate(allm):
        m["id"] = k
        print(json.dumps(m))


def sh(cmd, cwd=None, env=None, timeout=1800):
    try:
        p = subprocess.run(cmd, cwd=cwd, env=env, stdout=subprocess.PIPE, stderr=subprocess.STDOUT, timeout=timeout, shell=isinstance(cmd, str))
        return p.returncode, p.stdout.decode("utf-8", "replace")
    except subprocess.TimeoutExpired:
        return 124, "timeout"


def run(mfile, worker, nworkers, outdir):
    os.makedirs(outdir, exist_ok=True)
    D = os.path.join(outdir, f"w{worker}")
    repo = os.path.join(D, "repo")
    ver = os.path.join(D, "verif")
    env = dict(os.environ, CARGO_NET_OFFLINE="true", QWT_REPO=repo, VERIF_WORK=os.path.join(ver, "work"),
               VERIF_EVIDENCE_DIR=os.path.join(ver, "evidence"))
    if not os.path.isdir(repo):
        os.makedirs(D, exist_ok=True)
        sh(["git", "-C", REPO, "worktree", "add", "-q", "--detach", repo, "HEAD"])
    sh(f"rsync -a --delete --exclude work --exclude .git --exclude evidence /verif/ {ver}/")
    sh(f"sed -i 's#path = \"/repo\"#path = \"{repo}\"#' {ver}/harness/Cargo.toml")
    os.makedirs(os.path.join(ver, "evidence"), exist_ok=True)
    res_p = os.path.join(outdir, f"results_{worker}.jsonl")
    done = set()
    if os.path.exists(res_p):
        for l in open(res_p):
            done.add(json.loads(l)["id"])
    with open(mfile) as f:
        muts = [json.loads(l) for l in f]
    for m in muts:
        if m["id"] % nworkers != worker or m["id"] in done:
            continue
        sh(["git", "-C", repo, "checkout", "--", "."])
        p = os.path.join(repo, m["file"])
        with open(p) as f:
            lines = f.read().split("\n")
        if lines[m["line"] - 1] != m["old"]:
            continue
        lines[m["line"] - 1] = m["new"]
        with open(p, "w") as f:
            f.write("\n".join(lines))
        rc, out = sh(["cargo", "test", "--offline", "--lib"], cwd=repo, env=env, timeout=900)
        rec = dict(m)
        if rc != 0:
            rec["status"] = "no-compile" if "error" in out and "test result" not in out else "killed-by-tests"
        else:
            rec["status"] = "survived"
            rec["checks"] = {}
            for tier_props in (FILES[m["file"]], SECOND):
                for pid in tier_props:
                    if pid in rec["checks"]:
                        continue
                    rc, out = sh(["./check", pid, "quick"], cwd=ver, env=env, timeout=1500)
                    v = [l for l in out.splitlines() if l.startswith("VIOLATION")]
                    rec["checks"][pid] = ("nfif" if v and v[0].endswith("no-failing-input-found") else "violation") if (rc != 0 or v) else "pass"
                    if rc != 0 or v:
                        rec["status"] = "detected"
                        rec["by"] = pid
                        break
                if rec["status"] == "detected":
                    break
        with open(res_p, "a") as f:
            f.write(json.dumps(rec) + "\n")
    sh(["git", "-C", repo, "checkout", "--", "."])


if __name__ == "__main__":
    if sys.argv[1] == "gen":
        pf = 0
        seed = 1
        a = sys.argv[2:]
        while a:
            if a[0] == "--per-file":
                pf = int(a[1]); a = a[2:]
            elif a[0] == "--seed":
                seed = int(a[1]); a = a[2:]
            else:
                a = a[1:]
        gen(pf, seed)
    else:
        run(sys.argv[2], int(sys.argv[3]), int(sys.argv[4]), sys.argv[5])
