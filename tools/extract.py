#!/usr/bin/env python3
"""Translator: re-reads constants and tables from /repo/src and writes
lean/Qwt/Extracted.lean.  Run at the start of every check, so that the Lean model and the
theorems that depend on these values are re-checked against what the source says *now*.

A constant that cannot be located is an error (exit 2, message names it): it is a broken
tie between model and code, never silently defaulted.
"""
import os
import re
import sys

REPO = os.environ.get("QWT_REPO", "/repo")
OUT = os.path.join(os.path.dirname(os.path.abspath(__file__)), "..", "lean", "Qwt", "Extracted.lean")


class Missing(Exception):
    pass


def read(rel):
    p = os.path.join(REPO, rel)
    try:
        with open(p) as f:
            return f.read()
    except OSError:
        raise Missing(f"file {rel}")


def strip_comments(src):
    src = re.sub(r"/\*.*?\*/", "", src, flags=re.S)
    return re.sub(r"//[^\n]*", "", src)


def ev(expr, env):
    """evaluate a Rust integer constant expression over + - * / % << >> | & ^, parentheses, literals in any
    base with or without type suffix / digit separators, `as <int type>` casts, and names of earlier constants"""
    e = re.sub(r"\bas\s+(u8|u16|u32|u64|u128|usize|i8|i16|i32|i64|i128|isize)\b", "", expr)

    def lit(m):
        t = re.sub(r"_?(u8|u16|u32|u64|u128|usize|i8|i16|i32|i64|i128|isize)$", "", m.group(0))
        t = t.replace("_", "")
        return str(int(t, 0))

    e = re.sub(r"\b(0x[0-9a-fA-F_]+|0b[01_]+|0o[0-7_]+|[0-9][0-9_]*)(_?(u8|u16|u32|u64|u128|usize|i8|i16|i32|i64|i128|isize))?\b", lit, e)
    e = re.sub(r"\b(Self|self|super|crate)::", "", e)
    e = re.sub(r"\b[A-Za-z_][A-Za-z0-9_]*::(?=[A-Z_][A-Z0-9_]*\b)", "", e)   # module-qualified constants
    if not re.fullmatch(r"[\sA-Za-z0-9_+\-*/%()<>|&^]*", e):
        raise Missing(f"unsupported constant expression {expr!r}")
    e = e.replace("/", "//")
    try:
        return int(eval(e, {"__builtins__": {}}, dict(env)))
    except Exception:
        raise Missing(f"cannot evaluate constant expression {expr!r}")


def consts(src, names, label, env=None):
    env = dict(env or {})
    out = {}
    src = strip_comments(src)
    for n in names:
        ms = re.findall(r"\b(?:const|static)\s+" + n + r"\s*:\s*\w+\s*=\s*([^;]+);", src)
        if not ms:
            raise Missing(f"{label}::{n}")
        vals = {ev(m, env) for m in ms}
        if len(vals) != 1:
            raise Missing(f"{label}::{n} has conflicting definitions {sorted(vals)}")
        out[n] = vals.pop()
        env[n] = out[n]
    return out


def baseline():
    """values of the committed / previous Extracted.lean (the values the model was last validated with)"""
    vals, table = {}, None
    try:
        with open(os.path.normpath(OUT)) as f:
            txt = f.read()
    except OSError:
        return vals, table
    for m in re.finditer(r"^def (\w+) : Nat := (\d+)$", txt, flags=re.M):
        vals[m.group(1)] = int(m.group(2))
    m = re.search(r"def kSelectInByte : Array Nat := #\[(.*?)\]", txt, flags=re.S)
    if m:
        table = [int(x) for x in re.findall(r"\d+", m.group(1))]
    return vals, table


FALLBACKS = []


def item(names, fn, base):
    """run one extraction step; when the source no longer has the item in a recognisable form, keep the
    previous value(s) and record the fact: the model then describes the code the proofs were last checked
    against, and only the correspondence run ties it to the current source"""
    try:
        return fn()
    except Missing as e:
        if all(n in base for n in names):
            FALLBACKS.append(str(e))
            return {n: base[n] for n in names}
        raise


def main():
    base, base_table = baseline()
    d = {}
    # ---------------------------------------------------------------- utils
    u = read("src/utils/mod.rs")
    m = re.search(r"(?:const|static)\s+K_SELECT_IN_BYTE\s*:\s*\[u8;\s*([^\]]+)\]\s*=\s*\[(.*?)\];", strip_comments(u), flags=re.S)
    table = None
    if m:
        table = [int(x, 0) for x in re.findall(r"0x[0-9a-fA-F]+|\d+", m.group(2))]
        try:
            if len(table) != ev(m.group(1), {}):
                table = None
        except Missing:
            pass
    if table is None:
        if base_table is None:
            raise Missing("utils::K_SELECT_IN_BYTE")
        FALLBACKS.append("utils::K_SELECT_IN_BYTE")
        table = base_table
    uc = strip_comments(u)

    def broadword():
        out = {}
        for n, ln in (("k_ones_step4", "kOnesStep4"), ("k_ones_step8", "kOnesStep8"), ("k_lambdas_step8", "kLambdasStep8")):
            mm = re.search(r"(?:let|const)\s+(?i:" + n + r")\s*(?::\s*u64\s*)?=\s*([^;]+);", uc)
            if not mm:
                raise Missing(f"utils::select_in_word::{n}")
            out[ln] = ev(mm.group(1), {})
        return out
    bw = item(["kOnesStep4", "kOnesStep8", "kLambdasStep8"], broadword, base)
    d["k_ones_step4"], d["k_ones_step8"], d["k_lambdas_step8"] = bw["kOnesStep4"], bw["kOnesStep8"], bw["kLambdasStep8"]
    # ---------------------------------------------------------------- rs_support_plain
    r = read("src/qvector/rs_qvector/rs_support_plain.rs")

    def rsq_consts():
        rc_ = consts(r, ["SELECT_NUM_SAMPLES", "BLOCKS_IN_SUPERBLOCK"], "rs_support_plain")
        return {"rsqSelectNumSamples": rc_["SELECT_NUM_SAMPLES"], "rsqBlocksInSuperblock": rc_["BLOCKS_IN_SUPERBLOCK"]}
    rcx = item(["rsqSelectNumSamples", "rsqBlocksInSuperblock"], rsq_consts, base)
    rc = {"SELECT_NUM_SAMPLES": rcx["rsqSelectNumSamples"], "BLOCKS_IN_SUPERBLOCK": rcx["rsqBlocksInSuperblock"]}

    def len_limit():
        # assert!(qv.len() < (1 << 43)) -- the bound may be written as any constant expression (or a named constant)
        rs_env = dict(rc)
        for cn, ce in re.findall(r"\b(?:const|static)\s+([A-Z_][A-Z0-9_]*)\s*:\s*\w+\s*=\s*([^;]+);", strip_comments(r)):
            try:
                rs_env.setdefault(cn, ev(ce, rs_env))
            except Missing:
                pass
        mm = re.search(r"assert!\(\s*qv\.len\(\)\s*<\s*((?:[^(),]|\([^()]*\))+?)\s*[,)]", strip_comments(r))
        if not mm:
            raise Missing("rs_support_plain::new length limit")
        lim = ev(mm.group(1), rs_env)
        if lim <= 0 or lim & (lim - 1):
            raise Missing(f"rs_support_plain::new length limit {lim} is not a power of two")
        return {"rsqLenLimitLog": lim.bit_length() - 1}
    d["RSQ_LEN_LIMIT_LOG"] = item(["rsqLenLimitLog"], len_limit, base)["rsqLenLimitLog"]
    q = strip_comments(read("src/qvector/rs_qvector.rs"))

    def aliases():
        out = {}
        for n, ln in (("RSQVector256", "rsq256Block"), ("RSQVector512", "rsq512Block")):
            mm = re.search(r"pub\s+type\s+" + n + r"\s*=\s*RSQVector<\s*RSSupportPlain<\s*([^>]+?)\s*>\s*>", q)
            if not mm:
                raise Missing(f"rs_qvector::{n}")
            out[ln] = ev(mm.group(1), {})
        return out
    al = item(["rsq256Block", "rsq512Block"], aliases, base)
    d["RSQVector256_BLOCK"], d["RSQVector512_BLOCK"] = al["rsq256Block"], al["rsq512Block"]
    qv = read("src/qvector/mod.rs")
    qc = {"N_BITS_WORD": item(["qvNBitsWord"], lambda: {"qvNBitsWord": consts(qv, ["N_BITS_WORD"], "qvector")["N_BITS_WORD"]}, base)["qvNBitsWord"]}
    # ---------------------------------------------------------------- rs_narrow / rs_wide

    def narrow():
        c_ = consts(read("src/bitvector/rs_narrow.rs"), ["BLOCK_SIZE", "SELECT_ONES_PER_HINT", "SELECT_ZEROS_PER_HINT"], "rs_narrow")
        return {"narrowBlockSize": c_["BLOCK_SIZE"], "narrowOnesPerHint": c_["SELECT_ONES_PER_HINT"], "narrowZerosPerHint": c_["SELECT_ZEROS_PER_HINT"]}
    nrx = item(["narrowBlockSize", "narrowOnesPerHint", "narrowZerosPerHint"], narrow, base)
    nr = {"BLOCK_SIZE": nrx["narrowBlockSize"], "SELECT_ONES_PER_HINT": nrx["narrowOnesPerHint"], "SELECT_ZEROS_PER_HINT": nrx["narrowZerosPerHint"]}

    def wide():
        c_ = consts(read("src/bitvector/rs_wide.rs"), ["BLOCK_SIZE", "SUPERBLOCK_SIZE", "SELECT_ONES_PER_HINT", "SELECT_ZEROS_PER_HINT"], "rs_wide")
        return {"wideBlockSize": c_["BLOCK_SIZE"], "wideSuperblockSize": c_["SUPERBLOCK_SIZE"], "wideOnesPerHint": c_["SELECT_ONES_PER_HINT"], "wideZerosPerHint": c_["SELECT_ZEROS_PER_HINT"]}
    wdx = item(["wideBlockSize", "wideSuperblockSize", "wideOnesPerHint", "wideZerosPerHint"], wide, base)
    wd = {"BLOCK_SIZE": wdx["wideBlockSize"], "SUPERBLOCK_SIZE": wdx["wideSuperblockSize"], "SELECT_ONES_PER_HINT": wdx["wideOnesPerHint"], "SELECT_ZEROS_PER_HINT": wdx["wideZerosPerHint"]}
    # ---------------------------------------------------------------- darray

    def darray():
        src_d = read("src/darray/mod.rs")
        c_ = consts(src_d, ["BLOCK_SIZE", "SUBBLOCK_SIZE"], "darray")
        # the distance constant has been spelled with and without its typo
        for nm in ("MAX_IN_BLOCK_DISTACE", "MAX_IN_BLOCK_DISTANCE"):
            try:
                c_["MAX"] = consts(src_d, [nm], "darray", c_)[nm]
                break
            except Missing:
                pass
        if "MAX" not in c_:
            raise Missing("darray::MAX_IN_BLOCK_DISTACE")
        return {"daBlockSize": c_["BLOCK_SIZE"], "daSubblockSize": c_["SUBBLOCK_SIZE"], "daMaxInBlockDistance": c_["MAX"]}
    dax = item(["daBlockSize", "daSubblockSize", "daMaxInBlockDistance"], darray, base)
    da = {"BLOCK_SIZE": dax["daBlockSize"], "SUBBLOCK_SIZE": dax["daSubblockSize"], "MAX_IN_BLOCK_DISTACE": dax["daMaxInBlockDistance"]}
    # ---------------------------------------------------------------- prefetch sampling shift

    def pfs_shift():
        shifts = set()
        for f in ("src/quadwt/mod.rs", "src/quadwt/huffqwt.rs"):
            src_f = strip_comments(read(f))
            ms = re.findall(r"PrefetchSupport::new\(\s*&\s*\w+\s*,\s*([^()]+?)\s*\)", src_f)
            if not ms:
                raise Missing(f"{f}: PrefetchSupport::new sampling shift")
            f_env = {}
            for cn, ce in re.findall(r"\b(?:const|static)\s+([A-Z_][A-Z0-9_]*)\s*:\s*\w+\s*=\s*([^;]+);", src_f):
                try:
                    f_env.setdefault(cn, ev(ce, f_env))
                except Missing:
                    pass
            shifts |= {ev(x, f_env) for x in ms}
        if len(shifts) != 1:
            raise Missing(f"prefetch sampling shift differs between call sites: {sorted(shifts)}")
        return {"pfsSampleShift": shifts.pop()}
    shifts = {item(["pfsSampleShift"], pfs_shift, base)["pfsSampleShift"]}

    L = []
    L.append("/- GENERATED by tools/extract.py from the Rust sources on every run. Do not edit. -/")
    L.append("namespace Qwt.Extracted")
    L.append("")
    L.append("def kSelectInByte : Array Nat := #[")
    for i in range(0, len(table), 32):
        L.append("  " + ", ".join(str(x) for x in table[i:i + 32]) + ("," if i + 32 < len(table) else ""))
    L.append("]")
    L.append("")

    def put(name, val):
        L.append(f"def {name} : Nat := {val}")

    put("kOnesStep4", d["k_ones_step4"])
    put("kOnesStep8", d["k_ones_step8"])
    put("kLambdasStep8", d["k_lambdas_step8"])
    put("rsqSelectNumSamples", rc["SELECT_NUM_SAMPLES"])
    put("rsqBlocksInSuperblock", rc["BLOCKS_IN_SUPERBLOCK"])
    put("rsqLenLimitLog", d["RSQ_LEN_LIMIT_LOG"])
    put("rsq256Block", d["RSQVector256_BLOCK"])
    put("rsq512Block", d["RSQVector512_BLOCK"])
    put("qvNBitsWord", qc["N_BITS_WORD"])
    put("narrowBlockSize", nr["BLOCK_SIZE"])
    put("narrowOnesPerHint", nr["SELECT_ONES_PER_HINT"])
    put("narrowZerosPerHint", nr["SELECT_ZEROS_PER_HINT"])
    put("wideBlockSize", wd["BLOCK_SIZE"])
    put("wideSuperblockSize", wd["SUPERBLOCK_SIZE"])
    put("wideOnesPerHint", wd["SELECT_ONES_PER_HINT"])
    put("wideZerosPerHint", wd["SELECT_ZEROS_PER_HINT"])
    put("daBlockSize", da["BLOCK_SIZE"])
    put("daSubblockSize", da["SUBBLOCK_SIZE"])
    put("daMaxInBlockDistance", da["MAX_IN_BLOCK_DISTACE"])
    put("pfsSampleShift", shifts.pop())
    L.append("")
    L.append("end Qwt.Extracted")
    text = "\n".join(L) + "\n"
    out = os.path.normpath(OUT)
    old = None
    try:
        with open(out) as f:
            old = f.read()
    except OSError:
        pass
    if old != text:  # keep mtime stable when nothing changed (incremental lake build)
        with open(out, "w") as f:
            f.write(text)
        print("extract: Extracted.lean rewritten")
    else:
        print("extract: Extracted.lean unchanged")
    for fb in FALLBACKS:
        print(f"EXTRACT-FALLBACK: {fb} not found in a recognisable form; the previously extracted value is kept")


if __name__ == "__main__":
    try:
        main()
    except Missing as e:
        print(f"EXTRACT-MISSING: {e}")
        sys.exit(2)
