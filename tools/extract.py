#!/usr/bin/env python3
"""Translator: re-reads constants and tables from /repo/src and writes
lean/Qwt/Extracted.lean.  Run at the start of every check, so that the Lean model and the
theorems that depend on these values are re-checked against what the source says *now*.

A constant that cannot be located is an error (exit 2, message names it): it is a broken
tie between model and code, never silently defaulted.
"""
import os
import re
import sys

REPO = os.environ.get("QWT_REPO", "/repo")
OUT = os.path.join(os.path.dirname(os.path.abspath(__file__)), "..", "lean", "Qwt", "Extracted.lean")


class Missing(Exception):
    pass


def read(rel):
    p = os.path.join(REPO, rel)
    try:
        with open(p) as f:
            return f.read()
    except OSError:
        raise Missing(f"file {rel}")


def strip_comments(src):
    src = re.sub(r"/\*.*?\*/", "", src, flags=re.S)
    return re.sub(r"//[^\n]*", "", src)


def ev(expr, env):
    """evaluate a Rust integer constant expression over + - * / % << >> | & ^, parentheses, literals in any
    base with or without type suffix / digit separators, `as <int type>` casts, and names of earlier constants"""
    e = re.sub(r"\bas\s+(u8|u16|u32|u64|u128|usize|i8|i16|i32|i64|i128|isize)\b", "", expr)

    def lit(m):
        t = re.sub(r"_?(u8|u16|u32|u64|u128|usize|i8|i16|i32|i64|i128|isize)$", "", m.group(0))
        t = t.replace("_", "")
        return str(int(t, 0))

    e = re.sub(r"\b(0x[0-9a-fA-F_]+|0b[01_]+|0o[0-7_]+|[0-9][0-9_]*)(_?(u8|u16|u32|u64|u128|usize|i8|i16|i32|i64|i128|isize))?\b", lit, e)
    e = re.sub(r"\b(Self|self|super|crate)::", "", e)
    e = re.sub(r"\b[A-Za-z_][A-Za-z0-9_]*::(?=[A-Z_][A-Z0-9_]*\b)", "", e)   # module-qualified constants
    if not re.fullmatch(r"[\sA-Za-z0-9_+\-*/%()<>|&^]*", e):
        raise Missing(f"unsupported constant expression {expr!r}")
    e = e.replace("/", "//")
    try:
        return int(eval(e, {"__builtins__": {}}, dict(env)))
    except Exception:
        raise Missing(f"cannot evaluate constant expression {expr!r}")


def consts(src, names, label, env=None):
    env = dict(env or {})
    out = {}
    src = strip_comments(src)
    for n in names:
        ms = re.findall(r"\b(?:const|static)\s+" + n + r"\s*:\s*\w+\s*=\s*([^;]+);", src)
        if not ms:
            raise Missing(f"{label}::{n}")
        vals = {ev(m, env) for m in ms}
        if len(vals) != 1:
            raise Missing(f"{label}::{n} has conflicting definitions {sorted(vals)}")
        out[n] = vals.pop()
        env[n] = out[n]
    return out


def main():
    d = {}
    # ---------------------------------------------------------------- utils
    u = read("src/utils/mod.rs")
    m = re.search(r"const\s+K_SELECT_IN_BYTE\s*:\s*\[u8;\s*(\d+)\]\s*=\s*\[(.*?)\];", u, flags=re.S)
    if not m:
        raise Missing("utils::K_SELECT_IN_BYTE")
    table = [int(x) for x in re.findall(r"\d+", m.group(2))]
    if len(table) != int(m.group(1)):
        raise Missing("utils::K_SELECT_IN_BYTE length")
    uc = strip_comments(u)
    for n in ("k_ones_step4", "k_ones_step8", "k_lambdas_step8"):
        mm = re.search(r"(?:let|const)\s+(?i:" + n + r")\s*(?::\s*u64\s*)?=\s*([^;]+);", uc)
        if not mm:
            raise Missing(f"utils::select_in_word::{n}")
        d[n] = ev(mm.group(1), {})
    # ---------------------------------------------------------------- rs_support_plain
    r = read("src/qvector/rs_qvector/rs_support_plain.rs")
    rc = consts(r, ["SELECT_NUM_SAMPLES", "BLOCKS_IN_SUPERBLOCK"], "rs_support_plain")
    # assert!(qv.len() < (1 << 43)) -- the bound may be written as any constant expression (or a named constant)
    rs_env = dict(rc)
    for cn, ce in re.findall(r"\b(?:const|static)\s+([A-Z_][A-Z0-9_]*)\s*:\s*\w+\s*=\s*([^;]+);", strip_comments(r)):
        try:
            rs_env.setdefault(cn, ev(ce, rs_env))
        except Missing:
            pass
    mm = re.search(r"assert!\(\s*qv\.len\(\)\s*<\s*((?:[^(),]|\([^()]*\))+?)\s*[,)]", strip_comments(r))
    if not mm:
        raise Missing("rs_support_plain::new length limit")
    lim = ev(mm.group(1), rs_env)
    if lim <= 0 or lim & (lim - 1):
        raise Missing(f"rs_support_plain::new length limit {lim} is not a power of two")
    d["RSQ_LEN_LIMIT_LOG"] = lim.bit_length() - 1
    q = strip_comments(read("src/qvector/rs_qvector.rs"))
    for n in ("RSQVector256", "RSQVector512"):
        mm = re.search(r"pub\s+type\s+" + n + r"\s*=\s*RSQVector<\s*RSSupportPlain<\s*(\d+)\s*>\s*>", q)
        if not mm:
            raise Missing(f"rs_qvector::{n}")
        d[n + "_BLOCK"] = int(mm.group(1))
    qv = read("src/qvector/mod.rs")
    qc = consts(qv, ["N_BITS_WORD"], "qvector")
    # ---------------------------------------------------------------- rs_narrow / rs_wide
    nr = consts(read("src/bitvector/rs_narrow.rs"),
                ["BLOCK_SIZE", "SELECT_ONES_PER_HINT", "SELECT_ZEROS_PER_HINT"], "rs_narrow")
    wd = consts(read("src/bitvector/rs_wide.rs"),
                ["BLOCK_SIZE", "SUPERBLOCK_SIZE", "SELECT_ONES_PER_HINT", "SELECT_ZEROS_PER_HINT"], "rs_wide")
    # ---------------------------------------------------------------- darray
    da = consts(read("src/darray/mod.rs"), ["BLOCK_SIZE", "SUBBLOCK_SIZE", "MAX_IN_BLOCK_DISTACE"], "darray")
    # ---------------------------------------------------------------- prefetch sampling shift
    shifts = set()
    for f in ("src/quadwt/mod.rs", "src/quadwt/huffqwt.rs"):
        src_f = strip_comments(read(f))
        ms = re.findall(r"PrefetchSupport::new\(\s*&\s*\w+\s*,\s*([^()]+?)\s*\)", src_f)
        if not ms:
            raise Missing(f"{f}: PrefetchSupport::new sampling shift")
        f_env = {}
        for cn, ce in re.findall(r"\b(?:const|static)\s+([A-Z_][A-Z0-9_]*)\s*:\s*\w+\s*=\s*([^;]+);", src_f):
            try:
                f_env.setdefault(cn, ev(ce, f_env))
            except Missing:
                pass
        shifts |= {ev(x, f_env) for x in ms}
    if len(shifts) != 1:
        raise Missing(f"prefetch sampling shift differs between call sites: {sorted(shifts)}")

    L = []
    L.append("/- GENERATED by tools/extract.py from the Rust sources on every run. Do not edit. -/")
    L.append("namespace Qwt.Extracted")
    L.append("")
    L.append("def kSelectInByte : Array Nat := #[")
    for i in range(0, len(table), 32):
        L.append("  " + ", ".join(str(x) for x in table[i:i + 32]) + ("," if i + 32 < len(table) else ""))
    L.append("]")
    L.append("")

    def put(name, val):
        L.append(f"def {name} : Nat := {val}")

    put("kOnesStep4", d["k_ones_step4"])
    put("kOnesStep8", d["k_ones_step8"])
    put("kLambdasStep8", d["k_lambdas_step8"])
    put("rsqSelectNumSamples", rc["SELECT_NUM_SAMPLES"])
    put("rsqBlocksInSuperblock", rc["BLOCKS_IN_SUPERBLOCK"])
    put("rsqLenLimitLog", d["RSQ_LEN_LIMIT_LOG"])
    put("rsq256Block", d["RSQVector256_BLOCK"])
    put("rsq512Block", d["RSQVector512_BLOCK"])
    put("qvNBitsWord", qc["N_BITS_WORD"])
    put("narrowBlockSize", nr["BLOCK_SIZE"])
    put("narrowOnesPerHint", nr["SELECT_ONES_PER_HINT"])
    put("narrowZerosPerHint", nr["SELECT_ZEROS_PER_HINT"])
    put("wideBlockSize", wd["BLOCK_SIZE"])
    put("wideSuperblockSize", wd["SUPERBLOCK_SIZE"])
    put("wideOnesPerHint", wd["SELECT_ONES_PER_HINT"])
    put("wideZerosPerHint", wd["SELECT_ZEROS_PER_HINT"])
    put("daBlockSize", da["BLOCK_SIZE"])
    put("daSubblockSize", da["SUBBLOCK_SIZE"])
    put("daMaxInBlockDistance", da["MAX_IN_BLOCK_DISTACE"])
    put("pfsSampleShift", shifts.pop())
    L.append("")
    L.append("end Qwt.Extracted")
    text = "\n".join(L) + "\n"
    out = os.path.normpath(OUT)
    old = None
    try:
        with open(out) as f:
            old = f.read()
    except OSError:
        pass
    if old != text:  # keep mtime stable when nothing changed (incremental lake build)
        with open(out, "w") as f:
            f.write(text)
        print("extract: Extracted.lean rewritten")
    else:
        print("extract: Extracted.lean unchanged")


if __name__ == "__main__":
    try:
        main()
    except Missing as e:
        print(f"EXTRACT-MISSING: {e}")
        sys.exit(2)
