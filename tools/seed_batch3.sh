#!/bin/bash
# usage: seed_batch2.sh <prop> ...   (round-3 seeds under /tmp/w3_<prop>/seed<prop>_<k>)
for p in "$@"; do
  for k in 1 2; do
    SD=/tmp/w3_$p/seed${p}_$k
    [ -f $SD/patch.diff ] || continue
    echo "######## $p seed $k"
    /verif/tools/seed_confirm.sh /tmp/w3_$p $SD 2>&1 | grep -E "==|test result|DOES NOT|panicked"
    /verif/tools/seed_run.sh $SD/patch.diff $p
  done
done
