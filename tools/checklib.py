#!/usr/bin/env python3
"""Check driver for the qwt verification framework (see DESIGN.md §2).

  check <ID> [quick|thorough]           run the property's check, write evidence/<ID>.json
  check <ID> --replay <file>            re-execute a replay script on impl / model / spec
"""
import hashlib
import json
import os
import re
import signal
import subprocess
import sys
import time

ROOT = os.path.normpath(os.path.join(os.path.dirname(os.path.abspath(__file__)), ".."))
REPO = os.environ.get("QWT_REPO", "/repo")
LEAN = os.path.join(ROOT, "lean")
HARN = os.path.join(ROOT, "harness")
WORK = os.environ.get("VERIF_WORK") or os.path.join(ROOT, "work")
DRIVER = os.path.join(LEAN, ".lake", "build", "bin", "qwtdriver")
ALLOWED_AXIOMS = {"propext", "Classical.choice", "Quot.sound"}
ENV = dict(os.environ, CARGO_NET_OFFLINE="true")

PROFILES = {
    "release": ["--release"],
    "verifdbg": ["--profile", "verifdbg"],
}


def sh(cmd, cwd=None, timeout=None, env=None, stdin=None):
    p = subprocess.run(cmd, cwd=cwd, stdout=subprocess.PIPE, stderr=subprocess.STDOUT, timeout=timeout,
                       env=env or ENV, stdin=stdin)
    return p.returncode, p.stdout.decode("utf-8", "replace")


# ------------------------------------------------------------------------------- build steps

def step_extract(log):
    rc, out = sh([sys.executable, os.path.join(ROOT, "tools", "extract.py")])
    log.append(out.strip())
    return rc == 0, out.strip()


def obligations_for(pid):
    with open(os.path.join(LEAN, "obligations.json")) as f:
        ob = json.load(f)
    return ob.get(pid, {"theorems": [], "partial": [], "examples": []})


def count_examples(pid):
    """number of `example` declarations (concrete instances of the hypotheses / computed instances of the
    statements) in the property's theorem modules"""
    ob = obligations_for(pid)
    n = 0
    for m in ob.get("modules") or [f"Qwt.Props.{pid}"]:
        try:
            with open(os.path.join(LEAN, m.replace(".", "/") + ".lean")) as f:
                n += sum(1 for l in f if l.startswith("example") or l.startswith("private example"))
        except OSError:
            pass
    return n


def step_leanchecker(pid, log):
    """thorough tier: re-check the compiled theorem modules with the independent checker"""
    ob = obligations_for(pid)
    mods = ob.get("modules") or [f"Qwt.Props.{pid}"]
    bad = []
    for m in mods:
        rc, out = sh(["lake", "env", "leanchecker", m], cwd=LEAN, timeout=3000)
        log.append(f"leanchecker {m}: rc={rc} {out[-300:]}")
        if rc != 0:
            bad.append(m)
    return bad


def step_lean(pid, log):
    """build driver + the property's theorem module; audit axioms. Returns dict."""
    res = {"driver_ok": False, "props_ok": False, "obligations": [], "discharged": [], "axioms": {}, "broken": []}
    rc, out = sh(["lake", "build", "qwtdriver"], cwd=LEAN, timeout=3000)
    log.append(out[-3000:])
    res["driver_ok"] = rc == 0
    ob = obligations_for(pid)
    names = ob.get("theorems", []) + ob.get("partial", [])
    res["obligations"] = names
    if not names:
        res["props_ok"] = True
        return res
    mods = ob.get("modules") or [f"Qwt.Props.{pid}"]
    mod = mods[0]
    rc, out = sh(["lake", "build"] + mods, cwd=LEAN, timeout=6000)
    log.append(out[-3000:])
    if rc != 0:
        res["broken"] = names
        res["build_log"] = out[-6000:]
        return res
    res["props_ok"] = True
    # audit: #print axioms for every obligation
    os.makedirs(os.path.join(WORK, pid), exist_ok=True)
    audit = os.path.join(WORK, pid, "Audit.lean")
    with open(audit, "w") as f:
        for m_ in mods:
            f.write(f"import {m_}\n")
        for n in names:
            f.write(f"#print axioms {n}\n")
    rc, out = sh(["lake", "env", "lean", audit], cwd=LEAN, timeout=3000)
    log.append(out[-3000:])
    cur = None
    text = out.replace("\n  ", " ")
    for n in names:
        m = re.search(r"'" + re.escape(n) + r"' depends on axioms: \[([^\]]*)\]", text)
        m2 = re.search(r"'" + re.escape(n) + r"' does not depend on any axioms", text)
        if m:
            ax = [a.strip() for a in m.group(1).split(",") if a.strip()]
        elif m2:
            ax = []
        else:
            res["broken"].append(n)
            continue
        res["axioms"][n] = ax
        bad = [a for a in ax if a not in ALLOWED_AXIOMS]
        if bad:
            res["broken"].append(n)
        else:
            res["discharged"].append(n)
    # forbidden constructs in the sources (comments stripped crudely)
    rc, out = sh(["grep", "-rnE", r"\bsorry\b|\badmit\b|^axiom |native_decide|implemented_by|unsafe |maxHeartbeats 0",
                  os.path.join(LEAN, "Qwt")])
    hits = [l for l in out.splitlines() if l and not re.search(r":\s*(--|/-)", l) and "Extracted.lean" not in l]
    res["forbidden_hits"] = hits
    return res


def harness_bin(profile, nopf=False):
    d = "nopf" if nopf else "pf"
    prof_dir = "release" if profile == "release" else "verifdbg"
    return os.path.join(HARN, "target", d, prof_dir, "qwt-verif-harness")


def step_cargo(profile, log, nopf=False):
    # always use the current /repo Cargo.lock so that the path dependency resolves offline
    try:
        with open(os.path.join(REPO, "Cargo.lock")) as f:
            lock = f.read()
        with open(os.path.join(HARN, "Cargo.lock.base"), "w") as f:
            f.write(lock)
    except OSError:
        pass
    base = ["cargo", "build", "--offline", "--target-dir", os.path.join(HARN, "target", "nopf" if nopf else "pf")] + PROFILES[profile]
    pf = [] if nopf else ["prefetch"]
    # full build first; when it fails, fall back to builds without the direct `qwt::utils` calls and/or without
    # the compile-time Send + Sync assertions, so that the search for a failing input can still run.
    # BUILD_FALLBACK[(profile, nopf)] records which feature had to be dropped (None = full build).
    variants = [(None, pf + ["utilsq", "syncassert"]), ("utilsq", pf + ["syncassert"]), ("syncassert", pf + ["utilsq"]), ("utilsq+syncassert", pf)]
    first_out = None
    for dropped, feats in variants:
        cmd = base + ["--no-default-features", "--features", ",".join(feats)] if feats else base + ["--no-default-features"]
        rc, out = sh(cmd, cwd=HARN, timeout=3000)
        log.append(out[-4000:])
        if first_out is None:
            first_out = out
        if rc == 0:
            BUILD_FALLBACK[(profile, nopf)] = dropped
            return dropped is None, first_out
    BUILD_FALLBACK[(profile, nopf)] = "none-builds"
    return False, first_out


BUILD_FALLBACK = {}


# ------------------------------------------------------------------------------- running

def run_impl(binp, script, outp, log, prefix=None, cwd=None, env=None):
    """run the harness interpreter with crash supervision; returns list of crash records.
    `prefix` replaces the binary by a command prefix (e.g. `cargo +nightly miri run … --`)."""
    if os.path.exists(outp):
        os.remove(outp)
    crashes = []
    with open(script) as f:
        lines = f.read().split("\n")
    if lines and lines[-1] == "":
        lines.pop()
    case_of_line = []
    cur = -1
    for l in lines:
        if l.startswith("case "):
            cur = int(l.split(" ")[1])
        case_of_line.append(cur)
    from_case = 0
    guard = 0
    while True:
        guard += 1
        cmd = (prefix if prefix else [binp]) + ["run", script, outp]
        if from_case:
            cmd += ["--from-case", str(from_case)]
        p = subprocess.run(cmd, stdout=subprocess.PIPE, stderr=subprocess.PIPE, env=env or ENV, cwd=cwd)
        if p.returncode == 0:
            break
        # crashed: find how many lines were answered
        with open(outp) as f:
            done = sum(1 for _ in f)
        # lines before `from_case` were skipped in this run but answered in earlier runs
        crash_line = done
        sig = -p.returncode if p.returncode < 0 else p.returncode
        try:
            signame = signal.Signals(sig).name if p.returncode < 0 else f"exit{sig}"
        except ValueError:
            signame = f"sig{sig}"
        err_all = p.stderr.decode("utf-8", "replace")
        k_ub = err_all.find("Undefined Behavior")
        err = err_all[k_ub:k_ub + 1200] if k_ub >= 0 else err_all[-400:]
        if k_ub >= 0:
            signame = "MIRI-UB"
        if crash_line >= len(lines):
            break
        ccase = case_of_line[crash_line]
        crashes.append({"line": crash_line, "case": ccase, "signal": signame, "request": lines[crash_line][:200], "stderr": err})
        # fill the rest of this case with CRASH markers
        with open(outp, "a") as f:
            i = crash_line
            while i < len(lines) and case_of_line[i] == ccase:
                f.write(f"CRASH:{signame}\n")
                i += 1
        from_case = ccase + 1
        if i >= len(lines) or guard > 200:
            break
    return crashes


def miri_available():
    rc, out = sh(["cargo", "+nightly", "miri", "--version"], cwd=HARN, timeout=120)
    return rc == 0


def miri_subset(script_lines, cases, max_cases=40, max_chars=6000, max_lines=400):
    """the small cases of a generated script (Miri interprets roughly 1000x slower than native code)"""
    out = []
    n = 0
    for c in cases:
        seg = script_lines[c["start"]:c["start"] + c["lines"]]
        if sum(len(l) for l in seg) <= max_chars and len(seg) <= max_lines and not any(l.startswith("threads") for l in seg):
            out += seg
            n += 1
        if n >= max_cases:
            break
    return out, n


def run_miri(script_p, out_p, log, release=False):
    """execute a script with the real crate under Miri (validation of the model's claim `no fault`):
    returns (ok, crashes); a reported Undefined Behavior is a crash record with signal MIRI-UB"""
    env = dict(ENV)
    env["MIRIFLAGS"] = "-Zmiri-disable-isolation"
    prefix = ["cargo", "+nightly", "miri", "run", "--offline", "--target-dir", os.path.join(HARN, "target", "miri")]
    if release:
        prefix.append("--release")
    prefix.append("--")
    crashes = run_impl(None, script_p, out_p, log, prefix=prefix, cwd=HARN, env=env)
    return crashes


def patch_lens(script_lines, impl_lines):
    """model script = script with the Huffman `mk` lines completed by the code lengths the
    real construction used (reported by the hook through the impl outcome)."""
    out = []
    impl_clean = list(impl_lines)
    for i, l in enumerate(script_lines):
        if l.startswith("mk ") and i < len(impl_lines):
            t = l.split(" ", 3)
            fam = t[2].split(":")[0]
            if fam in ("hqwt", "hwt") and t[2].endswith(":default"):
                impl_clean[i] = re.sub(r" lens .*$", "", impl_lines[i])
            if fam in ("hqwt", "hwt") and not t[2].endswith(":default"):
                m = re.match(r"ok lens (\d+)((?: \d+)*)$", impl_lines[i])
                if m:
                    n = int(m.group(1))
                    nums = m.group(2).split()
                    div = 2 if fam == "hqwt" else 1
                    pairs = []
                    for k in range(n):
                        pairs += [nums[2 * k], str(int(nums[2 * k + 1]) // div)]
                    vals = t[3] if len(t) > 3 else ""
                    out.append(f"mk {t[1]} {t[2]} {n} {' '.join(pairs)} {vals}".rstrip())
                    impl_clean[i] = "ok"
                    continue
                else:
                    out.append(f"mk {t[1]} {t[2]} 0 {t[3] if len(t) > 3 else ''}".rstrip())
                    continue
        out.append(l)
    return out, impl_clean


def run_model(script_lines, dbg, outp, jobs=12):
    """run the Lean driver; cases are independent, so the script is split at `case` lines
    into chunks that run in parallel"""
    starts = [i for i, l in enumerate(script_lines) if l.startswith("case ")]
    if not starts or starts[0] != 0:
        starts = [0] + starts
    # balance chunks by character count
    total = sum(len(l) + 1 for l in script_lines)
    target = max(1, total // jobs)
    bounds = [0]
    acc = 0
    for a, b in zip(starts, starts[1:] + [len(script_lines)]):
        acc += sum(len(l) + 1 for l in script_lines[a:b])
        if acc >= target and b < len(script_lines):
            bounds.append(b)
            acc = 0
    bounds.append(len(script_lines))
    procs = []
    for a, b in zip(bounds, bounds[1:]):
        if a == b:
            continue
        inp = ("\n".join(script_lines[a:b]) + "\n").encode()
        pr = subprocess.Popen([DRIVER] + (["dbg=1"] if dbg else []), stdin=subprocess.PIPE, stdout=subprocess.PIPE, stderr=subprocess.PIPE)
        procs.append((pr, inp))
    import threading
    results = [None] * len(procs)

    def work(k):
        pr, inp = procs[k]
        o, e = pr.communicate(inp)
        results[k] = (pr.returncode, o, e)

    ths = [threading.Thread(target=work, args=(k,)) for k in range(len(procs))]
    for t in ths:
        t.start()
    for t in ths:
        t.join()
    out = []
    rc = 0
    err = ""
    for r in results:
        rc = rc or r[0]
        chunk = r[1].decode("utf-8", "replace").split("\n")
        if chunk and chunk[-1] == "":
            chunk.pop()
        out += chunk
        if r[0] != 0:
            err = r[2].decode("utf-8", "replace")[-500:]
    with open(outp, "w") as f:
        f.write("\n".join(out) + "\n")
    return rc, out, err


# ------------------------------------------------------------------------------- comparing

def outcomes_equal(impl, spec):
    if spec == "F:assertdoc":
        return impl.startswith("F:")
    if spec == "-":
        return True
    return impl == spec


def resolve_hints(im, ref):
    """`Z:<lo>:<hi|->` tokens (a `size_hint()` answer) in an iterator history are replaced by the reference
    token `V:<remaining>` when lo <= remaining <= hi: the hint is then consistent with the specification"""
    if "Z:" not in im:
        return im
    a, b = im.split(" "), ref.split(" ")
    if len(a) != len(b):
        return im
    for j, tok in enumerate(a):
        if tok.startswith("Z:") and b[j].startswith("V:"):
            try:
                _, lo, hi = tok.split(":")
                r = int(b[j][2:])
                if int(lo) <= r and (hi == "-" or r <= int(hi)):
                    a[j] = b[j]
            except ValueError:
                pass
    return " ".join(a)


def compare(script_lines, impl, model):
    """returns list of disagreement records"""
    dis = []
    n = len(script_lines)
    cur_case = -1
    for i in range(n):
        req = script_lines[i]
        if req.startswith("case "):
            cur_case = int(req.split(" ")[1])
        im = impl[i] if i < len(impl) else "MISSING"
        mo = model[i] if i < len(model) else "MISSING"
        kind = req.split(" ", 1)[0]
        if im == "no-utilsq" or im.startswith("skipped:"):
            continue  # fallback build (see step_cargo): the request could not be executed; reported as a broken tie
        if kind in ("q", "op", "u", "eq"):
            if "|" in mo:
                m, s = mo.rsplit("|", 1)
            else:
                m, s = mo, mo
            rec = None
            im = resolve_hints(im, s)
            if not outcomes_equal(im, s):
                rec = {"type": "impl-vs-spec", "impl": im[:300], "spec": s[:300], "model": m[:300]}
            elif not (im == m or (s == "F:assertdoc" and m == "F:assertdoc") or s == "-" and im == m):
                rec = {"type": "impl-vs-model", "impl": im[:300], "spec": s[:300], "model": m[:300]}
            if rec is None and not outcomes_equal(m, s) and not (s == "F:assertdoc" and m == "F:assertdoc"):
                rec = {"type": "model-vs-spec", "impl": im[:300], "spec": s[:300], "model": m[:300]}
            if rec:
                rec.update({"line": i, "case": cur_case, "request": req[:300]})
                dis.append(rec)
        elif kind == "space":
            pass  # handled by the space analysis
        elif kind == "threads":
            if im != "ok":
                dis.append({"type": "impl-vs-spec", "line": i, "case": cur_case, "request": req, "impl": im, "spec": "ok", "model": mo})
        else:
            if im != mo:
                t = "state" if kind in ("dump", "enc") else "construct"
                d = {"type": "impl-vs-model", "sub": t, "line": i, "case": cur_case, "request": req[:300],
                     "impl": im[:400], "model": mo[:400], "spec": ""}
                if kind == "dump":
                    d["first_diff"] = first_diff(im, mo)
                dis.append(d)
    return dis


def purity_analysis(script_lines, impl):
    """C18, second clause: the serialised form of a value is bit-identical before and after any batch of
    queries.  Two `enc k` answers of the implementation inside one case, with no `mk k` / `op k` between
    them, must be equal; this is a statement about the implementation alone (no model involved)."""
    dis = []
    cur_case = -1
    last = {}
    for i, req in enumerate(script_lines):
        t = req.split(" ")
        if t[0] == "case":
            cur_case = int(t[1])
            last = {}
        elif t[0] in ("mk", "op", "free") and len(t) > 1:
            last.pop(t[1], None)
        elif t[0] == "enc" and i < len(impl):
            k = t[1]
            if k in last and last[k][1] != impl[i]:
                dis.append({"type": "impl-vs-spec", "sub": "C18-purity", "line": i, "case": cur_case, "request": req,
                            "impl": f"bytes after the queries {impl[i][:60]}", "spec": f"unchanged bytes {last[k][1][:60]}", "model": ""})
            elif k not in last:
                last[k] = (i, impl[i])
    return dis


def first_diff(a, b):
    k = 0
    m = min(len(a), len(b))
    while k < m and a[k] == b[k]:
        k += 1
    lo = max(0, k - 60)
    return {"at": k, "impl": a[lo:k + 60], "model": b[lo:k + 60]}


# ------------------------------------------------------------------------------- known findings

def load_known():
    p = os.path.join(ROOT, "known_findings.json")
    try:
        with open(p) as f:
            return json.load(f)
    except OSError:
        return []


def known_match(pid, rec, case_lines, known):
    for k in known:
        if k.get("status") != "known":
            continue
        if pid not in k.get("properties", [k.get("property")]):
            continue
        pat = k.get("match", {})
        if "request_re" in pat and not re.search(pat["request_re"], rec.get("request", "")):
            continue
        if "case_re" in pat and not any(re.search(pat["case_re"], l) for l in case_lines):
            continue
        if "impl_re" in pat and not re.search(pat["impl_re"], rec.get("impl", "")):
            continue
        if pat.get("model_agrees") and rec.get("model") != rec.get("impl"):
            continue
        return k
    return None


# ------------------------------------------------------------------------------- shrinking

def eval_script(binp, lines, dbg, tag):
    d = os.path.join(WORK, "shrink")
    os.makedirs(d, exist_ok=True)
    sp = os.path.join(d, f"{tag}.script")
    with open(sp, "w") as f:
        f.write("\n".join(lines) + "\n")
    ip = os.path.join(d, f"{tag}.impl")
    run_impl(binp, sp, ip, [])
    with open(ip) as f:
        impl = f.read().split("\n")
    if impl and impl[-1] == "":
        impl.pop()
    mlines, impl = patch_lens(lines, impl)
    rc, model, _ = run_model(mlines, dbg, os.path.join(d, f"{tag}.model"))
    return impl, model


def shrink_case(binp, case_lines, fail_idx, dbg, want_type, budget=120):
    """keep the construction lines and the failing request; then shrink value lists"""
    head = case_lines[0]
    if "_unchecked" in case_lines[fail_idx]:
        return case_lines[:fail_idx + 1]   # shrinking could leave the documented precondition
    setup = [l for l in case_lines[1:fail_idx] if l.split(" ", 1)[0] in ("cfg", "tie", "mk", "op", "cf")]
    cur = [head] + setup + [case_lines[fail_idx]]
    # shrinking re-runs both interpreters: bound it by the size of the case (a 2-million-element case is
    # replayed as it is) and by wall-clock time
    size = sum(len(l) for l in cur)
    budget = budget if size < 300_000 else (30 if size < 3_000_000 else 6)
    t_end = time.time() + 90

    def fails(lines):
        if time.time() > t_end:
            return False        # time budget used up: keep what has been achieved
        impl, model = eval_script(binp, lines, dbg, "s")
        d = compare(lines, impl, model)
        return any(x["line"] == len(lines) - 1 and x["type"] == want_type for x in d) or \
            any(x["type"] == want_type and x["request"] == lines[-1][:300] for x in d)

    try:
        if not fails(cur):
            return case_lines[:fail_idx + 1]
    except Exception:
        return case_lines[:fail_idx + 1]
    evals = 1
    # drop setup lines that are not needed
    i = 1
    while i < len(cur) - 1 and evals < budget:
        if cur[i].split(" ", 1)[0] in ("op",) or (cur[i].startswith("mk") and i > 2):
            cand = cur[:i] + cur[i + 1:]
            evals += 1
            if fails(cand):
                cur = cand
                continue
        i += 1
    # shrink the longest `mk` value list by chunk deletion
    for li in range(1, len(cur) - 1):
        if not cur[li].startswith("mk "):
            continue
        t = cur[li].split(" ")
        fixed = 3
        if t[2].split(":")[0] in ("rsq", "bvbits", "da", "dabits"):
            continue
        vals = t[fixed:]
        chunk = max(1, len(vals) // 2)
        while chunk >= 1 and evals < budget and len(vals) > 1:
            j = 0
            progressed = False
            while j < len(vals) and evals < budget:
                cand_vals = vals[:j] + vals[j + chunk:]
                cand = cur[:li] + [" ".join(t[:fixed] + cand_vals)] + cur[li + 1:]
                evals += 1
                if fails(cand):
                    vals = cand_vals
                    cur = cand
                    progressed = True
                else:
                    j += chunk
            if not progressed or chunk == 1:
                chunk //= 2
    return cur


# ------------------------------------------------------------------------------- space analysis

def bitlen(v):
    return max(1, v.bit_length())


def space_analysis(pid, script_lines, impl, model, meta):
    """C14 / C15 / C16: returns (violations, stats)"""
    viol = []
    stats = {"space_checks": 0, "max_ratio": {}}
    cur = {}
    for i, req in enumerate(script_lines):
        t = req.split(" ")
        if t[0] == "case":
            cur = {"case": int(t[1]), "mk": {}, "cfg": None}
        elif t[0] == "cfg":
            cur["cfg"] = (int(t[1]), t[2] == "1", int(t[3]), t[5] if len(t) > 5 else "u8")
        elif t[0] == "mk":
            fam = t[2].split(":")[0]
            cur["mk"][int(t[1])] = {"fam": fam, "line": i, "vals": t[3:], "cfg": cur.get("cfg"), "src": None, "rle": t[2].endswith(":rle")}
            if fam in ("rsn", "rsw"):
                cur["mk"][int(t[1])]["src"] = int(t[3])
            if fam == "da":
                cur["mk"][int(t[1])]["src"] = int(t[4])
        elif t[0] == "space":
            k = int(t[1])
            info = cur["mk"].get(k)
            if info is None or i >= len(impl) or i >= len(model):
                continue
            nomodel = model[i] == "-"
            try:
                ifields = impl[i].split(" ")
                ih, iself, iusage = [int(x) for x in ifields[:3]]
                scaled_bits = ifields[3:6]
                mh, mself, musage = (ih, iself, iusage) if nomodel else [int(x) for x in model[i].split(" ")[:3]]
            except ValueError:
                viol.append({"type": "impl-vs-model", "line": i, "case": cur["case"], "request": req, "impl": impl[i][:200], "model": model[i][:200], "spec": ""})
                continue
            stats["space_checks"] += 1
            fam = info["fam"]
            huff = fam in ("hqwt", "hwt")
            rec = {"line": i, "case": cur["case"], "request": req, "fam": fam, "impl": impl[i], "model": model[i], "spec": ""}
            # C16 last clause: KiB/MiB/GiB are the byte count divided by 2^10, 2^20, 2^30 -- compared as
            # exact rationals (the f64 the crate returned, read from its bit pattern, times the divisor)
            if pid == "C16" and len(scaled_bits) == 3:
                import struct
                from fractions import Fraction
                for bits, sh, nm in zip(scaled_bits, (10, 20, 30), ("KiB", "MiB", "GiB")):
                    fv = struct.unpack(">d", bytes.fromhex(bits))[0]
                    okv = fv == fv and fv not in (float("inf"), float("-inf")) and Fraction(fv) * (1 << sh) == iusage
                    stats["scaled_checks"] = stats.get("scaled_checks", 0) + 1
                    if not okv:
                        viol.append(dict(rec, type="impl-vs-spec", sub="C16-scaled", spec=f"space_usage_{nm}*2^{sh}=={iusage}", impl=f"space_usage_{nm}={fv!r}"))
            # T3: usage transcription and requested heap bytes
            if iusage != musage:
                viol.append(dict(rec, type="impl-vs-model", sub="usage"))
            if ih != mh:
                viol.append(dict(rec, type="impl-vs-model", sub="heap"))
            # the property's own bounds
            n, m, nlev, b, pfs = None, None, None, None, None
            if fam in ("qwt", "wt", "hqwt", "hwt"):
                vals = [int(x) for x in info["vals"] if x]
                if info.get("rle"):
                    n = sum(vals[1::2])
                    m = max(vals[0::2]) if vals else 0
                else:
                    n = len(vals)
                    m = max(vals) if vals else 0
                b, pfs = info["cfg"][0], info["cfg"][1]
            if pid == "C14" and fam in ("qwt", "wt") and n:
                if fam == "qwt":
                    L = (bitlen(m) + 1) // 2
                    ideal = 2 * n * L
                    # (1+r)·2nL with r = 1/8 (+1%) or 1/16 (+1%), prefetch support +1%, per-level constant
                    num = (1125 if b == 256 else 1063) + 10 + (10 if pfs else 0)
                    bound = ideal * num // 1000 + L * (16000 if pfs else 6000) + 4000
                else:
                    L = bitlen(m)
                    ideal = n * L
                    bound = ideal * 1050 // 1000 + L * 3000 + 2000
                stats["max_ratio"][fam + str(b if fam == "qwt" else "") + ("pfs" if pfs and fam == "qwt" else "")] = max(
                    stats["max_ratio"].get(fam + str(b if fam == "qwt" else "") + ("pfs" if pfs and fam == "qwt" else ""), 0),
                    round(8 * ih / max(1, ideal), 4) if n >= 100000 else 0)
                if 8 * ih > bound:
                    viol.append(dict(rec, type="impl-vs-spec", sub="C14-bound", spec=f"heap_bits<={bound}", impl=f"heap_bits={8 * ih}"))
            if pid == "C14" and fam == "rsq":
                bsz = int(info["vals"][0]) if info["vals"] else 256
                n = len([x for x in info["vals"][1:] if x])
                bound = 2 * n * ((1125 if bsz == 256 else 1063) + 10) // 1000 + 2600
                if 8 * (ih + iself) > bound:
                    viol.append(dict(rec, type="impl-vs-spec", sub="C14-bound", spec=f"bits<={bound}", impl=f"bits={8 * (ih + iself)}"))
            if pid == "C14" and fam in ("qv", "qvx", "qvpush", "qvext", "qvchain", "qvnf", "qvnfext", "qvfilt"):
                # a plain quad vector, whichever way it was built: 2 bits per symbol, rounded up to one 512-bit line
                vals_ = info["vals"][1:] if fam not in ("qv", "qvx", "qvfilt") else info["vals"]
                n = len([x for x in vals_ if x and not x.startswith("x")])
                if fam in ("qvnf", "qvnfext") and info["vals"]:
                    n = min(n, int(info["vals"][0]))
                bound = 2 * n + 512 + 64
                if 8 * ih > bound:
                    viol.append(dict(rec, type="impl-vs-spec", sub="C14-bound", spec=f"heap_bits<={bound}", impl=f"heap_bits={8 * ih}"))
            if pid == "C14" and fam == "rsw":
                src = cur["mk"].get(info["src"])
                if src and src["fam"] == "bvbits":
                    n = int(src["vals"][0])
                    bound = n * 1047 // 1000 + 6100
                    if 8 * (ih + iself) > bound:
                        viol.append(dict(rec, type="impl-vs-spec", sub="C14-bound", spec=f"bits<={bound}", impl=f"bits={8 * (ih + iself)}"))
            if pid == "C16":
                live = ih + iself
                comps = 8
                if fam in ("qwt", "hqwt", "wt", "hwt"):
                    vals = [int(x) for x in info["vals"] if x]
                    if info.get("rle"):
                        vals = vals[0::2]
                    mm = max(vals) if vals else 0
                    L = (bitlen(mm) + 1) // 2 if fam in ("qwt", "hqwt") else bitlen(mm)
                    comps = 8 + 12 * L * (5 if info["cfg"][1] else 1)
                    slack = live * 3 // 100 + 64 * comps + (32 * (mm + 1) + 2200 if huff else 0)
                else:
                    slack = live * 3 // 100 + 64 * comps
                if abs(iusage - live) > slack:
                    viol.append(dict(rec, type="impl-vs-spec", sub="C16-close", spec=f"|usage-live|<={slack}", impl=f"usage={iusage} live={live}"))
    return viol, stats


def entropy_analysis(script_lines, impl, model):
    """C15: level data of Huffman trees ≤ n(H0+2) (quad) / n(H0+1) (binary) and ≤ plain."""
    viol = []
    checks = 0
    cur_vals = None
    fam = None
    case = -1
    for i, req in enumerate(script_lines):
        t = req.split(" ")
        if t[0] == "case":
            case = int(t[1])
        elif t[0] == "mk" and t[2].split(":")[0] in ("hqwt", "hwt"):
            fam = t[2].split(":")[0]
            nums = [int(x) for x in t[3:] if x]
            if t[2].endswith(":rle"):
                cur_vals = {}
                for a in range(0, len(nums) - 1, 2):
                    cur_vals[nums[a]] = cur_vals.get(nums[a], 0) + nums[a + 1]
            else:
                cur_vals = {}
                for v in nums:
                    cur_vals[v] = cur_vals.get(v, 0) + 1
        elif t[0] == "dump" and cur_vals is not None and i < len(impl):
            m = re.search(r"lens:\[([0-9,]*)\]", impl[i])
            if not m:
                continue
            lens = [int(x) for x in m.group(1).split(",") if x]
            n = sum(cur_vals.values())
            if n == 0:
                continue
            per = 2 if fam == "hqwt" else 1
            bits = per * sum(lens)
            freq = cur_vals
            # bits <= n*H0 + per*n  <=>  2^(bits - per*n) * prod f^f <= n^n   (exact integers)
            checks += 1
            e = bits - per * n
            ok = None
            if n > 100000:
                # 60-digit decimal arithmetic (correctly rounded ln): decide unless the margin is
                # within 1e-30 relative, then fall back to the exact integer comparison
                import decimal
                ctx = decimal.Context(prec=60)
                ln2 = ctx.ln(decimal.Decimal(2))
                nh0 = decimal.Decimal(0)
                for f in freq.values():
                    nh0 = ctx.add(nh0, ctx.multiply(decimal.Decimal(f), ctx.divide(ctx.ln(ctx.divide(decimal.Decimal(n), decimal.Decimal(f))), ln2)))
                margin = ctx.subtract(ctx.add(nh0, decimal.Decimal(per * n)), decimal.Decimal(bits))
                tol = decimal.Decimal(n) * decimal.Decimal(10) ** -30
                if margin > tol:
                    ok = True
                elif margin < -tol:
                    ok = False
            if ok is None:
                lhs = 1
                for f in freq.values():
                    lhs *= f ** f
                rhs = n ** n
                ok = (lhs << e) < rhs if e >= 0 else lhs < (rhs << (-e))
            if len(freq) == 1:
                ok = bits <= per * n  # H0 = 0: one fragment per symbol is allowed
            mm = max(cur_vals.keys())
            plain = n * ((bitlen(mm) + 1) // 2) * 2 if fam == "hqwt" else n * bitlen(mm)
            rec = {"line": i, "case": case, "request": req, "fam": fam, "model": "", "spec": ""}
            if not ok:
                viol.append(dict(rec, type="impl-vs-spec", sub="C15-entropy", impl=f"level_bits={bits} n={n}", spec="level_bits < n(H0+%d)" % per))
            if bits > plain:
                viol.append(dict(rec, type="impl-vs-spec", sub="C15-plain", impl=f"level_bits={bits}", spec=f"<= plain {plain}"))
    return viol, checks
