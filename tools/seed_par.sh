#!/bin/bash
# usage: seed_par.sh <tag> <patch.diff> <prop> [more props]
# Runs the checks against a *private copy* of /repo (HEAD + the patch) and of /verif (committed state plus
# working-tree edits, without work/ and .git), so that several seeded changes can be tried at the same time
# and /repo is never touched. Experiment tool only: registered checks and evidence always run in /verif on /repo.
TAG=$1; PATCH=$2; shift 2
D=/tmp/sp_$TAG
rm -rf $D; mkdir -p $D
git -C /repo worktree add -q --detach $D/repo HEAD || exit 2
git -C $D/repo apply "$PATCH" || { echo "PATCH DOES NOT APPLY"; git -C /repo worktree remove --force $D/repo; exit 3; }
rsync -a --exclude work --exclude .git --exclude evidence /verif/ $D/verif/
sed -i "s#path = \"/repo\"#path = \"$D/repo\"#" $D/verif/harness/Cargo.toml
mkdir -p $D/verif/evidence
for p in "$@"; do
  (cd $D/verif && QWT_REPO=$D/repo VERIF_WORK=$D/verif/work VERIF_EVIDENCE_DIR=$D/verif/evidence ./check $p quick 2>&1 | grep -E "VIOLATION|quick:|KNOWN" | cut -c1-330)
done
if [ -z "$KEEP" ]; then git -C /repo worktree remove --force $D/repo; rm -rf $D; fi
