#!/bin/bash
# usage: soak.sh <seed> [props…]  — every quick check with another generator seed family, in its own work and
# evidence directories (the registered evidence is not touched); prints only what is not clean
SEED=$1; shift
PROPS=${@:-C01 C02 C03 C04 C05 C06 C07 C08 C09 C10 C11 C12 C13 C14 C15 C16 C17 C18 C19}
export VERIF_SEED=$SEED VERIF_WORK=/verif/work/soak_$SEED VERIF_EVIDENCE_DIR=/verif/work/soak_$SEED/evidence
mkdir -p $VERIF_WORK
for p in $PROPS; do
  (cd /verif && ./check $p quick 2>&1 | grep -E "VIOLATION|quick:" | grep -v "impl≠spec=0 impl≠model=0 model≠spec=0" | grep -v "^C0[48] quick")
done
echo "soak seed=$SEED done"
