#!/usr/bin/env python3
"""Fingerprints of the library functions the hand-written Lean model was transcribed from.

The correspondence check compares *behaviour*; a rewrite of an internal algorithm that keeps
every observable outcome leaves it silent although the theorems are then about the previous
algorithm.  This tool makes that visible: `lean/source_baseline.json` (committed, written only
by `srcmap.py --write-baseline` when the model is brought up to date by hand) records a hash
of the normalised token stream of every non-test `fn` under /repo/src; every run of a check
recomputes the hashes and lists, for the property's anchor files, the functions whose text
changed, appeared or disappeared since the model was written (`source_drift` in the evidence,
`NOTE model-drift` on stdout).  It is information, never a verdict.
"""
import hashlib, json, os, re, sys

REPO = os.environ.get("QWT_REPO", "/repo")
ROOT = os.path.dirname(os.path.dirname(os.path.abspath(__file__)))
BASE = os.path.join(ROOT, "lean", "source_baseline.json")


def strip_comments(src):
    out, i, n = [], 0, len(src)
    while i < n:
        c = src[i]
        if src.startswith("//", i):
            j = src.find("\n", i)
            i = n if j < 0 else j
        elif src.startswith("/*", i):
            depth, i = 1, i + 2
            while i < n and depth:
                if src.startswith("/*", i):
                    depth += 1; i += 2
                elif src.startswith("*/", i):
                    depth -= 1; i += 2
                else:
                    i += 1
        elif c == '"':
            j = i + 1
            while j < n and src[j] != '"':
                j += 2 if src[j] == "\\" else 1
            out.append(src[i:j + 1]); i = j + 1
        elif c == "'" and re.match(r"'(\\.|[^\\'])'", src[i:i + 4]):
            m = re.match(r"'(\\.|[^\\'])'", src[i:i + 4])
            out.append(m.group(0)); i += len(m.group(0))
        else:
            out.append(c); i += 1
    return "".join(out)


def match_brace(s, i):
    """s[i] == '{' → index after the matching '}' (strings already harmless enough)"""
    depth, n = 0, len(s)
    in_str = False
    while i < n:
        c = s[i]
        if in_str:
            if c == "\\":
                i += 1
            elif c == '"':
                in_str = False
        elif c == '"':
            in_str = True
        elif c == "{":
            depth += 1
        elif c == "}":
            depth -= 1
            if depth == 0:
                return i + 1
        i += 1
    return n


def functions(path):
    src = strip_comments(open(path, encoding="utf-8").read())
    # drop `#[cfg(test)] mod … { … }`
    while True:
        m = re.search(r"#\[cfg\(test\)\]\s*(pub\s+)?mod\s+\w+\s*\{", src)
        if not m:
            break
        end = match_brace(src, m.end() - 1)
        src = src[:m.start()] + src[end:]
    res = {}
    # enclosing impl / trait / mod headers by position
    scopes = []
    for m in re.finditer(r"\b(impl|trait|mod)\b([^;{]*)\{", src):
        head = re.sub(r"\s+", " ", (m.group(1) + m.group(2)).strip())
        scopes.append((m.start(), match_brace(src, m.end() - 1), head))
    for m in re.finditer(r"\bfn\s+(\w+)", src):
        j = m.end()
        # find body start (or `;` for a declaration)
        depth = 0
        while j < len(src):
            c = src[j]
            if c in "(<[":
                depth += 1
            elif c == ">" and src[j - 1] == "-":
                pass  # `->` is not a closing bracket
            elif c in ")>]":
                depth = max(0, depth - 1)
            elif c == "{" and depth == 0:
                break
            elif c == ";" and depth == 0:
                j = -1
                break
            j += 1
        if j < 0 or j >= len(src):
            continue
        end = match_brace(src, j)
        body = re.sub(r"\s+", " ", src[m.start():end]).strip()
        encl = [h for (a, b, h) in scopes if a < m.start() < b]
        key = " / ".join(encl + [m.group(1)])
        k, n = key, 1
        while k in res:
            n += 1; k = f"{key} #{n}"
        res[k] = hashlib.sha1(body.encode()).hexdigest()[:16]
    return res


def module_files():
    """files of the library's module tree (`mod x;` from src/lib.rs), test modules excluded"""
    seen, todo = [], [os.path.join(REPO, "src", "lib.rs")]
    while todo:
        p = todo.pop()
        if p in seen or not os.path.exists(p):
            continue
        seen.append(p)
        src = strip_comments(open(p, encoding="utf-8").read())
        d = os.path.dirname(p)
        stem = os.path.splitext(os.path.basename(p))[0]
        sub = d if stem in ("lib", "mod") else os.path.join(d, stem)
        for m in re.finditer(r"((?:#\[[^\]]*\]\s*)*)(?:pub(?:\([^)]*\))?\s+)?mod\s+(\w+)\s*;", src):
            if "cfg(test)" in m.group(1):
                continue
            for cand in (os.path.join(sub, m.group(2) + ".rs"), os.path.join(sub, m.group(2), "mod.rs")):
                if os.path.exists(cand):
                    todo.append(cand)
    return sorted(seen)


def fingerprint():
    fp = {}
    for p in module_files():
        rel = os.path.relpath(p, REPO)
        for k, h in functions(p).items():
            fp[f"{rel} :: {k}"] = h
    return fp


def drift(files=None):
    """functions of `files` (None = all) that differ from the committed baseline"""
    try:
        base = json.load(open(BASE))["functions"]
    except Exception as e:  # no baseline: report that, never fail a check
        return {"error": f"no baseline: {e}"}
    cur = fingerprint()

    def keep(k):
        return files is None or any(k.startswith(f + " ::") for f in files)
    changed = sorted(k for k in cur if keep(k) and k in base and base[k] != cur[k])
    added = sorted(k for k in cur if keep(k) and k not in base)
    removed = sorted(k for k in base if keep(k) and k not in cur)
    return {"changed": changed, "added": added, "removed": removed,
            "functions_compared": sum(1 for k in cur if keep(k))}


if __name__ == "__main__":
    if len(sys.argv) > 1 and sys.argv[1] == "--write-baseline":
        import subprocess
        head = subprocess.run(["git", "-C", REPO, "rev-parse", "HEAD"], capture_output=True, text=True).stdout.strip()
        json.dump({"repo_commit": head, "functions": fingerprint()}, open(BASE, "w"), indent=0, sort_keys=True)
        print(f"baseline written for {head}")
    else:
        print(json.dumps(drift(sys.argv[1:] or None), indent=1))
