#!/usr/bin/env python3
"""Fingerprints of the library functions the hand-written Lean model was transcribed from.

The correspondence check compares *behaviour*; a rewrite of an internal algorithm that keeps
every observable outcome leaves it silent although the theorems are then about the previous
algorithm.  This tool makes that visible: `lean/source_baseline.json` (committed, written only
by `srcmap.py --write-baseline` when the model is brought up to date by hand) records a hash
of the normalised token stream of every non-test `fn` under /repo/src; every run of a check
recomputes the hashes and lists, for the property's anchor files, the functions whose text
changed, appeared or disappeared since the model was written (`source_drift` in the evidence,
`NOTE model-drift` on stdout).  It is information, never a verdict.
"""
import hashlib, json, os, re, sys

REPO = os.environ.get("QWT_REPO", "/repo")
ROOT = os.path.dirname(os.path.dirname(os.path.abspath(__file__)))
BASE = os.path.join(ROOT, "lean", "source_baseline.json")


def strip_comments(src):
    out, i, n = [], 0, len(src)
    while i < n:
        c = src[i]
        if src.startswith("//", i):
            j = src.find("\n", i)
            i = n if j < 0 else j
        elif src.startswith("/*", i):
            depth, i = 1, i + 2
            while i < n and depth:
                if src.startswith("/*", i):
                    depth += 1; i += 2
                elif src.startswith("*/", i):
                    depth -= 1; i += 2
                else:
                    i += 1
        elif c == '"':
            j = i + 1
            while j < n and src[j] != '"':
                j += 2 if src[j] == "\\" else 1
            out.append(src[i:j + 1]); i = j + 1
        elif c == "'" and re.match(r"'(\\.|[^\\'])'", src[i:i + 4]):
            m = re.match(r"'(\\.|[^\\'])'", src[i:i + 4])
            out.append(m.group(0)); i += len(m.group(0))
        else:
            out.append(c); i += 1
    return "".join(out)


def match_brace(s, i):
    """s[i] == '{' → index after the matching '}' (strings already harmless enough)"""
    depth, n = 0, len(s)
    in_str = False
    while i < n:
        c = s[i]
        if in_str:
            if c == "\\":
                i += 1
            elif c == '"':
                in_str = False
        elif c == '"':
            in_str = True
        elif c == "{":
            depth += 1
        elif c == "}":
            depth -= 1
            if depth == 0:
                return i + 1
        i += 1
    return n


BODIES = {}        # (path, key) -> normalised text of the function, filled by functions()
LIT = re.compile(r"(?<![\w.])(0x[0-9a-fA-F_]+|0b[01_]+|0o[0-7_]+|[0-9][0-9_]*)(?:_?(?:u8|u16|u32|u64|u128|usize|i8|i16|i32|i64|i128|isize))?\b")


def file_consts(path):
    """values of the `const NAME: T = expr;` items of a file (only those that evaluate)"""
    sys.path.insert(0, os.path.dirname(os.path.abspath(__file__)))
    import extract
    env = {}
    try:
        src = strip_comments(open(path, encoding="utf-8").read())
    except OSError:
        return env
    for _ in range(3):
        for cn, ce in re.findall(r"\b(?:const|static)\s+([A-Z_][A-Z0-9_]*)\s*:\s*[\w:<>\[\]; ]+?=\s*([^;]+);", src):
            if cn not in env:
                try:
                    env[cn] = extract.ev(ce, env)
                except Exception:
                    pass
    return env


def literals_of(body, env):
    """integer literals of a function body and the values of the upper-case constants it mentions"""
    out = set()
    for m in LIT.finditer(body):
        try:
            out.add(int(m.group(1).replace("_", ""), 0))
        except ValueError:
            pass
    for ty, suf in re.findall(r"\b([ui])(8|16|32|64)::MAX\b", body):
        out.add((1 << (int(suf) - (1 if ty == "i" else 0))) - 1)
    for name in set(re.findall(r"\b([A-Z][A-Z0-9_]{2,})\b", body)):
        if name in env:
            out.add(env[name])
    return out


def functions(path):
    src = strip_comments(open(path, encoding="utf-8").read())
    # drop `#[cfg(test)] mod … { … }`
    while True:
        m = re.search(r"#\[cfg\(test\)\]\s*(pub\s+)?mod\s+\w+\s*\{", src)
        if not m:
            break
        end = match_brace(src, m.end() - 1)
        src = src[:m.start()] + src[end:]
    res = {}
    # enclosing impl / trait / mod headers by position
    scopes = []
    for m in re.finditer(r"\b(impl|trait|mod)\b([^;{]*)\{", src):
        head = re.sub(r"\s+", " ", (m.group(1) + m.group(2)).strip())
        scopes.append((m.start(), match_brace(src, m.end() - 1), head))
    for m in re.finditer(r"\bfn\s+(\w+)", src):
        j = m.end()
        # find body start (or `;` for a declaration)
        depth = 0
        while j < len(src):
            c = src[j]
            if c in "(<[":
                depth += 1
            elif c == ">" and src[j - 1] == "-":
                pass  # `->` is not a closing bracket
            elif c in ")>]":
                depth = max(0, depth - 1)
            elif c == "{" and depth == 0:
                break
            elif c == ";" and depth == 0:
                j = -1
                break
            j += 1
        if j < 0 or j >= len(src):
            continue
        end = match_brace(src, j)
        body = re.sub(r"\s+", " ", src[m.start():end]).strip()
        encl = [h for (a, b, h) in scopes if a < m.start() < b]
        key = " / ".join(encl + [m.group(1)])
        k, n = key, 1
        while k in res:
            n += 1; k = f"{key} #{n}"
        res[k] = hashlib.sha1(body.encode()).hexdigest()[:16]
        BODIES[(path, k)] = body
    return res


def module_files():
    """files of the library's module tree (`mod x;` from src/lib.rs), test modules excluded"""
    seen, todo = [], [os.path.join(REPO, "src", "lib.rs")]
    while todo:
        p = todo.pop()
        if p in seen or not os.path.exists(p):
            continue
        seen.append(p)
        src = strip_comments(open(p, encoding="utf-8").read())
        d = os.path.dirname(p)
        stem = os.path.splitext(os.path.basename(p))[0]
        sub = d if stem in ("lib", "mod") else os.path.join(d, stem)
        for m in re.finditer(r"((?:#\[[^\]]*\]\s*)*)(?:pub(?:\([^)]*\))?\s+)?mod\s+(\w+)\s*;", src):
            if "cfg(test)" in m.group(1):
                continue
            for cand in (os.path.join(sub, m.group(2) + ".rs"), os.path.join(sub, m.group(2), "mod.rs")):
                if os.path.exists(cand):
                    todo.append(cand)
    return sorted(seen)


def fingerprint():
    fp = {}
    for p in module_files():
        rel = os.path.relpath(p, REPO)
        for k, h in functions(p).items():
            fp[f"{rel} :: {k}"] = h
    return fp


def drift(files=None):
    """functions of `files` (None = all) that differ from the committed baseline"""
    try:
        base = json.load(open(BASE))["functions"]
    except Exception as e:  # no baseline: report that, never fail a check
        return {"error": f"no baseline: {e}"}
    cur = fingerprint()

    def keep(k):
        return files is None or any(k.startswith(f + " ::") for f in files)
    changed = sorted(k for k in cur if keep(k) and k in base and base[k] != cur[k])
    added = sorted(k for k in cur if keep(k) and k not in base)
    removed = sorted(k for k in base if keep(k) and k not in cur)
    return {"changed": changed, "added": added, "removed": removed,
            "functions_compared": sum(1 for k in cur if keep(k))}


def hints(limit=16):
    """numbers worth aiming the generators at: integer literals (and values of named constants) in the
    functions whose text differs from the baseline -- those that are new in the function first.  Empty on an
    unchanged tree.  Only ever *adds* generated inputs; never part of a verdict."""
    try:
        basef = json.load(open(BASE))
        base, blits = basef["functions"], basef.get("literals", {})
    except Exception:
        return []
    cur = fingerprint()
    new, old = [], []
    envs = {}
    for (path, k), body in BODIES.items():
        rel = os.path.relpath(path, REPO)
        key = f"{rel} :: {k}"
        if base.get(key) == cur.get(key):
            continue
        if path not in envs:
            envs[path] = file_consts(path)
        ls = literals_of(body, envs[path])
        before = set(blits.get(key, []))
        for x in sorted(ls):
            if 2 <= x <= 3_000_000:
                (old if x in before else new).append(x)
    out = []
    for x in new + old:
        if x not in out:
            out.append(x)
    return out[:limit]


if __name__ == "__main__":
    if len(sys.argv) > 1 and sys.argv[1] == "--write-baseline":
        import subprocess
        head = subprocess.run(["git", "-C", REPO, "rev-parse", "HEAD"], capture_output=True, text=True).stdout.strip()
        fp = fingerprint()
        lits = {}
        for (path, k), body in BODIES.items():
            rel = os.path.relpath(path, REPO)
            lits[f"{rel} :: {k}"] = sorted(x for x in literals_of(body, file_consts(path)) if x < (1 << 64))
        json.dump({"repo_commit": head, "functions": fp, "literals": lits}, open(BASE, "w"), indent=0, sort_keys=True)
        print(f"baseline written for {head}")
    elif len(sys.argv) > 1 and sys.argv[1] == "--hints":
        print(",".join(str(x) for x in hints()))
    else:
        print(json.dumps(drift(sys.argv[1:] or None), indent=1))
