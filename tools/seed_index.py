#!/usr/bin/env python3
"""writes seeded/INDEX.md: one line per stored seeded change (property, round, what reports it)"""
import glob, json, os
rows = []
for p in sorted(glob.glob("/verif/seeded/*/meta.json")):
    m = json.load(open(p))
    if m.get("kept") is False:
        rows.append((m["id"], m.get("property", ""), m.get("round", ""), "rejected", m.get("why_rejected", "")[:160]))
        continue
    det = m.get("detected")
    how = (m.get("detected_how") or "").replace("\n", " ")
    st = "reported" if det else "NOT reported"
    if "no-failing-input-found" in how and det:
        st = "reported (no failing input)"
    rows.append((m["id"], m.get("property", ""), m.get("round", 1), st, how[:170] + ("; first run missed" if m.get("history") else "")))
with open("/verif/seeded/INDEX.md", "w") as f:
    f.write("# Seeded changes and which check reports them\n\n")
    f.write("Each directory holds `patch.diff`, the demonstration (`demo.rs`) and `meta.json` (origin, what the change needs in order to\n")
    f.write("manifest, how it was confirmed, what was run, the first-run history). Rounds: 1–2 independent sub-agents, 3 asked for\n")
    f.write("subtle changes, 4 adversarial (told how the checker works in general). `reported (no failing input)` = the check\n")
    f.write("ends in `no-failing-input-found` and names the broken tie.\n\n")
    f.write("| id | property | round | status | reported as |\n|---|---|---|---|---|\n")
    for r in rows:
        f.write("| " + " | ".join(str(x).replace("|", "/") for x in r) + " |\n")
    n = len([r for r in rows if r[3] != "rejected"])
    f.write(f"\n{n} changes kept; {len([r for r in rows if r[3].startswith('reported')])} reported, "
            f"{len([r for r in rows if r[3] == 'NOT reported'])} not reported, {len(rows) - n} rejected.\n")
print(len(rows))
