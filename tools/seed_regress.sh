#!/bin/bash
# usage: seed_regress.sh <chain> <nchains> <outfile>  — runs every stored seeded change (round-robin share of this
# chain) against the quick check of its property in private copies (tools/seed_par.sh); one summary line per seed
CH=$1; N=$2; OUT=$3
i=0
for d in /verif/seeded/C*_*; do
  [ -f $d/patch.diff ] || continue
  if [ $((i % N)) -eq $CH ]; then
    id=$(basename $d); p=${id%_*}
    res=$(/verif/tools/seed_par.sh rg$id $d/patch.diff $p 2>&1)
    v=$(echo "$res" | grep -c "^VIOLATION")
    nf=$(echo "$res" | grep -c "no-failing-input-found")
    dn=$(echo "$res" | grep -c "DOES NOT APPLY")
    echo "$id violations=$v nfif=$nf noapply=$dn $(echo "$res" | grep -o 'wall=[0-9.]*s' | head -1)" >> $OUT
  fi
  i=$((i+1))
done
echo "chain $CH done" >> $OUT
