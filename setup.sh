#!/bin/sh
# Offline set-up: regenerate the extracted constants, build the Lean development (model,
# driver executable, every theorem module) and the harness in the profiles the checks use.
set -e
cd "$(dirname "$0")"
export CARGO_NET_OFFLINE=true
python3 tools/extract.py
(cd lean && lake build Qwt qwtdriver)
(cd lean && lake build $(python3 -c "import json;o=json.load(open('obligations.json'));print(' '.join(sorted({m for k,v in o.items() if v.get('theorems') or v.get('partial') for m in (v.get('modules') or ['Qwt.Props.'+k])})))"))
(cd harness && cargo build --offline --target-dir target/pf --release)
(cd harness && cargo build --offline --target-dir target/pf --profile verifdbg)
(cd harness && cargo build --offline --target-dir target/nopf --release --no-default-features --features utilsq,syncassert)
echo setup-done
