#!/bin/sh
# Offline set-up: regenerate the extracted constants, build the Lean development (model,
# driver executable, every theorem module) and the harness in the profiles the checks use.
set -e
cd "$(dirname "$0")"
export CARGO_NET_OFFLINE=true
python3 tools/extract.py
(cd lean && lake build Qwt qwtdriver)
for m in $(python3 -c "import json;print(' '.join('Qwt.Props.'+k for k,v in json.load(open('lean/obligations.json')).items() if v.get('theorems') or v.get('partial')))"); do
  (cd lean && lake build "$m")
done
(cd harness && cargo build --offline --target-dir target/pf --release)
(cd harness && cargo build --offline --target-dir target/pf --profile verifdbg)
(cd harness && cargo build --offline --target-dir target/nopf --release --no-default-features)
echo setup-done
