import Qwt.Spec.Basic
import Qwt.Model.Codec
import Qwt.Model.Space
import Qwt.Model.Iter
import Qwt.Proofs.CodecTree

/-! Line-protocol driver: one request per line on stdin, one answer per line on stdout.
For queries the answer is `<model outcome>|<spec outcome>`. -/
open Qwt

namespace Drv

inductive Slot where
  | empty
  | err (f : Fault)
  | qv (q : QV.QVector) (abs : List Nat)
  | rsq (B : Nat) (r : RSQ.RSQVector) (abs : List Nat)
  | bv (mu : Bool) (b : BV.BitVector) (abs : List Bool)
  | rsn (r : RSN.RSNarrow) (abs : List Bool)
  | rsw (r : RSW.RSWide) (abs : List Bool)
  | da (s0 : Bool) (d : DA.DArray) (abs : List Bool)
  | qwt (c : Cfg) (t : QWTree.QWT) (abs : List Nat)
  | hqwt (c : Cfg) (t : Huff.HQWT) (abs : List Nat) (lens : List (Nat × Nat) := [])
  | wt (c : Cfg) (comp : Bool) (t : BinWT.WT) (abs : List Nat) (lens : List (Nat × Nat) := [])
  deriving Inhabited

structure St where
  dbgAll : Bool := false
  cfg : Cfg := {}
  slots : Array Slot := Array.replicate 16 .empty

def nat! (s : String) : Nat := s.toNat!
def int! (s : String) : Int := s.toInt!

def optS : Option Nat → String
  | some v => s!"S:{v}"
  | none => "N"

def both (m : Out) (s : String) : String := m.render ++ "|" ++ s

def listS (l : List Nat) : String := "L:" ++ ",".intercalate (l.map toString)

/-- bits from `len` and sorted positions of ones -/
def bitsFrom (len : Nat) (ps : List Nat) : List Bool :=
  let arr := ps.foldl (fun (a : Array Bool) p => if p < a.size then a.set! p true else a) (Array.replicate len false)
  arr.toList

def b2n (b : Bool) : Nat := if b then 1 else 0

def optB : Option Bool → String
  | some v => s!"S:{b2n v}"
  | none => "N"

/- ------------------------------------------------------------------ spec answers -/

def specRankU (abs : List Nat) (c i : Nat) : String :=
  if abs ≠ [] ∧ c ≤ Spec.maxNat abs ∧ i ≤ abs.length then optS (some (Spec.rank c i abs)) else "N"

def specSelectU (abs : List Nat) (c k : Nat) : String :=
  if abs ≠ [] ∧ c ≤ Spec.maxNat abs then optS (Spec.select c k abs) else "N"

def specRankH (abs : List Nat) (c i : Nat) : String :=
  if abs.contains c ∧ i ≤ abs.length then optS (some (Spec.rank c i abs)) else "N"

def specSelectH (abs : List Nat) (c k : Nat) : String :=
  if abs.contains c then optS (Spec.select c k abs) else "N"

def specGet (abs : List Nat) (i : Nat) : String := optS abs[i]?

/-- history letters: `n` next, `b` next_back, `l` len, `c` by_ref().count(), `a` by_ref().last(),
    `t u v w x y z` = nth(1 2 5 64 255 256 1000), `o p q` = nth(2^64-2, 2^63, 2^64-1), the same capitals = nth_back -/
def nthAmount (c : Char) : Option Nat :=
  match c.toLower with
  | 't' => some 1 | 'u' => some 2 | 'v' => some 5 | 'w' => some 64
  | 'x' => some 255 | 'y' => some 256 | 'z' => some 1000
  | 'o' => some 18446744073709551614 | 'p' => some 9223372036854775808 | 'q' => some 18446744073709551615
  | _ => none

def opsOf (cs : List Char) : List Iter.IterOp :=
  cs.map (fun c =>
    if c == 'n' then .next else if c == 'b' then .nextBack
    else if c == 'h' then .len        -- `size_hint()`: the comparer checks lower ≤ remaining ≤ upper
    else if c == 'c' then .count else if c == 'a' then .last
    else match nthAmount c with
      | some k => if c.isUpper then .nthBack k else .nth k
      | none => .len)

/-- deque semantics (specification) of a history of iterator calls -/
def specIterHist (abs : List Nat) (ops : List Char) : List String :=
  (Iter.specRun abs (opsOf ops)).map Out.render

/-- the `WTIterator` state machine (model) over a `get_unchecked` function -/
def modelIterHist (getU : Nat → M Nat) (n : Nat) (ops : List Char) : List String :=
  (Iter.run getU { i := 0, e := n } (opsOf ops)).map Out.render

/-- terminal consuming calls at the end of a history (`#` count(), `$` last(), `%` fold, `^` rev().fold): the
    crate overrides none of them, so they are the provided methods of the standard library — repeated `next`
    (`next_back`) until `None`.  `pre` is the history before the terminal letter; the answer is computed by
    running `pre` followed by `fuel` more single steps. -/
def terminalOut (runOps : List Iter.IterOp → List Out) (pre : List Iter.IterOp) (c : Char) (fuel : Nat) : String :=
  let stepOp : Iter.IterOp := if c == '^' then .nextBack else .next
  let outs := (runOps (pre ++ List.replicate fuel stepOp)).drop pre.length
  let rec go : List Out → List Nat → (List Nat × Option Fault)
    | [], acc => (acc.reverse, none)
    | .some v :: rest, acc => go rest (v :: acc)
    | .fault e :: _, acc => (acc.reverse, some e)
    | _ :: _, acc => (acc.reverse, none)
  match go outs [] with
  | (_, some e) => "F:" ++ e.tag
  | (vs, none) =>
    if c == '#' then s!"V:{vs.length}"
    else if c == '$' then (match vs.getLast? with | some v => s!"S:{v}" | none => "N")
    else if c == 'm' then (match vs with | [] => "N" | v :: rest => s!"S:{rest.foldl min v}")
    else if c == 'M' || c == 'r' then (match vs with | [] => "N" | v :: rest => s!"S:{rest.foldl max v}")
    else listS vs

/-- split a history at its first terminal letter -/
def splitTerminal (cs : List Char) : List Char × Option Char :=
  match cs.span (fun c => !("#$%^mMer".toList.contains c)) with
  | (pre, c :: _) => (pre, some c)
  | (pre, []) => (pre, none)

/-- history letters of the one-ended iterators: `n` next, `c` count, `a` last, `t..z` nth -/
def fwdOpsOf (cs : List Char) : List Iter.FwdOp :=
  cs.map (fun c =>
    if c == 'c' then .count else if c == 'a' then .last
    else match nthAmount c with
      | some k => .nth k
      | none => .next)

/-- model (index-driven iterator over the model's `get`) | specification (deque over `abs`) -/
def fwdHist (getO : Nat → M (Option Nat)) (abs : List Nat) (hist : String) : String :=
  -- `h` (`size_hint()`, not overridden by the crate: the standard default) is answered with the number of
  -- remaining elements on both sides; the comparer checks `lower ≤ remaining ≤ upper` on the real answer
  let rec go : List Char → Nat → List Nat → List String → List String → List String × List String
    | [], _, _, ms, ss => (ms.reverse, ss.reverse)
    | c :: cs, i, rem, ms, ss =>
      if c == 'h' then go cs i rem (s!"V:{rem.length}" :: ms) (s!"V:{rem.length}" :: ss)
      else if "#$%mMer".toList.contains c then
        -- terminal consuming call (provided method: repeated `next`)
        let m := terminalOut (fun o => (Iter.fwdRun getO abs.length i (o.map (fun _ => Iter.FwdOp.next)))) [] c (rem.length + 2)
        let sp := if c == '#' then s!"V:{rem.length}"
          else if c == '$' then (match rem.getLast? with | some v => s!"S:{v}" | none => "N")
          else if c == 'm' then (match rem with | [] => "N" | v :: rest => s!"S:{rest.foldl min v}")
          else if c == 'M' || c == 'r' then (match rem with | [] => "N" | v :: rest => s!"S:{rest.foldl max v}")
          else listS rem
        ((m :: ms).reverse, (sp :: ss).reverse)
      else
        match fwdOpsOf [c] with
        | [op] =>
          let r := Iter.fwdStep getO abs.length i op
          let q := Iter.specStep rem op.toIterOp
          go cs r.1 q.1 (r.2.render :: ms) (q.2.render :: ss)
        | _ => go cs i rem ms ss
  let (ms, ss) := go hist.toList 0 abs [] []
  " ".intercalate ms ++ "|" ++ " ".intercalate ss

/-- drain a position iterator (until its first `None`), then call `next` three more times -/
def posAfter (bit : Bool) (b : BV.BitVector) (fuel : Nat) (it : BV.PosIter) : String :=
  let rec drainIt : Nat → BV.PosIter → BV.PosIter
    | 0, it => it
    | f + 1, it => match BV.PosIter.next bit b it with
      | (some _, it') => drainIt f it'
      | (none, it') => it'
  let it1 := drainIt fuel it
  let r1 := BV.PosIter.next bit b it1
  let r2 := BV.PosIter.next bit b r1.2
  let r3 := BV.PosIter.next bit b r2.2
  " ".intercalate ([r1.1, r2.1, r3.1].map optS) ++ "|N N N"

def isOk : M α → Bool
  | .ok _ => true
  | .error _ => false

end Drv

open Drv

def getSlot (st : St) (k : Nat) : Slot := st.slots.getD k .empty

def setSlot (st : St) (k : Nat) (s : Slot) : St :=
  if k < st.slots.size then { st with slots := st.slots.set! k s }
  else { st with slots := (st.slots ++ Array.replicate (k + 1 - st.slots.size) Slot.empty).set! k s }

def mkResult (st : St) (k : Nat) (r : M Slot) : St × String :=
  match r with
  | .ok s => (setSlot st k s, "ok")
  | .error f => (setSlot st k (.err f), "F:" ++ f.tag)

/-- parse `<n> <sym len>*n rest` -/
def parseLens (toks : List String) : List (Nat × Nat) × List String :=
  match toks with
  | [] => ([], [])
  | n :: rest =>
    let n := nat! n
    let pairs := (rest.take (2 * n))
    let rec go : List String → List (Nat × Nat)
      | a :: b :: r => (nat! a, nat! b) :: go r
      | _ => []
    (go pairs, rest.drop (2 * n))

def wbytes (c : Cfg) : Nat := c.W / 8

/-- plain value list, or run-length encoded `value count value count …` for the `rle` variant -/
def expandArgs (variant : String) (args : List String) : List Nat :=
  if variant == "rle" then
    let rec go : List String → List Nat → List Nat
      | v :: c :: rest, acc => go rest (List.replicate (nat! c) (nat! v) ++ acc)
      | _, acc => acc.reverse
    go args []
  else args.map nat!

def copySlot (st : St) (k : Nat) (args : List String) : St × String :=
  match args with
  | [src] => (match getSlot st (nat! src) with
    | .empty => (st, "bad-op")
    | s => (setSlot st k s, "ok"))
  | _ => (st, "bad-op")

def handleMk (st : St) (k : Nat) (kindFull : String) (args : List String) : St × String :=
  let c := st.cfg
  let kind := (kindFull.splitOn ":").headD ""
  let variant := ((kindFull.splitOn ":").drop 1).headD ""
  if variant == "default" then
    match kind with
    | "qwt" => mkResult st k (pure (.qwt c {} []))
    | "hqwt" => mkResult st k (pure (.hqwt c {} []))
    | "wt" => mkResult st k (pure (.wt c false {} []))
    | "hwt" => mkResult st k (pure (.wt c true {} []))
    | _ => (st, "bad-op")
  else
  match kind with
  | "copy" | "serde" =>
    (match copySlot st k args with
     | (st', "ok") =>
       (match getSlot st' k with
        | .bv mu b abs =>
          let mu' := if variant == "freeze" then false else if variant == "thaw" then true else mu
          (setSlot st' k (.bv mu' b abs), "ok")
        | _ => (st', "ok"))
     | r => r)
  | "qvb" => mkResult st k (pure (.qv {} []))
  | "bvcap" =>
    (match args with
     | [n] => mkResult st k (do let b ← BV.withCapacity (nat! n); pure (.bv true b []))
     | _ => (st, "bad-op"))
  | "rsndefault" => mkResult st k (pure (.rsn {} []))
  | "rswdefault" => mkResult st k (pure (.rsw {} []))
  | "dadefault" =>
    (match args with
     | [s0] => mkResult st k (pure (.da (s0 == "1") (DA.new (s0 == "1") {}) []))
     | _ => (st, "bad-op"))
  | "dabits" =>
    (match args with
     | s0 :: len :: ps =>
       let bits := bitsFrom (nat! len) (ps.map nat!)
       mkResult st k (do let b ← BV.fromBools bits; pure (.da (s0 == "1") (DA.new (s0 == "1") b) bits))
     | _ => (st, "bad-op"))
  | "dapos" =>
    (match args with
     | s0 :: ps =>
       let ps := ps.map nat!
       let len := ps.foldl (fun m p => max m (p + 1)) 0
       mkResult st k (do let b ← BV.fromPositions ps; pure (.da (s0 == "1") (DA.new (s0 == "1") b) (bitsFrom len ps)))
     | _ => (st, "bad-op"))
  | "qvx" =>
    let vals := args.map int!
    mkResult st k (do let q ← QV.fromIter vals; pure (.qv q (vals.map (fun v => (v % 4).toNat))))
  | "qvfilt" =>
    let vals := (args.filter (fun x => !x.startsWith "x")).map int!
    mkResult st k (do let q ← QV.fromIter vals; pure (.qv q (vals.map (fun v => (v % 4).toNat))))
  | "qvchain" =>
    let vals := (args.drop 1).map int!
    mkResult st k (do let q ← QV.fromIter vals; pure (.qv q (vals.map (fun v => (v % 4).toNat))))
  | "qvnf" | "qvnfext" =>       -- the source answers None after `k` values: exactly those are stored
    let vals := ((args.drop 1).map int!).take (nat! (args.getD 0 "0"))
    mkResult st k (do let q ← QV.fromIter vals; pure (.qv q (vals.map (fun v => (v % 4).toNat))))
  | "qvpush" | "qvext" =>
    let vals := (args.drop 1).map int!
    let cap := args.getD 0 "-"
    mkResult st k (do
      if cap != "-" then let _ ← QV.withCapacity (nat! cap)
      let q ← QV.fromIter vals
      pure (.qv q (vals.map (fun v => (v % 4).toNat))))
  | "qvbcap" => mkResult st k (do let b ← QV.withCapacity (nat! (args.getD 0 "0")); pure (.qv b []))
  | "qv" =>
    let vals := args.map int!
    mkResult st k (do let q ← QV.fromIter vals; pure (.qv q (vals.map (fun v => (v % 4).toNat))))
  | "rsq" =>
    match args with
    | b :: rest =>
      let vals := rest.map int!
      mkResult st k (do let r ← RSQ.new c.dbg (nat! b) vals; pure (.rsq (nat! b) r (vals.map (fun v => (v % 4).toNat))))
    | _ => (st, "bad-op")
  | "rsqdefault" =>
    match args with
    | [b] => mkResult st k (do let r ← RSQ.default (nat! b); pure (.rsq (nat! b) r []))
    | _ => (st, "bad-op")
  | "bvbits" =>
    match args with
    | len :: ps =>
      let bits := bitsFrom (nat! len) (ps.map nat!)
      mkResult st k (do let b ← BV.fromBools bits; pure (.bv (variant == "mut") b bits))
    | _ => (st, "bad-op")
  | "bvzpos" =>
    match args with
    | len :: zs =>
      let bits := (bitsFrom (nat! len) (zs.map nat!)).map (fun b => !b)
      mkResult st k (do let b ← BV.fromBools bits; pure (.bv false b bits))
    | _ => (st, "bad-op")
  | "bvpos" =>
    let ps := args.map nat!
    let len := ps.foldl (fun m p => max m (p + 1)) 0
    mkResult st k (do let b ← BV.fromPositions ps; pure (.bv (variant == "mut") b (bitsFrom len ps)))
  | "bvnew" => mkResult st k (pure (.bv true {} []))
  | "bvzeros" =>
    match args with
    | [n] => mkResult st k (do let b ← BV.withZeros (nat! n); pure (.bv true b (List.replicate (nat! n) false)))
    | _ => (st, "bad-op")
  | "rsn" =>
    match args with
    | [src] => (match getSlot st (nat! src) with
      | .bv _ b abs => mkResult st k (do let r ← RSN.new b; pure (.rsn r abs))
      | _ => (st, "bad-op"))
    | _ => (st, "bad-op")
  | "rsw" =>
    match args with
    | [src] => (match getSlot st (nat! src) with
      | .bv _ b abs => mkResult st k (do let r ← RSW.new b; pure (.rsw r abs))
      | _ => (st, "bad-op"))
    | _ => (st, "bad-op")
  | "da" =>
    match args with
    | [s0, src] => (match getSlot st (nat! src) with
      | .bv _ b abs => mkResult st k (pure (.da (s0 == "1") (DA.new (s0 == "1") b) abs))
      | _ => (st, "bad-op"))
    | _ => (st, "bad-op")
  | "qwt" =>
    let vals := expandArgs variant args
    mkResult st k (do let t ← QWTree.new c vals.toArray; pure (.qwt c t vals))
  | "hqwt" =>
    let (lens, rest) := parseLens args
    let vals := expandArgs variant rest
    mkResult st k (do let t ← Huff.new c vals.toArray lens; pure (.hqwt c t vals lens))
  | "wt" =>
    let vals := expandArgs variant args
    mkResult st k (do let t ← BinWT.new c false vals.toArray []; pure (.wt c false t vals))
  | "hwt" =>
    let (lens, rest) := parseLens args
    let vals := expandArgs variant rest
    mkResult st k (do let t ← BinWT.new c true vals.toArray lens; pure (.wt c true t vals lens))
  | _ => (st, "bad-op")

/-- documented-precondition oracle for the mutators: `U` or `F:assertdoc` -/
def specMut (ok : Bool) : String := if ok then "U" else "F:assertdoc"

def handleOp (st : St) (k : Nat) (op : String) (args : List String) : St × String :=
  match getSlot st k with
  | .bv mu b abs =>
    let fin (r : M BV.BitVector) (abs' : List Bool) (pre : Bool) : St × String :=
      match r with
      | .ok b' => (setSlot st k (.bv mu b' (if pre then abs' else abs)), both .unit (specMut pre))
      | .error f => (st, both (.fault f) (specMut pre))
    match op, args with
    | "push", [x] => fin (BV.push b (x == "1")) (abs ++ [x == "1"]) true
    | "append_bits", [bits, len] =>
      let bits := nat! bits; let len := nat! len
      let pre := len ≤ 64 ∧ (len == 64 ∨ bits >>> len == 0)
      fin (BV.appendBits b bits len) (abs ++ (Spec.bitsOf bits len)) pre
    | "extend_with_zeros", [n] => fin (BV.extendWithZeros b (nat! n)) (abs ++ List.replicate (nat! n) false) true
    | "set", [i, x] =>
      let i := nat! i
      fin (BV.set b i (x == "1")) (abs.set i (x == "1")) (i < abs.length)
    | "set_bits", [i, len, bits] =>
      let i := nat! i; let len := nat! len; let bits := nat! bits
      let pre := i + len ≤ abs.length ∧ len ≤ 64 ∧ (len == 64 ∨ bits >>> len == 0)
      fin (BV.setBits b i len bits) (abs.take i ++ Spec.bitsOf bits len ++ abs.drop (i + len)) pre
    | "extend_bools", bs => fin (BV.extendBools b (bs.map (· == "1"))) (abs ++ bs.map (· == "1")) true
    | "extend_bools_nf", kk :: bs =>       -- a non-fused source: only the items before its first None count
      let bs := (bs.map (· == "1")).take (nat! kk)
      fin (BV.extendBools b bs) (abs ++ bs) true
    | "extend_pos_nf", kk :: ps =>
      let ps := (ps.map nat!).take (nat! kk)
      let abs' := ps.foldl (fun (a : List Bool) p =>
        let a := if p ≥ a.length then a ++ List.replicate (p + 1 - a.length) false else a
        a.set p true) abs
      fin (BV.extendPositions b ps) abs' true
    | "extend_pos", ps =>
      let ps := ps.map nat!
      let abs' := ps.foldl (fun (a : List Bool) p =>
        let a := if p ≥ a.length then a ++ List.replicate (p + 1 - a.length) false else a
        a.set p true) abs
      fin (BV.extendPositions b ps) abs' true
    | "roundtrip", [] => fin (pure b) abs true      -- into BitVector and back / clone
    | "shrink_to_fit", [] => fin (pure b) abs true
    | _, _ => (st, "bad-op")
  | .qv q abs =>
    match op, args with
    | "push", [x] =>
      (match QV.push q (QV.asU8 (int! x)) with
       | .ok q' => (setSlot st k (.qv q' (abs ++ [((int! x) % 4).toNat])), both .unit "U")
       | .error f => (st, both (.fault f) "U"))
    | "extend", _ty :: xs =>
      (match QV.extend q (xs.map int!) with
       | .ok q' => (setSlot st k (.qv q' (abs ++ xs.map (fun x => ((int! x) % 4).toNat))), both .unit "U")
       | .error f => (st, both (.fault f) "U"))
    | _, _ => (st, "bad-op")
  | _ => (st, "bad-op")

def collectIter (next : Nat → M (Option Nat)) (fuel : Nat) : String :=
  let rec go : Nat → Nat → List Nat → String
    | 0, _, acc => listS acc.reverse
    | f + 1, i, acc =>
      match next i with
      | .ok (some v) => go f (i + 1) (v :: acc)
      | .ok none => listS acc.reverse
      | .error e => "F:" ++ e.tag
  go fuel 0 []

partial def handleQ (st : St) (k : Nat) (q : String) (args : List String) : String :=
  let a (i : Nat) : Nat := nat! (args.getD i "0")
  -- `<op>_pair`: checked method + (when it answers Some) its unchecked twin; the answer is the checked one
  if q.endsWith "_pair" then handleQ st k ((q.dropEnd 5).toString) args else
  -- `Debug::fmt` must not panic; its text is not modelled
  if q == "debug" then
    (match getSlot st k with
     | .err _ => "E" | .empty => "bad-slot"
     | _ => "U|U")
  else
  match getSlot st k with
  | .err _ => "E"
  | .empty => "bad-slot"
  | .qv qv abs =>
    let dbg := st.cfg.dbg
    match q with
    | "len" => both (.val (QV.len qv)) s!"V:{abs.length}"
    | "is_empty" => both (.val (b2n (QV.isEmpty qv))) s!"V:{b2n abs.isEmpty}"
    | "get" => both (.ofOpt (QV.get dbg qv (a 0))) (specGet abs (a 0))
    | "get_unchecked" => both (.ofVal (QV.getUnchecked dbg qv (a 0))) s!"V:{abs.getD (a 0) 0}"
    | "iter" | "into_iter" => collectIter (fun i => QV.get dbg qv i) (abs.length + 2) ++ "|" ++ listS abs
    | "fwdhist" | "fwdhist_into" => fwdHist (fun i => QV.get dbg qv i) abs (args.getD 0 "")
    | _ => "bad-op"
  | .rsq B r abs =>
    let dbg := st.cfg.dbg
    match q with
    | "len" => both (.val (RSQ.len r)) s!"V:{abs.length}"
    | "is_empty" => both (.val (b2n (RSQ.isEmpty r))) s!"V:{b2n abs.isEmpty}"
    | "get" => both (.ofOpt (RSQ.get dbg r (a 0))) (specGet abs (a 0))
    | "get_unchecked" => both (.ofVal (RSQ.getUnchecked dbg r (a 0))) s!"V:{abs.getD (a 0) 0}"
    | "rank" => both (.ofOpt (RSQ.rank dbg B r (a 0) (a 1)))
        (if a 0 ≤ 3 ∧ a 1 ≤ abs.length then optS (some (Spec.rank (a 0) (a 1) abs)) else "N")
    | "rank_unchecked" => both (.ofVal (RSQ.rankUnchecked dbg B r (a 0) (a 1))) s!"V:{Spec.rank (a 0) (a 1) abs}"
    | "select" => both (.ofOpt (RSQ.select dbg B r (a 0) (a 1)))
        (if a 0 ≤ 3 then optS (Spec.select (a 0) (a 1) abs) else "N")
    | "select_unchecked" => both (.ofVal (RSQ.selectUnchecked dbg B r (a 0) (a 1)))
        s!"V:{(Spec.select (a 0) (a 1) abs).getD 0}"
    | "occs" => both (.ofOpt (RSQ.occs dbg r (a 0))) (if a 0 ≤ 3 then optS (some (abs.count (a 0))) else "N")
    | "occs_unchecked" => both (.ofVal (RSQ.occsUnchecked dbg r (a 0))) s!"V:{abs.count (a 0)}"
    | "occs_smaller" => both (.ofOpt (RSQ.occsSmaller dbg r (a 0)))
        (if a 0 ≤ 3 then optS (some (Spec.occsSmaller id (a 0) abs)) else "N")
    | "occs_smaller_unchecked" => both (.ofVal (RSQ.occsSmallerUnchecked dbg r (a 0))) s!"V:{Spec.occsSmaller id (a 0) abs}"
    | "iter" => collectIter (fun i => RSQ.get dbg r i) (abs.length + 2) ++ "|" ++ listS abs
    | "fwdhist" | "fwdhist_into" => fwdHist (fun i => RSQ.get dbg r i) abs (args.getD 0 "")
    | "prefetch_info" => both (.ofUnit (PFS.rsqPrefetchInfo B r (a 0))) "U"
    | "prefetch_data" => both (.ofUnit (PFS.rsqPrefetchData B r (a 0))) "U"
    | _ => "bad-op"
  | .bv mu b abs =>
    let n := abs.length
    let onesPos (bit : Bool) (from_ : Nat) : List Nat :=
      (List.range n).filter (fun i => i ≥ from_ ∧ abs.getD i false == bit)
    match q with
    | "len" => both (.val (BV.len b)) s!"V:{n}"
    | "is_empty" => both (.val (b2n (BV.isEmpty b))) s!"V:{b2n abs.isEmpty}"
    | "get" => both (.ofOptBool (BV.get b (a 0))) (optB abs[a 0]?)
    | "get_unchecked" => both (.ofVal ((BV.getUnchecked b (a 0)).map b2n)) s!"V:{b2n (abs.getD (a 0) false)}"
    | "count_ones" => both (.val (BV.countOnes b)) s!"V:{abs.count true}"
    | "count_zeros" => both (.ofVal (BV.countZeros b)) s!"V:{abs.count false}"
    | "get_bits" =>
      let i := a 0; let l := a 1
      both (.ofOpt (if mu then BV.getBitsMut b i l else BV.getBits b i l))
        (if l ≥ 1 ∧ l ≤ 64 ∧ i + l ≤ n then optS (some (Spec.ofBits ((abs.drop i).take l))) else "N")
    | "get_bits_unchecked" =>
      both (.ofVal (BV.getBitsUnchecked b (a 0) (a 1))) s!"V:{Spec.ofBits ((abs.drop (a 0)).take (a 1))}"
    | "get_word" =>
      let i := a 0
      both (.ofVal (BV.getWord b i))
        (if i < 8 * ((n + 511) / 512) then s!"V:{Spec.ofBits ((abs.drop (64 * i)).take 64)}" else "F:assertdoc")
    | "iter" | "into_iter" => collectIter (fun i => (BV.get b i).map (·.map b2n)) (n + 2) ++ "|" ++ listS (abs.map b2n)
    | "n_lines" => both (.val (BV.nLines b)) s!"V:{(n + 511) / 512}"
    | "fwdhist" | "fwdhist_into" => fwdHist (fun i => (BV.get b i).map (·.map b2n)) (abs.map b2n) (args.getD 0 "")
    | "prefetch_line" => both (.ofUnit (PFS.bvPrefetchLine b (a 0))) "U"
    | "iterlen" | "iterlen_ref" =>
      -- `len()` before the first and after each of `n + 2` calls of `next`
      let lens := (List.range (n + 3)).map (fun j => Out.ofVal (BV.BitIter.len b { i := min j n }))
      (if lens.all (fun o => match o with | .val _ => true | _ => false)
       then listS (lens.map (fun o => match o with | .val v => v | _ => 0)) else "F:overflow")
      ++ "|" ++ listS ((List.range (n + 3)).map (fun j => n - min j n))
    | "ones" => listS (BV.PosIter.collect true b (n + 1) BV.PosIter.new) ++ "|" ++ listS (onesPos true 0)
    | "zeros" => listS (BV.PosIter.collect false b (n + 1) BV.PosIter.new) ++ "|" ++ listS (onesPos false 0)
    | "ones_with_pos" => listS (BV.PosIter.collect true b (n + 1) (BV.PosIter.withPos true b (a 0))) ++ "|" ++ listS (onesPos true (a 0))
    | "zeros_with_pos" => listS (BV.PosIter.collect false b (n + 1) (BV.PosIter.withPos false b (a 0))) ++ "|" ++ listS (onesPos false (a 0))
    | "ones_hist" =>
      let ps := BV.PosIter.collect true b (n + 1) (BV.PosIter.withPos true b (a 0))
      fwdHist (fun i => .ok ps[i]?) (onesPos true (a 0)) (args.getD 1 "")
    | "zeros_hist" =>
      let ps := BV.PosIter.collect false b (n + 1) (BV.PosIter.withPos false b (a 0))
      fwdHist (fun i => .ok ps[i]?) (onesPos false (a 0)) (args.getD 1 "")
    | "ones_after" => posAfter true b (n + 2) (BV.PosIter.withPos true b (a 0))
    | "zeros_after" => posAfter false b (n + 2) (BV.PosIter.withPos false b (a 0))
    | _ => "bad-op"
  | .rsn r abs =>
    let n := abs.length
    match q with
    | "get" => both (.ofOptBool (RSN.get r (a 0))) (optB abs[a 0]?)
    | "rank1" => both (.ofOpt (RSN.rank1 r (a 0))) (if n ≠ 0 ∧ a 0 ≤ n then optS (some (Spec.rank true (a 0) abs)) else "N")
    | "rank0" => both (.ofOpt (RSN.rank0 r (a 0))) (if n ≠ 0 ∧ a 0 ≤ n then optS (some (Spec.rank false (a 0) abs)) else "N")
    | "rank1_unchecked" => both (.ofVal (RSN.rank1Unchecked r (a 0))) s!"V:{Spec.rank true (a 0) abs}"
    | "rank0_unchecked" => both (.ofVal (do let k ← RSN.rank1Unchecked r (a 0); sub (a 0) k)) s!"V:{Spec.rank false (a 0) abs}"
    | "select1" => both (.ofOpt (RSN.select1 r (a 0))) (optS (Spec.select true (a 0) abs))
    | "select0" => both (.ofOpt (RSN.select0 r (a 0))) (optS (Spec.select false (a 0) abs))
    | "select1_unchecked" => both (.ofVal (RSN.selectUnchecked r true (a 0))) s!"V:{(Spec.select true (a 0) abs).getD 0}"
    | "select0_unchecked" => both (.ofVal (RSN.selectUnchecked r false (a 0))) s!"V:{(Spec.select false (a 0) abs).getD 0}"
    | "n_ones" => both (.ofVal (RSN.nOnes r)) s!"V:{abs.count true}"
    | "n_zeros" => both (.ofVal (RSN.nZeros r)) s!"V:{abs.count false}"
    | _ => "bad-op"
  | .rsw r abs =>
    let n := abs.length
    match q with
    | "get" => both (.ofOptBool (RSW.get r (a 0))) (optB abs[a 0]?)
    | "rank1" => both (.ofOpt (RSW.rank1 r (a 0))) (if n ≠ 0 ∧ a 0 ≤ n then optS (some (Spec.rank true (a 0) abs)) else "N")
    | "rank0" => both (.ofOpt (RSW.rank0 r (a 0))) (if n ≠ 0 ∧ a 0 ≤ n then optS (some (Spec.rank false (a 0) abs)) else "N")
    | "rank1_unchecked" => both (.ofVal (RSW.rank1Unchecked r (a 0))) s!"V:{Spec.rank true (a 0) abs}"
    | "rank0_unchecked" => both (.ofVal (RSW.rank0Unchecked r (a 0))) s!"V:{Spec.rank false (a 0) abs}"
    | "select1" => both (.ofOpt (RSW.select1 r (a 0))) (optS (Spec.select true (a 0) abs))
    | "select0" => both (.ofOpt (RSW.select0 r (a 0))) (optS (Spec.select false (a 0) abs))
    | "select1_unchecked" => both (.ofVal (RSW.selectUnchecked r true (a 0))) s!"V:{(Spec.select true (a 0) abs).getD 0}"
    | "select0_unchecked" => both (.ofVal (RSW.selectUnchecked r false (a 0))) s!"V:{(Spec.select false (a 0) abs).getD 0}"
    | "n_ones" => both (.ofVal (RSW.nOnes r)) s!"V:{abs.count true}"
    | "n_zeros" => both (.val r.nZeros) s!"V:{abs.count false}"
    | "bv_len" => both (.val r.bv.nBits) s!"V:{n}"
    | "prefetch_info" => both (.ofUnit (PFS.rswPrefetchInfo r (a 0))) "U"
    | "prefetch_data" => both (.ofUnit (PFS.rswPrefetchData r (a 0))) "U"
    | _ => "bad-op"
  | .da s0 d abs =>
    let n := abs.length
    match q with
    | "len" => both (.val (DA.len d)) s!"V:{n}"
    | "get" => both (.ofOptBool (DA.get d (a 0))) (optB abs[a 0]?)
    | "count_ones" => both (.val (DA.countOnes d)) s!"V:{abs.count true}"
    | "count_zeros" => both (.ofVal (DA.countZeros d)) s!"V:{abs.count false}"
    | "select1" => both (.ofOpt (DA.select1 d (a 0))) (optS (Spec.select true (a 0) abs))
    | "select0" => both (.ofOpt (DA.select0 s0 d (a 0))) (if s0 then optS (Spec.select false (a 0) abs) else "F:assertdoc")
    | "select1_unchecked" => both (.ofVal (do let v ← DA.select1 d (a 0); unwrap v)) s!"V:{(Spec.select true (a 0) abs).getD 0}"
    | "select0_unchecked" => both (.ofVal (do let v ← DA.select0 s0 d (a 0); unwrap v)) s!"V:{(Spec.select false (a 0) abs).getD 0}"
    | "is_empty" => both (.val (b2n (DA.len d == 0))) s!"V:{b2n abs.isEmpty}"
    | "iter" => collectIter (fun i => (DA.get d i).map (·.map b2n)) (n + 2) ++ "|" ++ listS (abs.map b2n)
    | "fwdhist" => fwdHist (fun i => (DA.get d i).map (·.map b2n)) (abs.map b2n) (args.getD 0 "")
    | "ones" => listS (BV.PosIter.collect true d.bv (n + 1) BV.PosIter.new) ++ "|" ++ listS ((List.range n).filter (fun i => abs.getD i false))
    | "zeros" => listS (BV.PosIter.collect false d.bv (n + 1) BV.PosIter.new) ++ "|" ++ listS ((List.range n).filter (fun i => !abs.getD i false))
    | "ones_with_pos" => listS (BV.PosIter.collect true d.bv (n + 1) (BV.PosIter.withPos true d.bv (a 0))) ++ "|" ++ listS ((List.range n).filter (fun i => i ≥ a 0 ∧ abs.getD i false))
    | "zeros_with_pos" => listS (BV.PosIter.collect false d.bv (n + 1) (BV.PosIter.withPos false d.bv (a 0))) ++ "|" ++ listS ((List.range n).filter (fun i => i ≥ a 0 ∧ !abs.getD i false))
    | "ones_hist" =>
      let ps := BV.PosIter.collect true d.bv (n + 1) (BV.PosIter.withPos true d.bv (a 0))
      fwdHist (fun i => .ok ps[i]?) ((List.range n).filter (fun i => i ≥ a 0 ∧ abs.getD i false)) (args.getD 1 "")
    | "zeros_hist" =>
      let ps := BV.PosIter.collect false d.bv (n + 1) (BV.PosIter.withPos false d.bv (a 0))
      fwdHist (fun i => .ok ps[i]?) ((List.range n).filter (fun i => i ≥ a 0 ∧ !abs.getD i false)) (args.getD 1 "")
    | "ones_after" => posAfter true d.bv (n + 2) (BV.PosIter.withPos true d.bv (a 0))
    | "zeros_after" => posAfter false d.bv (n + 2) (BV.PosIter.withPos false d.bv (a 0))
    | _ => "bad-op"
  | .qwt c t abs =>
    match q with
    | "len" => both (.val (QWTree.len t)) s!"V:{abs.length}"
    | "is_empty" => both (.val (b2n (QWTree.isEmpty t))) s!"V:{b2n abs.isEmpty}"
    | "n_levels" => both (.val t.nLevels)
        (if abs.isEmpty then "V:0" else s!"V:{(Spec.bitlen (Spec.maxNat abs) + 1) / 2}")
    | "sigma" => both (.ofOpt (pure (QWTree.sigma? t))) (if abs.isEmpty then "N" else optS (some (Spec.maxNat abs)))
    | "get" => both (.ofOpt (QWTree.get c t (a 0))) (specGet abs (a 0))
    | "get_unchecked" => both (.ofVal (QWTree.getUnchecked c t (a 0))) s!"V:{abs.getD (a 0) 0}"
    | "rank" => both (.ofOpt (QWTree.rank c t (a 0) (a 1))) (specRankU abs (a 0) (a 1))
    | "rank_unchecked" => both (.ofVal (QWTree.rankUnchecked c t (a 0) (a 1))) s!"V:{Spec.rank (a 0) (a 1) abs}"
    | "rank_prefetch" => both (.ofOpt (QWTree.rankPrefetch c t (a 0) (a 1))) (specRankU abs (a 0) (a 1))
    | "rank_prefetch_unchecked" => both (.ofVal (QWTree.rankPrefetchUnchecked c t (a 0) (a 1))) s!"V:{Spec.rank (a 0) (a 1) abs}"
    | "select" => both (.ofOpt (QWTree.select c t (a 0) (a 1))) (specSelectU abs (a 0) (a 1))
    | "select_unchecked" => both (.ofVal (QWTree.selectUnchecked c t (a 0) (a 1))) s!"V:{(Spec.select (a 0) (a 1) abs).getD 0}"
    | "iter" | "iter_ref" | "into_iter" => collectIter (fun i => QWTree.get c t i) (abs.length + 2) ++ "|" ++ listS abs
    | "iterhist" =>
      let (pre, term) := splitTerminal (args.getD 0 "").toList
      let mt := match term with
        | some ch => [terminalOut (Iter.run (QWTree.getUnchecked c t) { i := 0, e := t.n }) (opsOf pre) ch (t.n + 2)]
        | none => []
      let st := match term with
        | some ch => [terminalOut (Iter.specRun abs) (opsOf pre) ch (abs.length + 2)]
        | none => []
      " ".intercalate (modelIterHist (QWTree.getUnchecked c t) t.n pre ++ mt) ++ "|" ++ " ".intercalate (specIterHist abs pre ++ st)
    | _ => "bad-op"
  | .hqwt c t abs _ =>
    match q with
    | "len" => both (.val t.n) s!"V:{abs.length}"
    | "is_empty" => both (.val (b2n (t.n == 0))) s!"V:{b2n abs.isEmpty}"
    | "n_levels" => (Out.val t.nLevels).render ++ "|-"
    | "get" => both (.ofOpt (Huff.get c t (a 0))) (specGet abs (a 0))
    | "get_unchecked" => both (.ofVal (Huff.getUnchecked c t (a 0))) s!"V:{abs.getD (a 0) 0}"
    | "rank" => both (.ofOpt (Huff.rank c t (a 0) (a 1))) (specRankH abs (a 0) (a 1))
    | "rank_unchecked" => both (.ofVal (Huff.rankUnchecked c t (a 0) (a 1))) s!"V:{Spec.rank (a 0) (a 1) abs}"
    | "rank_prefetch" => both (.ofOpt (Huff.rankPrefetch c t (a 0) (a 1))) (specRankH abs (a 0) (a 1))
    | "rank_prefetch_unchecked" => both (.ofVal (Huff.rankPrefetchUnchecked c t (a 0) (a 1))) s!"V:{Spec.rank (a 0) (a 1) abs}"
    | "select" => both (.ofOpt (Huff.select c t (a 0) (a 1))) (specSelectH abs (a 0) (a 1))
    | "select_unchecked" => both (.ofVal (Huff.selectUnchecked c t (a 0) (a 1))) s!"V:{(Spec.select (a 0) (a 1) abs).getD 0}"
    | "iter" | "iter_ref" | "into_iter" => collectIter (fun i => Huff.get c t i) (abs.length + 2) ++ "|" ++ listS abs
    | "iterhist" =>
      let (pre, term) := splitTerminal (args.getD 0 "").toList
      let mt := match term with
        | some ch => [terminalOut (Iter.run (Huff.getUnchecked c t) { i := 0, e := t.n }) (opsOf pre) ch (t.n + 2)]
        | none => []
      let st := match term with
        | some ch => [terminalOut (Iter.specRun abs) (opsOf pre) ch (abs.length + 2)]
        | none => []
      " ".intercalate (modelIterHist (Huff.getUnchecked c t) t.n pre ++ mt) ++ "|" ++ " ".intercalate (specIterHist abs pre ++ st)
    | _ => "bad-op"
  | .wt c comp t abs _ =>
    let sr := if comp then specRankH abs else specRankU abs
    let ss := if comp then specSelectH abs else specSelectU abs
    match q with
    | "len" => both (.val t.n) s!"V:{abs.length}"
    | "is_empty" => both (.val (b2n (t.n == 0))) s!"V:{b2n abs.isEmpty}"
    | "n_levels" => both (.val t.nLevels)
        (if comp then "-" else if abs.isEmpty then "V:0" else s!"V:{Spec.bitlen (Spec.maxNat abs)}")
    | "get" => both (.ofOpt (BinWT.get c comp t (a 0))) (specGet abs (a 0))
    | "get_unchecked" => both (.ofVal (BinWT.getUnchecked c comp t (a 0))) s!"V:{abs.getD (a 0) 0}"
    | "rank" => both (.ofOpt (BinWT.rank c comp t (a 0) (a 1))) (sr (a 0) (a 1))
    | "rank_unchecked" => both (.ofVal (BinWT.rankUnchecked c comp t (a 0) (a 1))) s!"V:{Spec.rank (a 0) (a 1) abs}"
    | "select" => both (.ofOpt (BinWT.select c comp t (a 0) (a 1))) (ss (a 0) (a 1))
    | "select_unchecked" => both (.ofVal (BinWT.selectUnchecked c comp t (a 0) (a 1))) s!"V:{(Spec.select (a 0) (a 1) abs).getD 0}"
    | "iter" | "iter_ref" | "into_iter" => collectIter (fun i => BinWT.get c comp t i) (abs.length + 2) ++ "|" ++ listS abs
    | "iterhist" =>
      let (pre, term) := splitTerminal (args.getD 0 "").toList
      let mt := match term with
        | some ch => [terminalOut (Iter.run (BinWT.getUnchecked c comp t) { i := 0, e := t.n }) (opsOf pre) ch (t.n + 2)]
        | none => []
      let st := match term with
        | some ch => [terminalOut (Iter.specRun abs) (opsOf pre) ch (abs.length + 2)]
        | none => []
      " ".intercalate (modelIterHist (BinWT.getUnchecked c comp t) t.n pre ++ mt) ++ "|" ++ " ".intercalate (specIterHist abs pre ++ st)
    | _ => "bad-op"

def slotVal (st : St) (k : Nat) : Option Codec.Val :=
  match getSlot st k with
  | .qv q _ => some (Codec.qvVal q)
  | .rsq _ r _ => some (Codec.rsqVal r)
  | .bv _ b _ => some (Codec.bvVal b)
  | .rsn r _ => some (Codec.rsnVal r)
  | .rsw r _ => some (Codec.rswVal r)
  | .da _ d _ => some (Codec.daVal d)
  | .qwt c t _ => some (Codec.qwtVal (wbytes c) t)
  | .hqwt c t _ _ => some (Codec.hqwtVal (wbytes c) t)
  | .wt c _ t _ _ => some (Codec.wtVal (wbytes c) t)
  | _ => none

/-- the hypotheses of the C11 round-trip theorem evaluated on the actual state (`WF` is
    decidable), and the executable decoder run on the encoder's output -/
def slotWF (st : St) (k : Nat) : Bool :=
  let chk {α} [DecidableEq α] (wf : Bool) (v : Codec.Val) (t : Codec.Ty) (ofV : Codec.Val → Option α) (x : α) : Bool :=
    wf && ((Codec.decode t (Codec.encode v)).bind (fun p => ofV p.1) == some x)
  match getSlot st k with
  | .qv q _ => chk (decide (Codec.qvWF q)) (Codec.qvVal q) Codec.qvTy Codec.qvOfVal q
  | .rsq _ r _ => chk (decide (Codec.rsqWF r)) (Codec.rsqVal r) Codec.rsqTy Codec.rsqOfVal r
  | .bv _ b _ => chk (decide (Codec.bvWF b)) (Codec.bvVal b) Codec.bvTy Codec.bvOfVal b
  | .rsn r _ => chk (decide (Codec.rsnWF r)) (Codec.rsnVal r) Codec.rsnTy Codec.rsnOfVal r
  | .rsw r _ => chk (decide (Codec.rswWF r)) (Codec.rswVal r) Codec.rswTy Codec.rswOfVal r
  | .da _ d _ => chk (decide (Codec.daWF d)) (Codec.daVal d) Codec.daTy Codec.daOfVal d
  | .qwt c t _ => chk (decide (Codec.qwtWF (wbytes c) t)) (Codec.qwtVal (wbytes c) t) (Codec.qwtTy (wbytes c)) Codec.qwtOfVal t
  | .hqwt c t _ _ => chk (decide (Codec.hqwtWF (wbytes c) t)) (Codec.hqwtVal (wbytes c) t) (Codec.hqwtTy (wbytes c)) Codec.hqwtOfVal t
  | .wt c _ t _ _ => chk (decide (Codec.wtWF (wbytes c) t)) (Codec.wtVal (wbytes c) t) (Codec.wtTy (wbytes c)) Codec.wtOfVal t
  | _ => false

def slotSpace (st : St) (k : Nat) : String :=
  match getSlot st k with
  | .qv q _ => Space.report (Space.qv q)
  | .rsq _ r _ => Space.report (Space.rsq r)
  | .bv mu b _ => if mu then "-" else Space.report (Space.bv b)
  | .rsn r _ => Space.report (Space.rsn r)
  | .rsw r _ => Space.report (Space.rsw r)
  | .da _ d _ => Space.report (Space.da d)
  | .qwt _ t _ => Space.report (Space.qwt t)
  | .hqwt c t _ _ => Space.report (Space.hqwtW (wbytes c) t)
  | .wt c comp t _ _ => Space.report (Space.wtW (wbytes c) comp t)
  | _ => "bad-slot"

/-- `==` of two values of the same type: model = structural equality of the states,
    spec = equality of the abstract contents -/
def slotEq (a b : Slot) : String :=
  let r (m s : Bool) : String := s!"V:{b2n m}|V:{b2n s}"
  match a, b with
  | .qv x ax, .qv y ay => r (decide (x = y)) (decide (ax = ay))
  | .rsq _ x ax, .rsq _ y ay => r (decide (x = y)) (decide (ax = ay))
  | .bv _ x ax, .bv _ y ay => r (decide (x = y)) (decide (ax = ay))
  | .rsn x ax, .rsn y ay => r (decide (x = y)) (decide (ax = ay))
  | .rsw x ax, .rsw y ay => r (decide (x = y)) (decide (ax = ay))
  | .da _ x ax, .da _ y ay => r (decide (x = y)) (decide (ax = ay))
  | .qwt _ x ax, .qwt _ y ay => r (decide (x = y)) (decide (ax = ay))
  | .hqwt _ x ax _, .hqwt _ y ay _ => r (decide (x = y)) (decide (ax = ay))
  | .wt _ _ x ax _, .wt _ _ y ay _ => r (decide (x = y)) (decide (ax = ay))
  | _, _ => "bad-op"

/-- cost `Σ fᵢ·lenᵢ` of an optimal `D`-ary prefix code (D-ary Huffman: pad with zero-weight
    leaves so that `(n − 1) % (D − 1) = 0`, repeatedly merge the `D` lightest; the cost is the
    sum of the weights of the internal nodes) -/
def huffCost (D : Nat) (freqs : List Nat) : Nat :=
  let ins (x : Nat) (l : List Nat) : List Nat := (l.takeWhile (· < x)) ++ x :: (l.dropWhile (· < x))
  let sorted := freqs.foldl (fun acc x => ins x acc) []
  let n := sorted.length
  if n ≤ 1 then sorted.foldl (· + ·) 0   -- a single symbol still costs one fragment per occurrence
  else
    let pad := (D - 1 - (n - 1) % (D - 1)) % (D - 1)
    let start := List.replicate pad 0 ++ sorted
    let rec go : Nat → List Nat → Nat → Nat
      | 0, _, acc => acc
      | fuel + 1, l, acc =>
        if l.length ≤ 1 then acc
        else
          let w := (l.take D).foldl (· + ·) 0
          go fuel (ins w (l.drop D)) (acc + w)
    go (n + 2) start 0

/-- the assumptions the Huffman theorems make about `minimum_redundancy::code_lengths()`,
    evaluated on the table of this very case: one entry per occurring symbol, near-complete
    Kraft sum, at most 32 bits, and optimal weighted length -/
def lensCheck (D : Nat) (lens : List (Nat × Nat)) (abs : List Nat) : Bool :=
  let syms := abs.eraseDups
  let bits := if D == 4 then 2 else 1
  let L := lens.foldl (fun m x => max m x.2) 0
  let total := lens.foldl (fun s x => s + D ^ (L - x.2)) 0
  let kraftOk := lens.all (fun x => x.2 ≥ 1) && total ≤ D ^ L && D ^ L - total ≤ D - 1
  let symsOk := lens.length == syms.length && syms.all (fun s => lens.any (fun x => x.1 == s))
  let cost := lens.foldl (fun a x => a + x.2 * abs.count x.1) 0
  let freqs := syms.map (fun s => abs.count s)
  abs.isEmpty || (kraftOk && symsOk && L * bits ≤ 32 && cost == huffCost D freqs)

/-- is the `lens` table near-complete Kraft (what a D-ary Huffman tree yields)? -/
def lensOk (D : Nat) (lens : List (Nat × Nat)) : Bool :=
  let L := lens.foldl (fun m x => max m x.2) 0
  let total := lens.foldl (fun s x => s + D ^ (L - x.2)) 0
  lens.all (fun x => x.2 ≥ 1) && total ≤ D ^ L && D ^ L - total ≤ D - 1

def handleU (fn : String) (args : List String) : String :=
  let a (i : Nat) : Nat := nat! (args.getD i "0")
  match fn with
  | "select_in_word" =>
    let w := a 0; let k := a 1
    both (.ofVal (Utils.selectInWord w k))
      (match Spec.select true k (Spec.bitsOf w 64) with | some p => s!"V:{p}" | none => "V:64")
  | "select_in_word_u128" =>
    let w := a 0; let k := a 1
    both (.ofVal (Utils.selectInWordU128 w k))
      (match Spec.select true k (Spec.bitsOf w 128) with | some p => s!"V:{p}" | none => "V:128")
  | "popcnt_wide" =>
    let n := a 0
    let ws := (args.drop 1).map nat!
    both (.val (Utils.popcntWide n ws.toArray)) s!"V:{((ws.take n).map Spec.popc).foldl (· + ·) 0}"
  | "msb" => both (.ofVal (Utils.msb (a 0) (a 1))) s!"V:{Spec.msb (a 1)}"
  | "part4" =>
    let W := a 0; let shift := a 1
    let vals := (args.drop 2).map nat!
    (match Utils.stablePartitionOf4 W vals.toArray shift with
     | .ok r => listS r.toList | .error f => "F:" ++ f.tag) ++ "|" ++
    listS (Spec.stablePart (fun x => (x >>> shift) % 4) 4 vals)
  | "part2" =>
    let W := a 0; let shift := a 1
    let vals := (args.drop 2).map nat!
    (match Utils.stablePartitionOf2 W vals.toArray shift with
     | .ok r => listS r.toList | .error f => "F:" ++ f.tag) ++ "|" ++
    listS (Spec.stablePart (fun x => (x >>> shift) % 2) 2 vals)
  | "part4c" | "part2c" =>
    let D := if fn == "part4c" then 4 else 2
    let shift := a 1; let nc := a 2
    let codes : Array Huff.PrefixCode :=
      ((List.range nc).map (fun i => ({ content := a (3 + 2 * i), len := a (4 + 2 * i) } : Huff.PrefixCode))).toArray
    let vals := (args.drop (3 + 2 * nc)).map nat!
    let key (x : Nat) : Nat :=
      let cd := codes.getD x {}
      if cd.len ≤ shift then D else (cd.content >>> (cd.len - shift)) % D
    (match Huff.partitionWithCodes D vals.toArray shift codes with
     | .ok r => listS r.toList | .error f => "F:" ++ f.tag) ++ "|" ++
    (if vals.all (· < nc) then listS (Spec.stablePart key (D + 1) vals) else "F:indexPanic")
  | "posraw" =>
    let bit := a 0 == 1; let nb := a 1
    let ws := (args.drop 3).map nat!
    let b : BV.BitVector := { data := ws.toArray, nBits := nb, nOnes := 0 }
    let start := if args.getD 2 "-" == "-" then 0 else a 2
    let it0 := if args.getD 2 "-" == "-" then BV.PosIter.new else BV.PosIter.withPos bit b start
    let rec drain : Nat → BV.PosIter → List Nat → List Nat × BV.PosIter
      | 0, it, acc => (acc.reverse, it)
      | f + 1, it, acc =>
        match BV.PosIter.next bit b it with
        | (some p, it) => drain f it (p :: acc)
        | (none, it) => (acc.reverse, it)
    let (ps, it1) := drain (64 * ws.length + 2) it0 []
    let (x1, it2) := BV.PosIter.next bit b it1
    let (x2, it3) := BV.PosIter.next bit b it2
    let (x3, _) := BV.PosIter.next bit b it3
    let o (x : Option Nat) := match x with | some p => s!"S:{p}" | none => "N"
    let lim := min nb (64 * ws.length)
    let specPs := (List.range lim).filter (fun p => p ≥ start && (Nat.testBit (ws.getD (p / 64) 0) (p % 64) == bit))
    s!"{listS ps} {o x1} {o x2} {o x3}|{listS specPs} N N N"
  | "text_remap" =>
    let vals := args.map nat!
    let (r, d) := Utils.textRemap vals.toArray
    let distinct := vals.eraseDups
    let rankOf (c : Nat) := (distinct.filter (· < c)).length
    listS (d :: r.toList) ++ "|" ++ listS (distinct.length :: vals.map rankOf)
  | "pcrt" =>
    -- stand-alone `PrefixCode` values: the codec round trip holds for every pair of u32 fields
    let vals := (List.range (args.length / 2)).map (fun i => Codec.Val.struct [("content", .num 4 (a (2 * i) % 2 ^ 32)), ("len", .num 4 (a (2 * i + 1) % 2 ^ 32))])
    let okAll := vals.all (fun v => (Codec.encode v).length == 8)
    (if okAll then "V:1" else "V:0") ++ "|V:1"
  | "prefetch_nta" => both (.ofUnit (PFS.prefetchReadNTA (a 0) (a 1))) "U"
  | "lens_ok" =>
    let D := a 0
    let (lens, _) := parseLens (args.drop 1)
    if lensOk D lens then "V:1|V:1" else "V:0|V:1"
  | _ => "bad-op"

def step (st : St) (line : String) : St × String :=
  match line.trimAscii.toString.splitOn " " with
  | "cfg" :: b :: p :: w :: d :: _ =>
    ({ st with cfg := { B := nat! b, pfs := p == "1", W := nat! w, dbg := (d == "1") || st.dbgAll } }, "ok")
  | "case" :: _ => ({ st with slots := Array.replicate 16 .empty }, "ok")
  | "tie" :: _ => (st, "ok")
  | "threads" :: _ => (st, "ok")
  | ["cf", d, src] =>       -- `dst.clone_from(&src)`: the destination becomes a copy of the source
    (match getSlot st (nat! d), getSlot st (nat! src) with
     | .empty, _ => (st, "bad-op")
     | _, .empty => (st, "bad-op")
     | _, sv => if nat! d == nat! src then (st, "bad-op") else (setSlot st (nat! d) sv, "ok"))
  | ["eq", a, b] => (st, slotEq (getSlot st (nat! a)) (getSlot st (nat! b)))
  | "mk" :: k :: kind :: args => handleMk st (nat! k) kind args
  | "op" :: k :: op :: args => handleOp st (nat! k) op args
  | "q" :: k :: q :: args => (st, handleQ st (nat! k) q args)
  | "u" :: fn :: args => (st, handleU fn args)
  | ["dump", k] =>
    (st, match slotVal st (nat! k) with
         | some v => Codec.render (Codec.canon v) | none => "bad-slot")
  | ["enc", k] =>
    (st, match slotVal st (nat! k) with
         | some v => let bs := Codec.encode v; s!"{bs.length}:{Codec.fnv bs}" | none => "bad-slot")
  | ["space", k] => (st, slotSpace st (nat! k))
  | ["lenschk", k] =>
    (st, match getSlot st (nat! k) with
         | .hqwt _ _ abs lens => if lensCheck 4 lens abs then "V:1" else "V:0"
         | .wt _ true _ abs lens => if lensCheck 2 lens abs then "V:1" else "V:0"
         | _ => "bad-slot")
  | ["wf", k] => (st, if slotWF st (nat! k) then "V:1" else "V:0")
  | ["free", k] => (setSlot st (nat! k) .empty, "ok")
  | _ => (st, "bad-op")

partial def loop (h : IO.FS.Stream) (out : IO.FS.Stream) (st : St) : IO Unit := do
  let line ← h.getLine
  if line.isEmpty then return ()
  let (st', o) := step st line
  out.putStrLn o
  loop h out st'

def main (args : List String) : IO Unit := do
  let stdin ← IO.getStdin
  let stdout ← IO.getStdout
  let dbg := args.contains "dbg=1"
  loop stdin stdout { dbgAll := dbg }
  stdout.flush
