/-
L0 — list specifications.  These few definitions are what every property of the
crate is stated against.  They are executable (the driver prints them next to the
model's answer; the harness uses them as the oracle when it searches for a failing
input) and short enough to be read in a minute.
-/
namespace Qwt.Spec

/-- number of occurrences of `c` in `s[0..i)` -/
def rank [BEq α] (c : α) (i : Nat) (s : List α) : Nat := (s.take i).count c

/-- position of the `(k+1)`-th occurrence of `c` in `s`, if there is one -/
def select [BEq α] (c : α) : Nat → List α → Option Nat
  | _, [] => none
  | k, x :: xs =>
    if x == c then
      match k with
      | 0 => some 0
      | k + 1 => (select c k xs).map (· + 1)
    else (select c k xs).map (· + 1)

/-- number of elements of `s` whose key is smaller than `d` -/
def occsSmaller (key : α → Nat) (d : Nat) (s : List α) : Nat := s.countP (fun x => key x < d)

/-- stable partition of `s` into `r` groups by `key` (keys `≥ r` are dropped: callers
    guarantee `key x < r`) -/
def stablePart (key : α → Nat) (r : Nat) (s : List α) : List α :=
  (List.range r).flatMap (fun d => s.filter (fun x => key x == d))

/-- the `n` low bits of `w`, least significant first -/
def bitsOf (w : Nat) : Nat → List Bool
  | 0 => []
  | n + 1 => (w % 2 == 1) :: bitsOf (w / 2) n

/-- number of set bits -/
def popc (w : Nat) : Nat :=
  if h : w = 0 then 0 else w % 2 + popc (w / 2)
decreasing_by omega

/-- little-endian value of a bit list -/
def ofBits : List Bool → Nat
  | [] => 0
  | b :: bs => (if b then 1 else 0) + 2 * ofBits bs

/-- positions of the elements equal to `c`, increasing -/
def positions [BEq α] (c : α) (s : List α) : List Nat :=
  (List.range s.length).filter (fun i => s[i]? == some c)

/-- max of a list of naturals (0 for the empty list) -/
def maxNat (s : List Nat) : Nat := s.foldl max 0

/-- index of the highest set bit, 0 for 0 -/
def msb (v : Nat) : Nat := Nat.log2 v

/-- number of bits needed to write `v` (1 for 0, as the crate does) -/
def bitlen (v : Nat) : Nat := msb v + 1

end Qwt.Spec
