import Qwt.Proofs.RSQHolds

/-! Construction invariant of `RSSupportPlain::new` (`buildStep` / `rsNew`). -/
namespace Qwt.RSQP
open Qwt Qwt.QV Qwt.RSQ Qwt.Extracted

theorem cnt_line_eq_rank (s : List Nat) (c a m : Nat) (h : a + m ≤ s.length) :
    cntF (fun j => decide (s.getD (a + j) 0 = c)) m = Spec.rank c (a + m) s - Spec.rank c a s := by
  rw [rank_eq_cntF, rank_eq_cntF, cntF_add, Nat.add_sub_cancel_left]
  apply cntF_congr; intro j hj
  rw [List.getD_eq_getElem?_getD, List.getElem?_eq_getElem (by omega)]
  simp only [Option.getD_some, Option.some_beq_some]
  by_cases hx : s[a + j] = c <;> simp [hx]

theorem getD_append_left {α : Type} (a b : Array α) (j : Nat) (d : α) (h : j < a.size) :
    (a ++ b).getD j d = a.getD j d := by
  rw [Array.getD_eq_getD_getElem?, Array.getD_eq_getD_getElem?, Array.getElem?_append_left h]

theorem getD_append_right {α : Type} (a b : Array α) (j : Nat) (d : α) (h : a.size ≤ j) :
    (a ++ b).getD j d = b.getD (j - a.size) d := by
  rw [Array.getD_eq_getD_getElem?, Array.getD_eq_getD_getElem?, Array.getElem?_append_right h]

theorem getD_map {α β : Type} (a : Array α) (f : α → β) (j : Nat) (d : α) (d' : β) (h : j < a.size) :
    (a.map f).getD j d' = f (a.getD j d) := by
  rw [Array.getD_eq_getD_getElem?, Array.getD_eq_getD_getElem?, Array.getElem?_map]
  simp [h]

theorem getD_push_lt {α : Type} (a : Array α) (x : α) (j : Nat) (d : α) (h : j < a.size) :
    (a.push x).getD j d = a.getD j d := by
  rw [Array.getD_eq_getD_getElem?, Array.getD_eq_getD_getElem?, Array.getElem?_push_lt h,
    Array.getElem?_eq_getElem h]

theorem getD_push_eq {α : Type} (a : Array α) (x : α) (d : α) :
    (a.push x).getD a.size d = x := by
  rw [Array.getD_eq_getD_getElem?, Array.getElem?_push_size]; rfl

theorem getElem!_eq_getD (a : Array Nat) (i : Nat) : a[i]! = a.getD i 0 := by
  rw [Array.getD_eq_getD_getElem?, getElem!_def]
  cases a[i]? <;> rfl

theorem range4 : List.range 4 = [0, 1, 2, 3] := by decide


theorem getD_modify {α : Type} (a : Array α) (i j : Nat) (f : α → α) (d : α) :
    (a.modify i f).getD j d = if i = j ∧ j < a.size then f (a.getD j d) else a.getD j d := by
  rw [Array.getD_eq_getD_getElem?, Array.getD_eq_getD_getElem?, Array.getElem?_modify]
  by_cases hij : i = j
  · subst hij
    by_cases hs : i < a.size
    · simp [hs]
    · simp [hs]
  · simp [hij]

theorem getD_modify4 (a : Array Nat) (base : Nat) (g : Nat → Nat → Nat) (hsz : base + 4 ≤ a.size) (t : Nat) :
    ((((a.modify base (g 0)).modify (base + 1) (g 1)).modify (base + 2) (g 2)).modify (base + 3) (g 3)).getD t 0
     = if base ≤ t ∧ t < base + 4 then g (t - base) (a.getD t 0) else a.getD t 0 := by
  simp only [getD_modify, Array.size_modify]
  rcases (by omega : t < base ∨ t = base ∨ t = base + 1 ∨ t = base + 2 ∨ t = base + 3 ∨ base + 4 ≤ t)
    with h | h | h | h | h | h
  · rw [if_neg (by omega), if_neg (by omega), if_neg (by omega), if_neg (by omega), if_neg (by omega)]
  · subst h
    rw [if_neg (by omega), if_neg (by omega), if_neg (by omega), if_pos (by omega), if_pos (by omega),
      Nat.sub_self]
  · subst h
    rw [if_neg (by omega), if_neg (by omega), if_pos (by omega), if_neg (by omega), if_pos (by omega),
      Nat.add_sub_cancel_left]
  · subst h
    rw [if_neg (by omega), if_pos (by omega), if_neg (by omega), if_neg (by omega), if_pos (by omega),
      Nat.add_sub_cancel_left]
  · subst h
    rw [if_pos (by omega), if_neg (by omega), if_neg (by omega), if_neg (by omega), if_pos (by omega),
      Nat.add_sub_cancel_left]
  · rw [if_neg (by omega), if_neg (by omega), if_neg (by omega), if_neg (by omega), if_neg (by omega)]

theorem setBlockCounters_ok {sbs bc : Array Nat} {k b : Nat} (hsz : sbs.size = 4 * (k + 1)) (hb : b < 8)
    (hbcs : bc.size = 4) (hbc : ∀ c, c < 4 → bc.getD c 0 < 4096) :
    ∃ sbs', setBlockCounters sbs b bc = .ok sbs' ∧ sbs'.size = sbs.size ∧
      ∀ j c, c < 4 → sbs'.getD (4 * j + c) 0 =
        if j = k ∧ b ≠ 0 then sbs.getD (4 * j + c) 0 ||| (bc.getD c 0 <<< ((b - 1) * 12))
        else sbs.getD (4 * j + c) 0 := by
  unfold setBlockCounters
  rw [if_neg (by omega)]
  have hall : bc.all (· < 4096) = true := by
    rw [Array.all_eq_true]; intro i hi
    have := hbc i (by omega)
    rw [Array.getD_eq_getD_getElem?, Array.getElem?_eq_getElem hi] at this
    simpa using this
  simp only [guardM, hall, decide_eq_true hb, if_true, bind, Except.bind, pure, Except.pure]
  by_cases hb0 : b = 0
  · subst hb0
    refine ⟨sbs, by simp, rfl, fun j c hc => by simp⟩
  · rw [if_neg (by simpa using hb0)]
    refine ⟨_, rfl, ?_, ?_⟩
    · simp [range4]
    · intro j c hc
      simp only [range4, List.foldl_cons, List.foldl_nil, getElem!_eq_getD, Nat.add_zero]
      refine (getD_modify4 sbs (sbs.size - 4)
        (fun sym w => w ||| (bc.getD sym 0 <<< ((b - 1) * 12))) (by omega) (4 * j + c)).trans ?_
      by_cases hj : j = k
      · subst hj
        rw [if_pos (by omega), if_pos ⟨rfl, hb0⟩, show 4 * j + c - (sbs.size - 4) = c by omega]
      · rw [if_neg (by omega), if_neg (by simp [hj])]


/-! ### the loop body in three phases -/

def phase1 (B : Nat) (st : BuildSt) (i : Nat) : BuildSt :=
  if i % (rsqBlocksInSuperblock * B) == 0 then
    { st with sbs := st.sbs ++ st.sbc.map (fun c => (c <<< 84) % two128), bc := #[0, 0, 0, 0] }
  else st

def phase2 (B : Nat) (st : BuildSt) (i : Nat) : M BuildSt :=
  if i % B == 0 then do
    let sbs ← setBlockCounters st.sbs ((i / B) % rsqBlocksInSuperblock) st.bc
    pure { st with sbs }
  else pure st

def bump (st : BuildSt) (symbol : Nat) : BuildSt :=
  { st with sbc := st.sbc.modify symbol (· + 1), bc := st.bc.modify symbol (· + 1),
                    occs := st.occs.modify symbol (· + 1) }

def phase3 (dbg : Bool) (B : Nat) (qv : QVector) (st : BuildSt) (i : Nat) : M BuildSt :=
  if i < QV.len qv then do
    let symbol ← QV.getUnchecked dbg qv i
    let o ← idx st.occs symbol
    if o % rsqSelectNumSamples == 0 then do
        dbgAssert dbg (i / (B * rsqBlocksInSuperblock) ≤ 4294967295)
        dbgAssert dbg (i / (B * rsqBlocksInSuperblock) < st.sbs.size / 4)
        pure (bump { st with samples := st.samples.modify symbol (·.push ((i / (B * rsqBlocksInSuperblock)) % 4294967296)) } symbol)
    else pure (bump st symbol)
  else pure st

theorem buildStep_eq (dbg B qv st i) :
    buildStep dbg B qv st i = (phase2 B (phase1 B st i) i >>= fun st => phase3 dbg B qv st i) := by
  unfold buildStep phase1 phase2 phase3 bump
  by_cases h1 : (i % (rsqBlocksInSuperblock * B) == 0) = true <;>
  by_cases h2 : (i % B == 0) = true <;>
  simp only [h1, h2, if_true, if_false, bind_assoc, pure_bind, Bool.false_eq_true] <;> rfl


/-- invariant of one sample array: entry `t` is the superblock of occurrence number `t·P` -/
structure SInv (s : List Nat) (SB c m : Nat) (L : Array Nat) : Prop where
  size_iff : ∀ t, t < L.size ↔ t * rsqSelectNumSamples < Spec.rank c m s
  val : ∀ t, t < L.size → ∃ p, p < m ∧ s[p]? = some c ∧
    Spec.rank c p s = t * rsqSelectNumSamples ∧ L.getD t 0 = p / SB

/-- general form of the loop invariant: `nsb` superblocks exist, block counters are relative
    to position `base`, the block fields of all block starts `< mb` are set, and the first `m`
    symbols are counted -/
structure GInv (s : List Nat) (B nsb base mb m : Nat) (st : BuildSt) : Prop where
  sbc_size : st.sbc.size = 4
  sbc : ∀ c, c < 4 → st.sbc.getD c 0 = Spec.rank c m s
  occs_size : st.occs.size = 4
  occs : ∀ c, c < 4 → st.occs.getD c 0 = Spec.rank c m s
  bc_size : st.bc.size = 4
  bc : ∀ c, c < 4 → st.bc.getD c 0 = Spec.rank c m s - Spec.rank c base s
  sbs_size : st.sbs.size = 4 * nsb
  sb : ∀ j c, j < nsb → c < 4 → sbOf (st.sbs.getD (4 * j + c) 0) = Spec.rank c (j * (8 * B)) s
  fl : ∀ j c b, j < nsb → c < 4 → 1 ≤ b → b ≤ 7 →
    fld (st.sbs.getD (4 * j + c) 0) b =
      if (8 * j + b) * B < mb then Spec.rank c ((8 * j + b) * B) s - Spec.rank c (j * (8 * B)) s else 0
  samples_size : st.samples.size = 4
  samples : ∀ c, c < 4 → SInv s (8 * B) c m (st.samples.getD c #[])

theorem sbq : rsqBlocksInSuperblock = 8 := rfl

theorem phase1_inv {s : List Nat} {B m : Nat} {st : BuildSt} (hB : B = 256 ∨ B = 512)
    (hlen : s.length < 2 ^ 43)
    (h : GInv s B ((m + 8 * B - 1) / (8 * B)) ((m - 1) / (8 * B) * (8 * B)) m m st) :
    GInv s B (m / (8 * B) + 1) (m / (8 * B) * (8 * B)) m m (phase1 B st m) := by
  unfold phase1
  rw [sbq]
  by_cases hm : m % (8 * B) = 0
  · rw [if_pos (by simpa using hm)]
    have hnsb : (m + 8 * B - 1) / (8 * B) = m / (8 * B) := by rcases hB with rfl | rfl <;> omega
    have hbase : m / (8 * B) * (8 * B) = m := by rcases hB with rfl | rfl <;> omega
    rw [hnsb] at h
    have hsz : (Array.map (fun c => c <<< 84 % two128) st.sbc).size = 4 := by
      rw [Array.size_map, h.sbc_size]
    refine ⟨h.sbc_size, h.sbc, h.occs_size, h.occs, rfl, ?_, ?_, ?_, ?_, h.samples_size, h.samples⟩
    · intro c hc
      have h4 : c = 0 ∨ c = 1 ∨ c = 2 ∨ c = 3 := by omega
      rw [hbase, Nat.sub_self]
      rcases h4 with rfl | rfl | rfl | rfl <;> rfl
    · show (st.sbs ++ _).size = _
      rw [Array.size_append, h.sbs_size, hsz]; omega
    · intro j c hj hc
      show sbOf ((st.sbs ++ _).getD _ 0) = _
      by_cases hj' : j < m / (8 * B)
      · rw [getD_append_left _ _ _ _ (by rw [h.sbs_size]; omega)]
        exact h.sb j c hj' hc
      · have hj'' : j = m / (8 * B) := by omega
        rw [getD_append_right _ _ _ _ (by rw [h.sbs_size]; omega), h.sbs_size,
          show 4 * j + c - 4 * (m / (8 * B)) = c by omega,
          getD_map _ _ _ 0 0 (by rw [h.sbc_size]; exact hc), h.sbc c hc, hj'', hbase]
        apply sbOf_init
        have := rank_le c s m
        have := rank_le_count c s m
        have := List.count_le_length (a := c) (l := s)
        omega
    · intro j c b hj hc h1 h7
      show fld ((st.sbs ++ _).getD _ 0) b = _
      by_cases hj' : j < m / (8 * B)
      · rw [getD_append_left _ _ _ _ (by rw [h.sbs_size]; omega)]
        exact h.fl j c b hj' hc h1 h7
      · have hj'' : j = m / (8 * B) := by omega
        rw [getD_append_right _ _ _ _ (by rw [h.sbs_size]; omega), h.sbs_size,
          show 4 * j + c - 4 * (m / (8 * B)) = c by omega,
          getD_map _ _ _ 0 0 (by rw [h.sbc_size]; exact hc), fld_init h1 h7, if_neg]
        rcases hB with rfl | rfl <;> omega
  · rw [if_neg (by simpa using hm)]
    have hnsb : (m + 8 * B - 1) / (8 * B) = m / (8 * B) + 1 := by rcases hB with rfl | rfl <;> omega
    have hbase : (m - 1) / (8 * B) = m / (8 * B) := by rcases hB with rfl | rfl <;> omega
    rw [hnsb, hbase] at h
    exact h



theorem ite_iff_congr {α : Type} {p q : Prop} [Decidable p] [Decidable q] (h : p ↔ q) (a b : α) :
    (if p then a else b) = (if q then a else b) := by
  by_cases hp : p
  · rw [if_pos hp, if_pos (h.mp hp)]
  · rw [if_neg hp, if_neg (fun hq => hp (h.mpr hq))]

theorem phase2_inv {s : List Nat} {B m : Nat} {st : BuildSt} (hB : B = 256 ∨ B = 512)
    (h : GInv s B (m / (8 * B) + 1) (m / (8 * B) * (8 * B)) m m st) :
    ∃ st', phase2 B st m = .ok st' ∧
      GInv s B (m / (8 * B) + 1) (m / (8 * B) * (8 * B)) (m + 1) m st' := by
  unfold phase2
  rw [sbq]
  by_cases hm : m % B = 0
  · rw [if_pos (by simpa using hm)]
    have hbc : ∀ c, c < 4 → st.bc.getD c 0 < 4096 := by
      intro c hc
      rw [h.bc c hc]
      have := rank_sub_le c s (show m / (8 * B) * (8 * B) ≤ m from Nat.div_mul_le_self _ _)
      rcases hB with rfl | rfl <;> omega
    obtain ⟨sbs', e1, e2, e3⟩ := setBlockCounters_ok (k := m / (8 * B)) (b := m / B % 8)
      h.sbs_size (by omega) h.bc_size hbc
    rw [e1]
    refine ⟨_, rfl, h.sbc_size, h.sbc, h.occs_size, h.occs, h.bc_size, h.bc, ?_, ?_, ?_,
      h.samples_size, h.samples⟩
    · show sbs'.size = _
      rw [e2, h.sbs_size]
    · intro j c hj hc
      show sbOf (sbs'.getD _ 0) = _
      rw [e3 j c hc]
      split
      · rename_i hjk
        rw [sbOf_or (hbc c hc) (by omega) (by omega)]
        exact h.sb j c hj hc
      · exact h.sb j c hj hc
    · intro j c b hj hc h1 h7
      show fld (sbs'.getD _ 0) b = _
      rw [e3 j c hc]
      split
      · rename_i hjk
        obtain ⟨hjk, hb0⟩ := hjk
        subst hjk
        rw [fld_or (hbc c hc) (by omega) (by omega) h1 h7]
        have hmm : (8 * (m / (8 * B)) + m / B % 8) * B = m := by rcases hB with rfl | rfl <;> omega
        split
        · rename_i hbb
          subst hbb
          rw [h.fl _ c _ hj hc h1 h7, if_neg (by omega), Nat.zero_or, if_pos (by omega), hmm,
            h.bc c hc]
        · rename_i hbb
          rw [h.fl _ c _ hj hc h1 h7]
          apply ite_iff_congr
          rcases hB with rfl | rfl <;> omega
      · rename_i hjk
        rw [h.fl _ c _ hj hc h1 h7]
        apply ite_iff_congr
        rcases hB with rfl | rfl <;> omega
  · rw [if_neg (by simpa using hm)]
    refine ⟨st, rfl, h.sbc_size, h.sbc, h.occs_size, h.occs, h.bc_size, h.bc, h.sbs_size, h.sb, ?_,
      h.samples_size, h.samples⟩
    intro j c b hj hc h1 h7
    rw [h.fl _ c _ hj hc h1 h7]
    apply ite_iff_congr
    rcases hB with rfl | rfl <;> omega



theorem P_pos : 0 < rsqSelectNumSamples := by decide

theorem sinv_keep {s : List Nat} {SB c m : Nat} {L : Array Nat} (h : SInv s SB c m L)
    (hr : Spec.rank c (m + 1) s = Spec.rank c m s) : SInv s SB c (m + 1) L := by
  refine ⟨fun t => by rw [hr]; exact h.size_iff t, fun t ht => ?_⟩
  obtain ⟨p, h1, h2⟩ := h.val t ht
  exact ⟨p, by omega, h2⟩

theorem sinv_keep_eq {s : List Nat} {SB c m : Nat} {L : Array Nat} (h : SInv s SB c m L)
    (hr : Spec.rank c (m + 1) s = Spec.rank c m s + 1)
    (hne : Spec.rank c m s % rsqSelectNumSamples ≠ 0) : SInv s SB c (m + 1) L := by
  refine ⟨fun t => ?_, fun t ht => ?_⟩
  · rw [hr, h.size_iff t]
    have : t * rsqSelectNumSamples ≠ Spec.rank c m s := by
      intro e; rw [← e, Nat.mul_mod_left] at hne; exact hne rfl
    omega
  · obtain ⟨p, h1, h2⟩ := h.val t ht
    exact ⟨p, by omega, h2⟩

theorem sinv_push {s : List Nat} {SB c m : Nat} {L : Array Nat} (h : SInv s SB c m L)
    (hm : s[m]? = some c)
    (he : Spec.rank c m s % rsqSelectNumSamples = 0) : SInv s SB c (m + 1) (L.push (m / SB)) := by
  have hr := rank_succ_of_eq c s hm
  -- `R = L.size * P`
  have hR : Spec.rank c m s = L.size * rsqSelectNumSamples := by
    obtain ⟨q, hq⟩ : ∃ q, Spec.rank c m s = q * rsqSelectNumSamples := by
      refine ⟨Spec.rank c m s / rsqSelectNumSamples, ?_⟩
      have h0 := Nat.div_add_mod (Spec.rank c m s) rsqSelectNumSamples
      rw [he, Nat.add_zero, Nat.mul_comm] at h0
      exact h0.symm
    have h1 := h.size_iff L.size
    have h2 := h.size_iff q
    rw [hq, Nat.mul_lt_mul_right P_pos] at h1 h2
    have : L.size = q := by omega
    rw [this]; exact hq
  refine ⟨fun t => ?_, fun t ht => ?_⟩
  · rw [hr, hR, Array.size_push, Nat.lt_succ_iff, Nat.lt_succ_iff, Nat.mul_le_mul_right_iff P_pos]
  · rw [Array.size_push] at ht
    by_cases htl : t < L.size
    · obtain ⟨p, h1, h2, h3, h4⟩ := h.val t htl
      exact ⟨p, by omega, h2, h3, by rw [getD_push_lt _ _ _ _ htl]; exact h4⟩
    · have : t = L.size := by omega
      subst this
      exact ⟨m, by omega, hm, hR, getD_push_eq _ _ _⟩



theorem rank_step (s : List Nat) {m x : Nat} (hx : s[m]? = some x) (c : Nat) :
    Spec.rank c (m + 1) s = if x = c then Spec.rank c m s + 1 else Spec.rank c m s := by
  split
  · rename_i h; subst h; exact rank_succ_of_eq _ s hx
  · rename_i h; apply rank_succ_of_ne; rw [hx]; intro e; exact h (Option.some.inj e)

theorem bump_inv {s : List Nat} {B nsb base mb m x : Nat} {st : BuildSt}
    (h : GInv s B nsb base mb m st) (hx : s[m]? = some x) (hbase : base ≤ m)
    (samples' : Array (Array Nat)) (hs1 : samples'.size = 4)
    (hs2 : ∀ c, c < 4 → SInv s (8 * B) c (m + 1) (samples'.getD c #[])) :
    GInv s B nsb base mb (m + 1) (bump { st with samples := samples' } x) := by
  unfold bump
  refine ⟨?_, ?_, ?_, ?_, ?_, ?_, h.sbs_size, h.sb, h.fl, hs1, hs2⟩
  · show (st.sbc.modify x _).size = 4
    rw [Array.size_modify, h.sbc_size]
  · intro c hc
    show (st.sbc.modify x _).getD c 0 = _
    rw [getD_modify, h.sbc_size, h.sbc c hc, rank_step s hx c]
    by_cases hxc : x = c
    · rw [if_pos ⟨hxc, hc⟩, if_pos hxc]
    · rw [if_neg (fun hh => hxc hh.1), if_neg hxc]
  · show (st.occs.modify x _).size = 4
    rw [Array.size_modify, h.occs_size]
  · intro c hc
    show (st.occs.modify x _).getD c 0 = _
    rw [getD_modify, h.occs_size, h.occs c hc, rank_step s hx c]
    by_cases hxc : x = c
    · rw [if_pos ⟨hxc, hc⟩, if_pos hxc]
    · rw [if_neg (fun hh => hxc hh.1), if_neg hxc]
  · show (st.bc.modify x _).size = 4
    rw [Array.size_modify, h.bc_size]
  · intro c hc
    show (st.bc.modify x _).getD c 0 = _
    rw [getD_modify, h.bc_size, h.bc c hc, rank_step s hx c]
    have := rank_mono c s hbase
    by_cases hxc : x = c
    · rw [if_pos ⟨hxc, hc⟩, if_pos hxc]; omega
    · rw [if_neg (fun hh => hxc hh.1), if_neg hxc]

theorem phase3_inv {s : List Nat} {B nsb base mb m : Nat} {st : BuildSt} {q : QVector} (dbg : Bool)
    (hB : B = 256 ∨ B = 512) (hq : Holds q s) (hs : ∀ x ∈ s, x < 4) (hlen : s.length < 2 ^ 43)
    (hnsb : m / (8 * B) < nsb) (hbase : base ≤ m) (h : GInv s B nsb base mb m st) :
    ∃ st', phase3 dbg B q st m = .ok st' ∧ GInv s B nsb base mb (m + 1) st' := by
  unfold phase3
  rw [holds_len hq]
  by_cases hm : m < s.length
  · rw [if_pos hm, getUnchecked_ok hq hs dbg hm]
    have hx : s[m]? = some (s.getD m 0) := by
      rw [List.getD_eq_getElem?_getD, List.getElem?_eq_getElem hm]; rfl
    have hx4 := sym_lt hs m
    generalize s.getD m 0 = x at hx hx4
    simp only [bind, Except.bind]
    rw [idx_ok (by rw [h.occs_size]; exact hx4), h.occs x hx4]
    simp only []
    by_cases ho : Spec.rank x m s % rsqSelectNumSamples = 0
    · rw [if_pos (by simpa using ho)]
      rw [dbgAssert_true dbg (by rw [sbq]; rcases hB with rfl | rfl <;> simp <;> omega)]
      rw [dbgAssert_true dbg (by
        rw [sbq, h.sbs_size, Nat.mul_comm B 8]; simp; omega)]
      refine ⟨_, rfl, ?_⟩
      apply bump_inv h hx hbase
      · rw [Array.size_modify, h.samples_size]
      · intro c hc
        rw [getD_modify, h.samples_size]
        by_cases hxc : x = c
        · subst hxc
          rw [if_pos ⟨rfl, hc⟩, sbq, Nat.mul_comm B 8]
          have : m / (8 * B) % 4294967296 = m / (8 * B) := by
            apply Nat.mod_eq_of_lt; rcases hB with rfl | rfl <;> omega
          rw [this]
          exact sinv_push (h.samples x hc) hx ho
        · rw [if_neg (fun hh => hxc hh.1)]
          apply sinv_keep (h.samples c hc)
          rw [rank_step s hx c, if_neg hxc]
    · rw [if_neg (by simpa using ho)]
      refine ⟨_, rfl, ?_⟩
      apply bump_inv h hx hbase st.samples h.samples_size
      intro c hc
      by_cases hxc : x = c
      · subst hxc
        apply sinv_keep_eq (h.samples x hc) _ ho
        rw [rank_step s hx x, if_pos rfl]
      · apply sinv_keep (h.samples c hc)
        rw [rank_step s hx c, if_neg hxc]
  · rw [if_neg hm]
    have hr : ∀ c, Spec.rank c (m + 1) s = Spec.rank c m s := fun c => by
      rw [rank_of_ge c s (by omega), rank_of_ge c s (by omega)]
    refine ⟨st, rfl, h.sbc_size, fun c hc => by rw [hr, h.sbc c hc], h.occs_size,
      fun c hc => by rw [hr, h.occs c hc], h.bc_size, fun c hc => by rw [hr, h.bc c hc],
      h.sbs_size, h.sb, h.fl, h.samples_size, fun c hc => sinv_keep (h.samples c hc) (hr c)⟩



/-- the loop invariant before iteration `m` -/
def BInv (s : List Nat) (B m : Nat) (st : BuildSt) : Prop :=
  GInv s B ((m + 8 * B - 1) / (8 * B)) ((m - 1) / (8 * B) * (8 * B)) m m st

theorem binv_zero (s : List Nat) {B : Nat} (hB : B = 256 ∨ B = 512) : BInv s B 0 {} := by
  have h0 : (0 + 8 * B - 1) / (8 * B) = 0 := by rcases hB with rfl | rfl <;> omega
  unfold BInv
  rw [h0]
  have hz : ∀ c, c < 4 → (#[0, 0, 0, 0] : Array Nat).getD c 0 = 0 := by
    intro c hc
    have h4 : c = 0 ∨ c = 1 ∨ c = 2 ∨ c = 3 := by omega
    rcases h4 with rfl | rfl | rfl | rfl <;> rfl
  refine ⟨rfl, fun c hc => by rw [rank_zero]; exact hz c hc, rfl,
    fun c hc => by rw [rank_zero]; exact hz c hc, rfl,
    fun c hc => by rw [rank_zero, Nat.zero_sub]; exact hz c hc, rfl,
    fun j c hj => by omega, fun j c b hj => by omega, rfl, ?_⟩
  intro c hc
  have : (#[#[], #[], #[], #[]] : Array (Array Nat)).getD c #[] = #[] := by
    have h4 : c = 0 ∨ c = 1 ∨ c = 2 ∨ c = 3 := by omega
    rcases h4 with rfl | rfl | rfl | rfl <;> rfl
  show SInv s (8 * B) c 0 ((#[#[], #[], #[], #[]] : Array (Array Nat)).getD c #[])
  rw [this]
  refine ⟨fun t => ?_, fun t ht => ?_⟩
  · rw [rank_zero]; simp
  · simp at ht

theorem buildStep_inv {s : List Nat} {B m : Nat} {st : BuildSt} {q : QVector} (dbg : Bool)
    (hB : B = 256 ∨ B = 512) (hq : Holds q s) (hs : ∀ x ∈ s, x < 4) (hlen : s.length < 2 ^ 43)
    (h : BInv s B m st) :
    ∃ st', buildStep dbg B q st m = .ok st' ∧ BInv s B (m + 1) st' := by
  rw [buildStep_eq]
  have h1 := phase1_inv hB hlen h
  obtain ⟨st2, e2, h2⟩ := phase2_inv hB h1
  obtain ⟨st3, e3, h3⟩ := phase3_inv dbg hB hq hs hlen (Nat.lt_succ_self _)
    (Nat.div_mul_le_self _ _) h2
  rw [e2]
  refine ⟨st3, e3, ?_⟩
  unfold BInv
  have ha : (m + 1 + 8 * B - 1) / (8 * B) = m / (8 * B) + 1 := by rcases hB with rfl | rfl <;> omega
  rw [ha, Nat.add_sub_cancel]
  exact h3

theorem build_fold {s : List Nat} {B : Nat} {q : QVector} (dbg : Bool)
    (hB : B = 256 ∨ B = 512) (hq : Holds q s) (hs : ∀ x ∈ s, x < 4) (hlen : s.length < 2 ^ 43)
    (k : Nat) :
    ∃ st, (List.range k).foldlM (buildStep dbg B q) {} = .ok st ∧ BInv s B k st := by
  induction k with
  | zero => exact ⟨{}, rfl, binv_zero s hB⟩
  | succ k ih =>
    obtain ⟨st, e, h⟩ := ih
    obtain ⟨st', e', h'⟩ := buildStep_inv dbg hB hq hs hlen h
    refine ⟨st', ?_, h'⟩
    rw [List.range_succ, List.foldlM_append, e]
    simp only [bind, Except.bind, List.foldlM_cons, List.foldlM_nil]
    rw [e']; rfl



/-- final form of one sample array (for a symbol that occurs) -/
structure FSInv (s : List Nat) (SB c : Nat) (S : Array Nat) : Prop where
  val : ∀ t, t * rsqSelectNumSamples < s.count c → t < S.size ∧ ∃ p, s[p]? = some c ∧
    Spec.rank c p s = t * rsqSelectNumSamples ∧ S.getD t 0 = p / SB
  sentinel : ∀ t, t * rsqSelectNumSamples < s.count c → s.count c ≤ (t + 1) * rsqSelectNumSamples →
    t + 1 < S.size ∧ S.getD (t + 1) 0 = s.length / SB

/-- what `RSSupportPlain::new` establishes -/
structure RSInv (B : Nat) (rs : RSSupportPlain) (s : List Nat) : Prop where
  sbs_size : rs.superblocks.size = 4 * (s.length / (8 * B) + 1)
  sb : ∀ j c, j ≤ s.length / (8 * B) → c < 4 →
    sbOf (rs.superblocks.getD (4 * j + c) 0) = Spec.rank c (j * (8 * B)) s
  fl : ∀ j c b, j ≤ s.length / (8 * B) → c < 4 → 1 ≤ b → b ≤ 7 →
    fld (rs.superblocks.getD (4 * j + c) 0) b =
      if 8 * j + b ≤ s.length / B + 1 then
        Spec.rank c ((8 * j + b) * B) s - Spec.rank c (j * (8 * B)) s else 0
  samples_size : rs.selectSamples.size = 4
  samples : ∀ c, c < 4 → 0 < s.count c → FSInv s (8 * B) c (rs.selectSamples.getD c #[])

theorem fsinv_of_sinv {s : List Nat} {SB c k : Nat} {L : Array Nat}
    (h : SInv s SB c (s.length + 1) L) (hpos : 0 < s.count c) (hk : k = s.length / SB) :
    FSInv s SB c ((if L.isEmpty then L.push 0 else L).push k) := by
  have hr : Spec.rank c (s.length + 1) s = s.count c := rank_of_ge c s (by omega)
  have hne : L.isEmpty = false := by
    have := (h.size_iff 0).2 (by rw [hr]; omega)
    rw [Array.isEmpty_eq_false_iff]
    intro e; rw [e] at this; simp at this
  rw [hne]
  simp only [Bool.false_eq_true, if_false]
  refine ⟨fun t ht => ?_, fun t ht ht' => ?_⟩
  · have htl : t < L.size := (h.size_iff t).2 (by rw [hr]; exact ht)
    obtain ⟨p, _, h2, h3, h4⟩ := h.val t htl
    exact ⟨by rw [Array.size_push]; omega, p, h2, h3, by rw [getD_push_lt _ _ _ _ htl]; exact h4⟩
  · have htl : t < L.size := (h.size_iff t).2 (by rw [hr]; exact ht)
    have htl' : ¬ (t + 1 < L.size) := by
      rw [h.size_iff (t + 1), hr]; omega
    have : t + 1 = L.size := by omega
    rw [this, getD_push_eq, Array.size_push]
    exact ⟨by omega, hk⟩

theorem ok_bind {α β : Type} (v : α) (f : α → M β) : (Except.ok v : M α) >>= f = f v := rfl

theorem rsNew_ok {s : List Nat} {B : Nat} {q : QVector} (dbg : Bool)
    (hB : B = 256 ∨ B = 512) (hq : Holds q s) (hs : ∀ x ∈ s, x < 4) (hlen : s.length < 2 ^ 43) :
    ∃ rs, rsNew dbg B q = .ok rs ∧ RSInv B rs s := by
  unfold rsNew
  obtain ⟨st, e, h⟩ := build_fold dbg hB hq hs hlen (s.length + 1)
  have hg1 : guardM (decide (QV.len q < 2 ^ rsqLenLimitLog)) Fault.assertDoc = .ok () := by
    unfold guardM; rw [if_pos]; rw [holds_len hq]; exact decide_eq_true hlen
  have hg2 : guardM (B == 256 || B == 512) Fault.assertFail = .ok () := by
    unfold guardM; rw [if_pos]; rcases hB with rfl | rfl <;> rfl
  rw [hg1, hg2, holds_len hq, e]
  simp only [ok_bind]
  unfold BInv at h
  have ha : (s.length + 1 + 8 * B - 1) / (8 * B) = s.length / (8 * B) + 1 := by
    rcases hB with rfl | rfl <;> omega
  rw [ha, Nat.add_sub_cancel] at h
  have hr : ∀ c, Spec.rank c (s.length + 1) s = s.count c := fun c => rank_of_ge c s (by omega)
  -- the sentinel block
  have hsb : ∃ sbs, (∀ k : Array Nat → M RSSupportPlain,
      (if s.length / B % rsqBlocksInSuperblock + 1 < rsqBlocksInSuperblock then
        setBlockCounters st.sbs (s.length / B % rsqBlocksInSuperblock + 1) st.bc >>= k
        else pure st.sbs >>= k) = k sbs) ∧
      sbs.size = 4 * (s.length / (8 * B) + 1) ∧
      (∀ j c, j ≤ s.length / (8 * B) → c < 4 →
        sbOf (sbs.getD (4 * j + c) 0) = Spec.rank c (j * (8 * B)) s) ∧
      (∀ j c b, j ≤ s.length / (8 * B) → c < 4 → 1 ≤ b → b ≤ 7 →
        fld (sbs.getD (4 * j + c) 0) b =
          if 8 * j + b ≤ s.length / B + 1 then
            Spec.rank c ((8 * j + b) * B) s - Spec.rank c (j * (8 * B)) s else 0) := by
    rw [sbq]
    by_cases hnb : s.length / B % 8 + 1 < 8
    · have hbc : ∀ c, c < 4 → st.bc.getD c 0 < 4096 := by
        intro c hc
        rw [h.bc c hc, hr, ← rank_of_ge c s (Nat.le_refl _)]
        have := rank_sub_le c s (show s.length / (8 * B) * (8 * B) ≤ s.length from Nat.div_mul_le_self _ _)
        rcases hB with rfl | rfl <;> omega
      obtain ⟨sbs', e1, e2, e3⟩ := setBlockCounters_ok (k := s.length / (8 * B))
        (b := s.length / B % 8 + 1) h.sbs_size (by omega) h.bc_size hbc
      refine ⟨sbs', fun k => by rw [if_pos hnb, e1]; rfl, by rw [e2, h.sbs_size], ?_, ?_⟩
      · intro j c hj hc
        rw [e3 j c hc]
        split
        · rw [sbOf_or (hbc c hc) (by omega) (by omega)]
          exact h.sb j c (by omega) hc
        · exact h.sb j c (by omega) hc
      · intro j c b hj hc h1 h7
        rw [e3 j c hc]
        split
        · rename_i hjk
          obtain ⟨hjk, _⟩ := hjk
          subst hjk
          rw [fld_or (hbc c hc) (by omega) (by omega) h1 h7]
          have hmm : 8 * (s.length / (8 * B)) + (s.length / B % 8 + 1) = s.length / B + 1 := by
            rcases hB with rfl | rfl <;> omega
          split
          · rename_i hbb
            subst hbb
            rw [h.fl _ c _ (by omega) hc h1 h7, if_neg (by rcases hB with rfl | rfl <;> omega),
              Nat.zero_or, if_pos (by omega), hmm, h.bc c hc, hr,
              rank_of_ge c s (show s.length ≤ (s.length / B + 1) * B by
                rcases hB with rfl | rfl <;> omega)]
          · rename_i hbb
            rw [h.fl _ c _ (by omega) hc h1 h7]
            apply ite_iff_congr
            rcases hB with rfl | rfl <;> omega
        · rename_i hjk
          rw [h.fl _ c _ (by omega) hc h1 h7]
          apply ite_iff_congr
          rcases hB with rfl | rfl <;> omega
    · refine ⟨st.sbs, fun k => by rw [if_neg hnb]; rfl, h.sbs_size, fun j c hj hc => h.sb j c (by omega) hc, ?_⟩
      intro j c b hj hc h1 h7
      rw [h.fl _ c _ (by omega) hc h1 h7]
      apply ite_iff_congr
      rcases hB with rfl | rfl <;> omega
  obtain ⟨sbs, e1, e2, e3, e4⟩ := hsb
  rw [e1]
  have hsub : sub (sbs.size / 4) 1 = .ok (s.length / (8 * B)) := by
    unfold sub; rw [e2, Nat.mul_div_cancel_left _ (by decide : 0 < 4), if_pos (Nat.le_add_left _ _)]; rfl
  rw [hsub]
  simp only [ok_bind]
  refine ⟨_, rfl, e2, e3, e4, ?_, ?_⟩
  · show (st.samples.map _).size = 4
    rw [Array.size_map, h.samples_size]
  · intro c hc hpos
    show FSInv s (8 * B) c ((st.samples.map _).getD c #[])
    rw [getD_map _ _ _ #[] #[] (by rw [h.samples_size]; exact hc)]
    apply fsinv_of_sinv (h.samples c hc) hpos
    apply Nat.mod_eq_of_lt
    rcases hB with rfl | rfl <;> omega



/-- the representation invariant established by `RSQVector::from` -/
structure RepInv (B : Nat) (r : RSQVector) (s : List Nat) : Prop where
  hB : B = 256 ∨ B = 512
  holds : Holds r.qv s
  syms : ∀ x ∈ s, x < 4
  hlen : s.length < 2 ^ 43
  rs : RSInv B r.rs s
  occs : r.nOccsSmaller = #[0, s.count 0, s.count 0 + s.count 1, s.count 0 + s.count 1 + s.count 2,
    s.count 0 + s.count 1 + s.count 2 + s.count 3]

theorem count_fold {s : List Nat} {q : QVector} (hq : Holds q s) (hs : ∀ x ∈ s, x < 4) (k : Nat)
    (hk : k ≤ s.length) :
    ∃ cnt, (List.range k).foldlM (fun (c : Array Nat) i => do
        let s ← QV.getUnchecked false q i
        pure (c.modify s (· + 1))) #[0, 0, 0, 0, 0] = .ok cnt ∧ cnt.size = 5 ∧
      ∀ c, c < 4 → cnt.getD c 0 = Spec.rank c k s := by
  induction k with
  | zero =>
    refine ⟨_, rfl, rfl, fun c hc => ?_⟩
    rw [rank_zero]
    have h4 : c = 0 ∨ c = 1 ∨ c = 2 ∨ c = 3 := by omega
    rcases h4 with rfl | rfl | rfl | rfl <;> rfl
  | succ k ih =>
    obtain ⟨cnt, e, hsz, hc⟩ := ih (by omega)
    have hx : s[k]? = some (s.getD k 0) := by
      rw [List.getD_eq_getElem?_getD, List.getElem?_eq_getElem (by omega)]; rfl
    refine ⟨cnt.modify (s.getD k 0) (· + 1), ?_, by rw [Array.size_modify, hsz], fun c hc4 => ?_⟩
    · rw [List.range_succ, List.foldlM_append, e]
      simp only [ok_bind, List.foldlM_cons, List.foldlM_nil]
      rw [getUnchecked_ok hq hs false (by omega)]
      rfl
    · rw [getD_modify, hsz, hc c hc4, rank_step s hx c]
      by_cases hxc : s.getD k 0 = c
      · rw [if_pos ⟨hxc, by omega⟩, if_pos hxc]
      · rw [if_neg (fun hh => hxc hh.1), if_neg hxc]

theorem fromQV_ok {s : List Nat} {B : Nat} {q : QVector} (dbg : Bool)
    (hB : B = 256 ∨ B = 512) (hq : Holds q s) (hs : ∀ x ∈ s, x < 4) (hlen : s.length < 2 ^ 43) :
    ∃ r, fromQV dbg B q = .ok r ∧ RepInv B r s := by
  unfold fromQV
  obtain ⟨rs, e, h⟩ := rsNew_ok dbg hB hq hs hlen
  obtain ⟨cnt, e2, hsz, hc⟩ := count_fold hq hs s.length (Nat.le_refl _)
  rw [e, holds_len hq]
  simp only [ok_bind]
  rw [e2]
  simp only [ok_bind, getElem!_eq_getD]
  refine ⟨_, rfl, hB, hq, hs, hlen, h, ?_⟩
  show #[_, _, _, _, _] = _
  rw [hc 0 (by omega), hc 1 (by omega), hc 2 (by omega), hc 3 (by omega)]
  simp only [← count_eq_rank_length]


end Qwt.RSQP
