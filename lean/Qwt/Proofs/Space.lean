import Qwt.Model.Space

/-! Arithmetic of the space model (C14, C16).  Everything here is about `Space.*`, i.e. about
the buffer sizes the model's construction requests and the transcription of the crate's
hand-written `space_usage_byte` sums; the run-time comparison `space` ties both numbers to
the real crate (exact equality per generated case). -/
namespace Qwt.Space
open Qwt

theorem foldl_add_eq (l : List α) (f : α → Nat) (a : Nat) :
    l.foldl (fun acc x => acc + f x) a = a + (l.map f).sum := by
  induction l generalizing a with
  | nil => simp
  | cons x xs ih => simp [List.foldl, ih, Nat.add_assoc]

theorem foldl_plus_eq (l : List Nat) (a : Nat) : l.foldl (· + ·) a = a + l.sum := by
  induction l generalizing a with
  | nil => simp
  | cons x xs ih => simp [List.foldl, ih, Nat.add_assoc]

theorem array_foldl_add_eq (arr : Array α) (f : α → Nat) (a : Nat) :
    arr.foldl (fun acc x => acc + f x) a = a + (arr.toList.map f).sum := by
  rw [← Array.foldl_toList]; exact foldl_add_eq _ _ _

/-- sum of `16 + k·size` over the sample arrays = `16·count + k·total size` -/
theorem eta_size : (fun x : Array Nat => x.size) = Array.size := rfl

theorem sum_box (l : List (Array Nat)) (k : Nat) :
    (l.map (fun s => boxUsage s.size k)).sum = 16 * l.length + k * (l.map Array.size).sum := by
  induction l with
  | nil => simp
  | cons x xs ih =>
    simp only [List.map_cons, List.sum_cons, List.length_cons, ih]
    simp only [boxUsage]
    rw [Nat.mul_add, Nat.mul_add, Nat.mul_comm x.size k]
    omega

/-! ### exact accounting of the rank/select vectors: `usage = heap + self (± a constant)` -/

theorem qv_usage (q : QV.QVector) : (qv q).usage = (qv q).heap + (qv q).self_ := by
  simp [qv, boxUsage]; omega

theorem rsSupport_usage (rs : RSQ.RSSupportPlain) (h4 : rs.selectSamples.size = 4) :
    (rsSupport rs).usage = (rsSupport rs).heap + (rsSupport rs).self_ := by
  simp only [rsSupport, array_foldl_add_eq, boxUsage]
  have hl : rs.selectSamples.toList.length = 4 := by simpa using h4
  have := sum_box rs.selectSamples.toList 4
  simp only [boxUsage] at this
  rw [this, hl]
  simp only [Nat.zero_add]
  omega

theorem rsq_usage (r : RSQ.RSQVector) (h4 : r.rs.selectSamples.size = 4) :
    (rsq r).usage = (rsq r).heap + (rsq r).self_ := by
  have a := qv_usage r.qv
  have b := rsSupport_usage r.rs h4
  simp only [rsq] at *
  simp only [qv, rsSupport] at a b ⊢
  omega

theorem bv_usage (b : BV.BitVector) : (bv b).usage = (bv b).heap + (bv b).self_ := by
  simp [bv, boxUsage]; omega

theorem rsn_usage (r : RSN.RSNarrow) (h2 : r.selectSamples.size = 2) :
    (rsn r).usage = (rsn r).heap + (rsn r).self_ := by
  simp only [rsn, array_foldl_add_eq]
  have hl : r.selectSamples.toList.length = 2 := by simpa using h2
  have := sum_box r.selectSamples.toList 8
  rw [this, hl]
  have hb := bv_usage r.bv
  simp only [bv, boxUsage] at hb ⊢
  simp only [Nat.zero_add]
  omega

/-- `RSWide` does not count its `n_zeros` field: 8 bytes short -/
theorem rsw_usage (r : RSW.RSWide) (h2 : r.selectSamples.size = 2) :
    (rsw r).usage + 8 = (rsw r).heap + (rsw r).self_ := by
  simp only [rsw, array_foldl_add_eq]
  have hl : r.selectSamples.toList.length = 2 := by simpa using h2
  have := sum_box r.selectSamples.toList 8
  rw [this, hl]
  have hb := bv_usage r.bv
  simp only [bv, boxUsage] at hb ⊢
  simp only [Nat.zero_add]
  omega

theorem inv_usage (i : DA.Inventories) : (inv i).usage = (inv i).heap + (inv i).self_ := by
  simp [inv, boxUsage]; omega

/-! ### space of one level of the quad tree as a function of its length (C14) -/

/-- sizes of the buffers of a rank/select quad vector over `n` symbols with block size `B` -/
structure RSQSize (B n : Nat) (r : RSQ.RSQVector) : Prop where
  lines : r.qv.data.size = 4 * ((n + 255) / 256)
  sbs : r.rs.superblocks.size = 4 * (n / (8 * B) + 1)
  samples : (r.rs.selectSamples.toList.map Array.size).sum ≤ n / 8192 + 8

theorem rsq_heap_le (B n : Nat) (r : RSQ.RSQVector) (h : RSQSize B n r) :
    (rsq r).heap ≤ 64 * ((n + 255) / 256) + 64 * (n / (8 * B) + 1) + 4 * (n / 8192 + 8) := by
  simp only [rsq, qv, rsSupport, array_foldl_add_eq, h.lines, h.sbs]
  have := h.samples
  simp only [Nat.zero_add]
  omega

/-- bits per level, block size 256: `2n·(1 + 1/8 + 1/100)` plus a constant -/
theorem level_bits_256 (n : Nat) (r : RSQ.RSQVector) (h : RSQSize 256 n r) :
    800 * ((rsq r).heap + (rsq r).self_) ≤ 227 * n + 260000 := by
  have := rsq_heap_le 256 n r h
  simp only [rsq] at *
  omega

/-- bits per level, block size 512: `2n·(1 + 1/16 + 1/100)` plus a constant -/
theorem level_bits_512 (n : Nat) (r : RSQ.RSQVector) (h : RSQSize 512 n r) :
    1600 * ((rsq r).heap + (rsq r).self_) ≤ 429 * n + 520000 := by
  have := rsq_heap_le 512 n r h
  simp only [rsq] at *
  omega

/-- sizes of the buffers of `RSWide` over `n` bits -/
structure RSWSize (n : Nat) (r : RSW.RSWide) : Prop where
  lines : r.bv.data.size = 8 * ((n + 511) / 512)
  sm : r.superblockMetadata.size = (n + 4095) / 4096 + 1
  samples : (r.selectSamples.toList.map Array.size).sum ≤ n / 8192 + n / 8192 + 4

/-- bits per level of the binary tree: `n·(1 + 1/32 + 1/64)` plus a constant -/
theorem rsw_bits (n : Nat) (r : RSW.RSWide) (h : RSWSize n r) :
    512 * ((rsw r).heap + (rsw r).self_) ≤ 67 * n + 384000 := by
  simp only [rsw, bv, array_foldl_add_eq, h.lines, h.sm]
  have := h.samples
  simp only [Nat.zero_add]
  omega

/-- sum of a bounded list -/
theorem sum_le_of_forall_le (l : List Nat) (b : Nat) (h : ∀ x ∈ l, x ≤ b) : l.sum ≤ l.length * b := by
  induction l with
  | nil => simp
  | cons x xs ih =>
    have hx := h x (by simp)
    have := ih (fun y hy => h y (by simp [hy]))
    simp [List.sum_cons, Nat.succ_mul]; omega

end Qwt.Space
