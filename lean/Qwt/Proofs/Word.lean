import Qwt.Proofs.WordPart
import Qwt.Proofs.WordPopc
import Qwt.Proofs.WordBytes
import Qwt.Proofs.WordSwar
import Qwt.Proofs.WordPop8
import Qwt.Proofs.WordSelect
import Qwt.Proofs.WordPlace
import Qwt.Proofs.WordTable
import Qwt.Proofs.WordEnd
import Qwt.Proofs.WordSelectOk
import Qwt.Proofs.WordRemap

/-!
Helper lemmas for property C17 (`src/utils/mod.rs`).  Everything is core-only Lean
(`omega`, `simp`, `decide +kernel` on finite byte facts and on the extracted table); no
`bv_decide`, no Mathlib.

Route for `select_in_word` (Vigna's broadword select):
* `WordBytes`  — a 64-bit word is eight base-256 digits `W8 b0 … b7`; `&&&` acts digit-wise;
                 the bit list of the word is the concatenation of the bytes' bit lists;
                 `Spec.select` on an appended list.
* `WordSwar`   — shifts / additions / the multiplication by `0x0101…01` on digits (`omega`).
* `WordPop8`   — the three masking steps leave in byte `j` the popcount of byte `j`
                 (per byte: `decide` over 256 values; no carries cross byte borders).
* `WordSelect` — `selectInWord (W8 b…) k = siwTail … (prefix sums) k`.
* `WordPlace`  — `place / 8` = number of prefix sums `≤ k`.
* `WordTable`  — the table `kSelectInByte` equals the specification (kernel evaluation of
                 the extracted definition), byte extraction by shifts.
* `WordEnd`, `WordSelectOk` — the end game and the theorems for `u64` and `u128`.
-/
