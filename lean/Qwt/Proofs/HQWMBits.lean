import Qwt.Proofs.HQWMInv

/-!
Size of the level data of the Huffman-shaped quad wavelet tree: the levels hold, in total,
one two-bit symbol per (element, code fragment), i.e. `Σ_k lens[k] = Σ_{x ∈ S} len(code x) / 2`.
This ties the entropy bound C15 (stated over `cost f ℓ`) to the model.  Core Lean only.
-/
set_option linter.unusedSimpArgs false
set_option linter.unusedVariables false

namespace Qwt.HQWM
open Qwt Qwt.Huff

/-- the carried sequence is a permutation of `S` (counting form) -/
theorem seqQ_countP (δ : Nat → Nat → Nat) (len : Nat → Nat) (hδ : ∀ k x, δ k x < 4)
    (P : Nat → Bool) (S : List Nat) (k : Nat) : (seqQ δ len k S).countP P = S.countP P := by
  induction k with
  | zero => rfl
  | succ k ih =>
    simp only [seqQ, List.countP_append, List.countP_filter]
    rw [← ih]
    generalize seqQ δ len k S = l
    induction l with
    | nil => rfl
    | cons x xs ihl =>
      simp only [List.countP_cons]
      by_cases h1 : k + 1 < len x
      · have h2 : ¬ len x ≤ k + 1 := by omega
        have h4 : δ k x = 0 ∨ δ k x = 1 ∨ δ k x = 2 ∨ δ k x = 3 := by have := hδ k x; omega
        cases hP : P x <;> rcases h4 with h | h | h | h <;> simp [h1, h2, h] <;> omega
      · have h2 : len x ≤ k + 1 := by omega
        cases hP : P x <;> simp [h1, h2] <;> omega

theorem lvlQ_length_eq (δ : Nat → Nat → Nat) (len : Nat → Nat) (hδ : ∀ k x, δ k x < 4)
    (S : List Nat) (hpos : ∀ x ∈ S, 0 < len x) (k : Nat) :
    (lvlQ δ len k S).length = S.countP (fun x => decide (k < len x)) := by
  rw [← seqQ_live _ _ _ hpos, ← List.countP_eq_length_filter, seqQ_countP _ _ hδ]

theorem sum_map_add {α : Type} (f g : α → Nat) (l : List α) :
    (l.map (fun k => f k + g k)).sum = (l.map f).sum + (l.map g).sum := by
  induction l with
  | nil => rfl
  | cons a l ih => simp only [List.map_cons, List.sum_cons, ih]; omega

theorem sum_range_ind (N m : Nat) :
    ((List.range N).map (fun k => if k < m then 1 else 0)).sum = min N m := by
  induction N with
  | zero => simp
  | succ N ih =>
    rw [List.range_succ, List.map_append, List.sum_append, ih]
    simp only [List.map_cons, List.map_nil, List.sum_cons, List.sum_nil]
    split <;> omega

theorem sum_levels (len : Nat → Nat) (S : List Nat) (N : Nat) :
    ((List.range N).map (fun k => S.countP (fun x => decide (k < len x)))).sum =
      (S.map (fun x => min N (len x))).sum := by
  induction S with
  | nil =>
    simp only [List.countP_nil, List.map_nil, List.sum_nil]
    generalize List.range N = l
    induction l with
    | nil => rfl
    | cons a l ih => simp [ih]
  | cons a S ih =>
    have e : (fun k => (a :: S).countP (fun x => decide (k < len x))) =
        (fun k => S.countP (fun x => decide (k < len x)) + (if k < len a then 1 else 0)) := by
      funext k
      rw [List.countP_cons]
      by_cases h : k < len a <;> simp [h]
    rw [e, sum_map_add, ih, sum_range_ind]
    simp only [List.map_cons, List.sum_cons]
    omega

theorem two_mul_sum_map (f g : Nat → Nat) (S : List Nat) (h : ∀ x ∈ S, 2 * f x = g x) :
    2 * (S.map f).sum = (S.map g).sum := by
  induction S with
  | nil => rfl
  | cons a S ih =>
    simp only [List.map_cons, List.sum_cons]
    have h1 := h a (by simp)
    have h2 := ih (fun x hx => h x (by simp [hx]))
    omega

/-- total number of two-bit symbols stored in the levels -/
theorem inv_level_bits {c : Cfg} {S : List Nat} {codes : Array PrefixCode} {t : HQWT}
    (h : HWM c S codes t) :
    2 * t.lens.toList.sum = (S.map (fun x => codes[x]!.len)).sum := by
  have hl : t.lens.toList = (List.range t.nLevels).map
      (fun k => (lvlQ (qdig codes) (qlen codes) k S).length) := by
    apply List.ext_getElem
    · simp [h.levels.lens_size]
    · intro i h1 h2
      simp only [Array.length_toList] at h1
      simp only [Array.getElem_toList, List.getElem_map, List.getElem_range]
      exact h.levels.lens_eq i h1
  have hfun : (fun k => (lvlQ (qdig codes) (qlen codes) k S).length) =
      (fun k => S.countP (fun x => decide (k < qlen codes x))) := by
    funext k
    exact lvlQ_length_eq _ _ (qdig_lt codes) S h.qok.pos k
  rw [hl, hfun, sum_levels]
  apply two_mul_sum_map
  intro x hx
  have h1 := h.levels.len_le x hx
  have h2 := two_qlen (h.code_bound x).2.1
  rw [Nat.min_eq_right h1]
  exact h2

end Qwt.HQWM
