import Qwt.Proofs.WordEnd

/-! C17: correctness of `select_in_word` and `select_in_word_u128`. -/
namespace Qwt.Proofs.Word
open Qwt Qwt.Utils Qwt.Extracted

/-- value of an optional position, with a default -/
def posOr (o : Option Nat) (d : Nat) : Nat := match o with | some p => p | none => d

theorem nth8_lt {x0 x1 x2 x3 x4 x5 x6 x7 n : Nat}
    (h0 : x0 < n) (h1 : x1 < n) (h2 : x2 < n) (h3 : x3 < n) (h4 : x4 < n)
    (h5 : x5 < n) (h6 : x6 < n) (h7 : x7 < n) (t : Nat) : nth8 x0 x1 x2 x3 x4 x5 x6 x7 t < n := by
  unfold nth8; split <;> assumption

theorem nth8_step (b0 b1 b2 b3 b4 b5 b6 b7 t : Nat) (ht : t < 8) :
    nth8 (pc8 b0) (pc8 b0 + pc8 b1) (pc8 b0 + pc8 b1 + pc8 b2)
      (pc8 b0 + pc8 b1 + pc8 b2 + pc8 b3) (pc8 b0 + pc8 b1 + pc8 b2 + pc8 b3 + pc8 b4)
      (pc8 b0 + pc8 b1 + pc8 b2 + pc8 b3 + pc8 b4 + pc8 b5)
      (pc8 b0 + pc8 b1 + pc8 b2 + pc8 b3 + pc8 b4 + pc8 b5 + pc8 b6)
      (pc8 b0 + pc8 b1 + pc8 b2 + pc8 b3 + pc8 b4 + pc8 b5 + pc8 b6 + pc8 b7) t =
    nth8 0 (pc8 b0) (pc8 b0 + pc8 b1) (pc8 b0 + pc8 b1 + pc8 b2)
      (pc8 b0 + pc8 b1 + pc8 b2 + pc8 b3) (pc8 b0 + pc8 b1 + pc8 b2 + pc8 b3 + pc8 b4)
      (pc8 b0 + pc8 b1 + pc8 b2 + pc8 b3 + pc8 b4 + pc8 b5)
      (pc8 b0 + pc8 b1 + pc8 b2 + pc8 b3 + pc8 b4 + pc8 b5 + pc8 b6) t +
      pc8 (nth8 b0 b1 b2 b3 b4 b5 b6 b7 t) := by
  have : t = 0 ∨ t = 1 ∨ t = 2 ∨ t = 3 ∨ t = 4 ∨ t = 5 ∨ t = 6 ∨ t = 7 := by omega
  rcases this with h | h | h | h | h | h | h | h <;> subst h <;> simp only [nth8] <;> omega

theorem siw_W8_ok {b0 b1 b2 b3 b4 b5 b6 b7 k : Nat}
    (h0 : b0 < 256) (h1 : b1 < 256) (h2 : b2 < 256) (h3 : b3 < 256) (h4 : b4 < 256)
    (h5 : b5 < 256) (h6 : b6 < 256) (h7 : b7 < 256) (hk : k < 128) :
    selectInWord (W8 b0 b1 b2 b3 b4 b5 b6 b7) k =
      .ok (posOr (Spec.select true k (Spec.bitsOf (W8 b0 b1 b2 b3 b4 b5 b6 b7) 64)) 64) := by
  have r0 := (byte_facts b0 h0).2.2.2.2.2
  have r1 := (byte_facts b1 h1).2.2.2.2.2
  have r2 := (byte_facts b2 h2).2.2.2.2.2
  have r3 := (byte_facts b3 h3).2.2.2.2.2
  have r4 := (byte_facts b4 h4).2.2.2.2.2
  have r5 := (byte_facts b5 h5).2.2.2.2.2
  have r6 := (byte_facts b6 h6).2.2.2.2.2
  have r7 := (byte_facts b7 h7).2.2.2.2.2
  rw [siw_W8 h0 h1 h2 h3 h4 h5 h6 h7]
  unfold wmul64
  rw [masks.2.2.2.1, two64, W8_mul_ones (by omega)]
  obtain ⟨t, ht, hcase⟩ := @siw_place _ _ _ _ _ _ _ _ k hk
    (by omega : pc8 b0 ≤ pc8 b0 + pc8 b1) (by omega : _ ≤ pc8 b0 + pc8 b1 + pc8 b2)
    (by omega : _ ≤ pc8 b0 + pc8 b1 + pc8 b2 + pc8 b3)
    (by omega : _ ≤ pc8 b0 + pc8 b1 + pc8 b2 + pc8 b3 + pc8 b4)
    (by omega : _ ≤ pc8 b0 + pc8 b1 + pc8 b2 + pc8 b3 + pc8 b4 + pc8 b5)
    (by omega : _ ≤ pc8 b0 + pc8 b1 + pc8 b2 + pc8 b3 + pc8 b4 + pc8 b5 + pc8 b6)
    (by omega : _ ≤ pc8 b0 + pc8 b1 + pc8 b2 + pc8 b3 + pc8 b4 + pc8 b5 + pc8 b6 + pc8 b7)
    (by omega) (W8 b0 b1 b2 b3 b4 b5 b6 b7)
  rw [ht]
  rcases hcase with ⟨h8, hge⟩ | ⟨hlt, hlo, hhi⟩
  · subst h8
    rw [siwEnd_miss, select_none]
    · rfl
    · rw [bitsOf_W8 h0 h1 h2 h3 h4 h5 h6 h7]
      simp only [List.count_append]
      unfold pc8 at hge
      omega
  · have hbt := nth8_lt h0 h1 h2 h3 h4 h5 h6 h7 t
    have hstep := nth8_step b0 b1 b2 b3 b4 b5 b6 b7 t hlt
    have hr := (byte_facts _ hbt).2.2.2.2.2
    rw [siwEnd_hit _ _ k t _ _ hlt
      (W8_shr_nth h0 h1 h2 h3 h4 h5 h6 h7 t hlt) hbt
      (W8_shl_nth (by omega) (by omega) (by omega) (by omega) (by omega) (by omega) (by omega)
        (by omega) t hlt) hlo (by omega) hr]
    rw [select_W8_hit h0 h1 h2 h3 h4 h5 h6 h7 t k hlt hlo hhi]
    obtain ⟨p, hp, -⟩ := select_some true (Spec.bitsOf (nth8 b0 b1 b2 b3 b4 b5 b6 b7 t) 8)
      (k - nth8 0 (pc8 b0) (pc8 b0 + pc8 b1) (pc8 b0 + pc8 b1 + pc8 b2)
      (pc8 b0 + pc8 b1 + pc8 b2 + pc8 b3) (pc8 b0 + pc8 b1 + pc8 b2 + pc8 b3 + pc8 b4)
      (pc8 b0 + pc8 b1 + pc8 b2 + pc8 b3 + pc8 b4 + pc8 b5)
      (pc8 b0 + pc8 b1 + pc8 b2 + pc8 b3 + pc8 b4 + pc8 b5 + pc8 b6) t) (by
        show _ < pc8 _
        omega)
    unfold selOr
    rw [hp]
    simp only [Option.map_some, posOr]
    rw [Nat.add_comm]

theorem selectInWord_ok (w k : Nat) (hw : w < 2 ^ 64) (hk : k < 128) :
    selectInWord w k = .ok (posOr (Spec.select true k (Spec.bitsOf w 64)) 64) := by
  obtain ⟨b0, b1, b2, b3, b4, b5, b6, b7, h0, h1, h2, h3, h4, h5, h6, h7, rfl⟩ := exists_W8 w hw
  exact siw_W8_ok h0 h1 h2 h3 h4 h5 h6 h7 hk

theorem selectInWordU128_eq (word k : Nat) :
    selectInWordU128 word k =
      if popc (word % two64) > k then selectInWord (word % two64) k
      else (sub k (popc (word % two64)) >>= fun k' =>
        selectInWord ((word >>> 64) % two64) k' >>= fun r => pure (64 + r)) := rfl

theorem selectInWordU128_ok (w k : Nat) (hw : w < 2 ^ 128) (hk : k < 128) :
    selectInWordU128 w k = .ok (posOr (Spec.select true k (Spec.bitsOf w 128)) 128) := by
  have hlo : w % two64 < 2 ^ 64 := by unfold two64; omega
  have hhi : (w >>> 64) % two64 = w / 2 ^ 64 := by unfold two64; omega
  have hhi' : w / 2 ^ 64 < 2 ^ 64 := by omega
  have hsplit : w = w % two64 + 2 ^ 64 * (w / 2 ^ 64) := by unfold two64; omega
  have hbits : Spec.bitsOf w 128 = Spec.bitsOf (w % two64) 64 ++ Spec.bitsOf (w / 2 ^ 64) 64 := by
    have h := bitsOf_append 64 64 (w % two64) (w / 2 ^ 64) hlo
    rw [← hsplit] at h
    exact h
  have hcnt : popc (w % two64) = (Spec.bitsOf (w % two64) 64).count true := by
    rw [popc_eq_spec, popc_eq_count 64 _ hlo]
  rw [selectInWordU128_eq, hbits, select_append, ← hcnt, bitsOf_length]
  by_cases hc : popc (w % two64) > k
  · rw [if_pos hc, if_pos hc, selectInWord_ok _ _ hlo hk]
    obtain ⟨p, hp, -⟩ := select_some true (Spec.bitsOf (w % two64) 64) k (by omega)
    rw [hp]; rfl
  · rw [if_neg hc, if_neg hc]
    have hs : sub k (popc (w % two64)) = .ok (k - popc (w % two64)) := by
      unfold sub; rw [if_pos (by omega)]
    rw [hs, ok_bind, hhi, selectInWord_ok _ _ hhi' (by omega), ok_bind]
    cases Spec.select true (k - popc (w % two64)) (Spec.bitsOf (w / 2 ^ 64) 64) with
    | none => rfl
    | some p =>
      simp only [Option.map_some, posOr]
      rw [Nat.add_comm]; rfl

end Qwt.Proofs.Word
