import Qwt.Proofs.QVector
import Qwt.Proofs.BitVectorObs

/-!
Small generic lemmas used by the corollary files `Qwt/Props/C04.lean`, `C10.lean`, `C19.lean`:

* `ok_inj`, `list_eq_of_get` — two lists answering `get` identically are equal;
* `QV.eq_iff_abs` — the analogue of `BV.eq_iff_abs` for the quad vector: under the C13
  invariant the state is determined by the stored sequence;
* `exists_ok` — `x = .ok v → ∃ v, x = .ok v` and the "no fault" reading of a total call.

Core Lean only.
-/
namespace Qwt.Cor
open Qwt

theorem ok_inj {α : Type} {a b : α} (h : (Except.ok a : M α) = .ok b) : a = b := by
  cases h; rfl

/-- two lists with the same `get?` function are equal (the form in which the `get_ok`
    theorems deliver it) -/
theorem list_eq_of_get {α : Type} {S S' : List α} {g : Nat → M (Option α)}
    (h1 : ∀ i, g i = .ok S[i]?) (h2 : ∀ i, g i = .ok S'[i]?) : S = S' := by
  apply List.ext_getElem?
  intro i
  have := h1 i
  rw [h2 i] at this
  exact (ok_inj this).symm

/-- the same for two query functions that agree -/
theorem list_eq_of_get2 {α : Type} {S S' : List α} {g g' : Nat → M (Option α)}
    (h1 : ∀ i, g i = .ok S[i]?) (h2 : ∀ i, g' i = .ok S'[i]?) (hg : ∀ i, g i = g' i) :
    S = S' :=
  list_eq_of_get h1 (fun i => by rw [hg i]; exact h2 i)

/-- a call that returns `.ok v` does not fault -/
theorem no_fault {α : Type} {x : M α} {v : α} (h : x = .ok v) : ∀ f, x ≠ .error f := by
  intro f hf; rw [h] at hf; cases hf

theorem total_iff {α : Type} (x : M α) : (∃ v, x = .ok v) ↔ ∀ f, x ≠ .error f := by
  constructor
  · rintro ⟨v, h⟩; exact no_fault h
  · intro h
    cases x with
    | ok v => exact ⟨v, rfl⟩
    | error e => exact absurd rfl (h e)

end Qwt.Cor

namespace Qwt.QV
open Qwt

/-- `2a + b` determines both bits -/
theorem symAt_inj {d e : Array Nat} {i j : Nat} (h : symAt d i = symAt e j) :
    hbit d i = hbit e j ∧ lbit d i = lbit e j := by
  unfold symAt at h
  revert h
  cases hbit d i <;> cases lbit d i <;> cases hbit e j <;> cases lbit e j <;> decide

/-- under the C13 invariant the state of a quad vector is determined by the stored sequence
    (so the derived `PartialEq` is equality of the sequences) -/
theorem eq_iff_abs (s t : QVector) (hs : Inv s) (ht : Inv t) : s = t ↔ abs s = abs t := by
  constructor
  · intro h; rw [h]
  · intro h
    have hn : s.position / 2 = t.position / 2 := by rw [← length_abs s, ← length_abs t, h]
    have hp : s.position = t.position := by
      have := hs.even; have := ht.even; omega
    have hsym : ∀ i, symAt s.data i = symAt t.data i := by
      intro i
      rw [symAt_eq_getD hs, symAt_eq_getD ht, h]
    have hsz : s.data.size = t.data.size := by rw [hs.size, ht.size, hn]
    have hd : s.data = t.data := by
      apply Array.ext hsz
      intro j h1 h2
      apply Nat.eq_of_testBit_eq
      intro k
      by_cases hk : k < 128
      · have hw1 : wd s.data j = s.data[j] := wd_of_lt h1
        have hw2 : wd t.data j = t.data[j] := wd_of_lt h2
        rw [← hw1, ← hw2]
        by_cases hj : j % 4 < 2
        · have := (symAt_inj (hsym (256 * (j / 4) + 128 * (j % 4) + k))).1
          unfold hbit at this
          have e1 : (256 * (j / 4) + 128 * (j % 4) + k) / 256 = j / 4 := by omega
          have e2 : (256 * (j / 4) + 128 * (j % 4) + k) % 256 / 128 = j % 4 := by omega
          have e3 : (256 * (j / 4) + 128 * (j % 4) + k) % 128 = k := by omega
          have e4 : 4 * (j / 4) + j % 4 = j := by omega
          rw [e1, e2, e3, e4] at this
          exact this
        · have := (symAt_inj (hsym (256 * (j / 4) + 128 * (j % 4 - 2) + k))).2
          unfold lbit at this
          have e1 : (256 * (j / 4) + 128 * (j % 4 - 2) + k) / 256 = j / 4 := by omega
          have e2 : (256 * (j / 4) + 128 * (j % 4 - 2) + k) % 256 / 128 = j % 4 - 2 := by omega
          have e3 : (256 * (j / 4) + 128 * (j % 4 - 2) + k) % 128 = k := by omega
          have e4 : 4 * (j / 4) + 2 + (j % 4 - 2) = j := by omega
          rw [e1, e2, e3, e4] at this
          exact this
      · have le : 2 ^ 128 ≤ 2 ^ k := Nat.pow_le_pow_right (by decide) (by omega)
        have w1 : s.data[j] < 2 ^ 128 := by rw [← wd_of_lt h1]; exact hs.word j
        have w2 : t.data[j] < 2 ^ 128 := by rw [← wd_of_lt h2]; exact ht.word j
        rw [Nat.testBit_lt_two_pow (Nat.lt_of_lt_of_le w1 le),
          Nat.testBit_lt_two_pow (Nat.lt_of_lt_of_le w2 le)]
    cases s; cases t
    simp only at hp hd
    subst hp; subst hd; rfl

/-- every stored symbol is a quad symbol -/
theorem abs_lt_four (q : QVector) : ∀ x ∈ abs q, x < 4 := by
  intro x hx
  unfold abs at hx
  obtain ⟨i, _, rfl⟩ := List.mem_map.mp hx
  exact symAt_lt _ _

end Qwt.QV
