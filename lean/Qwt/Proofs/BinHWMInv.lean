import Qwt.Proofs.BinHWMNew
import Qwt.Proofs.BinHWMValid
import Qwt.Proofs.BinHWMDec

/-!
Representation invariant of the Huffman-shaped binary wavelet tree (`compressed = true`), its
establishment by `BinWT.new` from a valid code table, and the query theorems from the
invariant.  Core Lean only.
-/
set_option linter.unusedSimpArgs false

namespace Qwt.BinWM
open Qwt Qwt.BinWT Qwt.RSW
open Qwt.Huff (PrefixCode)
open Qwt.Props.C02 (WMValid digits)

/-- the representation invariant of a Huffman-shaped tree `t` for the non-empty sequence `S`
    and the code table `codes` -/
structure HWMb (c : Cfg) (S : List Nat) (codes : Array PrefixCode) (t : WT) : Prop where
  n_eq : t.n = S.length
  codes_eq : t.codesEncode = some codes
  sigma_eq : t.sigma = none
  dec : ∃ dec, t.codesDecode = some dec ∧ DecOK codes dec S
  hok : HOK (cbit codes) (clen codes) S
  levels : LevelsH codes S t
  mem_in : ∀ x ∈ S, x < codes.size ∧ clen codes x ≠ 0
  nonmem : ∀ x, x ∉ S → clen codes x = 0
  code_bound : ∀ x, clen codes x ≤ 32 ∧ codes[x]!.content < 2 ^ clen codes x
  bound : ∀ x ∈ S, x < 2 ^ c.W
  w64 : c.W ≤ 64
  len_lt : S.length < 2 ^ 43
  ne : S ≠ []

theorem lt_two64 {c : Cfg} (hW : c.W ≤ 64) {x : Nat} (hx : x < 2 ^ c.W) : x < two64 :=
  Nat.lt_of_lt_of_le hx (by
    have : two64 = 2 ^ 64 := by decide
    rw [this]; exact Nat.pow_le_pow_right (by omega) hW)

theorem new_okH (c : Cfg) (hW : c.W ≤ 64) (hLaw : BinLevelLaw) (S : List Nat) (hne : S ≠ [])
    (hb : ∀ x ∈ S, x < 2 ^ c.W) (hS : S.length < 2 ^ 43) (lens : List (Nat × Nat))
    (codes : Array PrefixCode)
    (hcraft : Huff.craftWmCodes 2 lens (Utils.asUsize (Spec.maxNat S)) = .ok codes)
    (occ : List Nat) (hv : WMValid 2 codes occ) (hocc : ∀ s, s ∈ occ ↔ s ∈ S) :
    ∃ t, BinWT.new c true S.toArray lens = .ok t ∧ HWMb c S codes t := by
  have hok := hok_of_valid hv hocc
  have hin : ∀ x ∈ S, x < codes.size ∧ clen codes x ≠ 0 :=
    fun x hx => hv.occ_len x ((hocc x).mpr hx)
  have hin' : ∀ s ∈ S, s < codes.size ∧ s < two64 :=
    fun s hs => ⟨(hin s hs).1, lt_two64 hW (hb s hs)⟩
  obtain ⟨st, h1, h2, h3, h4, h5, h6, h7⟩ :=
    levels_loopH c hLaw (codes.foldl (fun m x => max m x.len) 0) codes S hS hok.pos hin'
      (codes.foldl (fun m x => max m x.len) 0)
  have hemp : S.toArray.isEmpty = false := by
    cases S with
    | nil => exact absurd rfl hne
    | cons _ _ => rfl
  have hfold : S.toArray.foldl max 0 = Spec.maxNat S := by simp [Spec.maxNat]
  have hdec : DecOK codes (Huff.decodeTables codes (codes.foldl (fun m x => max m x.len) 0)) S := by
    apply decodeTables_ok codes S hin
    intro x hx i hi0 hil hic
    apply Classical.byContradiction
    intro hne'
    have hio : i ∈ occ := by
      apply Classical.byContradiction
      intro hno; exact hi0 (hv.nonocc_len i hno)
    apply hv.prefix_free i hio x ((hocc x).mpr hx) hne'
    have : codes[i]! = codes[x]! := by
      cases h1 : codes[i]!; cases h2 : codes[x]!
      rw [h1, h2] at hil hic
      simp only at hil hic
      rw [hil, hic]
    rw [this]
    exact List.prefix_refl _
  refine ⟨{ n := S.length, nLevels := codes.foldl (fun m x => max m x.len) 0, sigma := none,
            codesEncode := some codes,
            codesDecode := some (Huff.decodeTables codes (codes.foldl (fun m x => max m x.len) 0)),
            bvs := st.bvs, lens := st.lens }, ?_, ?_⟩
  · unfold BinWT.new
    simp only [hemp, Bool.false_eq_true, if_false, hfold, if_true, hcraft, ok_bind, pure_bind',
      Option.getD_some, h1]
    rfl
  · exact ⟨rfl, rfl, rfl, ⟨_, rfl, hdec⟩, hok,
      ⟨h4, h5, h6, h7, fun x _ => len_le_maxLen codes x⟩, hin,
      fun x hx => hv.nonocc_len x (fun h => hx ((hocc x).mp h)),
      fun x => ⟨(hv.len_le x).1, (hv.len_le x).2.2⟩, hb, hW, hS, hne⟩

/-! ## queries -/

section inv
variable {c : Cfg} {S : List Nat} {codes : Array PrefixCode} {t : WT}

theorem reprOfH (h : HWMb c S codes t) (sym : Nat) :
    reprOf true t sym =
      .ok (if sym ∈ S then some (codes[sym]!.content, clen codes sym) else none) := by
  unfold reprOf
  simp only [if_true, h.codes_eq]
  by_cases hs : sym ∈ S
  · obtain ⟨h1, h2⟩ := h.mem_in sym hs
    have h64 : ¬ sym ≥ two64 := by have := lt_two64 h.w64 (h.bound sym hs); omega
    have hlen : (codes[sym]!.len == 0) = false := by simpa [clen] using h2
    rw [if_neg h64, if_pos hs, Array.getElem?_eq_getElem h1, ← getElem!_pos codes sym h1]
    simp only [hlen, Bool.false_eq_true, if_false]
    rfl
  · rw [if_neg hs]
    have h0 := h.nonmem sym hs
    by_cases h64 : sym ≥ two64
    · rw [if_pos h64]; rfl
    · rw [if_neg h64]
      by_cases h1 : sym < codes.size
      · have hlen : (codes[sym]!.len == 0) = true := by simpa [clen] using h0
        rw [Array.getElem?_eq_getElem h1, ← getElem!_pos codes sym h1]
        simp only [hlen, if_true]
        rfl
      · rw [Array.getElem?_eq_none (by omega)]
        rfl

theorem invH_getUnchecked (h : HWMb c S codes t) (i : Nat) (hi : i < S.length) :
    BinWT.getUnchecked c true t i = .ok S[i] := by
  obtain ⟨dec, hd1, hd2⟩ := h.dec
  have hmem : S[i] ∈ S := List.getElem_mem hi
  exact getUncheckedH_ok c h.hok h.levels hd1 hd2 S[i] i (List.getElem?_eq_getElem hi)
    (h.code_bound _).2 (h.code_bound _).1 (h.bound _ hmem)

theorem invH_get (h : HWMb c S codes t) (i : Nat) : BinWT.get c true t i = .ok S[i]? := by
  unfold BinWT.get
  rw [h.n_eq]
  by_cases hi : i < S.length
  · rw [if_neg (by omega), invH_getUnchecked h i hi, List.getElem?_eq_getElem hi]; rfl
  · rw [if_pos (by omega), List.getElem?_eq_none (by omega)]; rfl

theorem invH_rankWalk (h : HWMb c S codes t) {sym : Nat} (hs : sym ∈ S) (i : Nat)
    (hi : i ≤ S.length) :
    ∃ p, rankWalk t codes[sym]!.content (clen codes sym) (clen codes sym) 0 i 0 =
      .ok (p + Spec.rank sym i S, p) := by
  have hw := rankWalkH_ok h.hok h.levels hs i (clen codes sym) 0 (by omega)
  rw [cntR_zero _ _ _ _ _ hi, cntR_full h.hok hs] at hw
  simp only [blkStartH, Nat.zero_add] at hw
  exact ⟨_, hw⟩

theorem invH_rank (h : HWMb c S codes t) (sym i : Nat) :
    BinWT.rank c true t sym i =
      .ok (if sym ∈ S ∧ i ≤ S.length then some (Spec.rank sym i S) else none) := by
  unfold BinWT.rank
  rw [h.n_eq, reprOfH h]
  by_cases hi : i ≤ S.length
  · have hi' : ¬ i > S.length := by omega
    by_cases hs : sym ∈ S
    · obtain ⟨p, hp⟩ := invH_rankWalk h hs i hi
      have hc : sym ∈ S ∧ i ≤ S.length := ⟨hs, hi⟩
      simp only [if_pos hc, if_neg hi', if_pos hs, ok_bind, hp]
      rw [sub_ok _ _ (by omega), Nat.add_sub_cancel_left]; rfl
    · have hc : ¬ (sym ∈ S ∧ i ≤ S.length) := fun h' => hs h'.1
      simp only [if_neg hc, if_neg hi', if_neg hs, ok_bind]
      rfl
  · have hc : ¬ (sym ∈ S ∧ i ≤ S.length) := fun h' => hi h'.2
    have hi' : i > S.length := by omega
    simp only [if_neg hc, if_pos hi']
    rfl

theorem invH_rankUnchecked (h : HWMb c S codes t) (sym i : Nat) (hs : sym ∈ S)
    (hi : i ≤ S.length) : BinWT.rankUnchecked c true t sym i = .ok (Spec.rank sym i S) := by
  obtain ⟨p, hp⟩ := invH_rankWalk h hs i hi
  obtain ⟨h1, _⟩ := h.mem_in sym hs
  have hlk := (code_lookup h1 (lt_two64 h.w64 (h.bound sym hs))).2
  unfold BinWT.rankUnchecked
  simp only [if_true, h.codes_eq, unwrap, ok_bind, hlk, pure_bind']
  have e : codes[sym]!.len = clen codes sym := rfl
  simp only [e, hp, ok_bind]
  rw [sub_ok _ _ (by omega), Nat.add_sub_cancel_left]

theorem invH_select (h : HWMb c S codes t) (sym k : Nat) :
    BinWT.select c true t sym k = .ok (if sym ∈ S then Spec.select sym k S else none) := by
  unfold BinWT.select
  rw [reprOfH h]
  by_cases hs : sym ∈ S
  · have hd := selectDownH_ok h.hok h.levels hs (clen codes sym) 0 (by omega)
    simp only [blkStartH, pathOfH] at hd
    have hlen : S.length < two64 := Nat.lt_trans h.len_lt (by unfold two64; omega)
    have hu := selectUpH_ok h.levels hlen hs (clen codes sym) k (Nat.le_refl _)
    have hL1 : clen codes sym ≠ 0 := (h.mem_in sym hs).2
    rw [selUpH_spec h.hok hs _ _ (Nat.le_refl _) (fun h0 => absurd h0 hL1),
      select_map_eq _ sym S (fun x hx => agR_full h.hok hs hx)] at hu
    simp only [if_pos hs, ok_bind, hd, hu]
  · simp only [if_neg hs, ok_bind]
    rfl

end inv

end Qwt.BinWM
