import Qwt.Proofs.WordSwar

/-! Helper lemmas for C17: the broadword (SWAR) byte popcounts of `select_in_word`. -/
namespace Qwt.Proofs.Word
open Qwt Qwt.Utils

def pc8 (b : Nat) : Nat := (Spec.bitsOf b 8).count true
def bstep1 (b : Nat) : Nat := b - (b &&& 0xAA) / 2
def bstep2 (p : Nat) : Nat := (p &&& 0x33) + ((p / 4) &&& 0x33)
def bstep3 (q : Nat) : Nat := (q + q / 16) % 16

theorem byte_facts : ∀ b, b < 256 →
    (b &&& 0xAA) % 2 = 0 ∧ (b &&& 0xAA) / 2 ≤ b ∧
    bstep2 (bstep1 b) % 16 ≤ 4 ∧ bstep2 (bstep1 b) / 16 ≤ 4 ∧
    bstep3 (bstep2 (bstep1 b)) = pc8 b ∧ pc8 b ≤ 8 := by
  decide +kernel

theorem and33 : ∀ x, x < 64 → ∀ y, y < 4 → (x + 64 * y) &&& 0x33 = x &&& 0x33 := by
  decide +kernel

theorem and80 : ∀ x, x < 256 → x &&& 0x80 = if 128 ≤ x then 128 else 0 := by
  decide +kernel

theorem or80 : ∀ x, x < 128 → x ||| 0x80 = x + 128 := by
  decide +kernel

theorem masks :
    wmul64 0xA Extracted.kOnesStep4 = W8 0xAA 0xAA 0xAA 0xAA 0xAA 0xAA 0xAA 0xAA ∧
    wmul64 0x3 Extracted.kOnesStep4 = W8 0x33 0x33 0x33 0x33 0x33 0x33 0x33 0x33 ∧
    wmul64 0xF Extracted.kOnesStep8 = W8 0xF 0xF 0xF 0xF 0xF 0xF 0xF 0xF ∧
    Extracted.kOnesStep8 = 72340172838076673 ∧
    Extracted.kLambdasStep8 = W8 0x80 0x80 0x80 0x80 0x80 0x80 0x80 0x80 := by
  decide +kernel

theorem and_lt_left (a m : Nat) {n : Nat} (h : a < n) : a &&& m < n :=
  Nat.lt_of_le_of_lt Nat.and_le_left h

theorem swar_step1 {b0 b1 b2 b3 b4 b5 b6 b7 : Nat}
    (h0 : b0 < 256) (h1 : b1 < 256) (h2 : b2 < 256) (h3 : b3 < 256) (h4 : b4 < 256)
    (h5 : b5 < 256) (h6 : b6 < 256) (h7 : b7 < 256) :
    (W8 b0 b1 b2 b3 b4 b5 b6 b7 &&& W8 0xAA 0xAA 0xAA 0xAA 0xAA 0xAA 0xAA 0xAA) >>> 1 ≤
      W8 b0 b1 b2 b3 b4 b5 b6 b7 ∧
    W8 b0 b1 b2 b3 b4 b5 b6 b7 -
      (W8 b0 b1 b2 b3 b4 b5 b6 b7 &&& W8 0xAA 0xAA 0xAA 0xAA 0xAA 0xAA 0xAA 0xAA) >>> 1 =
      W8 (bstep1 b0) (bstep1 b1) (bstep1 b2) (bstep1 b3) (bstep1 b4) (bstep1 b5) (bstep1 b6)
        (bstep1 b7) := by
  rw [and8 h0 h1 h2 h3 h4 h5 h6 h7 (by decide) (by decide) (by decide) (by decide) (by decide)
    (by decide) (by decide) (by decide)]
  have f0 := byte_facts b0 h0
  have f1 := byte_facts b1 h1
  have f2 := byte_facts b2 h2
  have f3 := byte_facts b3 h3
  have f4 := byte_facts b4 h4
  have f5 := byte_facts b5 h5
  have f6 := byte_facts b6 h6
  have f7 := byte_facts b7 h7
  rw [W8_shr1 f0.1 f1.1 f2.1 f3.1 f4.1 f5.1 f6.1 f7.1]
  exact W8_sub f0.2.1 f1.2.1 f2.2.1 f3.2.1 f4.2.1 f5.2.1 f6.2.1 f7.2.1

theorem swar_step2 {p0 p1 p2 p3 p4 p5 p6 p7 : Nat}
    (h0 : p0 < 256) (h1 : p1 < 256) (h2 : p2 < 256) (h3 : p3 < 256) (h4 : p4 < 256)
    (h5 : p5 < 256) (h6 : p6 < 256) (h7 : p7 < 256) :
    (W8 p0 p1 p2 p3 p4 p5 p6 p7 &&& W8 0x33 0x33 0x33 0x33 0x33 0x33 0x33 0x33) +
      ((W8 p0 p1 p2 p3 p4 p5 p6 p7 >>> 2) &&& W8 0x33 0x33 0x33 0x33 0x33 0x33 0x33 0x33) =
      W8 (bstep2 p0) (bstep2 p1) (bstep2 p2) (bstep2 p3) (bstep2 p4) (bstep2 p5) (bstep2 p6)
        (bstep2 p7) := by
  rw [W8_shr2 h0 h1 h2 h3 h4 h5 h6 h7]
  rw [and8 h0 h1 h2 h3 h4 h5 h6 h7 (by decide) (by decide) (by decide) (by decide) (by decide)
    (by decide) (by decide) (by decide)]
  rw [and8 (by omega) (by omega) (by omega) (by omega) (by omega) (by omega) (by omega) (by omega)
    (by decide) (by decide) (by decide) (by decide) (by decide)
    (by decide) (by decide) (by decide)]
  rw [and33 (p0 / 4) (by omega) (p1 % 4) (by omega), and33 (p1 / 4) (by omega) (p2 % 4) (by omega),
    and33 (p2 / 4) (by omega) (p3 % 4) (by omega), and33 (p3 / 4) (by omega) (p4 % 4) (by omega),
    and33 (p4 / 4) (by omega) (p5 % 4) (by omega), and33 (p5 / 4) (by omega) (p6 % 4) (by omega),
    and33 (p6 / 4) (by omega) (p7 % 4) (by omega)]
  rw [W8_add]
  rfl

theorem and15 (x y : Nat) : (x + 16 * y) &&& 0xF = x % 16 := by
  have h : (0xF : Nat) = 2 ^ 4 - 1 := by decide
  rw [h, Nat.and_two_pow_sub_one_eq_mod]
  omega

theorem swar_step3 {q0 q1 q2 q3 q4 q5 q6 q7 : Nat}
    (h0 : q0 % 16 ≤ 4 ∧ q0 / 16 ≤ 4) (h1 : q1 % 16 ≤ 4 ∧ q1 / 16 ≤ 4)
    (h2 : q2 % 16 ≤ 4 ∧ q2 / 16 ≤ 4) (h3 : q3 % 16 ≤ 4 ∧ q3 / 16 ≤ 4)
    (h4 : q4 % 16 ≤ 4 ∧ q4 / 16 ≤ 4) (h5 : q5 % 16 ≤ 4 ∧ q5 / 16 ≤ 4)
    (h6 : q6 % 16 ≤ 4 ∧ q6 / 16 ≤ 4) (h7 : q7 % 16 ≤ 4 ∧ q7 / 16 ≤ 4) :
    ((W8 q0 q1 q2 q3 q4 q5 q6 q7 + W8 q0 q1 q2 q3 q4 q5 q6 q7 >>> 4) % two64) &&&
        W8 0xF 0xF 0xF 0xF 0xF 0xF 0xF 0xF =
      W8 (bstep3 q0) (bstep3 q1) (bstep3 q2) (bstep3 q3) (bstep3 q4) (bstep3 q5) (bstep3 q6)
        (bstep3 q7) := by
  rw [W8_shr4 (by omega) (by omega) (by omega) (by omega) (by omega) (by omega) (by omega)
    (by omega), W8_add]
  rw [Nat.mod_eq_of_lt (by
    unfold two64
    exact W8_lt (by omega) (by omega) (by omega) (by omega) (by omega) (by omega) (by omega)
      (by omega))]
  rw [and8 (by omega) (by omega) (by omega) (by omega) (by omega) (by omega) (by omega) (by omega)
    (by decide) (by decide) (by decide) (by decide) (by decide)
    (by decide) (by decide) (by decide)]
  rw [← Nat.add_assoc q0, ← Nat.add_assoc q1, ← Nat.add_assoc q2, ← Nat.add_assoc q3,
    ← Nat.add_assoc q4, ← Nat.add_assoc q5, ← Nat.add_assoc q6]
  rw [and15, and15, and15, and15, and15, and15, and15]
  have h : (0xF : Nat) = 2 ^ 4 - 1 := by decide
  rw [h, Nat.and_two_pow_sub_one_eq_mod]
  rfl

end Qwt.Proofs.Word
