import Qwt.Proofs.HQWMInv
import Qwt.Proofs.PfsHuff

/-!
Estimation phase 1 of `rank_prefetch` on the Huffman-shaped quad wavelet tree, closed over the
HQWT development (`Qwt/Proofs/HQWM*.lean`):

* `pfsTotalH`: the premise `PfsTotalH c` of the HQWT constructor theorems holds for every
  configuration (`PfsP.new_of_pushes`);
* the level loop is re-run keeping track of the sampling structures only (`levels_loopP`):
  `pfs[k]` satisfies `PfsRep (digsQ k S)`;
* `walkHyp`: the invariant `HWM` + the sampling structures instantiate `Huff.WalkHyp` with
  `T k = blkStartQ k + cntP k i`;
* hence `pfsPhase1 = ok ()` and `rank_prefetch = rank`.
-/
set_option linter.unusedSimpArgs false
set_option linter.unusedVariables false

namespace Qwt.HQWM
open Qwt Qwt.Huff
open Qwt.PfsP (PfsRep)
open Qwt.BinWM (ok_bind pure_bind' idx_ok sub_ok clen code_lookup lt_two64)
open Qwt.Props.C02 (WMValid PfsTotalH)

/-- the totality premise of the HQWT constructor theorems holds for every configuration -/
theorem pfsTotalH (c : Cfg) : PfsTotalH c := by
  intro _ digits hd qvb hq
  obtain ⟨p, hp, _⟩ := PfsP.new_of_pushes digits hd qvb hq
  exact ⟨p, hp⟩

/-- `levelStepQ_ok` again, keeping the sampling structure (copy of the proof in
    `HQWMNew.lean` with `PfsTotalH` replaced by `PfsP.new_of_pushes`) -/
theorem levelStepP_ok (cfg : Cfg) (hLaw : LevelLaw cfg.dbg cfg.B) (k : Nat)
    (codes : Array PrefixCode) (S : List Nat) (hS : S.length < 2 ^ 43)
    (hpos : ∀ x ∈ S, 0 < qlen codes x) (hin : ∀ s ∈ S, s < codes.size ∧ s < two64)
    (hev : ∀ s : Nat, 2 ∣ codes[s]!.len)
    (qvs : Array RSQ.RSQVector) (lens : Array Nat) (pfs : Array PFS.PrefetchSupport) :
    ∃ r pf, (cfg.pfs = true → ∃ pp, pf = pfs.push pp ∧
        PfsRep (digsQ (qdig codes) (qlen codes) k S) pp) ∧
      levelStep cfg codes
          { seq := (seqQ (qdig codes) (qlen codes) k S).toArray, shift := 2 * (k + 1),
            qvs := qvs, lens := lens, pfs := pfs } =
        .ok { seq := (seqQ (qdig codes) (qlen codes) (k + 1) S).toArray, shift := 2 * (k + 1) + 2,
              qvs := qvs.push r,
              lens := lens.push (lvlQ (qdig codes) (qlen codes) k S).length, pfs := pf } := by
  have hdl : ∀ d ∈ digsQ (qdig codes) (qlen codes) k S, d < 4 := by
    intro d hd
    obtain ⟨x, _, rfl⟩ := List.mem_map.mp hd
    exact qdig_lt codes k x
  have hlen : (digsQ (qdig codes) (qlen codes) k S).length < 2 ^ Extracted.rsqLenLimitLog := by
    rw [digsQ, List.length_map]
    exact Nat.lt_of_le_of_lt (lvlQ_length_le _ _ _ _) (by simpa [Extracted.rsqLenLimitLog] using hS)
  obtain ⟨r, hmk, hrep⟩ := hLaw _ hdl hlen
  obtain ⟨qvb, hq, hfrom⟩ := QWTree.mkLevel_inv hmk
  have hsub := seqQ_subset (qdig codes) (qlen codes) S k
  have hin' : ∀ s ∈ seqQ (qdig codes) (qlen codes) k S, s < codes.size ∧ s < two64 :=
    fun s hs => hin s (hsub s hs)
  have hqlen : QV.len (QV.build qvb) = (lvlQ (qdig codes) (qlen codes) k S).length := by
    have h1 := fromQV_qv hfrom
    have h2 := hrep.len_eq
    rw [digsQ, List.length_map] at h2
    rw [← h2, RSQ.len, h1]
  have hfold : (seqQ (qdig codes) (qlen codes) k S).foldlM (pushBody codes (2 * (k + 1))) {}
      = .ok qvb := by
    rw [foldlM_filter_pushQ (fun x => decide (k < qlen codes x)) (qdig codes k) _ _ ?_ {}]
    · rw [seqQ_live _ _ _ hpos]
      exact hq
    · intro b s hs
      obtain ⟨h1, h2⟩ := hin' s hs
      unfold pushBody
      rw [(code_lookup h1 h2).1]
      simp only
      by_cases hk : k < qlen codes s
      · have : codes[s]!.len ≥ 2 * (k + 1) := by unfold qlen at hk; omega
        simp only [this, hk, if_true, decide_true, and3]
        rfl
      · have : ¬ codes[s]!.len ≥ 2 * (k + 1) := by unfold qlen at hk; omega
        simp [this, hk]
  have hpart := partitionWithCodesQ_ok codes k _ hin' hev
  by_cases hp : cfg.pfs = true
  · obtain ⟨pp, hpp, hrepP⟩ := PfsP.new_of_pushes _ hdl qvb hq
    refine ⟨r, pfs.push pp, fun _ => ⟨pp, rfl, hrepP⟩, ?_⟩
    rw [levelStep_eq]
    simp only [List.foldlM_toArray', hfold, ok_bind, hp, if_true, hpp, hfrom, hpart, hqlen,
      pure_bind']
    rfl
  · refine ⟨r, pfs, fun h => absurd h hp, ?_⟩
    rw [levelStep_eq]
    simp only [List.foldlM_toArray', hfold, ok_bind, hp, if_false, hfrom, hpart, hqlen,
      pure_bind', Bool.false_eq_true]
    rfl

/-- the level loop, tracking the sampling structures -/
theorem levels_loopP (cfg : Cfg) (hLaw : LevelLaw cfg.dbg cfg.B)
    (codes : Array PrefixCode) (S : List Nat) (hS : S.length < 2 ^ 43)
    (hpos : ∀ x ∈ S, 0 < qlen codes x) (hin : ∀ s ∈ S, s < codes.size ∧ s < two64)
    (hev : ∀ s : Nat, 2 ∣ codes[s]!.len) (k : Nat) :
    ∃ st : LevelSt,
      (List.range k).foldlM (fun st _ => levelStep cfg codes st)
        ({ seq := S.toArray, shift := 2 } : LevelSt) = .ok st ∧
      st.seq = (seqQ (qdig codes) (qlen codes) k S).toArray ∧ st.shift = 2 * (k + 1) ∧
      (cfg.pfs = true → st.pfs.size = k ∧
        ∀ j (h : j < st.pfs.size), PfsRep (digsQ (qdig codes) (qlen codes) j S) st.pfs[j]) := by
  induction k with
  | zero =>
    refine ⟨_, rfl, rfl, rfl, fun _ => ⟨rfl, ?_⟩⟩
    intro j h; simp at h
  | succ k ih =>
    obtain ⟨st, h1, h2, h3, h4⟩ := ih
    obtain ⟨seq, shift, qvs, lens, pfs⟩ := st
    simp only at h2 h3 h4
    subst h2 h3
    obtain ⟨r, pf, hpf, hstep⟩ := levelStepP_ok cfg hLaw k codes S hS hpos hin hev qvs lens pfs
    refine ⟨{ seq := (seqQ (qdig codes) (qlen codes) (k + 1) S).toArray, shift := 2 * (k + 1) + 2,
              qvs := qvs.push r,
              lens := lens.push (lvlQ (qdig codes) (qlen codes) k S).length, pfs := pf },
      ?_, rfl, ?_, ?_⟩
    · rw [List.range_succ, List.foldlM_append, h1, ok_bind]
      simp only [List.foldlM_cons, List.foldlM_nil, hstep]
      rfl
    · show 2 * (k + 1) + 2 = 2 * (k + 1 + 1); omega
    · intro hp
      obtain ⟨pp, rfl, hrep⟩ := hpf hp
      obtain ⟨g1, g2⟩ := h4 hp
      refine ⟨by simp [g1], ?_⟩
      intro j h
      simp only [Array.size_push] at h
      by_cases hj : j < pfs.size
      · simp only [Array.getElem_push_lt hj]
        exact g2 j hj
      · have : j = pfs.size := by omega
        subst this
        simp only [Array.getElem_push_eq]
        rw [g1]
        exact hrep

/-- the sampling structures of a tree: one per level, describing the digit list of the level -/
def PfsLevelsQ (codes : Array PrefixCode) (S : List Nat) (t : HQWT) : Prop :=
  ∃ pfs, t.pfs = some pfs ∧ pfs.size = t.nLevels ∧
    ∀ j (h : j < pfs.size), PfsRep (digsQ (qdig codes) (qlen codes) j S) pfs[j]

/-- the tree built by `new` carries the sampling structures of all its levels -/
theorem new_pfsQ (c : Cfg) (hW : c.W ≤ 64) (hLaw : LevelLaw c.dbg c.B)
    (S : List Nat) (hne : S ≠ [])
    (hb : ∀ x ∈ S, x < 2 ^ c.W) (hS : S.length < 2 ^ 43) (lens : List (Nat × Nat))
    (codes : Array PrefixCode)
    (hcraft : Huff.craftWmCodes 4 lens (Utils.asUsize (Spec.maxNat S)) = .ok codes)
    (occ : List Nat) (hv : WMValid 4 codes occ) (hocc : ∀ s, s ∈ occ ↔ s ∈ S)
    {t : HQWT} (ht : Huff.new c S.toArray lens = .ok t) (hp : c.pfs = true) :
    PfsLevelsQ codes S t := by
  have hok := qok_of_valid hv hocc
  have hev : ∀ x : Nat, 2 ∣ codes[x]!.len := fun x => (hv.len_le x).2.1
  have hin : ∀ x ∈ S, x < codes.size ∧ codes[x]!.len ≠ 0 :=
    fun x hx => hv.occ_len x ((hocc x).mpr hx)
  have hin' : ∀ s ∈ S, s < codes.size ∧ s < two64 :=
    fun s hs => ⟨(hin s hs).1, lt_two64 hW (hb s hs)⟩
  obtain ⟨st, h1, _, _, h4⟩ :=
    levels_loopP c hLaw codes S hS hok.pos hin' hev (maxLenOf codes / 2)
  have hemp : S.toArray.isEmpty = false := by
    cases S with
    | nil => exact absurd rfl hne
    | cons _ _ => rfl
  have hfold : S.toArray.foldl max 0 = Spec.maxNat S := by simp [Spec.maxNat]
  have hnew : Huff.new c S.toArray lens = .ok
      { n := S.length, nLevels := maxLenOf codes / 2, codesEncode := codes,
        codesDecode := Huff.decodeTables codes (maxLenOf codes),
        qvs := st.qvs, lens := st.lens,
        pfs := if c.pfs then some st.pfs else none } := by
    unfold Huff.new
    simp only [hemp, Bool.false_eq_true, if_false, hfold, hcraft, ok_bind, pure_bind']
    unfold maxLenOf at h1
    simp only [h1, ok_bind]
    rfl
  rw [hnew] at ht
  cases ht
  obtain ⟨g1, g2⟩ := h4 hp
  exact ⟨st.pfs, by simp [hp], g1, g2⟩

/-! ### the walk hypothesis -/

section inv
variable {c : Cfg} {S : List Nat} {codes : Array PrefixCode} {t : HQWT}

theorem tbAt_eq (codes : Array PrefixCode) (sym k : Nat) :
    tbAt codes[sym]! k = qdig codes k sym := by
  unfold tbAt
  rw [and3, Nat.mod_mod_of_dvd _ (by decide : 4 ∣ 256)]
  rfl

/-- the HQWT invariant and the sampling structures instantiate `WalkHyp`, with the true
    position `T k = blkStartQ k + cntP k i` -/
theorem walkHyp (h : HWM c S codes t) {pfs : Array PFS.PrefetchSupport}
    (hsz : pfs.size = t.nLevels)
    (hrep : ∀ j (hj : j < pfs.size), PfsRep (digsQ (qdig codes) (qlen codes) j S) pfs[j])
    {sym : Nat} (hs : sym ∈ S) (i : Nat) :
    WalkHyp c t codes[sym]! pfs (fun k => digsQ (qdig codes) (qlen codes) k S)
      (fun k => blkStartQ (qdig codes) (qlen codes) sym S k
        + cntP (qdig codes) (qlen codes) sym S k i) where
  levels_le := by have := (h.code_bound sym).1; have := PfsP.rate_ge_16; omega
  qvs := by
    intro k hk
    have hks : k < t.qvs.size := by
      rw [h.levels.size_eq]; exact Nat.lt_of_lt_of_le hk (h.levels.len_le sym hs)
    exact ⟨t.qvs[k], Array.getElem?_eq_getElem hks, h.levels.repr k hks⟩
  pfs := by
    intro k hk
    have hks : k < pfs.size := by
      rw [hsz]
      exact Nat.lt_of_lt_of_le (show k < qlen codes sym by unfold qlen; omega)
        (h.levels.len_le sym hs)
    exact ⟨pfs[k], Array.getElem?_eq_getElem hks, hrep k hks⟩
  nonempty := by
    intro k hk
    have hm := mem_lvlQ h.qok hs k (show k < qlen codes sym by unfold qlen; omega)
    rw [digsQ, List.length_map]
    exact List.length_pos_of_mem hm
  inside := by
    intro k hk
    exact blkStartQ_cnt_le h.qok hs k (show k < qlen codes sym by unfold qlen; omega) i
  step := by
    intro k hk
    have hk0 : k < qlen codes sym := by unfold qlen; omega
    have hk1 : k + 1 < qlen codes sym := hk
    have hw := walk_stepQ h.qok hs k hk0 i
    rw [cntR_eq_cntP h.qok hs hk1] at hw
    unfold nextPos at hw
    rw [tbAt_eq, hw]
    exact Nat.le_refl _

/-- estimation phase 1 never faults on the Huffman-shaped tree -/
theorem inv_phase1 (h : HWM c S codes t) (hp : c.pfs = true → PfsLevelsQ codes S t)
    {sym : Nat} (hs : sym ∈ S) (i : Nat) (hi : i ≤ S.length) :
    pfsPhase1 c t codes[sym]! i = .ok () := by
  cases hc : c.pfs
  · exact pfsPhase1_trivial c t _ i (Or.inl hc)
  · obtain ⟨pfs, hpfs, hsz, hrep⟩ := hp hc
    have hev := (h.code_bound sym).2.1
    have h2q := two_qlen hev
    have hL1 : 0 < qlen codes sym := by
      have := (h.mem_in sym hs).2; omega
    have hcnt : cntP (qdig codes) (qlen codes) sym S 0 i = i := by
      rw [← cntR_eq_cntP h.qok hs hL1, cntR_zero _ _ _ _ _ hi]
    exact pfsPhase1_ok_partial hpfs (walkHyp h hsz hrep hs i) (by omega) i
      (by simp only [blkStartQ, Nat.zero_add, hcnt]; exact Nat.le_refl _)

/-- `rank_prefetch = rank` on the Huffman-shaped tree, both `pfs` settings -/
theorem inv_rankPrefetch (h : HWM c S codes t) (hp : c.pfs = true → PfsLevelsQ codes S t)
    (sym i : Nat) : Huff.rankPrefetch c t sym i = Huff.rank c t sym i :=
  inv_rankPrefetch_partial h sym i (fun _ hs hi => inv_phase1 h hp hs i hi)

end inv

end Qwt.HQWM
