import Qwt.Model.RSBin
import Qwt.Proofs.RSBinWord

/-! `BV.Holds b s`: the word-level reading of "the bit vector `b` stores the bit list `s`",
and the per-line rank / select of `DataLine` proved against it. -/
namespace Qwt.BV
open Qwt Qwt.RSBin

/-- `b` stores `s`: bit `i` of `s` is bit `i % 64` of word `i / 64`, lines are complete
(eight words per 512 bits), padding bits are zero, words are `u64`s. -/
structure Holds (b : BitVector) (s : List Bool) : Prop where
  nBits : b.nBits = s.length
  size : b.data.size = 8 * ((s.length + 511) / 512)
  lt : ∀ j, j < b.data.size → b.data.getD j 0 < 2 ^ 64
  bit : ∀ i, i < 64 * b.data.size → (b.data.getD (i / 64) 0).testBit (i % 64) = s.getD i false
  nOnes : b.nOnes = s.count true

/-- the hypothesis on `select_in_word` (property C17) -/
def SelSpec : Prop :=
  ∀ w k, w < 2 ^ 64 → k < 128 →
    Utils.selectInWord w k = .ok (match Spec.select true k (Spec.bitsOf w 64) with | some p => p | none => 64)

/-- the word a select for `bit` looks at -/
def wordOf (bit : Bool) (w : Nat) : Nat := if bit then w else not64 w

theorem wordOf_lt (bit : Bool) (w : Nat) (h : w < 2 ^ 64) : wordOf bit w < 2 ^ 64 := by
  cases bit
  · exact not64_lt w
  · exact h

theorem uidx_getD (a : Array Nat) (k : Nat) (h : k < a.size) : uidx a k = .ok (a.getD k 0) := by
  simp [uidx, h, Array.getD]

theorem idx_getD (a : Array Nat) (k : Nat) (h : k < a.size) : idx a k = .ok (a.getD k 0) := by
  simp [idx, h, Array.getD]

theorem idx_getD' {α : Type} (a : Array α) (k : Nat) (d : α) (h : k < a.size) : idx a k = .ok (a.getD k d) := by
  simp [idx, h, Array.getD]

namespace Holds
variable {b : BitVector} {s : List Bool}

theorem nLines_eq (h : Holds b s) : nLines b = (s.length + 511) / 512 := by
  unfold nLines; rw [h.size]; omega

theorem size_eq (h : Holds b s) : b.data.size = 8 * nLines b := by
  rw [h.nLines_eq, h.size]

theorem len_le (h : Holds b s) : s.length ≤ 512 * nLines b := by
  rw [h.nLines_eq]; omega

theorem bitw (h : Holds b s) (j t : Nat) (hj : j < b.data.size) (ht : t < 64) :
    b.data.getD j 0 / 2 ^ t % 2 = if s.getD (64 * j + t) false then 1 else 0 := by
  have := h.bit (64 * j + t) (by omega)
  have e1 : (64 * j + t) / 64 = j := by omega
  have e2 : (64 * j + t) % 64 = t := by omega
  rw [e1, e2, Nat.testBit_eq_decide_div_mod_eq] at this
  have h2 : b.data.getD j 0 / 2 ^ t % 2 < 2 := Nat.mod_lt _ (by decide)
  cases hb : s.getD (64 * j + t) false
  · rw [hb] at this
    have hne : ¬ (b.data.getD j 0 / 2 ^ t % 2 = 1) := by simpa using this
    simp only [Bool.false_eq_true, if_false]; omega
  · rw [hb] at this
    have hne : b.data.getD j 0 / 2 ^ t % 2 = 1 := by simpa using this
    simpa using hne

theorem wordOf_bitw (h : Holds b s) (bit : Bool) (j t : Nat) (hj : j < b.data.size) (ht : t < 64) :
    wordOf bit (b.data.getD j 0) / 2 ^ t % 2 = if s.getD (64 * j + t) false = bit then 1 else 0 := by
  have hb := h.bitw j t hj ht
  cases bit
  · simp only [wordOf, Bool.false_eq_true, if_false]
    rw [not64_eq _ (h.lt j hj), compl_div_mod 64 _ t (h.lt j hj) ht, hb]
    cases s.getD (64 * j + t) false <;> simp
  · simp only [wordOf, if_true, hb]

/-- the cumulative count inside a word -/
theorem C_word (h : Holds b s) (bit : Bool) (j : Nat) (hj : j < b.data.size) (t : Nat) (ht : t ≤ 64) :
    C bit s (64 * j + t) = C bit s (64 * j) + popc (wordOf bit (b.data.getD j 0) % 2 ^ t) := by
  induction t with
  | zero => simp [Nat.mod_one, popc_zero]
  | succ t ih =>
    rw [← Nat.add_assoc, C_succ, ih (by omega), popc_mod_succ, h.wordOf_bitw bit j t hj (by omega)]
    omega

theorem C_word_full (h : Holds b s) (bit : Bool) (j : Nat) (hj : j < b.data.size) :
    C bit s (64 * (j + 1)) = C bit s (64 * j) + popc (wordOf bit (b.data.getD j 0)) := by
  have := h.C_word bit j hj 64 (Nat.le_refl _)
  rw [Nat.mod_eq_of_lt (wordOf_lt bit _ (h.lt j hj))] at this
  rw [← this]; congr 1

theorem R_word (h : Holds b s) (j : Nat) (hj : j < b.data.size) (t : Nat) (ht : t ≤ 64) :
    R s (64 * j + t) = R s (64 * j) + popc (b.data.getD j 0 % 2 ^ t) := by
  simpa [C, wordOf] using h.C_word true j hj t ht

theorem R_word_full (h : Holds b s) (j : Nat) (hj : j < b.data.size) :
    R s (64 * (j + 1)) = R s (64 * j) + popc (b.data.getD j 0) := by
  simpa [C, wordOf] using h.C_word_full true j hj

/-- `DataLine::n_ones` -/
theorem lineOnes_eq (h : Holds b s) (l : Nat) (hl : l < nLines b) :
    R s (512 * (l + 1)) = R s (512 * l) + lineOnes b.data l := by
  have hs := h.size_eq
  have e : lineOnes b.data l = popc (b.data.getD (8 * l + 0) 0) + popc (b.data.getD (8 * l + 1) 0)
      + popc (b.data.getD (8 * l + 2) 0) + popc (b.data.getD (8 * l + 3) 0)
      + popc (b.data.getD (8 * l + 4) 0) + popc (b.data.getD (8 * l + 5) 0)
      + popc (b.data.getD (8 * l + 6) 0) + popc (b.data.getD (8 * l + 7) 0) := by
    simp [lineOnes, List.range, List.range.loop]
  rw [e]
  have w0 := h.R_word_full (8 * l + 0) (by omega)
  have w1 := h.R_word_full (8 * l + 1) (by omega)
  have w2 := h.R_word_full (8 * l + 2) (by omega)
  have w3 := h.R_word_full (8 * l + 3) (by omega)
  have w4 := h.R_word_full (8 * l + 4) (by omega)
  have w5 := h.R_word_full (8 * l + 5) (by omega)
  have w6 := h.R_word_full (8 * l + 6) (by omega)
  have w7 := h.R_word_full (8 * l + 7) (by omega)
  have e0 : 64 * (8 * l + 0) = 512 * l := by omega
  have e1 : 64 * (8 * l + 0 + 1) = 64 * (8 * l + 1) := by omega
  have e2 : 64 * (8 * l + 1 + 1) = 64 * (8 * l + 2) := by omega
  have e3 : 64 * (8 * l + 2 + 1) = 64 * (8 * l + 3) := by omega
  have e4 : 64 * (8 * l + 3 + 1) = 64 * (8 * l + 4) := by omega
  have e5 : 64 * (8 * l + 4 + 1) = 64 * (8 * l + 5) := by omega
  have e6 : 64 * (8 * l + 5 + 1) = 64 * (8 * l + 6) := by omega
  have e7 : 64 * (8 * l + 6 + 1) = 64 * (8 * l + 7) := by omega
  have e8 : 64 * (8 * l + 7 + 1) = 512 * (l + 1) := by omega
  rw [e0] at w0; rw [e1] at w0; rw [e2] at w1; rw [e3] at w2; rw [e4] at w3
  rw [e5] at w4; rw [e6] at w5; rw [e7] at w6; rw [e8] at w7
  omega

theorem lineOnes_le (h : Holds b s) (l : Nat) (hl : l < nLines b) : lineOnes b.data l ≤ 512 := by
  have h1 := h.lineOnes_eq l hl
  have h2 := rank_add_le true s (512 * l) 512
  rw [show 512 * (l + 1) = 512 * l + 512 by omega] at h1
  unfold R at *
  omega

/-! ### `DataLine::rank1` -/

theorem lineRank1_go_neg (data : Array Nat) (l f w : Nat) (left : Int) (rank : Nat) (hneg : left < 0) :
    lineRank1.go data l f w left rank = .ok rank := by
  cases f with
  | zero => rfl
  | succ f => simp [lineRank1.go, hneg]; rfl

theorem lineRank1_go (h : Holds b s) (l : Nat) (hl : l < nLines b) :
    ∀ (f w n rank : Nat), w + f = 8 → n ≤ 64 * f →
      lineRank1.go b.data l f w (Int.ofNat n) rank =
        .ok (rank + (R s (64 * (8 * l + w) + n) - R s (64 * (8 * l + w)))) := by
  intro f
  induction f with
  | zero =>
    intro w n rank _ hn
    have : n = 0 := by omega
    subst this
    simp [lineRank1.go]; rfl
  | succ f ih =>
    intro w n rank hw hn
    have hs := h.size_eq
    have hj : 8 * l + w < b.data.size := by omega
    have hnn : ¬ (Int.ofNat n < 0) := by simp
    simp only [lineRank1.go, hnn, if_false]
    rw [uidx_getD _ _ hj]
    simp only [bind, Except.bind]
    by_cases hbig : n > 63
    · have h63 : (Int.ofNat n > 63) := by simp; omega
      simp only [h63, if_true]
      rw [and_mask64 _ (h.lt _ hj)]
      have e : Int.ofNat n - 64 = Int.ofNat (n - 64) := by simp; omega
      rw [e, ih (w + 1) (n - 64) _ (by omega) (by omega)]
      have hf := h.R_word_full (8 * l + w) hj
      have e2 : 64 * (8 * l + (w + 1)) + (n - 64) = 64 * (8 * l + w) + n := by omega
      have e3 : 64 * (8 * l + (w + 1)) = 64 * (8 * l + w + 1) := by omega
      rw [e2, e3]
      have := rank_mono true s (i := 64 * (8 * l + w + 1)) (j := 64 * (8 * l + w) + n) (by omega)
      unfold R at *
      congr 1; omega
    · have h63 : ¬ (Int.ofNat n > 63) := by simp; omega
      simp only [h63, if_false]
      have e : (Int.ofNat n).toNat = n := by simp
      rw [e, popc_and_mask, lineRank1_go_neg _ _ _ _ _ _ (by simp; omega)]
      have := h.R_word (8 * l + w) hj n (by omega)
      congr 1; omega

theorem lineRank1_eq (h : Holds b s) (l : Nat) (hl : l < nLines b) (i : Nat) (hi : i ≤ 512) :
    lineRank1 b.data l i = .ok (R s (512 * l + i) - R s (512 * l)) := by
  unfold lineRank1
  rw [h.lineRank1_go l hl 8 0 i 0 (by omega) (by omega)]
  have : 64 * (8 * l + 0) = 512 * l := by omega
  rw [this]; simp

theorem lineRank1Checked_eq (h : Holds b s) (l : Nat) (hl : l < nLines b) (i : Nat) (hi : i ≤ 512) :
    lineRank1Checked b.data l i = .ok (some (R s (512 * l + i) - R s (512 * l))) := by
  unfold lineRank1Checked
  have : ¬ i > 512 := by omega
  simp only [this, if_false, h.lineRank1_eq l hl i hi]; rfl

/-! ### `DataLine::select1` / `select0` -/

theorem lineSelect_go (hsel : SelSpec) (h : Holds b s) (bit : Bool) (l : Nat) (hl : l < nLines b) (i : Nat)
    (hi : C bit s (512 * l) + i < C bit s (512 * (l + 1))) :
    ∀ (f w : Nat), w + f = 8 → C bit s (64 * (8 * l + w)) ≤ C bit s (512 * l) + i →
      ∃ p, lineSelect.go bit b.data l i f w (64 * w) (C bit s (64 * (8 * l + w)) - C bit s (512 * l)) = .ok p ∧
        p < 512 ∧ s.getD (512 * l + p) false = bit ∧ C bit s (512 * l + p) = C bit s (512 * l) + i := by
  intro f
  induction f with
  | zero =>
    intro w hw hle
    have : w = 8 := by omega
    subst this
    have : 64 * (8 * l + 8) = 512 * (l + 1) := by omega
    rw [this] at hle; omega
  | succ f ih =>
    intro w hw hle
    have hs := h.size_eq
    have hj : 8 * l + w < b.data.size := by omega
    have hmono := C_mono bit s (i := 512 * l) (j := 64 * (8 * l + w)) (by omega)
    simp only [lineSelect.go]
    rw [uidx_getD _ _ hj]
    simp only [bind, Except.bind]
    have hword : (if bit = true then b.data.getD (8 * l + w) 0 else not64 (b.data.getD (8 * l + w) 0))
        = wordOf bit (b.data.getD (8 * l + w) 0) := rfl
    rw [hword]
    generalize hW : wordOf bit (b.data.getD (8 * l + w) 0) = W
    have hWlt : W < 2 ^ 64 := by rw [← hW]; exact wordOf_lt _ _ (h.lt _ hj)
    have hsub : sub i (C bit s (64 * (8 * l + w)) - C bit s (512 * l))
        = .ok (i - (C bit s (64 * (8 * l + w)) - C bit s (512 * l))) := by
      simp only [sub]; rw [if_pos (by omega)]
    rw [hsub]
    simp only []
    have hfull := h.C_word_full bit (8 * l + w) hj
    rw [hW] at hfull
    by_cases hk : popc W > i - (C bit s (64 * (8 * l + w)) - C bit s (512 * l))
    · simp only [hk, if_true]
      have hple := popc_le_of_lt W 64 hWlt
      obtain ⟨p, hp, hp64, hpbit, hppop⟩ := select_bitsOf W _ hWlt hk
      rw [hsel W _ hWlt (by omega), hp]
      refine ⟨64 * w + p, rfl, by omega, ?_, ?_⟩
      · have := h.wordOf_bitw bit (8 * l + w) p hj hp64
        rw [hW, hpbit] at this
        have e : 512 * l + (64 * w + p) = 64 * (8 * l + w) + p := by omega
        rw [e]
        by_cases hb : s.getD (64 * (8 * l + w) + p) false = bit
        · exact hb
        · rw [if_neg hb] at this; omega
      · have := h.C_word bit (8 * l + w) hj p (by omega)
        rw [hW, hppop] at this
        have e : 512 * l + (64 * w + p) = 64 * (8 * l + w) + p := by omega
        rw [e, this]; omega
    · simp only [hk, if_false]
      have e3 : 64 * (8 * l + w + 1) = 64 * (8 * l + (w + 1)) := by omega
      rw [e3] at hfull
      have := ih (w + 1) (by omega) (by omega)
      have e1 : 64 * w + 64 = 64 * (w + 1) := by omega
      have e2 : C bit s (64 * (8 * l + w)) - C bit s (512 * l) + popc W
          = C bit s (64 * (8 * l + (w + 1))) - C bit s (512 * l) := by omega
      rw [e1, e2]; exact this

theorem lineSelect_eq (hsel : SelSpec) (h : Holds b s) (bit : Bool) (l : Nat) (hl : l < nLines b) (i : Nat)
    (hi : C bit s (512 * l) + i < C bit s (512 * (l + 1))) :
    ∃ p, lineSelect bit b.data l i = .ok p ∧
      p < 512 ∧ s.getD (512 * l + p) false = bit ∧ C bit s (512 * l + p) = C bit s (512 * l) + i := by
  have := h.lineSelect_go hsel bit l hl i hi 8 0 (by omega)
    (by rw [show 64 * (8 * l + 0) = 512 * l by omega]; omega)
  have e : 64 * (8 * l + 0) = 512 * l := by omega
  rw [e] at this
  simpa [lineSelect] using this

/-! ### access -/

theorem get_eq (h : Holds b s) (i : Nat) : BV.get b i = .ok s[i]? := by
  unfold BV.get
  by_cases hi : i ≥ b.nBits
  · have : s.length ≤ i := by rw [← h.nBits]; exact hi
    simp [hi, List.getElem?_eq_none this]; rfl
  · have hlt : i < s.length := by rw [← h.nBits]; omega
    have hl := h.len_le
    have hs := h.size_eq
    simp only [hi, if_false, getUnchecked, getBitSlice]
    have e6 : i >>> 6 = i / 64 := by rw [Nat.shiftRight_eq_div_pow]
    have e63 : i &&& 63 = i % 64 := Nat.and_two_pow_sub_one_eq_mod i 6
    have hj : i / 64 < b.data.size := by omega
    rw [e6, e63, idx_getD _ _ hj]
    have := h.bitw (i / 64) (i % 64) hj (Nat.mod_lt _ (by decide))
    have e : 64 * (i / 64) + i % 64 = i := by omega
    rw [e] at this
    simp only [bind, Except.bind, pure, Except.pure]
    rw [Nat.shiftRight_eq_div_pow, Nat.and_one_is_mod, this, List.getElem?_eq_getElem hlt]
    have : s.getD i false = s[i] := by simp [List.getD_eq_getElem?_getD, List.getElem?_eq_getElem hlt]
    rw [this]
    cases s[i] <;> simp

theorem getUnchecked_eq (h : Holds b s) (i : Nat) (hi : i < s.length) :
    BV.getUnchecked b i = .ok (s.getD i false) := by
  have := h.get_eq i
  unfold BV.get at this
  have hn : ¬ i ≥ b.nBits := by rw [h.nBits]; omega
  simp only [hn, if_false] at this
  cases hg : getUnchecked b i with
  | error e => rw [hg] at this; simp [bind, Except.bind] at this
  | ok v =>
    rw [hg] at this
    simp only [bind, Except.bind, pure, Except.pure, List.getElem?_eq_getElem hi] at this
    have : v = s[i] := by simpa using this
    simp [List.getD_eq_getElem?_getD, List.getElem?_eq_getElem hi, this]

end Holds
end Qwt.BV
