import Qwt.Proofs.CraftDefs
/-! C02: `sortByKey` (stable insertion sort of the model) is a sorted permutation. -/
namespace Qwt.Proofs.Craft
open Qwt Qwt.Huff Qwt.Props.C02

theorem insertByKey_perm {α} (key : α → Nat) (x : α) (l : List α) :
    (insertByKey key x l).Perm (x :: l) := by
  induction l with
  | nil => exact List.Perm.refl _
  | cons y ys ih =>
    unfold insertByKey
    split
    · exact List.Perm.refl _
    · exact (List.Perm.cons y ih).trans (List.Perm.swap x y ys)

theorem insertByKey_sorted {α} (key : α → Nat) (x : α) (l : List α)
    (h : l.Pairwise (fun a b => key a ≤ key b)) :
    (insertByKey key x l).Pairwise (fun a b => key a ≤ key b) := by
  induction l with
  | nil => simp [insertByKey]
  | cons y ys ih =>
    unfold insertByKey
    have hy := List.pairwise_cons.mp h
    split
    · rename_i hlt
      refine List.pairwise_cons.mpr ⟨?_, h⟩
      intro a ha
      rcases List.mem_cons.mp ha with rfl | ha
      · omega
      · have := hy.1 a ha; omega
    · rename_i hge
      refine List.pairwise_cons.mpr ⟨?_, ih hy.2⟩
      intro a ha
      rcases List.mem_cons.mp ((insertByKey_perm key x ys).mem_iff.mp ha) with rfl | ha
      · omega
      · exact hy.1 a ha

theorem sortByKey_aux {α} (key : α → Nat) (l acc : List α)
    (h : acc.Pairwise (fun a b => key a ≤ key b)) :
    (l.foldl (fun acc x => insertByKey key x acc) acc).Perm (l ++ acc) ∧
    (l.foldl (fun acc x => insertByKey key x acc) acc).Pairwise (fun a b => key a ≤ key b) := by
  induction l generalizing acc with
  | nil => exact ⟨List.Perm.refl _, h⟩
  | cons x xs ih =>
    obtain ⟨p, s⟩ := ih (insertByKey key x acc) (insertByKey_sorted key x acc h)
    refine ⟨?_, s⟩
    simp only [List.foldl_cons, List.cons_append]
    exact p.trans ((List.Perm.append_left xs (insertByKey_perm key x acc)).trans
      List.perm_middle)

theorem sortByKey_perm {α} (key : α → Nat) (l : List α) : (sortByKey key l).Perm l := by
  have := (sortByKey_aux key l [] List.Pairwise.nil).1
  simpa [sortByKey] using this

theorem sortByKey_sorted {α} (key : α → Nat) (l : List α) :
    (sortByKey key l).Pairwise (fun a b => key a ≤ key b) :=
  (sortByKey_aux key l [] List.Pairwise.nil).2

end Qwt.Proofs.Craft
