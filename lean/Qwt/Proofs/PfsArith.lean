import Qwt.Spec.Basic
import Qwt.Proofs.RSQBits
import Qwt.Extracted

/-!
Arithmetic of the sampling scheme of `PrefetchSupport::new` (`src/quadwt/prefetch_support.rs`)
for the sample rate `rate = 2 ^ pfsSampleShift` used by the quad wavelet trees (`2048 = 2^11` at
the time of writing; nothing below depends on the value beyond the side conditions
`rate_pos`, `rate_ge_two`, which are decided on the extracted constant).

Walking over a level of length `n`, a group of four flags is pushed at every position `i` with
`i % rate = 0` and at the last position `i = n - 1`.  Hence

* `nbOf n`      — number of bits of each sample vector;
* `covered n j` — number of level elements covered by the first `j` sample bits
                  (bit `0` covers element `0`, bit `j ≥ 1` the elements `(rate (j-1), rate j]`,
                  the last bit the tail);
* `mOf n i`, `cOf n i` — number of bits pushed / number of elements covered after the first
                  `i` elements have been processed (loop invariant).
-/
namespace Qwt.PfsP
open Qwt

/-! ### the sample rate -/

/-- the sample rate of the prefetch support of the quad wavelet trees, `2 ^ pfsSampleShift` -/
def rate : Nat := 2 ^ Extracted.pfsSampleShift

theorem rate_def : rate = 2 ^ Extracted.pfsSampleShift := rfl

theorem rate_pos : 0 < rate := Nat.two_pow_pos _

/-- side condition on the extracted constant: the shift is not zero (with rate 1 the last block
    `⌊n/rate⌋ + 1` of a level of length `n` would lie outside the `n` sample bits) -/
theorem shift_pos : 1 ≤ Extracted.pfsSampleShift := by decide

theorem rate_ge_two : 2 ≤ rate := by
  have := Nat.pow_le_pow_right (n := 2) (by decide) shift_pos
  exact this

theorem one_shiftLeft_shift : (1 <<< Extracted.pfsSampleShift : Nat) = rate := Nat.one_shiftLeft _

theorem shiftRight_shift (i : Nat) : i >>> Extracted.pfsSampleShift = i / rate :=
  Nat.shiftRight_eq_div_pow _ _

/-- the literal value, for the current shift -/
theorem rate_2048 (h : Extracted.pfsSampleShift = 11) : rate = 2048 := by
  rw [rate_def, h]

/-! ### division by a variable (for `omega`: products `R * q` are atoms) -/

theorem dm (R x : Nat) (hR : 0 < R) : R * (x / R) + x % R = x ∧ x % R < R :=
  ⟨Nat.div_add_mod x R, Nat.mod_lt x hR⟩

theorem div_eq_of {R x y : Nat} (h1 : R * y ≤ x) (h2 : x < R * y + R) : x / R = y := by
  apply Nat.div_eq_of_lt_le
  · rw [Nat.mul_comm]; exact h1
  · rw [Nat.add_mul, Nat.one_mul, Nat.mul_comm]; exact h2

/-- `⌈(i+1)/R⌉ = ⌊i/R⌋ + 1` -/
theorem ceil_succ {R : Nat} (hR : 0 < R) (i : Nat) : (i + 1 + R - 1) / R = i / R + 1 := by
  rw [show i + 1 + R - 1 = i + R by omega]; exact Nat.add_div_right i hR

/-- `⌈i/R⌉ = ⌊i/R⌋` on multiples of `R` -/
theorem ceil_of_mod_eq {R : Nat} (hR : 0 < R) {i : Nat} (h : i % R = 0) : (i + R - 1) / R = i / R := by
  obtain ⟨h1, h2⟩ := dm R i hR
  exact div_eq_of (by omega) (by omega)

/-- `⌈i/R⌉ = ⌊i/R⌋ + 1` off the multiples of `R` -/
theorem ceil_of_mod_ne {R : Nat} (hR : 0 < R) {i : Nat} (h : i % R ≠ 0) :
    (i + R - 1) / R = i / R + 1 := by
  obtain ⟨h1, h2⟩ := dm R i hR
  have e : R * (i / R + 1) = R * (i / R) + R := Nat.mul_succ _ _
  exact div_eq_of (by omega) (by omega)

theorem pred_div_of_mod_ne {R : Nat} (hR : 0 < R) {i : Nat} (h : i % R ≠ 0) : (i - 1) / R = i / R := by
  obtain ⟨h1, h2⟩ := dm R i hR
  exact div_eq_of (by omega) (by omega)

/-! ### the sampling scheme -/

/-- number of bits of each sample vector for a level of length `n`: `⌈(n-1)/rate⌉ + 1` -/
def nbOf (n : Nat) : Nat := if n = 0 then 0 else (n + rate - 2) / rate + 1

/-- number of elements covered by the first `j` sample bits -/
def covered (n j : Nat) : Nat := if j = 0 then 0 else min (rate * (j - 1) + 1) n

/-- bits pushed after `i` elements -/
def mOf (n i : Nat) : Nat := if i = n then nbOf n else (i + rate - 1) / rate

/-- elements covered by the bits pushed after `i` elements -/
def cOf (n i : Nat) : Nat := if i = 0 then 0 else if i = n then n else rate * ((i - 1) / rate) + 1

/-- the literal forms for the current value of the shift -/
theorem nbOf_2048 (h : Extracted.pfsSampleShift = 11) (n : Nat) :
    nbOf n = if n = 0 then 0 else (n + 2046) / 2048 + 1 := by
  unfold nbOf; rw [rate_2048 h]; split <;> omega

theorem covered_2048 (h : Extracted.pfsSampleShift = 11) (n j : Nat) :
    covered n j = if j = 0 then 0 else min (2048 * (j - 1) + 1) n := by
  unfold covered; rw [rate_2048 h]

theorem nbOf_pos {n : Nat} (h : 0 < n) : 0 < nbOf n := by
  unfold nbOf; rw [if_neg (by omega)]; exact Nat.succ_pos _

/-- `⌈(n-1)/rate⌉ ≤ n - 1`: never more sample bits than elements -/
theorem nbOf_le (n : Nat) : nbOf n ≤ n := by
  unfold nbOf
  split
  · omega
  · have hR := rate_pos
    generalize rate = R at *
    have : (n + R - 2) / R ≤ n - 1 := by
      have h1 : n + R - 2 = n - 1 + (R - 1) := by omega
      rw [h1]
      by_cases h0 : n - 1 = 0
      · rw [h0, Nat.zero_add, Nat.div_eq_of_lt (by omega)]; omega
      · have := ceil_succ hR (n - 2)
        rw [show n - 2 + 1 + R - 1 = n - 1 + (R - 1) by omega] at this
        rw [this]
        have := Nat.div_le_self (n - 2) R
        omega
    omega

theorem covered_le (n j : Nat) : covered n j ≤ n := by
  unfold covered; split <;> omega

theorem covered_mono (n : Nat) {j j' : Nat} (h : j ≤ j') : covered n j ≤ covered n j' := by
  unfold covered
  have := Nat.mul_le_mul_left rate (show j - 1 ≤ j' - 1 by omega)
  split <;> split <;> omega

theorem covered_zero (n : Nat) : covered n 0 = 0 := rfl

theorem covered_succ (n j : Nat) : covered n (j + 1) = min (rate * j + 1) n := by
  unfold covered; rw [if_neg (by omega), Nat.add_sub_cancel]

theorem covered_nbOf (n : Nat) : covered n (nbOf n) = n := by
  unfold nbOf
  by_cases h0 : n = 0
  · subst h0; rfl
  · rw [if_neg h0, covered_succ]
    obtain ⟨h1, h2⟩ := dm rate (n + rate - 2) rate_pos
    have := rate_pos
    generalize rate * ((n + rate - 2) / rate) = a at *
    omega

theorem mOf_zero (n : Nat) : mOf n 0 = 0 := by
  unfold mOf
  split
  · next h => subst h; rfl
  · rw [Nat.zero_add]; exact Nat.div_eq_of_lt (by have := rate_pos; omega)

theorem cOf_zero (n : Nat) : cOf n 0 = 0 := rfl

theorem mOf_self (n : Nat) : mOf n n = nbOf n := by unfold mOf; rw [if_pos rfl]

theorem mOf_of_ne {n i : Nat} (h : i ≠ n) : mOf n i = (i + rate - 1) / rate := by
  unfold mOf; rw [if_neg h]

theorem cOf_le {n i : Nat} (h : i ≤ n) : cOf n i ≤ i := by
  unfold cOf; split
  · omega
  · split
    · omega
    · obtain ⟨h1, h2⟩ := dm rate (i - 1) rate_pos
      omega

theorem lt_cOf_add {n i : Nat} (h : i < n) : i + 1 ≤ cOf n i + rate := by
  unfold cOf; split
  · have := rate_pos; omega
  · rw [if_neg (by omega)]
    obtain ⟨h1, h2⟩ := dm rate (i - 1) rate_pos
    omega

theorem covered_mOf {n i : Nat} (h : i ≤ n) : covered n (mOf n i) = cOf n i := by
  by_cases hin : i = n
  · subst hin; rw [mOf_self, covered_nbOf]; unfold cOf; split <;> simp_all
  · by_cases h0 : i = 0
    · subst h0; rw [mOf_zero]; rfl
    · rw [mOf_of_ne hin]
      have e := ceil_succ rate_pos (i - 1)
      rw [show i - 1 + 1 + rate - 1 = i + rate - 1 by omega] at e
      rw [e, covered_succ]
      unfold cOf
      rw [if_neg h0, if_neg hin]
      obtain ⟨h1, h2⟩ := dm rate (i - 1) rate_pos
      omega

/-- a push happens at position `i` -/
theorem step_push {n i : Nat} (h : i < n) (hp : i % rate = 0 ∨ i + 1 = n) :
    mOf n (i + 1) = mOf n i + 1 ∧ cOf n (i + 1) = i + 1 ∧ covered n (mOf n i + 1) = i + 1 := by
  have hR := rate_pos
  have hm : mOf n i = (i + rate - 1) / rate := mOf_of_ne (by omega)
  obtain ⟨d1, d2⟩ := dm rate i rate_pos
  have hc : cOf n (i + 1) = i + 1 := by
    unfold cOf; rw [if_neg (by omega)]; split
    · omega
    · rcases hp with hp | hp
      · simp only [Nat.add_sub_cancel]; omega
      · omega
  refine ⟨?_, hc, ?_⟩
  · rw [hm]
    by_cases he : i + 1 = n
    · subst he
      rw [mOf_self]; unfold nbOf
      rw [if_neg (by omega), show i + 1 + rate - 2 = i + rate - 1 by omega]
    · rw [mOf_of_ne he]
      rcases hp with hp | hp
      · rw [ceil_succ hR, ceil_of_mod_eq hR hp]
      · exact absurd hp he
  · rw [covered_succ, hm]
    rcases hp with hp | hp
    · rw [ceil_of_mod_eq hR hp]; omega
    · obtain ⟨c1, c2⟩ := dm rate (i + rate - 1) rate_pos
      omega

/-- no push at position `i` -/
theorem step_nopush {n i : Nat} (h : i < n) (hp : ¬ (i % rate = 0 ∨ i + 1 = n)) :
    mOf n (i + 1) = mOf n i ∧ cOf n (i + 1) = cOf n i := by
  have hR := rate_pos
  have h1 : i % rate ≠ 0 := fun e => hp (Or.inl e)
  have h2 : i + 1 ≠ n := fun e => hp (Or.inr e)
  have h0 : i ≠ 0 := by intro e; subst e; exact h1 (Nat.zero_mod _)
  constructor
  · rw [mOf_of_ne h2, mOf_of_ne (by omega), ceil_succ hR, ceil_of_mod_ne hR h1]
  · unfold cOf; rw [if_neg (by omega), if_neg h2, if_neg h0, if_neg (by omega)]
    simp only [Nat.add_sub_cancel]
    rw [pred_div_of_mod_ne hR h1]

/-- a position `p ≤ n` of a non-empty level is inside the sample vectors (any rate `≥ 2`) -/
theorem block_in_range {n p : Nat} (hn : 0 < n) (hp : p ≤ n) : p / rate + 1 ≤ nbOf n := by
  unfold nbOf; rw [if_neg (by omega)]
  have := rate_ge_two
  have := Nat.div_le_div_right (c := rate) (show p ≤ n + rate - 2 by omega)
  omega

theorem covered_block_le (n p : Nat) : covered n (p / rate + 1) ≤ p + 1 := by
  rw [covered_succ]
  obtain ⟨h1, h2⟩ := dm rate p rate_pos
  omega

/-! ### the flag arithmetic -/

theorem flag_succ {c r : Nat} (h : c ≤ r) :
    decide (c / rate < (r + 1) / rate) = (decide (c / rate < r / rate) || ((r + 1) % rate == 0)) := by
  have hR := rate_pos
  generalize rate = R at *
  have hcr := Nat.div_le_div_right (c := R) h
  have hr1 := Nat.div_le_div_right (c := R) (Nat.le_succ r)
  have hs : (r + 1) / R = r / R + if (r + 1) % R = 0 then 1 else 0 := by
    rw [Nat.succ_div]
    simp only [Nat.dvd_iff_mod_eq_zero]
  by_cases h1 : c / R < r / R
  · have : c / R < (r + 1) / R := by omega
    simp [h1, this]
  · by_cases h2 : (r + 1) % R = 0
    · rw [if_pos h2] at hs
      have : c / R < (r + 1) / R := by omega
      simp [h1, h2, this]
    · rw [if_neg h2] at hs
      have : ¬ c / R < (r + 1) / R := by omega
      simp [h1, h2, this]

theorem flag_add {a b : Nat} (h1 : a ≤ b) (h2 : b ≤ a + rate) :
    a / rate + (if decide (a / rate < b / rate) = true then 1 else 0) = b / rate := by
  have hR := rate_pos
  generalize rate = R at *
  have l1 := Nat.div_le_div_right (c := R) h1
  have l2 := Nat.div_le_div_right (c := R) h2
  rw [Nat.add_div_right a hR] at l2
  by_cases h : a / R < b / R
  · simp only [h, decide_true, if_true]; omega
  · simp only [h, decide_false, Bool.false_eq_true, if_false]; omega

/-! ### rank on lists -/

theorem rank_append_le {α} [BEq α] (c : α) (l : List α) (x : α) {j : Nat} (h : j ≤ l.length) :
    Spec.rank c j (l ++ [x]) = Spec.rank c j l := by
  unfold Spec.rank; rw [List.take_append_of_le_length h]

theorem rank_append_last (l : List Bool) (b : Bool) :
    Spec.rank true (l.length + 1) (l ++ [b]) =
      Spec.rank true l.length l + (if b = true then 1 else 0) := by
  unfold Spec.rank
  rw [List.take_of_length_le (by simp), List.take_of_length_le (Nat.le_refl _), List.count_append]
  cases b <;> simp

end Qwt.PfsP
