import Qwt.Spec.Basic
import Qwt.Proofs.RSQBits

/-!
Arithmetic of the sampling scheme of `PrefetchSupport::new` (`src/quadwt/prefetch_support.rs`)
for the sample rate `2048 = 2^11` used by the quad wavelet trees.

Walking over a level of length `n`, a group of four flags is pushed at every position `i` with
`i % 2048 = 0` and at the last position `i = n - 1`.  Hence

* `nbOf n`      — number of bits of each sample vector;
* `covered n j` — number of level elements covered by the first `j` sample bits
                  (bit `0` covers element `0`, bit `j ≥ 1` the elements `(2048 (j-1), 2048 j]`,
                  the last bit the tail);
* `mOf n i`, `cOf n i` — number of bits pushed / number of elements covered after the first
                  `i` elements have been processed (loop invariant).
-/
namespace Qwt.PfsP
open Qwt

/-- number of bits of each sample vector for a level of length `n` -/
def nbOf (n : Nat) : Nat := if n = 0 then 0 else (n + 2046) / 2048 + 1

/-- number of elements covered by the first `j` sample bits -/
def covered (n j : Nat) : Nat := if j = 0 then 0 else min (2048 * (j - 1) + 1) n

/-- bits pushed after `i` elements -/
def mOf (n i : Nat) : Nat := if i = n then nbOf n else (i + 2047) / 2048

/-- elements covered by the bits pushed after `i` elements -/
def cOf (n i : Nat) : Nat := if i = 0 then 0 else if i = n then n else 2048 * ((i - 1) / 2048) + 1

theorem nbOf_pos {n : Nat} (h : 0 < n) : 0 < nbOf n := by
  unfold nbOf; rw [if_neg (by omega)]; omega

theorem covered_le (n j : Nat) : covered n j ≤ n := by
  unfold covered; split <;> omega

theorem covered_mono (n : Nat) {j j' : Nat} (h : j ≤ j') : covered n j ≤ covered n j' := by
  unfold covered; split <;> split <;> omega

theorem covered_zero (n : Nat) : covered n 0 = 0 := rfl

theorem covered_succ (n j : Nat) : covered n (j + 1) = min (2048 * j + 1) n := by
  unfold covered; rw [if_neg (by omega), Nat.add_sub_cancel]

theorem covered_nbOf (n : Nat) : covered n (nbOf n) = n := by
  unfold covered nbOf; split <;> split <;> omega

theorem mOf_zero (n : Nat) : mOf n 0 = 0 := by
  unfold mOf nbOf; split <;> simp_all

theorem cOf_zero (n : Nat) : cOf n 0 = 0 := rfl

theorem mOf_self (n : Nat) : mOf n n = nbOf n := by unfold mOf; rw [if_pos rfl]

theorem cOf_le {n i : Nat} (h : i ≤ n) : cOf n i ≤ i := by
  unfold cOf; split
  · omega
  · split <;> omega

theorem lt_cOf_add {n i : Nat} (h : i < n) : i + 1 ≤ cOf n i + 2048 := by
  unfold cOf; split
  · omega
  · rw [if_neg (by omega)]; omega

theorem covered_mOf {n i : Nat} (h : i ≤ n) : covered n (mOf n i) = cOf n i := by
  by_cases hin : i = n
  · subst hin; rw [mOf_self, covered_nbOf]; unfold cOf; split <;> simp_all
  · unfold covered mOf cOf
    rw [if_neg hin]
    by_cases h0 : i = 0
    · subst h0; simp
    · rw [if_neg (by omega), if_neg h0, if_neg hin]; omega

/-- a push happens at position `i` -/
theorem step_push {n i : Nat} (h : i < n) (hp : i % 2048 = 0 ∨ i + 1 = n) :
    mOf n (i + 1) = mOf n i + 1 ∧ cOf n (i + 1) = i + 1 ∧ covered n (mOf n i + 1) = i + 1 := by
  have hm : mOf n i = (i + 2047) / 2048 := by unfold mOf; rw [if_neg (by omega)]
  have hc : cOf n (i + 1) = i + 1 := by
    unfold cOf; rw [if_neg (by omega)]; split
    · omega
    · rcases hp with hp | hp
      · simp only [Nat.add_sub_cancel]; omega
      · omega
  refine ⟨?_, hc, ?_⟩
  · rw [hm]; unfold mOf nbOf
    by_cases he : i + 1 = n
    · rw [if_pos he, if_neg (by omega)]; omega
    · rw [if_neg he]; rcases hp with hp | hp <;> omega
  · rw [covered_succ, hm]
    rcases hp with hp | hp <;> omega

/-- no push at position `i` -/
theorem step_nopush {n i : Nat} (h : i < n) (hp : ¬ (i % 2048 = 0 ∨ i + 1 = n)) :
    mOf n (i + 1) = mOf n i ∧ cOf n (i + 1) = cOf n i := by
  have h1 : i % 2048 ≠ 0 := fun e => hp (Or.inl e)
  have h2 : i + 1 ≠ n := fun e => hp (Or.inr e)
  constructor
  · unfold mOf; rw [if_neg h2, if_neg (by omega)]; omega
  · unfold cOf; rw [if_neg (by omega), if_neg h2, if_neg (by omega), if_neg (by omega)]
    simp only [Nat.add_sub_cancel]; omega

/-- a position `p ≤ n` of a non-empty level is inside the sample vectors -/
theorem block_in_range {n p : Nat} (hn : 0 < n) (hp : p ≤ n) : p / 2048 + 1 ≤ nbOf n := by
  unfold nbOf; rw [if_neg (by omega)]; omega

theorem covered_block_le (n p : Nat) : covered n (p / 2048 + 1) ≤ p + 1 := by
  rw [covered_succ]; omega

/-! ### the flag arithmetic -/

theorem flag_succ {c r : Nat} (h : c ≤ r) :
    decide (c / 2048 < (r + 1) / 2048) = (decide (c / 2048 < r / 2048) || ((r + 1) % 2048 == 0)) := by
  by_cases h1 : c / 2048 < r / 2048
  · have : c / 2048 < (r + 1) / 2048 := by omega
    simp [h1, this]
  · by_cases h2 : (r + 1) % 2048 = 0
    · have : c / 2048 < (r + 1) / 2048 := by omega
      simp [h1, h2, this]
    · have : ¬ c / 2048 < (r + 1) / 2048 := by omega
      simp [h1, h2, this]

theorem flag_add {a b : Nat} (h1 : a ≤ b) (h2 : b ≤ a + 2048) :
    a / 2048 + (if decide (a / 2048 < b / 2048) = true then 1 else 0) = b / 2048 := by
  by_cases h : a / 2048 < b / 2048
  · simp only [h, decide_true, if_true]; omega
  · simp only [h, decide_false, Bool.false_eq_true, if_false]; omega

/-! ### rank on lists -/

theorem rank_append_le {α} [BEq α] (c : α) (l : List α) (x : α) {j : Nat} (h : j ≤ l.length) :
    Spec.rank c j (l ++ [x]) = Spec.rank c j l := by
  unfold Spec.rank; rw [List.take_append_of_le_length h]

theorem rank_append_last (l : List Bool) (b : Bool) :
    Spec.rank true (l.length + 1) (l ++ [b]) =
      Spec.rank true l.length l + (if b = true then 1 else 0) := by
  unfold Spec.rank
  rw [List.take_of_length_le (by simp), List.take_of_length_le (Nat.le_refl _), List.count_append]
  cases b <;> simp

end Qwt.PfsP
