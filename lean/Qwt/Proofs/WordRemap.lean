import Qwt.Spec.Basic
import Qwt.Model.Utils

/-! Helper lemmas for C17: `text_remap`. -/
namespace Qwt.Proofs.Word
open Qwt Qwt.Utils

theorem mem_insertSorted (x y : Nat) (l : List Nat) : y ∈ insertSorted x l ↔ y = x ∨ y ∈ l := by
  induction l with
  | nil => simp [insertSorted]
  | cons z zs ih =>
    unfold insertSorted
    by_cases h1 : x < z
    · simp [h1]
    · by_cases h2 : x = z
      · subst h2; simp
      · simp only [h1, if_false, beq_iff_eq, h2, List.mem_cons, ih]
        constructor
        · rintro (h | h | h) <;> simp [h]
        · rintro (h | h | h) <;> simp [h]

theorem sorted_insertSorted (x : Nat) (l : List Nat) (h : l.Pairwise (· < ·)) :
    (insertSorted x l).Pairwise (· < ·) := by
  induction l with
  | nil => simp [insertSorted]
  | cons z zs ih =>
    rw [List.pairwise_cons] at h
    unfold insertSorted
    by_cases h1 : x < z
    · simp only [h1, if_true]
      rw [List.pairwise_cons]
      refine ⟨?_, List.pairwise_cons.2 h⟩
      intro a ha
      rcases List.mem_cons.1 ha with rfl | ha
      · exact h1
      · exact Nat.lt_trans h1 (h.1 a ha)
    · by_cases h2 : x = z
      · subst h2; simp only [Nat.lt_irrefl, if_false, beq_self_eq_true, if_true]
        exact List.pairwise_cons.2 h
      · simp only [h1, if_false, beq_iff_eq, h2]
        rw [List.pairwise_cons]
        refine ⟨?_, ih h.2⟩
        intro a ha
        rcases (mem_insertSorted x a zs).1 ha with rfl | ha
        · omega
        · exact h.1 a ha

/-- the sorted duplicate-free list of the values of `l` -/
def uniqOf (l : List Nat) : List Nat := l.foldl (fun acc c => insertSorted c acc) []

theorem foldl_insertSorted (l : List Nat) : ∀ (acc : List Nat), acc.Pairwise (· < ·) →
    (l.foldl (fun acc c => insertSorted c acc) acc).Pairwise (· < ·) ∧
    ∀ y, y ∈ l.foldl (fun acc c => insertSorted c acc) acc ↔ y ∈ l ∨ y ∈ acc := by
  induction l with
  | nil => intro acc h; simp [h]
  | cons a l ih =>
    intro acc h
    rw [List.foldl_cons]
    obtain ⟨h1, h2⟩ := ih (insertSorted a acc) (sorted_insertSorted a acc h)
    refine ⟨h1, ?_⟩
    intro y
    rw [h2, mem_insertSorted, List.mem_cons]
    constructor
    · rintro (h | h | h) <;> simp [h]
    · rintro ((h | h) | h) <;> simp [h]

theorem uniqOf_sorted (l : List Nat) : (uniqOf l).Pairwise (· < ·) :=
  (foldl_insertSorted l [] List.Pairwise.nil).1

theorem mem_uniqOf (l : List Nat) (y : Nat) : y ∈ uniqOf l ↔ y ∈ l := by
  rw [uniqOf, (foldl_insertSorted l [] List.Pairwise.nil).2]; simp

theorem uniqOf_nodup (l : List Nat) : (uniqOf l).Nodup := by
  rw [List.nodup_iff_pairwise_ne]
  exact (uniqOf_sorted l).imp (fun h => Nat.ne_of_lt h)

/-- on a strictly increasing list `takeWhile (· < c)` is `filter (· < c)` -/
theorem takeWhile_eq_filter (c : Nat) (u : List Nat) (h : u.Pairwise (· < ·)) :
    u.takeWhile (· < c) = u.filter (· < c) := by
  induction u with
  | nil => rfl
  | cons y ys ih =>
    rw [List.pairwise_cons] at h
    rw [List.takeWhile_cons, List.filter_cons]
    by_cases hy : y < c
    · simp only [hy, decide_true, if_true, ih h.2]
    · simp only [hy, decide_false, Bool.false_eq_true, if_false]
      symm
      rw [List.filter_eq_nil_iff]
      intro a ha
      have := h.1 a ha
      simp; omega

theorem textRemap_eq (input : Array Nat) :
    textRemap input =
      (input.map (fun c => ((uniqOf input.toList).filter (· < c)).length),
        (uniqOf input.toList).length) := by
  unfold textRemap uniqOf
  rw [Array.foldl_toList]
  simp only [Prod.mk.injEq, and_true]
  congr 1
  funext c
  have := takeWhile_eq_filter c _ (uniqOf_sorted input.toList)
  unfold uniqOf at this
  rw [Array.foldl_toList] at this
  rw [this]

/-- duplicate-free lists with the same elements have the same counts -/
theorem nodup_same (d u : List Nat) (hd : d.Nodup) (hu : u.Nodup) (hm : ∀ x, x ∈ d ↔ x ∈ u) :
    d.length = u.length ∧ ∀ p : Nat → Bool, (d.filter p).length = (u.filter p).length := by
  have hp : d.Perm u := (List.perm_ext_iff_of_nodup hd hu).2 hm
  exact ⟨hp.length_eq, fun p => (hp.filter p).length_eq⟩

theorem nodup_eraseDups : ∀ (n : Nat) (l : List Nat), l.length ≤ n → l.eraseDups.Nodup := by
  intro n
  induction n with
  | zero => intro l hl; have : l = [] := List.eq_nil_of_length_eq_zero (by omega)
            subst this; simp
  | succ n ih =>
    intro l hl
    cases l with
    | nil => simp
    | cons a as =>
      rw [List.eraseDups_cons, List.nodup_cons]
      constructor
      · rw [List.mem_eraseDups]; simp
      · apply ih
        have := List.length_filter_le (fun b => !b == a) as
        simp at hl
        omega

/-- rank among a strictly increasing list is strictly monotone on its elements -/
theorem rank_lt (u : List Nat) (c1 c2 : Nat) (h1 : c1 ∈ u) (h : c1 < c2) :
    (u.filter (· < c1)).length < (u.filter (· < c2)).length := by
  rw [← List.countP_eq_length_filter, ← List.countP_eq_length_filter]
  induction u with
  | nil => simp at h1
  | cons y ys ih =>
    rw [List.countP_cons, List.countP_cons]
    have hmono : List.countP (fun x => decide (x < c1)) ys ≤ List.countP (fun x => decide (x < c2)) ys :=
      List.countP_mono_left (fun x _ hx => by simp at hx ⊢; omega)
    rcases List.mem_cons.1 h1 with rfl | h1
    · simp [h]; omega
    · have := ih h1
      by_cases hy : y < c1
      · have : y < c2 := by omega
        simp [*]
      · simp only [hy, decide_false, Bool.false_eq_true, if_false]
        omega

theorem rank_lt_length (u : List Nat) (c : Nat) (h : c ∈ u) :
    (u.filter (· < c)).length < u.length := by
  induction u with
  | nil => simp at h
  | cons y ys ih =>
    rw [List.filter_cons]
    rcases List.mem_cons.1 h with rfl | h
    · simp; have := List.length_filter_le (fun x => decide (x < c)) ys; omega
    · have := ih h
      by_cases hy : y < c
      · simp only [hy, decide_true, if_true, List.length_cons]; omega
      · simp only [hy, decide_false, Bool.false_eq_true, if_false, List.length_cons]; omega

/-- the rank of the `v`-th element of a strictly increasing list is `v` -/
theorem rank_getElem (u : List Nat) (hs : u.Pairwise (· < ·)) : ∀ (v : Nat) (hv : v < u.length),
    (u.filter (· < u[v])).length = v := by
  induction u with
  | nil => intro v hv; simp at hv
  | cons y ys ih =>
    intro v hv
    rw [List.pairwise_cons] at hs
    cases v with
    | zero =>
      simp only [List.getElem_cons_zero, List.filter_cons, Nat.lt_irrefl, decide_false,
        Bool.false_eq_true, if_false]
      rw [List.length_eq_zero_iff, List.filter_eq_nil_iff]
      intro a ha
      have := hs.1 a ha
      simp; omega
    | succ v =>
      have hv' : v < ys.length := by simpa using hv
      have hy : y < ys[v] := hs.1 _ (List.getElem_mem hv')
      simp only [List.getElem_cons_succ, List.filter_cons, hy, decide_true, if_true,
        List.length_cons, ih hs.2 v hv']

end Qwt.Proofs.Word
