import Qwt.Proofs.RSBinHolds
import Qwt.Proofs.RSBinHints

/-! `RSWide` (rs_wide.rs): the representation invariant established by `RSWide::new`, and the
rank / select queries proved against it. -/
namespace Qwt.RSW
open Qwt Qwt.BV Qwt.RSBin Qwt.Extracted

/-- counter `j` of superblock `q`: ones in its first `j` lines -/
def cq (s : List Bool) (q j : Nat) : Nat := R s (512 * (8 * q + j)) - R s (4096 * q)

/-- the 128-bit metadata word of superblock `q` -/
def mdOf (s : List Bool) (q : Nat) : Nat := packN 12 (R s (4096 * q)) (cq s q) 7

theorem cq_lt (s : List Bool) (q j : Nat) (hj : j ≤ 7) : cq s q j < 4096 := by
  unfold cq
  have := rank_add_le true s (4096 * q) (512 * j)
  have e : 512 * (8 * q + j) = 4096 * q + 512 * j := by omega
  unfold R; rw [e]; omega

/-- counters beyond the seventh are never stored; any bound will do for them -/
def cq' (s : List Bool) (q j : Nat) : Nat := if j ≤ 7 then cq s q j else 0

theorem cq'_lt (s : List Bool) (q j : Nat) : cq' s q j < 2 ^ 12 := by
  unfold cq'; split
  · exact cq_lt s q j ‹_›
  · decide

theorem packN_congr (B A : Nat) (c c' : Nat → Nat) (r : Nat) (h : ∀ j, 1 ≤ j → j ≤ r → c j = c' j) :
    packN B A c r = packN B A c' r := by
  induction r with
  | zero => rfl
  | succ r ih =>
    simp only [packN]
    rw [ih (fun j h1 h2 => h j h1 (by omega)), h (r + 1) (by omega) (Nat.le_refl _)]

theorem packN_cq_lt (s : List Bool) (hl : s.length < 2 ^ 43) (q r : Nat) (hr : r ≤ 7) :
    packN 12 (R s (4096 * q)) (cq s q) r < 2 ^ (44 + 12 * r) := by
  rw [packN_congr 12 _ (cq s q) (cq' s q) r (by intro j h1 h2; simp [cq', show j ≤ 7 by omega])]
  apply packN_lt 12 _ _ 44 _ (cq'_lt s q)
  have h1 := rank_le true s (4096 * q)
  have h2 := rank_mono true s (i := 4096 * q) (j := 4096 * q + s.length) (by omega)
  have h3 := rank_of_ge true s (4096 * q + s.length) (by omega)
  have h4 := List.count_le_length (a := true) (l := s)
  unfold R
  have : (2:Nat) ^ 43 < 2 ^ 44 := by decide
  omega

theorem buildLine_eq (data : Array Nat) (st : BuildSt) (b : Nat) :
    buildLine data st b =
      let totalRank := if b % 8 = 0 then st.totalRank + st.wordPop else st.totalRank
      let wp0 := if b % 8 = 0 then 0 else st.wordPop
      let curMd := if b % 8 = 0 then st.totalRank + st.wordPop
                   else ((st.curMd <<< 12) % two128) ||| st.wordPop
      let ones := lineOnes data b
      let wordPop := wp0 + ones
      let c1 := (totalRank + wordPop) / wideOnesPerHint > st.hint1
      let zeros := st.zeros + (512 - ones)
      let c0 := zeros / wideZerosPerHint > st.hint0
      { sm := if (b + 1) % 8 = 0 then st.sm.push curMd else st.sm,
        totalRank, curMd, wordPop, zeros,
        s0 := if c0 then st.s0.push (b / 8) else st.s0,
        s1 := if c1 then st.s1.push (b / 8) else st.s1,
        hint0 := if c0 then st.hint0 + 1 else st.hint0,
        hint1 := if c1 then st.hint1 + 1 else st.hint1 } := by
  unfold buildLine
  by_cases h8 : b % 8 = 0 <;> by_cases h7 : (b + 1) % 8 = 0 <;>
    simp only [h8, h7, beq_self_eq_true, if_true, if_false] <;>
    split <;> split <;> simp_all [apply_ite Prod.fst, apply_ite Prod.snd]

/-- state of the construction loop after `n` lines -/
structure BInv (s : List Bool) (n : Nat) (st : BuildSt) : Prop where
  totalRank : st.totalRank = R s (4096 * ((n - 1) / 8))
  wordPop : st.wordPop = R s (512 * n) - R s (4096 * ((n - 1) / 8))
  curMd : st.curMd = packN 12 (R s (4096 * ((n - 1) / 8))) (cq s ((n - 1) / 8)) ((n - 1) % 8)
  smSize : st.sm.size = n / 8
  sm : ∀ q, q < n / 8 → st.sm.getD q 0 = mdOf s q
  zeros : st.zeros = Z s (512 * n)
  h1 : HintInv (fun m => C true s (512 * m)) wideOnesPerHint n st.s1 st.hint1
  h0 : HintInv (fun m => C false s (512 * m)) wideZerosPerHint n st.s0 st.hint0

theorem BInv.init (s : List Bool) : BInv s 0 {} where
  totalRank := by simp [R, rank_zero]
  wordPop := by simp
  curMd := by simp [packN, R, rank_zero]
  smSize := rfl
  sm := by intro q hq; omega
  zeros := by simp [Z]
  h1 := HintInv.init _ _ (C_zero _ _)
  h0 := HintInv.init _ _ (C_zero _ _)

theorem BInv.step {b : BitVector} {s : List Bool} (h : Holds b s) (hlen : s.length < 2 ^ 43)
    {n : Nat} {st : BuildSt} (hv : BInv s n st) (hn : n < nLines b) :
    BInv s (n + 1) (buildLine b.data st n) := by
  have hones := h.lineOnes_eq n hn
  have hle := h.lineOnes_le n hn
  have hmono : R s (4096 * ((n - 1) / 8)) ≤ R s (512 * n) := rank_mono true s (by omega)
  have hsum : st.totalRank + st.wordPop = R s (512 * n) := by
    rw [hv.totalRank, hv.wordPop]; omega
  rw [buildLine_eq]
  have e1 : (n + 1 - 1) = n := by omega
  -- the new absolute / relative counters
  have htr : (if n % 8 = 0 then st.totalRank + st.wordPop else st.totalRank) = R s (4096 * (n / 8)) := by
    by_cases h8 : n % 8 = 0
    · simp only [h8, if_true, hsum]; congr 1; omega
    · simp only [h8, if_false, hv.totalRank]; congr 2; omega
  have hmono2 : R s (4096 * (n / 8)) ≤ R s (512 * n) := rank_mono true s (by omega)
  have hwp : (if n % 8 = 0 then 0 else st.wordPop) + lineOnes b.data n
      = R s (512 * (n + 1)) - R s (4096 * (n / 8)) := by
    by_cases h8 : n % 8 = 0
    · simp only [h8, if_true]
      have : 4096 * (n / 8) = 512 * n := by omega
      rw [this]; omega
    · simp only [h8, if_false, hv.wordPop]
      have : (n - 1) / 8 = n / 8 := by omega
      rw [this]; omega
  have hmd : (if n % 8 = 0 then st.totalRank + st.wordPop
        else ((st.curMd <<< 12) % two128) ||| st.wordPop)
      = packN 12 (R s (4096 * (n / 8))) (cq s (n / 8)) (n % 8) := by
    by_cases h8 : n % 8 = 0
    · simp only [h8, if_true, hsum, packN]; congr 1; omega
    · simp only [h8, if_false]
      have eq : (n - 1) / 8 = n / 8 := by omega
      have er : n % 8 = (n - 1) % 8 + 1 := by omega
      rw [hv.curMd, hv.wordPop, eq, er, packN]
      have hlt := packN_cq_lt s hlen (n / 8) ((n - 1) % 8) (by omega)
      have hcq : R s (512 * n) - R s (4096 * (n / 8)) = cq s (n / 8) ((n - 1) % 8 + 1) := by
        unfold cq; congr 2; omega
      rw [hcq]
      have : two128 = 2 ^ 128 := by decide
      rw [this]
      apply pack_step 12 128
      · have hr : (n - 1) % 8 ≤ 6 := by omega
        have : packN 12 (R s (4096 * (n / 8))) (cq s (n / 8)) ((n - 1) % 8) < 2 ^ 116 := by
          apply Nat.lt_of_lt_of_le hlt
          apply Nat.pow_le_pow_right (by decide); omega
        have e : (2:Nat) ^ 128 = 2 ^ 116 * 2 ^ 12 := by decide
        rw [e]; exact Nat.mul_lt_mul_of_pos_right this (by decide)
      · exact cq_lt s _ _ (by omega)
  have hC1 : (if n % 8 = 0 then st.totalRank + st.wordPop else st.totalRank)
      + ((if n % 8 = 0 then 0 else st.wordPop) + lineOnes b.data n) = C true s (512 * (n + 1)) := by
    rw [htr, hwp]; simp only [C, if_true]
    have : R s (4096 * (n / 8)) ≤ R s (512 * (n + 1)) := rank_mono true s (by omega)
    omega
  have hZ : st.zeros + (512 - lineOnes b.data n) = C false s (512 * (n + 1)) := by
    rw [hv.zeros]; simp only [C, Bool.false_eq_true, if_false, Z]
    have := rank_le true s (512 * n)
    unfold R at *; omega
  refine ⟨?_, ?_, ?_, ?_, ?_, ?_, ?_, ?_⟩
  · simp only [e1]; exact htr
  · simp only [e1]; exact hwp
  · simp only [e1]; exact hmd
  · by_cases h7 : (n + 1) % 8 = 0
    · simp only [h7, if_true, Array.size_push, hv.smSize]; omega
    · simp only [h7, if_false, hv.smSize]; omega
  · intro q hq
    by_cases h7 : (n + 1) % 8 = 0
    · simp only [h7, if_true]
      by_cases hql : q < n / 8
      · rw [getD_push_lt _ _ _ (by rw [hv.smSize]; exact hql)]; exact hv.sm q hql
      · have : q = st.sm.size := by rw [hv.smSize]; omega
        rw [this, getD_push_eq, hmd, mdOf]
        have e2 : n / 8 = st.sm.size := by rw [hv.smSize]
        have e3 : n % 8 = 7 := by omega
        rw [e2, e3]
    · simp only [h7, if_false]
      exact hv.sm q (by omega)
  · simp only []; rw [hZ]; simp [C]
  · simp only []
    rw [hC1]
    exact hv.h1.step (by decide) (C_mono true s (by omega))
      (by have := C_add_le true s (512 * n) 512
          have e : 512 * (n + 1) = 512 * n + 512 := by omega
          have : 512 ≤ wideOnesPerHint := by decide
          rw [e]; omega)
  · simp only []
    rw [hZ]
    exact hv.h0.step (by decide) (C_mono false s (by omega))
      (by have := C_add_le false s (512 * n) 512
          have e : 512 * (n + 1) = 512 * n + 512 := by omega
          have : 512 ≤ wideZerosPerHint := by decide
          rw [e]; omega)

theorem BInv.fold {b : BitVector} {s : List Bool} (h : Holds b s) (hlen : s.length < 2 ^ 43) :
    ∀ n, n ≤ nLines b → BInv s n ((List.range n).foldl (buildLine b.data) {}) := by
  intro n
  induction n with
  | zero => intro _; exact BInv.init s
  | succ n ih =>
    intro hn
    rw [List.range_succ, List.foldl_append]
    exact (ih (by omega)).step h hlen (by omega)

/-- `RSWide::new` without the monad -/
def finalSm (bv : BitVector) (st : BuildSt) : Array Nat :=
  let sm := if nLines bv % 8 != 0 then
      st.sm.push ((List.range (8 - nLines bv % 8)).foldl (fun md _ => ((md <<< 12) % two128) ||| st.wordPop) st.curMd)
    else st.sm
  sm.push (((st.totalRank + st.wordPop) <<< (128 - 44)) % two128)

theorem new_eq (bv : BitVector) (h : (((List.range (nLines bv)).foldl (buildLine bv.data) {}).totalRank +
      ((List.range (nLines bv)).foldl (buildLine bv.data) {}).wordPop) % two64 ≤ bv.nBits) :
    new bv = .ok
      (let st := (List.range (nLines bv)).foldl (buildLine bv.data) {}
       { bv, superblockMetadata := finalSm bv st,
         selectSamples := #[st.s0.push ((finalSm bv st).size - 1), st.s1.push ((finalSm bv st).size - 1)],
         nZeros := bv.nBits - (st.totalRank + st.wordPop) % two64 }) := by
  unfold new
  simp only [sub, bind, Except.bind, pure, Except.pure]
  have h1 : 1 ≤ (finalSm bv ((List.range (nLines bv)).foldl (buildLine bv.data) {})).size := by
    simp [finalSm]
  unfold finalSm at h1 ⊢
  simp only [] at h1 ⊢
  rw [if_pos h1, if_pos h]

/-- the filler counters of a last, partial superblock repeat the running count -/
theorem filler_fold (s : List Bool) (hlen : s.length < 2 ^ 43) (q wp : Nat) :
    ∀ m r, r + m ≤ 7 → (∀ j, r < j → j ≤ r + m → cq s q j = wp) →
      (List.range m).foldl (fun md _ => ((md <<< 12) % two128) ||| wp) (packN 12 (R s (4096 * q)) (cq s q) r)
        = packN 12 (R s (4096 * q)) (cq s q) (r + m) := by
  intro m
  induction m with
  | zero => intro r _ _; rfl
  | succ m ih =>
    intro r hr hc
    rw [List.range_succ, List.foldl_append, ih r (by omega) (fun j h1 h2 => hc j h1 (by omega))]
    simp only [List.foldl_cons, List.foldl_nil]
    have hlt := packN_cq_lt s hlen q (r + m) (by omega)
    have e : r + (m + 1) = (r + m) + 1 := by omega
    rw [e, packN, ← hc (r + m + 1) (by omega) (by omega)]
    have : two128 = 2 ^ 128 := by decide
    rw [this]
    apply pack_step 12 128
    · have : packN 12 (R s (4096 * q)) (cq s q) (r + m) < 2 ^ 116 := by
        apply Nat.lt_of_lt_of_le hlt
        apply Nat.pow_le_pow_right (by decide); omega
      have e : (2:Nat) ^ 128 = 2 ^ 116 * 2 ^ 12 := by decide
      rw [e]; exact Nat.mul_lt_mul_of_pos_right this (by decide)
    · exact cq_lt s _ _ (by omega)

/-- selection step: ones / zeros per hint -/
def per (bit : Bool) : Nat := if bit then wideOnesPerHint else wideZerosPerHint

/-- number of superblocks -/
def nsb (b : BitVector) : Nat := (nLines b + 7) / 8

/-- the representation invariant of `RSWide` -/
structure Inv (r : RSWide) (s : List Bool) : Prop where
  holds : Holds r.bv s
  len : s.length < 2 ^ 43
  smSize : r.superblockMetadata.size = nsb r.bv + 1
  md : ∀ q, q < nsb r.bv → r.superblockMetadata.getD q 0 = mdOf s q
  last : r.superblockMetadata.getD (nsb r.bv) 0 = s.count true * 2 ^ 84
  nZeros : r.nZeros = s.count false
  ssize : r.selectSamples.size = 2
  samples : ∀ bit, ∃ smp hint,
    r.selectSamples.getD (if bit then 1 else 0) #[] = smp.push (nsb r.bv) ∧
    HintInv (fun m => C bit s (512 * m)) (per bit) (nLines r.bv) smp hint

theorem count_lt (s : List Bool) (hlen : s.length < 2 ^ 43) : s.count true < 2 ^ 43 :=
  Nat.lt_of_le_of_lt List.count_le_length hlen

theorem new_inv {b : BitVector} {s : List Bool} (h : Holds b s) (hlen : s.length < 2 ^ 43) :
    ∃ r, new b = .ok r ∧ r.bv = b ∧ Inv r s := by
  have hv := BInv.fold h hlen (nLines b) (Nat.le_refl _)
  generalize hst : (List.range (nLines b)).foldl (buildLine b.data) {} = st at hv
  have hll := h.len_le
  have hmono : R s (4096 * ((nLines b - 1) / 8)) ≤ R s (512 * nLines b) := rank_mono true s (by omega)
  have htot : st.totalRank + st.wordPop = s.count true := by
    rw [hv.totalRank, hv.wordPop, ← R_of_ge s (512 * nLines b) hll]; omega
  have hc := count_lt s hlen
  have hcl : s.count true ≤ s.length := List.count_le_length
  have h64 : s.count true % two64 = s.count true := Nat.mod_eq_of_lt (by
    have : (2:Nat) ^ 43 < two64 := by decide
    omega)
  have hne := new_eq b (by rw [hst, htot, h64, h.nBits]; exact hcl)
  rw [hst] at hne
  simp only [] at hne
  refine ⟨_, hne, rfl, ?_⟩
  -- the final metadata array
  have hfs : (finalSm b st).size = nsb b + 1 ∧ (∀ q, q < nsb b → (finalSm b st).getD q 0 = mdOf s q) ∧
      (finalSm b st).getD (nsb b) 0 = s.count true * 2 ^ 84 := by
    have hlast : ((st.totalRank + st.wordPop) <<< (128 - 44)) % two128 = s.count true * 2 ^ 84 := by
      rw [htot, Nat.shiftLeft_eq]
      apply Nat.mod_eq_of_lt
      have : two128 = 2 ^ 44 * 2 ^ 84 := by decide
      rw [this]
      apply Nat.mul_lt_mul_of_pos_right _ (by decide)
      have : (2:Nat) ^ 43 < 2 ^ 44 := by decide
      omega
    unfold finalSm
    simp only [hlast]
    by_cases h8 : nLines b % 8 = 0
    · have hn : (nLines b % 8 != 0) = false := by simp [h8]
      simp only [hn, Bool.false_eq_true, if_false]
      have e : nsb b = st.sm.size := by rw [hv.smSize]; unfold nsb; omega
      refine ⟨by simp [e], ?_, ?_⟩
      · intro q hq
        rw [getD_push_lt _ _ _ (by omega)]
        exact hv.sm q (by rw [← hv.smSize]; omega)
      · rw [e, getD_push_eq]
    · have hn : (nLines b % 8 != 0) = true := by simp [h8]
      simp only [hn, if_true]
      have e : nsb b = st.sm.size + 1 := by rw [hv.smSize]; unfold nsb; omega
      have hq8 : (nLines b - 1) / 8 = nLines b / 8 := by omega
      have hfill := filler_fold s hlen (nLines b / 8) st.wordPop (8 - nLines b % 8) ((nLines b - 1) % 8)
        (by omega) (by
          intro j hj1 hj2
          rw [hv.wordPop, hq8]
          unfold cq
          rw [R_of_ge s (512 * (8 * (nLines b / 8) + j)) (by omega), R_of_ge s (512 * nLines b) hll])
      rw [hv.curMd, hq8, hfill]
      have e7 : (nLines b - 1) % 8 + (8 - nLines b % 8) = 7 := by omega
      rw [e7]
      refine ⟨by simp [e], ?_, ?_⟩
      · intro q hq
        rw [getD_push_lt _ _ _ (by simp; omega)]
        by_cases hql : q < st.sm.size
        · rw [getD_push_lt _ _ _ hql]
          exact hv.sm q (by rw [← hv.smSize]; exact hql)
        · have : q = st.sm.size := by omega
          rw [this, getD_push_eq, mdOf, hv.smSize]
      · have : nsb b = (st.sm.push (packN 12 (R s (4096 * (nLines b / 8))) (cq s (nLines b / 8)) 7)).size := by
          simp [e]
        rw [this, getD_push_eq]
  obtain ⟨hsz, hmd, hlst⟩ := hfs
  have hsent : (finalSm b st).size - 1 = nsb b := by omega
  refine ⟨h, hlen, hsz, hmd, hlst, ?_, rfl, ?_⟩
  · show b.nBits - (st.totalRank + st.wordPop) % two64 = s.count false
    rw [htot, h64, h.nBits]
    have := count_false_add s; omega
  · intro bit
    cases bit
    · refine ⟨st.s0, st.hint0, ?_, hv.h0⟩
      simp [hsent, Array.getD]
    · refine ⟨st.s1, st.hint1, ?_, hv.h1⟩
      simp [hsent, Array.getD]


/-! ### rank -/

theorem mdOf_fields (s : List Bool) (q : Nat) :
    mdOf s q / 2 ^ 84 = R s (4096 * q) ∧
    ∀ j, 1 ≤ j → j ≤ 7 → mdOf s q / 2 ^ ((7 - j) * 12) % 4096 = cq s q j := by
  unfold mdOf
  rw [packN_congr 12 _ (cq s q) (cq' s q) 7 (by intro j h1 h2; simp [cq', h2])]
  have := packN12_fields (R s (4096 * q)) (cq' s q) (cq'_lt s q)
  refine ⟨this.1, ?_⟩
  intro j h1 h2
  rw [this.2 j h1 h2]; simp [cq', h2]

theorem linesPerSuper_eq : linesPerSuper = 8 := by decide

namespace Inv
variable {r : RSWide} {s : List Bool}

theorem R_lt (hv : Inv r s) (i : Nat) : R s i < 2 ^ 43 := by
  have h1 := rank_mono true s (i := i) (j := i + s.length) (by omega)
  have h3 := rank_of_ge true s (i + s.length) (by omega)
  have := count_lt s hv.len
  unfold R; omega

theorem nsb_ge (hv : Inv r s) : s.length ≤ 4096 * nsb r.bv := by
  have := hv.holds.len_le
  unfold nsb; omega

theorem superblockRank_eq (hv : Inv r s) (q : Nat) (hq : q ≤ nsb r.bv) :
    superblockRank r q = .ok (R s (4096 * q)) := by
  unfold superblockRank
  rw [idx_getD _ _ (by rw [hv.smSize]; omega)]
  simp only [bind, Except.bind, pure, Except.pure]
  have hlt : R s (4096 * q) < two64 := by
    have := hv.R_lt (4096 * q)
    have : (2:Nat) ^ 43 < two64 := by decide
    omega
  rw [Nat.shiftRight_eq_div_pow]
  by_cases hql : q < nsb r.bv
  · rw [hv.md q hql, show 128 - 44 = 84 by rfl, (mdOf_fields s q).1, Nat.mod_eq_of_lt hlt]
  · have : q = nsb r.bv := by omega
    subst this
    rw [hv.last, show 128 - 44 = 84 by rfl, Nat.mul_div_cancel _ (by decide : 0 < 2 ^ 84)]
    have := R_of_ge s (4096 * nsb r.bv) hv.nsb_ge
    rw [← this, Nat.mod_eq_of_lt hlt]

theorem subBlockRank_eq (hv : Inv r s) (sb : Nat) (hsb : sb < 8 * nsb r.bv) :
    subBlockRank r sb = .ok (R s (512 * sb)) := by
  unfold subBlockRank
  simp only [linesPerSuper_eq]
  rw [hv.superblockRank_eq (sb / 8) (by omega)]
  simp only [bind, Except.bind, pure, Except.pure]
  by_cases h0 : sb % 8 = 0
  · have : (sb % 8 != 0) = false := by simp [h0]
    simp only [this, Bool.false_eq_true, if_false]
    congr 2; omega
  · have : (sb % 8 != 0) = true := by simp [h0]
    simp only [this, if_true]
    rw [idx_getD _ _ (by rw [hv.smSize]; omega)]
    simp only []
    rw [hv.md _ (by omega), Nat.shiftRight_eq_div_pow, show (0xFFF : Nat) = 2 ^ 12 - 1 by decide,
      Nat.and_two_pow_sub_one_eq_mod, show (2:Nat) ^ 12 = 4096 by decide,
      (mdOf_fields s (sb / 8)).2 (sb % 8) (by omega) (by omega)]
    have hc := cq_lt s (sb / 8) (sb % 8) (by omega)
    rw [Nat.mod_eq_of_lt (by have : (4096:Nat) < two64 := by decide
                             omega)]
    unfold cq
    have e : 8 * (sb / 8) + sb % 8 = sb := by omega
    rw [e]
    have := rank_mono true s (i := 4096 * (sb / 8)) (j := 512 * sb) (by omega)
    unfold R at *
    congr 1; omega

theorem rank1Unchecked_eq (hv : Inv r s) (i : Nat) (hi : i ≤ s.length) :
    rank1Unchecked r i = .ok (Spec.rank true i s) := by
  unfold rank1Unchecked
  by_cases h0 : i = 0
  · subst h0; simp [rank_zero]; rfl
  · have hb : (i == 0) = false := by simp [h0]
    simp only [hb, Bool.false_eq_true, if_false]
    have hll := hv.holds.len_le
    have e9 : (i - 1) >>> 9 = (i - 1) / 512 := by rw [Nat.shiftRight_eq_div_pow]
    have e511 : (i - 1) &&& 511 = (i - 1) % 512 := Nat.and_two_pow_sub_one_eq_mod (i - 1) 9
    have hline : (i - 1) / 512 < nLines r.bv := by omega
    rw [e9, e511, hv.subBlockRank_eq _ (by unfold nsb; omega)]
    simp only [bind, Except.bind, pure, Except.pure]
    have : ¬ ((i - 1) / 512 ≥ nLines r.bv) := by omega
    simp only [this, if_false]
    rw [hv.holds.lineRank1Checked_eq _ hline _ (by omega)]
    simp only [unwrap]
    have e : 512 * ((i - 1) / 512) + ((i - 1) % 512 + 1) = i := by omega
    rw [e]
    have := rank_mono true s (i := 512 * ((i - 1) / 512)) (j := i) (by omega)
    unfold R at *
    congr 1; omega

theorem rank1_eq (hv : Inv r s) (i : Nat) :
    rank1 r i = .ok (if s ≠ [] ∧ i ≤ s.length then some (Spec.rank true i s) else none) := by
  unfold rank1 isEmpty
  rw [hv.holds.nBits]
  by_cases hs : s = []
  · subst hs; simp; rfl
  · have hpos : s.length ≠ 0 := by simpa using hs
    by_cases hi : i ≤ s.length
    · have : (s.length == 0 || decide (i > s.length)) = false := by simp [hpos]; omega
      simp only [this, Bool.false_eq_true, if_false, hv.rank1Unchecked_eq i hi]
      simp [hs, hi]; rfl
    · have : (s.length == 0 || decide (i > s.length)) = true := by simp; omega
      simp only [this, if_true]
      simp [hi]; rfl

theorem rank0_eq (hv : Inv r s) (i : Nat) :
    rank0 r i = .ok (if s ≠ [] ∧ i ≤ s.length then some (Spec.rank false i s) else none) := by
  unfold rank0
  rw [hv.rank1_eq i]
  by_cases hc : s ≠ [] ∧ i ≤ s.length
  · simp only [if_pos hc]
    have := rank_false_add s i hc.2
    have hle := rank_le true s i
    simp only [bind, Except.bind, sub]
    rw [if_pos hle]
    show Except.ok (some _) = Except.ok (some _)
    congr 2; omega
  · simp only [hc, if_false, bind, Except.bind]; rfl

theorem nOnes_eq (hv : Inv r s) : nOnes r = .ok (s.count true) := by
  unfold nOnes sub
  rw [hv.nZeros, hv.holds.nBits]
  have := count_false_add s
  rw [if_pos (by omega)]; congr 1; omega

theorem get_eq (hv : Inv r s) (i : Nat) : get r i = .ok s[i]? := hv.holds.get_eq i

theorem getUnchecked_eq (hv : Inv r s) (i : Nat) (hi : i < s.length) :
    getUnchecked r i = .ok (s.getD i false) := hv.holds.getUnchecked_eq i hi

end Inv


/-! ### select -/

namespace Inv
variable {r : RSWide} {s : List Bool}

theorem ok_bind {α β : Type} (a : α) (f : α → M β) : (Except.ok a : M α) >>= f = f a := rfl

theorem groupVal_bind {β : Type} (bit : Bool) (q : Nat) (F : Nat → M β) :
    (if bit = true then (pure (R s (4096 * q)) : M Nat) >>= F
      else sub (wideSuperblockSize * 64 * q) (R s (4096 * q)) >>= F) = F (C bit s (4096 * q)) := by
  cases bit
  · simp only [Bool.false_eq_true, if_false, sub, C, Z]
    have := rank_le true s (4096 * q)
    have e : wideSuperblockSize * 64 * q = 4096 * q := by
      rw [show wideSuperblockSize * 64 = 4096 by decide]
    rw [e, if_pos this]; rfl
  · simp only [if_true, C]; rfl

theorem subVal_bind {β : Type} (bit : Bool) (l : Nat) (F : Nat → M β) :
    (if bit = true then (pure (R s (512 * l)) : M Nat) >>= F
      else sub (wideBlockSize * 64 * l) (R s (512 * l)) >>= F) = F (C bit s (512 * l)) := by
  cases bit
  · simp only [Bool.false_eq_true, if_false, sub, C, Z]
    have := rank_le true s (512 * l)
    have e : wideBlockSize * 64 * l = 512 * l := by
      rw [show wideBlockSize * 64 = 512 by decide]
    rw [e, if_pos this]; rfl
  · simp only [if_true, C]; rfl

theorem hintLoop_eq (hv : Inv r s) (bit : Bool) (k tgt hintEnd : Nat) (ht : tgt ≤ hintEnd)
    (hend : tgt ≤ nsb r.bv)
    (hbelow : ∀ q, q < tgt → C bit s (4096 * q) ≤ k) (habove : tgt < hintEnd → k < C bit s (4096 * tgt)) :
    ∀ f hs, hs ≤ tgt → tgt - hs ≤ f → hintLoop r bit k hintEnd f hs = .ok tgt := by
  intro f
  induction f with
  | zero =>
    intro hs h1 h2
    have : hs = tgt := by omega
    subst this; rfl
  | succ f ih =>
    intro hs h1 h2
    unfold hintLoop
    by_cases hlt : hs < hintEnd
    · simp only [hlt, if_true]
      rw [hv.superblockRank_eq hs (by omega), ok_bind, groupVal_bind]
      by_cases hgt : C bit s (4096 * hs) > k
      · simp only [hgt, if_true]
        have : hs = tgt := by
          apply Nat.le_antisymm h1
          apply Nat.le_of_not_lt
          intro hlt'
          have := hbelow hs hlt'
          omega
        subst this; rfl
      · simp only [hgt, if_false]
        have hne : hs ≠ tgt := by
          intro e; subst e
          have := habove hlt; omega
        exact ih (hs + 1) (by omega) (by omega)
    · simp only [hlt, if_false]
      have : hs = tgt := by omega
      subst this; rfl

theorem subLoop_eq (hv : Inv r s) (bit : Bool) (k q : Nat) (hq : q < nsb r.bv)
    (h1 : C bit s (4096 * q) ≤ k) (h2 : k < C bit s (4096 * (q + 1))) :
    ∀ f j, j + f = 8 → j ≤ 7 → (1 ≤ j → C bit s (512 * (8 * q + j - 1)) ≤ k) →
      ∃ l, subLoop r bit k (8 * q) f j = .ok l ∧ 8 * q ≤ l ∧ l < 8 * q + 8 ∧
        C bit s (512 * l) ≤ k ∧ k < C bit s (512 * (l + 1)) := by
  intro f
  induction f with
  | zero => intro j h _ _; omega
  | succ f ih =>
    intro j hjf hj7 hprev
    unfold subLoop
    rw [hv.subBlockRank_eq (8 * q + j) (by omega), ok_bind]
    simp only []
    rw [subVal_bind]
    by_cases hgt : C bit s (512 * (8 * q + j)) > k
    · simp only [hgt, if_true]
      have hj0 : j ≠ 0 := by
        intro e; subst e
        have : 512 * (8 * q + 0) = 4096 * q := by omega
        rw [this] at hgt; omega
      have hsub : sub j 1 = .ok (j - 1) := by simp only [sub]; rw [if_pos (by omega)]
      rw [hsub, ok_bind]
      refine ⟨8 * q + (j - 1), rfl, by omega, by omega, ?_, ?_⟩
      · have := hprev (by omega)
        have e : 8 * q + j - 1 = 8 * q + (j - 1) := by omega
        rwa [e] at this
      · have e : 8 * q + (j - 1) + 1 = 8 * q + j := by omega
        rw [e]; exact hgt
    · simp only [hgt, if_false]
      by_cases h7 : j = 7
      · subst h7
        simp only [beq_self_eq_true, if_true]
        refine ⟨8 * q + 7, rfl, by omega, by omega, by omega, ?_⟩
        have e : 512 * (8 * q + 7 + 1) = 4096 * (q + 1) := by omega
        rw [e]; exact h2
      · have : (j == 7) = false := by simp [h7]
        simp only [this, Bool.false_eq_true, if_false]
        exact ih (j + 1) (by omega) (by omega) (by
          intro _
          have e : 8 * q + (j + 1) - 1 = 8 * q + j := by omega
          rw [e]; omega)

theorem per_pos (bit : Bool) : 0 < per bit := by cases bit <;> decide

theorem selectSubblock_eq (hv : Inv r s) (bit : Bool) (k : Nat) (hk : k < s.count bit) :
    ∃ l, selectSubblock r bit k = .ok (l, C bit s (512 * l)) ∧ l < nLines r.bv ∧
      C bit s (512 * l) ≤ k ∧ k < C bit s (512 * (l + 1)) := by
  have hll := hv.holds.len_le
  have hge := hv.nsb_ge
  -- the superblock holding the occurrence
  have hkN : k < C bit s (4096 * nsb r.bv) := by
    have := C_mono bit s hge
    rw [C_length] at this; omega
  obtain ⟨g, hg, hg1, hg2⟩ := exists_step (fun q => C bit s (4096 * q)) k (nsb r.bv)
    (by simp [C_zero]) hkN
  have hg1 : C bit s (4096 * g) ≤ k := hg1
  have hg2 : k < C bit s (4096 * (g + 1)) := hg2
  obtain ⟨smp, hint, hsmp, hh⟩ := hv.samples bit
  have hk512 : k < C bit s (512 * nLines r.bv) := by
    have := C_mono bit s hll
    rw [C_length] at this; omega
  have hbr := hh.bracket (per_pos bit) (fun {i j} hij => C_mono bit s (by omega)) k hk512 (nsb r.bv) g
    (by show C bit s (512 * (8 * g)) ≤ k; rw [show 512 * (8 * g) = 4096 * g by omega]; exact hg1)
    (by show k < C bit s (512 * (8 * (g + 1))); rw [show 512 * (8 * (g + 1)) = 4096 * (g + 1) by omega]; exact hg2)
    (by omega)
  obtain ⟨hb1, hb2, hb3⟩ := hbr
  generalize hA : smp.push (nsb r.bv) = A at *
  unfold selectSubblock
  have hidx : idx r.selectSamples (if bit then 1 else 0) = .ok A := by
    rw [idx_getD' _ _ #[] (by rw [hv.ssize]; cases bit <;> decide), hsmp]
  have hper : (if bit then wideOnesPerHint else wideZerosPerHint) = per bit := rfl
  simp only [hper]
  rw [hidx, ok_bind, idx_getD _ _ (by omega), ok_bind, idx_getD _ _ hb1, ok_bind]
  rw [hv.hintLoop_eq bit k (g + 1) (1 + A.getD (k / per bit + 1) 0) (by omega) (by omega)
    (fun q hq => Nat.le_trans (C_mono bit s (by omega)) hg1) (fun _ => hg2) _ _ (by omega) (by omega), ok_bind]
  have hsub : sub (g + 1) 1 = .ok g := by simp [sub]
  rw [hsub, ok_bind]
  obtain ⟨l, hl, hl1, hl2, hl3, hl4⟩ := hv.subLoop_eq bit k g hg hg1 hg2 8 0 (by omega) (by omega) (by omega)
  simp only [linesPerSuper_eq]
  rw [Nat.mul_comm g 8, hl, ok_bind]
  have hlN : l < nLines r.bv := by
    apply Nat.lt_of_not_le
    intro hcon
    have := C_mono bit s (i := s.length) (j := 512 * l) (by omega)
    rw [C_length] at this; omega
  refine ⟨l, ?_, hlN, hl3, hl4⟩
  rw [hv.subBlockRank_eq l (by omega), ok_bind, subVal_bind]; rfl

theorem selectUnchecked_eq (hsel : SelSpec) (hv : Inv r s) (bit : Bool) (k : Nat) (hk : k < s.count bit) :
    ∃ pos, selectUnchecked r bit k = .ok pos ∧ Spec.select bit k s = some pos := by
  obtain ⟨l, hl, hlN, hl1, hl2⟩ := hv.selectSubblock_eq bit k hk
  obtain ⟨p, hp, hp512, hpb, hpc⟩ := hv.holds.lineSelect_eq hsel bit l hlN (k - C bit s (512 * l)) (by omega)
  refine ⟨l * 512 + p, ?_, ?_⟩
  · unfold selectUnchecked
    rw [hl, ok_bind]
    have : ¬ (l ≥ nLines r.bv) := by omega
    simp only [this, if_false]
    have hsub : sub k (C bit s (512 * l)) = .ok (k - C bit s (512 * l)) := by
      simp only [sub]; rw [if_pos hl1]
    rw [hsub, ok_bind, hp, ok_bind]; rfl
  · apply select_of_C bit s k _ hk
    · rw [Nat.mul_comm l 512]; exact hpb
    · rw [Nat.mul_comm l 512, hpc]; omega

theorem select1_eq (hsel : SelSpec) (hv : Inv r s) (k : Nat) : select1 r k = .ok (Spec.select true k s) := by
  unfold select1
  rw [hv.nOnes_eq]
  simp only [bind, Except.bind]
  by_cases hk : k ≥ s.count true
  · simp only [hk, if_true, select_eq_none_of_ge true s k hk]; rfl
  · simp only [hk, if_false]
    obtain ⟨pos, h1, h2⟩ := hv.selectUnchecked_eq hsel true k (by omega)
    rw [h1, h2]; rfl

theorem select0_eq (hsel : SelSpec) (hv : Inv r s) (k : Nat) : select0 r k = .ok (Spec.select false k s) := by
  unfold select0
  rw [hv.nZeros]
  by_cases hk : k ≥ s.count false
  · simp only [hk, if_true, select_eq_none_of_ge false s k hk]; rfl
  · simp only [hk, if_false]
    obtain ⟨pos, h1, h2⟩ := hv.selectUnchecked_eq hsel false k (by omega)
    simp only [bind, Except.bind]
    rw [h1, h2]; rfl

end Inv

end Qwt.RSW
