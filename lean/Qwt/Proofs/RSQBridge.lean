import Qwt.Proofs.QVector
import Qwt.Proofs.RSQHolds

/-! Bridge from the C13 invariant (`QV.Inv`, `QV.abs`) to the word-level predicate `QV.Holds`
used by the C05 proofs, and `Holds` for the result of pushing a digit list. -/
namespace Qwt.RSQP
open Qwt

theorem testBit1_sym (a b : Bool) : (2 * a.toNat + b.toNat).testBit 1 = a := by
  cases a <;> cases b <;> decide

theorem testBit0_sym (a b : Bool) : (2 * a.toNat + b.toNat).testBit 0 = b := by
  cases a <;> cases b <;> decide

theorem holds_of_inv {q : QV.QVector} (h : QV.Inv q) : QV.Holds q (QV.abs q) := by
  have hlen := QV.length_abs q
  have hev := h.even
  refine ⟨?_, ?_, ?_, ?_, ?_⟩
  · rw [hlen]; exact h.size
  · rw [hlen]; omega
  · intro w _
    have := h.word w
    unfold QV.wd at this
    rw [Array.getD_eq_getD_getElem?]; exact this
  · intro l p _ hp
    rw [← QV.symAt_eq_getD h]
    unfold QV.symAt
    rw [testBit1_sym]
    unfold QV.hbit QV.wd
    rw [Array.getD_eq_getD_getElem?, show (256 * l + p) / 256 = l by omega,
      show (256 * l + p) % 256 = p by omega, show (256 * l + p) % 128 = p % 128 by omega]
  · intro l p _ hp
    rw [← QV.symAt_eq_getD h]
    unfold QV.symAt
    rw [testBit0_sym]
    unfold QV.lbit QV.wd
    rw [Array.getD_eq_getD_getElem?, show (256 * l + p) / 256 = l by omega,
      show (256 * l + p) % 256 = p by omega, show (256 * l + p) % 128 = p % 128 by omega,
      show 4 * l + 2 + p / 128 = 4 * l + p / 128 + 2 by omega]

theorem pushes_ok (digits : List Nat) : ∀ (b : QV.QVector), QV.Inv b →
    b.position + 2 * digits.length < two64 →
    ∃ q, digits.foldlM (fun (b : QV.QVectorBuilder) d => QV.push b d) b = .ok q ∧ QV.Inv q ∧
      QV.abs q = QV.abs b ++ digits.map (· % 4) := by
  induction digits with
  | nil => intro b h _; exact ⟨b, rfl, h, by simp⟩
  | cons d ds ih =>
    intro b h hn
    simp only [List.length_cons] at hn
    obtain ⟨b', e1, i1, a1⟩ := QV.push_ok b d h (by omega)
    have p1 : b'.position = b.position + 2 := by
      rw [QV.push_eq b _ h (by omega)] at e1
      cases e1; rfl
    obtain ⟨q, e2, i2, a2⟩ := ih b' i1 (by omega)
    refine ⟨q, ?_, i2, ?_⟩
    · rw [List.foldlM_cons, e1]; exact e2
    · rw [a2, a1]; simp

/-- the digit vector built by the level constructor satisfies `Holds` -/
theorem holds_of_pushes (digits : List Nat) (hd : ∀ d ∈ digits, d < 4)
    (hn : 2 * digits.length < two64) :
    ∃ q, digits.foldlM (fun (b : QV.QVectorBuilder) d => QV.push b d) {} = .ok q ∧
      QV.Holds q digits := by
  obtain ⟨q, e, i, a⟩ := pushes_ok digits {} QV.empty_inv.1 (by simpa using hn)
  refine ⟨q, e, ?_⟩
  have : QV.abs q = digits := by
    rw [a, QV.empty_inv.2, List.nil_append]
    conv => rhs; rw [← List.map_id digits]
    apply List.map_congr_left
    intro d hd'
    have := hd d hd'
    simp only [id]; omega
  rw [← this]
  exact holds_of_inv i

end Qwt.RSQP
