import Qwt.Spec.Basic
import Qwt.Model.Utils
import Qwt.Proofs.WordPopc

/-! Helper lemmas for C17: byte decomposition of words, bit lists, select on appended lists. -/
namespace Qwt.Proofs.Word
open Qwt Qwt.Utils

/-- little-endian value of eight base-256 digits -/
def W8 (b0 b1 b2 b3 b4 b5 b6 b7 : Nat) : Nat :=
  b0 + 256 * (b1 + 256 * (b2 + 256 * (b3 + 256 * (b4 + 256 * (b5 + 256 * (b6 + 256 * b7))))))

theorem and_split (a m A M : Nat) (ha : a < 256) (hm : m < 256) :
    (a + 256 * A) &&& (m + 256 * M) = (a &&& m) + 256 * (A &&& M) := by
  have h1 := @Nat.and_mod_two_pow (a + 256 * A) (m + 256 * M) 8
  have h2 := @Nat.and_div_two_pow (a + 256 * A) (m + 256 * M) 8
  have e1 : (a + 256 * A) % 2 ^ 8 = a := by omega
  have e2 : (m + 256 * M) % 2 ^ 8 = m := by omega
  have e3 : (a + 256 * A) / 2 ^ 8 = A := by omega
  have e4 : (m + 256 * M) / 2 ^ 8 = M := by omega
  rw [e1, e2] at h1
  rw [e3, e4] at h2
  omega

theorem and8 {a0 a1 a2 a3 a4 a5 a6 a7 m0 m1 m2 m3 m4 m5 m6 m7 : Nat}
    (h0 : a0 < 256) (h1 : a1 < 256) (h2 : a2 < 256) (h3 : a3 < 256) (h4 : a4 < 256)
    (h5 : a5 < 256) (h6 : a6 < 256) (_h7 : a7 < 256)
    (g0 : m0 < 256) (g1 : m1 < 256) (g2 : m2 < 256) (g3 : m3 < 256) (g4 : m4 < 256)
    (g5 : m5 < 256) (g6 : m6 < 256) (_g7 : m7 < 256) :
    W8 a0 a1 a2 a3 a4 a5 a6 a7 &&& W8 m0 m1 m2 m3 m4 m5 m6 m7 =
      W8 (a0 &&& m0) (a1 &&& m1) (a2 &&& m2) (a3 &&& m3) (a4 &&& m4) (a5 &&& m5) (a6 &&& m6)
        (a7 &&& m7) := by
  unfold W8
  rw [and_split _ _ _ _ h0 g0, and_split _ _ _ _ h1 g1, and_split _ _ _ _ h2 g2,
    and_split _ _ _ _ h3 g3, and_split _ _ _ _ h4 g4, and_split _ _ _ _ h5 g5,
    and_split _ _ _ _ h6 g6]

/-- every 64-bit word is eight bytes -/
theorem exists_W8 (w : Nat) (hw : w < 2 ^ 64) :
    ∃ b0 b1 b2 b3 b4 b5 b6 b7, b0 < 256 ∧ b1 < 256 ∧ b2 < 256 ∧ b3 < 256 ∧ b4 < 256 ∧ b5 < 256 ∧
      b6 < 256 ∧ b7 < 256 ∧ w = W8 b0 b1 b2 b3 b4 b5 b6 b7 := by
  refine ⟨w % 256, w / 256 % 256, w / 65536 % 256, w / 16777216 % 256, w / 4294967296 % 256,
    w / 1099511627776 % 256, w / 281474976710656 % 256, w / 72057594037927936, ?_⟩
  unfold W8
  omega

/-! ### bit lists -/

theorem bitsOf_length (n : Nat) : ∀ w, (Spec.bitsOf w n).length = n := by
  induction n with
  | zero => intro w; rfl
  | succ n ih => intro w; simp [Spec.bitsOf, ih]

theorem bitsOf_append (k n : Nat) : ∀ (a w : Nat), a < 2 ^ k →
    Spec.bitsOf (a + 2 ^ k * w) (k + n) = Spec.bitsOf a k ++ Spec.bitsOf w n := by
  induction k with
  | zero => intro a w ha; have : a = 0 := by simpa using ha
            subst this; simp [Spec.bitsOf]
  | succ k ih =>
    intro a w ha
    have e : k + 1 + n = (k + n) + 1 := by omega
    rw [e, Spec.bitsOf, Spec.bitsOf]
    have ha2 : a / 2 < 2 ^ k := by rw [Nat.pow_succ] at ha; omega
    have hz : 2 ^ (k + 1) * w = 2 * (2 ^ k * w) := by
      rw [Nat.pow_succ, Nat.mul_comm (2 ^ k) 2, Nat.mul_assoc]
    rw [hz]
    have e1 : (a + 2 * (2 ^ k * w)) / 2 = a / 2 + 2 ^ k * w := by omega
    have e2 : (a + 2 * (2 ^ k * w)) % 2 = a % 2 := by omega
    rw [e1, e2, ih _ _ ha2]
    rfl

/-! ### select on appended lists -/

theorem select_append [BEq α] (c : α) (l1 : List α) : ∀ (k : Nat) (l2 : List α),
    Spec.select c k (l1 ++ l2) =
      if k < l1.count c then Spec.select c k l1
      else (Spec.select c (k - l1.count c) l2).map (· + l1.length) := by
  induction l1 with
  | nil => intro k l2; simp
  | cons x l1 ih =>
    intro k l2
    have hm : ∀ (o : Option Nat) (n : Nat), Option.map (· + 1) (Option.map (· + n) o) =
        Option.map (· + (n + 1)) o := by
      intro o n; cases o <;> simp; omega
    by_cases hx : (x == c) = true
    · cases k with
      | zero => simp [Spec.select, hx, List.count_cons]
      | succ k =>
        simp only [List.cons_append, Spec.select, hx, if_true, ih, List.count_cons,
          List.length_cons]
        by_cases hk : k < List.count c l1
        · simp [hk]
        · simp only [hk, if_false, hm]
          have : ¬ (k + 1 < List.count c l1 + 1) := by omega
          simp only [this, if_false]
          have : k + 1 - (List.count c l1 + 1) = k - List.count c l1 := by omega
          rw [this]
    · simp only [List.cons_append, Spec.select, hx, ih, List.count_cons, List.length_cons]
      by_cases hk : k < List.count c l1
      · simp [hk]
      · simp [hk, hm]


theorem select_none [BEq α] (c : α) (l : List α) : ∀ k, l.count c ≤ k → Spec.select c k l = none := by
  induction l with
  | nil => intro k _; rfl
  | cons x l ih =>
    intro k hk
    rw [List.count_cons] at hk
    by_cases hx : (x == c) = true
    · simp only [hx, if_true] at hk
      cases k with
      | zero => omega
      | succ k => simp [Spec.select, hx, ih k (by omega)]
    · simp only [hx] at hk
      simp [Spec.select, hx, ih k (by simpa using hk)]

theorem select_some [BEq α] (c : α) (l : List α) : ∀ k, k < l.count c →
    ∃ p, Spec.select c k l = some p ∧ p < l.length := by
  induction l with
  | nil => intro k hk; simp at hk
  | cons x l ih =>
    intro k hk
    rw [List.count_cons] at hk
    by_cases hx : (x == c) = true
    · simp only [hx, if_true] at hk
      cases k with
      | zero => exact ⟨0, by simp [Spec.select, hx], by simp⟩
      | succ k =>
        obtain ⟨p, hp, hlt⟩ := ih k (by omega)
        exact ⟨p + 1, by simp [Spec.select, hx, hp], by simp; omega⟩
    · simp only [hx] at hk
      obtain ⟨p, hp, hlt⟩ := ih k (by simpa using hk)
      exact ⟨p + 1, by simp [Spec.select, hx, hp], by simp; omega⟩

/-- the bits of a word are the bits of its bytes -/
theorem bitsOf_W8 {b0 b1 b2 b3 b4 b5 b6 b7 : Nat}
    (h0 : b0 < 256) (h1 : b1 < 256) (h2 : b2 < 256) (h3 : b3 < 256) (h4 : b4 < 256)
    (h5 : b5 < 256) (h6 : b6 < 256) (_h7 : b7 < 256) :
    Spec.bitsOf (W8 b0 b1 b2 b3 b4 b5 b6 b7) 64 =
      Spec.bitsOf b0 8 ++ (Spec.bitsOf b1 8 ++ (Spec.bitsOf b2 8 ++ (Spec.bitsOf b3 8 ++
        (Spec.bitsOf b4 8 ++ (Spec.bitsOf b5 8 ++ (Spec.bitsOf b6 8 ++ Spec.bitsOf b7 8)))))) := by
  unfold W8
  rw [bitsOf_append 8 56 b0 _ h0, bitsOf_append 8 48 b1 _ h1, bitsOf_append 8 40 b2 _ h2,
    bitsOf_append 8 32 b3 _ h3, bitsOf_append 8 24 b4 _ h4, bitsOf_append 8 16 b5 _ h5,
    bitsOf_append 8 8 b6 _ h6]

end Qwt.Proofs.Word
