import Qwt.Proofs.BinWMSpec

/-!
Pure list-level binary wavelet matrix (property C03): levels as lists, the position
mapping, the block invariant, and the correctness of the three walks (`rank`, `get`,
`select`) against `Spec.rank` / `Spec.select`.  Generic in the element type and in the
family `β k` of bit functions.  Core Lean only.
-/
set_option linter.unusedSimpArgs false

namespace Qwt.BinWM
open Qwt

variable {α : Type}

/-- stable partition by a boolean key: the `false` elements first -/
def part (p : α → Bool) (l : List α) : List α := l.filter (fun x => !p x) ++ l.filter p

/-- the sequence stored (as bits `β k`) at level `k` -/
def lvl (β : Nat → α → Bool) : Nat → List α → List α
  | 0, S => S
  | k + 1, S => part (β k) (lvl β k S)

/-- the bit list of level `k` -/
def bitsAt (β : Nat → α → Bool) (k : Nat) (S : List α) : List Bool := (lvl β k S).map (β k)

/-- where position `j` of a level with bits `bs` goes in the next level when following bit `v` -/
def mapPos (v : Bool) (bs : List Bool) (j : Nat) : Nat :=
  if v then bs.count false + Spec.rank true j bs else Spec.rank false j bs

/-- `x` agrees with `c` on the bits of levels `< k` -/
def agree (β : Nat → α → Bool) (c : α) (k : Nat) (x : α) : Bool :=
  (List.range k).all (fun j => β j x == β j c)

/-- start of the block of `c` at level `k` -/
def blkStart (β : Nat → α → Bool) (c : α) (S : List α) : Nat → Nat
  | 0 => 0
  | k + 1 => mapPos (β k c) (bitsAt β k S) (blkStart β c S k)

theorem part_length (p : α → Bool) (l : List α) : (part p l).length = l.length := by
  unfold part
  rw [List.length_append, ← List.countP_eq_length_filter, ← List.countP_eq_length_filter]
  have := List.length_eq_countP_add_countP p (l := l)
  have e : (fun x => !p x) = (fun a => decide ¬p a = true) := by
    funext a; cases p a <;> rfl
  rw [e]; omega

theorem lvl_length (β : Nat → α → Bool) (k : Nat) (S : List α) : (lvl β k S).length = S.length := by
  induction k with
  | zero => rfl
  | succ k ih => rw [lvl, part_length, ih]

theorem bitsAt_length (β : Nat → α → Bool) (k : Nat) (S : List α) :
    (bitsAt β k S).length = S.length := by
  rw [bitsAt, List.length_map, lvl_length]

theorem agree_zero (β : Nat → α → Bool) (c x : α) : agree β c 0 x = true := by simp [agree]

theorem agree_succ (β : Nat → α → Bool) (c : α) (k : Nat) (x : α) :
    agree β c (k + 1) x = (agree β c k x && (β k x == β k c)) := by
  simp [agree, List.range_succ, List.all_append]

theorem agree_self (β : Nat → α → Bool) (c : α) (k : Nat) : agree β c k c = true := by
  simp [agree]

theorem agree_of_le (β : Nat → α → Bool) (c x : α) {j k : Nat} (h : j ≤ k)
    (hk : agree β c k x = true) : agree β c j x = true := by
  simp only [agree, List.all_eq_true, List.mem_range] at hk ⊢
  intro i hi; exact hk i (by omega)

theorem agree_bit (β : Nat → α → Bool) (c x : α) {j k : Nat} (h : j < k)
    (hk : agree β c k x = true) : β j x = β j c := by
  simp only [agree, List.all_eq_true, List.mem_range] at hk
  simpa using hk j h

/-! ## one level -/

/-- position mapping as `countP`s -/
theorem mapPos_map (p : α → Bool) (v : Bool) (l : List α) (j : Nat) :
    mapPos v (l.map p) j =
      (if v then l.countP (fun x => !p x) else 0) + (l.take j).countP (fun x => p x == v) := by
  unfold mapPos
  cases v
  · simp [rank_map]
  · simp [rank_map, count_map]

/-- block step: a block `B` of `l` is sent to the sub-block of its `v`-elements -/
theorem part_block (p : α → Bool) (v : Bool) (A B C : List α) :
    ∃ A' C', part p (A ++ B ++ C) = A' ++ B.filter (fun x => p x == v) ++ C' ∧
      A'.length = mapPos v ((A ++ B ++ C).map p) A.length := by
  rw [mapPos_map]
  have ht : (A ++ B ++ C).take A.length = A := by simp [List.append_assoc]
  rw [ht]
  cases v
  · refine ⟨A.filter (fun x => !p x), C.filter (fun x => !p x) ++ (A ++ B ++ C).filter p, ?_, ?_⟩
    · simp [part, List.filter_append, List.append_assoc]
    · simp [List.countP_eq_length_filter]
  · refine ⟨(A ++ B ++ C).filter (fun x => !p x) ++ A.filter p, C.filter p, ?_, ?_⟩
    · simp [part, List.filter_append, List.append_assoc]
    · have e : (fun y => p y == true) = p := by funext y; cases p y <;> rfl
      simp only [e, List.countP_eq_length_filter, List.filter_append, List.length_append, if_true]

/-- position step inside a block -/
theorem mapPos_block (p : α → Bool) (v : Bool) (A B C : List α) (j : Nat) (hj : j ≤ B.length) :
    mapPos v ((A ++ B ++ C).map p) (A.length + j) =
      mapPos v ((A ++ B ++ C).map p) A.length + (B.take j).countP (fun x => p x == v) := by
  rw [mapPos_map, mapPos_map]
  have ht : (A ++ B ++ C).take A.length = A := by simp [List.append_assoc]
  have ht2 : (A ++ B ++ C).take (A.length + j) = A ++ B.take j := by
    rw [List.append_assoc, List.take_length_add_append, List.take_append_of_le_length hj]
  rw [ht, ht2, List.countP_append (l₁ := A) (l₂ := B.take j)]; omega

/-- the element at position `j` of `l` is at position `mapPos (p x) _ j` of `part p l` -/
theorem part_getElem (p : α → Bool) (l : List α) (j : Nat) (x : α) (h : l[j]? = some x) :
    (part p l)[mapPos (p x) (l.map p) j]? = some x := by
  rw [mapPos_map]
  unfold part
  cases hv : p x
  · have hq : (fun y => !p y) x = true := by simp [hv]
    have := filter_getElem (fun y => !p y) j l x h hq
    simp only [Bool.false_eq_true, if_false, Nat.zero_add]
    have e : (fun y => p y == false) = (fun y => !p y) := by funext y; cases p y <;> rfl
    rw [e, List.getElem?_append_left]
    · exact this
    · have := (List.getElem?_eq_some_iff.mp this).1; exact this
  · have := filter_getElem p j l x h hv
    simp only [if_true]
    have e : (fun y => p y == true) = p := by funext y; cases p y <;> rfl
    rw [e, List.getElem?_append_right (by simp [List.countP_eq_length_filter])]
    simpa [List.countP_eq_length_filter] using this

/-! ## the block invariant -/

theorem filter_agree_succ (β : Nat → α → Bool) (c : α) (k : Nat) (l : List α) :
    (l.filter (agree β c k)).filter (fun x => β k x == β k c) = l.filter (agree β c (k + 1)) := by
  rw [List.filter_filter]
  congr 1; funext x; rw [agree_succ, Bool.and_comm]

/-- after `k` levels the elements agreeing with `c` on the `k` top bits form a contiguous
    block of level `k`, in their original order, starting at `blkStart k` -/
theorem blk (β : Nat → α → Bool) (c : α) (S : List α) (k : Nat) :
    ∃ A C, lvl β k S = A ++ S.filter (agree β c k) ++ C ∧ A.length = blkStart β c S k := by
  induction k with
  | zero =>
    refine ⟨[], [], ?_, rfl⟩
    have : agree β c 0 = fun _ => true := by funext x; exact agree_zero β c x
    rw [this]
    simp only [lvl, List.nil_append, List.append_nil]
    exact (List.filter_eq_self.mpr (by simp)).symm
  | succ k ih =>
    obtain ⟨A, C, h1, h2⟩ := ih
    obtain ⟨A', C', h3, h4⟩ := part_block (β k) (β k c) A (S.filter (agree β c k)) C
    refine ⟨A', C', ?_, ?_⟩
    · rw [lvl, h1, h3, filter_agree_succ]
    · rw [h4, blkStart, bitsAt, h1, h2]

/-- number of elements of `S[0..i)` agreeing with `c` on `k` bits -/
def cnt (β : Nat → α → Bool) (c : α) (S : List α) (k i : Nat) : Nat :=
  (S.take i).countP (agree β c k)

theorem cnt_le (β : Nat → α → Bool) (c : α) (S : List α) (k i : Nat) :
    cnt β c S k i ≤ (S.filter (agree β c k)).length := by
  unfold cnt
  rw [← List.countP_eq_length_filter]
  exact (List.take_sublist i S).countP_le

/-- the tracked position stays inside the level -/
theorem blkStart_cnt_le (β : Nat → α → Bool) (c : α) (S : List α) (k i : Nat) :
    blkStart β c S k + cnt β c S k i ≤ S.length := by
  obtain ⟨A, C, h1, h2⟩ := blk β c S k
  have := congrArg List.length h1
  rw [lvl_length] at this
  simp only [List.length_append] at this
  have := cnt_le β c S k i
  omega

/-- the rank walk: position `blkStart k + cnt k i` is mapped to `blkStart (k+1) + cnt (k+1) i` -/
theorem walk_step (β : Nat → α → Bool) (c : α) (S : List α) (k i : Nat) :
    mapPos (β k c) (bitsAt β k S) (blkStart β c S k + cnt β c S k i) =
      blkStart β c S (k + 1) + cnt β c S (k + 1) i := by
  obtain ⟨A, C, h1, h2⟩ := blk β c S k
  rw [blkStart, bitsAt, h1, ← h2, mapPos_block _ _ _ _ _ _ (cnt_le β c S k i)]
  congr 1
  unfold cnt
  rw [filter_take, List.countP_filter]
  congr 1; funext x; rw [agree_succ, Bool.and_comm]

theorem cnt_zero (β : Nat → α → Bool) (c : α) (S : List α) (i : Nat) (hi : i ≤ S.length) :
    cnt β c S 0 i = i := by
  have : agree β c 0 = fun _ => true := by funext x; exact agree_zero β c x
  simp [cnt, this, hi]

end Qwt.BinWM
