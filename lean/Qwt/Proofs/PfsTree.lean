import Qwt.Proofs.QWT
import Qwt.Proofs.PfsBuild
import Qwt.Proofs.RSQBridge

/-!
The quad wavelet tree with prefetch support (`c.pfs = true`).

`Qwt/Proofs/QWT.lean` proves the construction under `PfsTotal c`, which quantifies over *all*
quad vectors and is therefore not satisfiable for `c.pfs = true` (`PFS.new` faults on an
ill-formed vector).  Here the construction lemmas are re-proved without that hypothesis: the
sampling structure is built from the vector produced by the push loop, which satisfies the C13
invariant, so `PfsP.new_ok` applies.  The invariant `PfsLevels` records `PfsRep` for every level;
estimation phase 1 of `rank_prefetch` is then shown never to fault.
-/
set_option linter.unusedSimpArgs false
set_option linter.unusedVariables false

namespace Qwt.QWTree
open Qwt Qwt.WM Qwt.Spec Qwt.RSQ Qwt.PfsP

/-- the sampling structures of `f` levels starting at `level` describe the wavelet-matrix
    levels of `s` (same indexing as `RepLevels`) -/
def PfsLevels (pfs : Array PFS.PrefetchSupport) : Nat → Nat → List Nat → Prop
  | _, 0, _ => True
  | level, f + 1, s =>
    (∃ p, pfs[level]? = some p ∧ PfsRep (s.map (dig (2 * f))) p) ∧
      PfsLevels pfs (level + 1) f (stablePart (dig (2 * f)) 4 s)

/-- the satisfiable form of `PfsTotal`: totality on the vectors that satisfy the C13 invariant -/
def PfsTotal' (c : Cfg) : Prop :=
  c.pfs = true → ∀ qv, QV.Inv qv → QV.len qv < 2 ^ 43 →
    ∃ p, PFS.new qv Extracted.pfsSampleShift = .ok p

theorem pfsTotal' (c : Cfg) : PfsTotal' c := by
  intro _ qv hq hl
  rw [QV.len_ok] at hl
  obtain ⟨p, hp, _⟩ := PfsP.new_ok qv hq (by
    have : two64 = 2 ^ 64 := by decide
    omega)
  exact ⟨p, hp⟩

theorem levelStep_ok' (c : Cfg) (hLaw : LevelLaw c.dbg c.B) (st : LevelSt)
    (hsh : st.shift < c.W) (hlen : st.seq.size < 2 ^ 43) :
    ∃ r pf, levelStep c st = .ok
        { seq := (stablePart (dig st.shift) 4 st.seq.toList).toArray,
          shift := if st.shift ≥ 2 then st.shift - 2 else st.shift,
          qvs := st.qvs.push r, pfs := pf } ∧
      Represents c.B r (st.seq.toList.map (dig st.shift)) ∧ (c.pfs = false → pf = st.pfs) ∧
      (c.pfs = true → ∃ pp, pf = st.pfs.push pp ∧ PfsRep (st.seq.toList.map (dig st.shift)) pp) := by
  have hdig : ∀ d ∈ st.seq.toList.map (dig st.shift), d < 4 := by
    intro d hd; obtain ⟨x, _, rfl⟩ := List.mem_map.mp hd; exact dig_lt _ _
  obtain ⟨r, hr, hR⟩ := hLaw (st.seq.toList.map (dig st.shift)) hdig
    (by simpa [Extracted.rsqLenLimitLog] using hlen)
  obtain ⟨qvb, hq, hfrom⟩ := mkLevel_inv hr
  have hfold : st.seq.foldlM (fun (b : QV.QVectorBuilder) symbol => do
      let tb ← twoBits c symbol st.shift
      QV.push b tb) {} = .ok qvb := by
    rw [← Array.foldlM_toList, ← hq, List.foldlM_map]
    congr 1
    funext b symbol
    rw [twoBits_ok c symbol _ hsh, ok_bind]
  have hpart := stablePartitionOf4_ok c.W st.shift st.seq.toList hsh
  rw [Array.toArray_toList] at hpart
  by_cases hp : c.pfs = true
  · -- the vector built by the push loop satisfies the C13 invariant
    have h64 : two64 = 2 ^ 64 := by decide
    have hll : (st.seq.toList.map (dig st.shift)).length = st.seq.size := by simp
    obtain ⟨q, e, hinv, habs⟩ := RSQP.pushes_ok (st.seq.toList.map (dig st.shift)) {}
      QV.empty_inv.1 (by
        show 0 + 2 * _ < two64
        rw [hll]; omega)
    rw [hq] at e
    cases e
    have habs' : QV.abs qvb = st.seq.toList.map (dig st.shift) := by
      rw [habs, QV.empty_inv.2, List.nil_append]
      conv => rhs; rw [← List.map_id (st.seq.toList.map (dig st.shift))]
      apply List.map_congr_left
      intro d hd
      have := hdig d hd
      simp only [id]; omega
    obtain ⟨pp, hpp, hrep⟩ := PfsP.new_ok (QV.build qvb) hinv (by
      show (QV.abs qvb).length + 1 < two64
      rw [habs', hll]; omega)
    have hrep' : PfsRep (st.seq.toList.map (dig st.shift)) pp := by
      rw [← habs']; exact hrep
    refine ⟨r, st.pfs.push pp, ?_, hR, (fun h => by rw [h] at hp; cases hp),
      fun _ => ⟨pp, rfl, hrep'⟩⟩
    simp only [levelStep, withCapacity_ok _ hlen, hfold, hp, hpp, hfrom, hpart,
      ok_bind, if_true, pure_eq_ok]
  · refine ⟨r, st.pfs, ?_, hR, fun _ => rfl, fun h => absurd h hp⟩
    simp only [levelStep, withCapacity_ok _ hlen, hfold, hp, hfrom, hpart, ok_bind, if_false,
      pure_eq_ok]
    rfl

theorem pfsLevels_mono {pfs pfs' : Array PFS.PrefetchSupport} :
    ∀ (f level : Nat) (s : List Nat),
      (∀ j, level ≤ j → j < level + f → pfs'[j]? = pfs[j]?) →
      PfsLevels pfs level f s → PfsLevels pfs' level f s := by
  intro f
  induction f with
  | zero => intro _ _ _ _; trivial
  | succ f ih =>
    intro level s hsame h
    obtain ⟨⟨p, hp, hP⟩, hrest⟩ := h
    refine ⟨⟨p, ?_, hP⟩, ih (level + 1) _ (fun j h1 h2 => hsame j (by omega) (by omega)) hrest⟩
    rw [hsame level (Nat.le_refl _) (by omega)]; exact hp

theorem levels_fold' (c : Cfg) (hLaw : LevelLaw c.dbg c.B) :
    ∀ (l : List Nat) (f : Nat) (st : LevelSt) (s : List Nat),
      l.length = f → st.seq = s.toArray → (f = 0 ∨ st.shift = 2 * (f - 1)) → 2 * f < c.W + 2 →
      s.length < 2 ^ 43 →
      ∃ st', l.foldlM (fun st _ => levelStep c st) st = .ok st' ∧
        st'.qvs.size = st.qvs.size + f ∧ (∀ j, j < st.qvs.size → st'.qvs[j]? = st.qvs[j]?) ∧
        RepLevels c.B st'.qvs st.qvs.size f s ∧
        (c.pfs = true → st'.pfs.size = st.pfs.size + f ∧
          (∀ j, j < st.pfs.size → st'.pfs[j]? = st.pfs[j]?) ∧
          PfsLevels st'.pfs st.pfs.size f s) := by
  intro l
  induction l with
  | nil =>
    intro f st s hf _ _ _ _
    subst hf
    exact ⟨st, rfl, rfl, fun _ _ => rfl, trivial, fun _ => ⟨rfl, fun _ _ => rfl, trivial⟩⟩
  | cons a l ih =>
    intro f st s hf hseq hsh hW hlen
    obtain ⟨f', rfl⟩ : ∃ f', f = f' + 1 := ⟨l.length, by simp at hf; omega⟩
    have hsh' : st.shift = 2 * f' := by omega
    have hsz : st.seq.size = s.length := by rw [hseq]; simp
    obtain ⟨r, pf, hstep, hR, _, hpf⟩ := levelStep_ok' c hLaw st (by omega) (by omega)
    rw [hseq, List.toList_toArray, hsh'] at hstep hR hpf
    obtain ⟨st', h1, h2, h3, h4, h5⟩ := ih f'
      { seq := (stablePart (dig (2 * f')) 4 s).toArray,
        shift := if 2 * f' ≥ 2 then 2 * f' - 2 else 2 * f',
        qvs := st.qvs.push r, pfs := pf }
      (stablePart (dig (2 * f')) 4 s)
      (by simp at hf; omega) rfl
      (by
        by_cases h0 : f' = 0
        · exact Or.inl h0
        · right; show (if 2 * f' ≥ 2 then 2 * f' - 2 else 2 * f') = 2 * (f' - 1)
          rw [if_pos (by omega)]; omega)
      (by omega) (by rw [length_part]; exact hlen)
    simp only [Array.size_push] at h2 h3 h4
    refine ⟨st', ?_, by omega, ?_, ⟨⟨r, ?_, hR⟩, h4⟩, ?_⟩
    · rw [List.foldlM_cons, hstep, ok_bind]; exact h1
    · intro j hj
      rw [h3 j (by omega), Array.getElem?_push, if_neg (by omega)]
    · rw [h3 _ (by omega), Array.getElem?_push_size]
    · intro hp
      obtain ⟨pp, rfl, hrep⟩ := hpf hp
      obtain ⟨g1, g2, g3⟩ := h5 hp
      simp only [Array.size_push] at g1 g2 g3
      refine ⟨by omega, ?_, ⟨pp, ?_, hrep⟩, g3⟩
      · intro j hj
        rw [g2 j (by omega), Array.getElem?_push, if_neg (by omega)]
      · rw [g2 _ (by omega), Array.getElem?_push_size]

/-- the invariant of a tree built with prefetch support -/
structure WMP (c : Cfg) (S : List Nat) (t : QWT) : Prop where
  wm : WM c S t
  pfs : c.pfs = true → S ≠ [] → ∃ pfs, t.pfs = some pfs ∧ PfsLevels pfs 0 t.nLevels S

theorem new_wmp (c : Cfg) (hW : 0 < c.W) (S : List Nat) (hS : ∀ x ∈ S, x < 2 ^ c.W)
    (hlen : S.length < 2 ^ 43) (hLaw : LevelLaw c.dbg c.B) :
    ∃ t, new c S.toArray = .ok t ∧ WMP c S t := by
  by_cases hemp : S = []
  · subst hemp
    refine ⟨{ n := 0, nLevels := 0, sigma := 0, qvs := (#[dfltRSQ]), pfs := none }, ?_,
      ⟨⟨rfl, rfl, fun h => absurd rfl h, fun h => absurd rfl h, fun _ => rfl⟩,
        fun _ h => absurd rfl h⟩⟩
    simp [new, default_ok (levelLaw_B hLaw), bind, Except.bind, pure, Except.pure]
  · have hne : S.toArray.isEmpty = false := by
      cases S with
      | nil => exact absurd rfl hemp
      | cons a l => rfl
    have hsig : S.toArray.foldl max 0 = maxNat S := by rw [List.foldl_toArray]; rfl
    have hsl := maxNat_lt hS
    have hL := nLevelsOf_shift _ _ hsl hW
    have hL0 := nLevelsOf_pos (maxNat S)
    obtain ⟨st', h1, h2, _, h4, h5⟩ := levels_fold' c hLaw (List.range (nLevelsOf (maxNat S)))
      (nLevelsOf (maxNat S)) { seq := S.toArray, shift := 2 * (nLevelsOf (maxNat S) - 1) } S
      List.length_range rfl (Or.inr rfl) (by omega) hlen
    refine ⟨
      { n := S.length, nLevels := nLevelsOf (maxNat S), sigma := maxNat S, qvs := st'.qvs,
        pfs := if c.pfs then some st'.pfs else none }, ?_,
      ⟨⟨rfl, rfl, fun _ => rfl, fun _ => h4, fun h => by simp [h]⟩,
        fun hp _ => ⟨st'.pfs, by simp [hp], (h5 hp).2.2⟩⟩⟩
    have e : (Nat.log2 (maxNat S) + 1 + 1) / 2 = nLevelsOf (maxNat S) := rfl
    simp only [new, hne, Bool.false_eq_true, if_false, hsig, msb_ok _ _ hsl, ok_bind, e, h1,
      pure_eq_ok]
    rfl

/-! ### estimation phase 1 never faults -/

/-- `approx + offset` stays inside the next level -/
theorem approx_off_le (key : Nat → Nat) (d p : Nat) (s : List Nat) :
    approxSpec (s.map key) d p + Spec.occsSmaller id d (s.map key) ≤ s.length := by
  have h1 := approxSpec_le_rank (s.map key) d p
  have h2 := off_add_rank_le key d (covered (s.map key).length (p / rate + 1)) s
  omega

theorem phase1_go_ok (c : Cfg) (t : QWT) (sym : Nat) (pfs : Array PFS.PrefetchSupport) :
    ∀ (f level : Nat) (S' : List Nat) (s e : Nat),
      RepLevels c.B t.qvs level (f + 1) S' → PfsLevels pfs level (f + 1) S' → 2 * f < c.W →
      s ≤ e → e ≤ S'.length → 0 < S'.length →
      ∃ s' e', pfsPhase1.go c t sym pfs f level (2 * f) s e = .ok (s', e') ∧ s' ≤ e' := by
  intro f
  induction f with
  | zero => intro level S' s e _ _ _ hse _ _; exact ⟨s, e, rfl, hse⟩
  | succ f ih =>
    intro level S' s e h hp hW hse he hpos
    obtain ⟨⟨r, hr, hR⟩, hrest⟩ := h
    obtain ⟨⟨p, hpp, hP⟩, hprest⟩ := hp
    have hrest' := hrest
    obtain ⟨⟨r', hr', _⟩, _⟩ := hrest'
    have hd := dig_lt (2 * (f + 1)) sym
    have hlen : (S'.map (dig (2 * (f + 1)))).length = S'.length := List.length_map _
    have hs_in : s / rate + 1 ≤ nbOf (S'.map (dig (2 * (f + 1)))).length := by
      rw [hlen]; exact block_in_range hpos (by omega)
    have he_in : e / rate + 1 ≤ nbOf (S'.map (dig (2 * (f + 1)))).length := by
      rw [hlen]; exact block_in_range hpos he
    rw [pfsPhase1.go]
    simp only [twoBits_ok c sym _ hW, idx_ok hr, hR.occsSmallerU _ _ (Nat.le_of_lt_succ hd),
      idx_ok hpp, approx_ok hP hd hs_in, approx_ok hP hd he_in, idx_ok hr', ok_bind]
    rw [show 2 * (f + 1) - 2 = 2 * f by omega]
    have b1 := approx_off_le (dig (2 * (f + 1))) (dig (2 * (f + 1)) sym) e S'
    have b2 := approxSpec_mono (S'.map (dig (2 * (f + 1)))) (dig (2 * (f + 1)) sym) hse
    exact ih (level + 1) _ _ _ hrest hprest (by omega) (by omega) (by rw [length_part]; omega)
      (by rw [length_part]; exact hpos)

theorem pfsPhase1_ok (c : Cfg) (t : QWT) (sym i : Nat) (s : List Nat) (pfs : Array PFS.PrefetchSupport)
    (hpfs : t.pfs = some pfs) (hL : t.nLevels ≠ 0) (hrep : RepLevels c.B t.qvs 0 t.nLevels s)
    (hprep : PfsLevels pfs 0 t.nLevels s)
    (hW : 2 * (t.nLevels - 1) < c.W) (hi : i ≤ s.length) (hpos : 0 < s.length) :
    pfsPhase1 c t sym i = .ok () := by
  obtain ⟨f, hf⟩ : ∃ f, t.nLevels = f + 1 := ⟨t.nLevels - 1, by omega⟩
  rw [hf] at hrep hprep hW
  simp only [Nat.add_sub_cancel] at hW
  have hrep' := hrep
  obtain ⟨⟨r, hr, _⟩, _⟩ := hrep'
  obtain ⟨s', e', hgo, hle⟩ := phase1_go_ok c t sym pfs f 0 s 0 i hrep hprep hW (Nat.zero_le _) hi hpos
  unfold pfsPhase1
  cases hc : c.pfs
  · rfl
  · simp only [Bool.not_true, Bool.false_eq_true, if_false, hpfs, hf, sub_ok (Nat.le_add_left 1 f),
      Nat.add_sub_cancel, ok_bind, idx_ok hr, hgo, sub_ok hle]
    rfl

namespace WMP

variable {c : Cfg} {S : List Nat} {t : QWT}

theorem pfsPhase1_eq (h : WMP c S t) (hW : 0 < c.W) (hS : ∀ x ∈ S, x < 2 ^ c.W)
    (sym i : Nat) (hne : S ≠ []) (hi : i ≤ S.length) : pfsPhase1 c t sym i = .ok () := by
  cases hc : c.pfs
  · unfold pfsPhase1; rw [hc]; rfl
  · obtain ⟨pfs, hpfs, hlev⟩ := h.pfs hc hne
    exact pfsPhase1_ok c t sym i S pfs hpfs (h.wm.nLevels_ne hne) (h.wm.levels hne) hlev
      (h.wm.shift_lt hW hS hne) hi (List.length_pos_iff.mpr hne)

theorem rankPrefetch_eq (h : WMP c S t) (hW : 0 < c.W) (hS : ∀ x ∈ S, x < 2 ^ c.W)
    (sym i : Nat) : rankPrefetch c t sym i = rank c t sym i :=
  h.wm.rankPrefetch_eq_partial hW hS sym i (fun _ hne _ hi => h.pfsPhase1_eq hW hS sym i hne hi)

end WMP

end Qwt.QWTree
