import Qwt.Proofs.CraftDefs

/-! Digit arithmetic for C02: little-endian digit strings, `revLex`, and the accumulator
invariant of the fragment-reversal loop of `craft_wm_codes`. -/
namespace Qwt.Proofs.Craft
open Qwt Qwt.Huff Qwt.Props.C02

/-- the first `k` base-`D` digits of `v`, least significant first -/
def leDigits (D k v : Nat) : List Nat := (List.range k).map (fun t => v / D ^ t % D)

@[simp] theorem leDigits_length (D k v : Nat) : (leDigits D k v).length = k := by
  simp [leDigits]

theorem leDigits_succ (D k v : Nat) :
    leDigits D (k + 1) v = (v % D) :: leDigits D k (v / D) := by
  simp only [leDigits, List.range_succ_eq_map, List.map_cons, List.map_map, Nat.pow_zero,
    Nat.div_one]
  congr 1
  apply List.map_congr_left
  intro t _
  simp [Function.comp, Nat.pow_succ, Nat.div_div_eq_div_mul, Nat.mul_comm]

theorem revLex_leDigits (D : Nat) (k v : Nat) :
    revLex D (leDigits D k v) = v % D ^ k := by
  induction k generalizing v with
  | zero => simp [leDigits, revLex, Nat.mod_one]
  | succ k ih =>
    rw [leDigits_succ, revLex, ih, Nat.pow_succ, Nat.mul_comm (D ^ k) D, Nat.mod_mul]

theorem take_leDigits {D n k : Nat} (v : Nat) (h : n ≤ k) :
    (leDigits D k v).take n = leDigits D n v := by
  simp [leDigits, ← List.map_take, List.take_range, Nat.min_eq_left h]

theorem leDigits_eq_of_mod {D k : Nat} (v w : Nat) (h : v % D ^ k = w % D ^ k) :
    leDigits D k v = leDigits D k w := by
  induction k generalizing v w with
  | zero => simp [leDigits]
  | succ k ih =>
    rw [leDigits_succ, leDigits_succ]
    rw [Nat.pow_succ, Nat.mul_comm, Nat.mod_mul, Nat.mod_mul] at h
    by_cases hD : D = 0
    · subst hD; simp at h ⊢; simp [h] 
    have hD' : 0 < D := Nat.pos_of_ne_zero hD
    have h1 : v % D = w % D := by
      have := congrArg (· % D) h
      simpa [Nat.add_mul_mod_self_left, Nat.mod_mod] using this
    have h2 : v / D % D ^ k = w / D % D ^ k := by
      rw [h1] at h
      have := Nat.add_left_cancel h
      exact Nat.eq_of_mul_eq_mul_left hD' this
    rw [h1, ih _ _ h2]

/-- accumulator invariant of the fragment-reversal loop after `n` of `k` iterations -/
structure RevInv (D k n v acc : Nat) : Prop where
  dvd : D ^ (k - n) ∣ acc
  lt : acc < D ^ k
  dig : ∀ t, t < n → acc / D ^ (k - 1 - t) % D = v / D ^ t % D

theorem RevInv.zero {D k v : Nat} (hD : 0 < D) : RevInv D k 0 v 0 :=
  ⟨Nat.dvd_zero _, Nat.pow_pos hD, fun _ h => absurd h (Nat.not_lt_zero _)⟩

theorem rev_step_arith {D X A d n : Nat} (hD : 0 < D) (hX : 0 < X) (hd : d < D)
    (hAlt : A < D ^ n) :
    X ∣ A * (D * X) + d * X ∧ A * (D * X) + d * X < D ^ n * (D * X) ∧
    (A * (D * X) + d * X) / X % D = d ∧
    ∀ Y, (A * (D * X) + d * X) / (D * X * Y) = A * (D * X) / (D * X * Y) := by
  have hdx : 0 < D * X := Nat.mul_pos hD hX
  have hacc' : A * (D * X) + d * X = (A * D + d) * X := by
    rw [Nat.add_mul, Nat.mul_assoc]
  refine ⟨?_, ?_, ?_, ?_⟩
  · rw [hacc']; exact Nat.dvd_mul_left _ _
  · rw [hacc', ← Nat.mul_assoc]
    apply Nat.mul_lt_mul_of_pos_right _ hX
    calc A * D + d < A * D + D := by omega
      _ = (A + 1) * D := by rw [Nat.add_mul, Nat.one_mul]
      _ ≤ D ^ n * D := Nat.mul_le_mul_right _ hAlt
  · rw [hacc', Nat.mul_div_cancel _ hX, Nat.mul_comm A D, Nat.mul_add_mod]
    exact Nat.mod_eq_of_lt hd
  · intro Y
    rw [← Nat.div_div_eq_div_mul _ (D * X) Y, ← Nat.div_div_eq_div_mul _ (D * X) Y]
    congr 1
    rw [Nat.mul_div_cancel _ hdx, Nat.add_comm, Nat.add_mul_div_right _ _ hdx]
    have : d * X / (D * X) = 0 := Nat.div_eq_of_lt (Nat.mul_lt_mul_of_pos_right hd hX)
    omega

theorem RevInv.step {D k n v acc : Nat} (hD : 0 < D) (hn : n < k) (h : RevInv D k n v acc) :
    RevInv D k (n + 1) v (acc + (v / D ^ n % D) * D ^ (k - 1 - n)) := by
  obtain ⟨A, hA0⟩ := h.dvd
  have hkn : k - n = (k - 1 - n) + 1 := by omega
  have hX : 0 < D ^ (k - 1 - n) := Nat.pow_pos hD
  have hd : v / D ^ n % D < D := Nat.mod_lt _ hD
  have hk : D ^ k = D ^ n * (D * D ^ (k - 1 - n)) := by
    rw [Nat.mul_comm D, ← Nat.pow_succ, ← Nat.pow_add]; congr 1; omega
  have hk1 : k - (n + 1) = k - 1 - n := by omega
  have hA : acc = A * (D * D ^ (k - 1 - n)) := by
    rw [hA0, hkn, Nat.pow_succ, Nat.mul_comm, Nat.mul_comm D]
  have hkt : ∀ t, t < n → D ^ (k - 1 - t) = D * D ^ (k - 1 - n) * D ^ (n - 1 - t) := by
    intro t ht
    rw [Nat.mul_comm D, ← Nat.pow_succ, ← Nat.pow_add]; congr 1; omega
  have hAlt : A < D ^ n := by
    have hlt := h.lt
    rw [hA, hk] at hlt
    exact Nat.lt_of_mul_lt_mul_right hlt
  obtain ⟨a1, a2, a3, a4⟩ := rev_step_arith (A := A) hD hX hd hAlt
  refine ⟨?_, ?_, ?_⟩
  · rw [hk1, hA]; exact a1
  · rw [hA, hk]; exact a2
  · intro t ht
    by_cases htn : t = n
    · rw [htn, hA]; exact a3
    · have ht' : t < n := by omega
      rw [← h.dig t ht', hkt t ht', hA, a4]

theorem RevInv.digits_eq {D k v acc : Nat} (h : RevInv D k k v acc) :
    (List.range k).map (fun t => acc / D ^ (k - 1 - t) % D) = leDigits D k v := by
  apply List.map_congr_left
  intro t ht
  exact h.dig t (List.mem_range.mp ht)

end Qwt.Proofs.Craft
