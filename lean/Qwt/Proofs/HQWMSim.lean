import Qwt.Proofs.Interfaces
import Qwt.Proofs.HQWMValid
import Qwt.Proofs.BinHWMInv

/-!
Simulation for the Huffman-shaped quad wavelet matrix (`Qwt.Huff.HQWT`): the model loops, run
on levels representing (`RSQ.Represents`) the digit lists of the list-level Huffman quad
matrix, compute its walks.  Arity-4 mirror of `Qwt/Proofs/BinHWMSim.lean`.  Core Lean only.
-/
set_option linter.unusedSimpArgs false
set_option linter.unusedVariables false

namespace Qwt.HQWM
open Qwt Qwt.Huff
open Qwt.BinWM (ok_bind pure_bind' idx_ok sub_ok clen DecOK)

/-- the levels of the model represent the digit lists of the list-level Huffman matrix of `S` -/
structure LevelsQ (B : Nat) (codes : Array PrefixCode) (S : List Nat) (t : HQWT) : Prop where
  size_eq : t.qvs.size = t.nLevels
  lens_size : t.lens.size = t.nLevels
  repr : ∀ k (h : k < t.qvs.size),
    RSQ.Represents B t.qvs[k] (digsQ (qdig codes) (qlen codes) k S)
  lens_eq : ∀ k (h : k < t.lens.size), t.lens[k] = (lvlQ (qdig codes) (qlen codes) k S).length
  len_le : ∀ x ∈ S, qlen codes x ≤ t.nLevels

theorem and3 (x : Nat) : x &&& 3 = x % 4 := Nat.and_two_pow_sub_one_eq_mod x 2

/-- the two-bit fragment the model extracts at level `k` is digit `k` -/
theorem tb_eq (codes : Array PrefixCode) (c k : Nat) (sh : Int)
    (hsh : sh = (codes[c]!.len : Int) - 2 * ((k : Int) + 1)) (hk : 2 * (k + 1) ≤ codes[c]!.len) :
    (codes[c]!.content >>> sh.toNat) &&& 3 = qdig codes k c := by
  have : sh.toNat = codes[c]!.len - 2 * (k + 1) := by omega
  rw [this, and3]; rfl

theorem two_qlen {codes : Array PrefixCode} {c : Nat} (hev : 2 ∣ codes[c]!.len) :
    2 * qlen codes c = codes[c]!.len := by
  unfold qlen; omega

theorem digsQ_length (codes : Array PrefixCode) (k : Nat) (S : List Nat) :
    (digsQ (qdig codes) (qlen codes) k S).length = (lvlQ (qdig codes) (qlen codes) k S).length := by
  rw [digsQ, List.length_map]

/-! ## rank -/

theorem rankGo_ok {codes : Array PrefixCode} {S : List Nat} {t : HQWT} (cfg : Cfg)
    (h : QOK (qdig codes) (qlen codes) S) (hlv : LevelsQ cfg.B codes S t) {c : Nat} (hc : c ∈ S)
    (hev : 2 ∣ codes[c]!.len) (i : Nat) (f k : Nat) (sh : Int)
    (hfk : f + k = qlen codes c + 1) (hk : k ≤ qlen codes c)
    (hsh : sh = (codes[c]!.len : Int) - 2 * ((k : Int) + 1)) :
    rankUnchecked.go cfg t codes[c]! f k sh
        (blkStartQ (qdig codes) (qlen codes) c S k + cntR (qdig codes) (qlen codes) c S k i)
        (blkStartQ (qdig codes) (qlen codes) c S k) =
      .ok (blkStartQ (qdig codes) (qlen codes) c S (qlen codes c)
             + cntR (qdig codes) (qlen codes) c S (qlen codes c) i,
           blkStartQ (qdig codes) (qlen codes) c S (qlen codes c)) := by
  have h2q := two_qlen hev
  induction f generalizing k sh with
  | zero => omega
  | succ f ih =>
    rw [rankUnchecked.go]
    by_cases hk' : k < qlen codes c
    · have hs : sh ≥ 0 := by omega
      have hks : k < t.qvs.size := by
        rw [hlv.size_eq]; exact Nat.lt_of_lt_of_le hk' (hlv.len_le c hc)
      have hr := hlv.repr k hks
      have hd := qdig_lt codes k c
      have hi := blkStartQ_cnt_le h hc k hk' i
      have hp : blkStartQ (qdig codes) (qlen codes) c S k
          ≤ (digsQ (qdig codes) (qlen codes) k S).length := by omega
      rw [cntR_eq_cntP h hc hk']
      simp only [if_pos hs, tb_eq codes c k sh hsh (by omega), idx_ok _ _ hks, ok_bind,
        hr.occsSmallerU _ _ (Nat.le_of_lt_succ hd),
        hr.rankU _ _ _ (Nat.le_of_lt_succ hd) hp, hr.rankU _ _ _ (Nat.le_of_lt_succ hd) hi]
      have hw := walk_stepQ h hc k hk' i
      unfold nextPos at hw
      rw [hw]
      exact ih (k + 1) (sh - 2) (by omega) (by omega) (by omega)
    · have hke : k = qlen codes c := by omega
      have hs : ¬ sh ≥ 0 := by omega
      subst hke
      simp only [if_neg hs]
      rfl

/-! ## select -/

def pathOfQ (δ : Nat → Nat → Nat) (len : Nat → Nat) (c : Nat) (S : List Nat) :
    Nat → List (Nat × Nat)
  | 0 => []
  | k + 1 => (blkStartQ δ len c S k, Spec.rank (δ k c) (blkStartQ δ len c S k) (digsQ δ len k S))
      :: pathOfQ δ len c S k

theorem pathOfQ_length (δ : Nat → Nat → Nat) (len : Nat → Nat) (c : Nat) (S : List Nat) (k : Nat) :
    (pathOfQ δ len c S k).length = k := by
  induction k with
  | zero => rfl
  | succ k ih => simp [pathOfQ, ih]

theorem selectDownQ_ok {codes : Array PrefixCode} {S : List Nat} {t : HQWT} (cfg : Cfg)
    (h : QOK (qdig codes) (qlen codes) S) (hlv : LevelsQ cfg.B codes S t) {c : Nat} (hc : c ∈ S)
    (hev : 2 ∣ codes[c]!.len) (f k : Nat) (sh : Int)
    (hfk : f + k = qlen codes c + 1) (hk : k ≤ qlen codes c)
    (hsh : sh = (codes[c]!.len : Int) - 2 * ((k : Int) + 1)) :
    selectDown cfg t codes[c]! f k (blkStartQ (qdig codes) (qlen codes) c S k) sh
        (pathOfQ (qdig codes) (qlen codes) c S k) =
      .ok (some (pathOfQ (qdig codes) (qlen codes) c S (qlen codes c))) := by
  have h2q := two_qlen hev
  induction f generalizing k sh with
  | zero => omega
  | succ f ih =>
    rw [selectDown]
    by_cases hk' : k < qlen codes c
    · have hs : sh ≥ 0 := by omega
      have hks : k < t.qvs.size := by
        rw [hlv.size_eq]; exact Nat.lt_of_lt_of_le hk' (hlv.len_le c hc)
      have hr := hlv.repr k hks
      have hd := qdig_lt codes k c
      have hp : blkStartQ (qdig codes) (qlen codes) c S k
          ≤ (digsQ (qdig codes) (qlen codes) k S).length := by
        have := blkStartQ_cnt_le h hc k hk' 0; omega
      simp only [if_pos hs, tb_eq codes c k sh hsh (by omega), idx_ok _ _ hks, ok_bind, hr.rank,
        if_pos (show qdig codes k c ≤ 3 ∧ blkStartQ (qdig codes) (qlen codes) c S k
          ≤ (digsQ (qdig codes) (qlen codes) k S).length from ⟨Nat.le_of_lt_succ hd, hp⟩),
        hr.occsSmallerU _ _ (Nat.le_of_lt_succ hd)]
      exact ih (k + 1) (sh - 2) (by omega) (by omega) (by omega)
    · have hke : k = qlen codes c := by omega
      have hs : ¬ sh ≥ 0 := by omega
      subst hke
      simp only [if_neg hs]
      rfl

theorem two64_eq : two64 = 2 ^ 64 := by decide

theorem select_geQ {d : Nat} {ds : List Nat} {b res p : Nat}
    (h : Spec.select d (Spec.rank d b ds + res) ds = some p) : b ≤ p := by
  have h' := WM.select_rank_add_ge (α := Nat) id ds d b res p (by simpa using h)
  exact h'

theorem selectUpQ_ok {codes : Array PrefixCode} {S : List Nat} {t : HQWT} (cfg : Cfg)
    (hlv : LevelsQ cfg.B codes S t) (hS : S.length < two64) {c : Nat} (hc : c ∈ S)
    (hev : 2 ∣ codes[c]!.len) (k res : Nat) (hk : k ≤ qlen codes c) :
    selectUp cfg t codes[c]! (pathOfQ (qdig codes) (qlen codes) c S k) (k - 1)
        (codes[c]!.len - 2 * k) res =
      .ok (selUpQ (qdig codes) (qlen codes) c S k res) := by
  have h2q := two_qlen hev
  induction k generalizing res with
  | zero => rfl
  | succ k ih =>
    have hk' : k < qlen codes c := by omega
    have hks : k < t.qvs.size := by
      rw [hlv.size_eq]; exact Nat.lt_of_lt_of_le hk' (hlv.len_le c hc)
    have hr := hlv.repr k hks
    have hd := qdig_lt codes k c
    have hlen : (digsQ (qdig codes) (qlen codes) k S).length ≤ S.length := by
      rw [digsQ, List.length_map]; exact lvlQ_length_le _ _ _ _
    have htb : (codes[c]!.content >>> (codes[c]!.len - 2 * (k + 1))) &&& 3 = qdig codes k c := by
      rw [and3]; rfl
    rw [pathOfQ, selectUp, Nat.add_sub_cancel, selUpQ]
    simp only [htb, idx_ok _ _ hks, ok_bind, hr.select, if_pos (Nat.le_of_lt_succ hd)]
    by_cases hov : Spec.rank (qdig codes k c) (blkStartQ (qdig codes) (qlen codes) c S k)
        (digsQ (qdig codes) (qlen codes) k S) + res ≥ two64
    · have hnone : Spec.select (qdig codes k c)
          (Spec.rank (qdig codes k c) (blkStartQ (qdig codes) (qlen codes) c S k)
            (digsQ (qdig codes) (qlen codes) k S) + res)
          (digsQ (qdig codes) (qlen codes) k S) = none := by
        apply BinWM.select_none
        have := List.count_le_length (a := qdig codes k c)
          (l := digsQ (qdig codes) (qlen codes) k S)
        omega
      simp only [if_pos hov, hnone]
      rfl
    · simp only [if_neg hov]
      cases hq : Spec.select (qdig codes k c)
          (Spec.rank (qdig codes k c) (blkStartQ (qdig codes) (qlen codes) c S k)
            (digsQ (qdig codes) (qlen codes) k S) + res)
          (digsQ (qdig codes) (qlen codes) k S) with
      | none => rfl
      | some q =>
        simp only [ok_bind, sub_ok _ _ (select_geQ hq)]
        have e : codes[c]!.len - 2 * (k + 1) + 2 = codes[c]!.len - 2 * k := by omega
        rw [e]
        exact ih _ (by omega)

/-! ## get -/

theorem two32_eq : Huff.two32 = 2 ^ 32 := by decide

/-- appending the next two-bit fragment to the accumulated prefix of the code -/
theorem acc_step4 (L k c : Nat) (hk : 2 * (k + 1) ≤ L) (hc : c < 2 ^ 32) :
    (((c >>> (L - 2 * k)) <<< 2) % Huff.two32 ||| (c >>> (L - 2 * (k + 1))) % 4)
      = c >>> (L - 2 * (k + 1)) := by
  have e : L - 2 * k = (L - 2 * (k + 1)) + 2 := by omega
  have hy : c >>> (L - 2 * (k + 1)) ≤ c := Nat.shiftRight_le _ _
  rw [e, Nat.shiftRight_add]
  generalize c >>> (L - 2 * (k + 1)) = y at hy
  have h1 : y >>> 2 = y / 4 := Nat.shiftRight_eq_div_pow y 2
  have h2 : (y >>> 2) <<< 2 = y / 4 * 4 := by rw [h1, Nat.shiftLeft_eq]
  have h3 : (y >>> 2) <<< 2 < Huff.two32 := by rw [h2, two32_eq]; omega
  rw [Nat.mod_eq_of_lt h3, ← Nat.shiftLeft_add_eq_or_of_lt (show y % 4 < 2 ^ 2 by omega), h2]
  omega

theorem getGo_ok {codes : Array PrefixCode} {S : List Nat} {t : HQWT} (cfg : Cfg)
    (h : QOK (qdig codes) (qlen codes) S) (hlv : LevelsQ cfg.B codes S t) (x j : Nat)
    (hj : S[j]? = some x) (hcont : codes[x]!.content < 2 ^ 32) (hev : 2 ∣ codes[x]!.len)
    (f k : Nat) (hfk : f + k = t.nLevels) (hk : k ≤ qlen codes x) :
    getUnchecked.go cfg t f k (codes[x]!.content >>> (codes[x]!.len - 2 * k))
        (trackQ (qdig codes) (qlen codes) S x j k) (2 * k) =
      .ok (codes[x]!.content, codes[x]!.len) := by
  have hxS : x ∈ S := List.mem_of_getElem? hj
  have hle := hlv.len_le x hxS
  have hpos := h.pos x hxS
  have h2q := two_qlen hev
  induction f generalizing k with
  | zero =>
    have : k = qlen codes x := by omega
    subst this
    rw [getUnchecked.go, h2q, Nat.sub_self, Nat.shiftRight_zero]
    rfl
  | succ f ih =>
    have hkn : k < t.nLevels := by omega
    have hkl : k < t.lens.size := by rw [hlv.lens_size]; exact hkn
    have hks : k < t.qvs.size := by rw [hlv.size_eq]; exact hkn
    rw [getUnchecked.go]
    rw [idx_ok _ _ hkl, ok_bind, hlv.lens_eq k hkl]
    by_cases hk' : k < qlen codes x
    · have hr := hlv.repr k hks
      have hlt := track_ltQ h x j hj k hk'
      have hdig := digsQ_track h x j hj k hk'
      have hd := qdig_lt codes k x
      have hlen := digsQ_length codes k S
      have hgetD : (digsQ (qdig codes) (qlen codes) k S).getD
          (trackQ (qdig codes) (qlen codes) S x j k) 0 = qdig codes k x := by
        rw [List.getD_eq_getElem?_getD, hdig]; rfl
      have hstop : ¬ trackQ (qdig codes) (qlen codes) S x j k
          ≥ (lvlQ (qdig codes) (qlen codes) k S).length := by omega
      have hlt1 : trackQ (qdig codes) (qlen codes) S x j k
          < (digsQ (qdig codes) (qlen codes) k S).length := by omega
      have hlt2 : trackQ (qdig codes) (qlen codes) S x j k
          ≤ (digsQ (qdig codes) (qlen codes) k S).length := by omega
      simp only [if_neg hstop, idx_ok _ _ hks, ok_bind, hr.getU _ _ hlt1, hgetD,
        hr.occsSmallerU _ _ (Nat.le_of_lt_succ hd),
        hr.rankU _ _ _ (Nat.le_of_lt_succ hd) hlt2]
      have hacc : (((codes[x]!.content >>> (codes[x]!.len - 2 * k)) <<< 2) % Huff.two32
          ||| qdig codes k x) = codes[x]!.content >>> (codes[x]!.len - 2 * (k + 1)) :=
        acc_step4 codes[x]!.len k codes[x]!.content (by omega) hcont
      rw [hacc]
      have e2 : 2 * k + 2 = 2 * (k + 1) := by omega
      rw [e2]
      exact ih (k + 1) (by omega) (by omega)
    · have hke : k = qlen codes x := by omega
      obtain ⟨k', rfl⟩ : ∃ k', k = k' + 1 := ⟨k - 1, by omega⟩
      have hend := track_endQ h x j hj k' hke
      have hstop : trackQ (qdig codes) (qlen codes) S x j (k' + 1)
          ≥ (lvlQ (qdig codes) (qlen codes) (k' + 1) S).length := hend
      simp only [if_pos hstop]
      rw [hke, h2q, Nat.sub_self, Nat.shiftRight_zero]
      rfl

theorem getUncheckedQ_ok {codes : Array PrefixCode} {S : List Nat} {t : HQWT} (cfg : Cfg)
    (h : QOK (qdig codes) (qlen codes) S) (hlv : LevelsQ cfg.B codes S t)
    (hd : DecOK codes t.codesDecode S)
    (x j : Nat) (hj : S[j]? = some x) (hev : 2 ∣ codes[x]!.len)
    (hcont : codes[x]!.content < 2 ^ codes[x]!.len) (hl32 : codes[x]!.len ≤ 32)
    (hx : x < 2 ^ cfg.W) :
    Huff.getUnchecked cfg t j = .ok x := by
  have hxS : x ∈ S := List.mem_of_getElem? hj
  have hc32 : codes[x]!.content < 2 ^ 32 :=
    Nat.lt_of_lt_of_le hcont (Nat.pow_le_pow_right (by omega) hl32)
  have hgo := getGo_ok cfg h hlv x j hj hc32 hev t.nLevels 0 (by omega) (by omega)
  have e : codes[x]!.content >>> (codes[x]!.len - 2 * 0) = 0 := by
    rw [Nat.mul_zero, Nat.sub_zero, Nat.shiftRight_eq_div_pow]; exact Nat.div_eq_of_lt hcont
  rw [e] at hgo
  simp only [trackQ, Nat.mul_zero] at hgo
  obtain ⟨tbl, htbl, hfind⟩ := hd x hxS
  unfold clen at htbl
  have hidx : idx t.codesDecode codes[x]!.len = .ok tbl := by
    unfold idx
    obtain ⟨hlt, hget⟩ := Array.getElem?_eq_some_iff.mp htbl
    simp [hlt, hget]
  simp only [Huff.getUnchecked, hgo, ok_bind, hidx, hfind, hx, if_true]
  rfl

/-! ## the second estimation phase of `rank_prefetch` never faults -/

theorem nextPos_mono (d : Nat) (ds : List Nat) {a b : Nat} (hab : a ≤ b) :
    nextPos d ds a ≤ nextPos d ds b := by
  unfold nextPos
  have := BinWM.rank_mono d ds hab
  omega

theorem phase2Go_ok {codes : Array PrefixCode} {S : List Nat} {t : HQWT} (cfg : Cfg)
    (h : QOK (qdig codes) (qlen codes) S) (hlv : LevelsQ cfg.B codes S t) {c : Nat} (hc : c ∈ S)
    (hev : 2 ∣ codes[c]!.len) (i : Nat) (f k : Nat) (sh : Int) (s e : Nat)
    (hk : k < qlen codes c)
    (hsh : sh = (codes[c]!.len : Int) - 2 * ((k : Int) + 1))
    (hs : s ≤ blkStartQ (qdig codes) (qlen codes) c S k + cntP (qdig codes) (qlen codes) c S k i)
    (he : e ≤ blkStartQ (qdig codes) (qlen codes) c S k + cntP (qdig codes) (qlen codes) c S k i) :
    pfsPhase2.go cfg t codes[c]! f k sh s e = .ok () := by
  have h2q := two_qlen hev
  induction f generalizing k sh s e with
  | zero => rfl
  | succ f ih =>
    rw [pfsPhase2.go]
    by_cases hk' : k + 1 < qlen codes c
    · have hs2 : sh ≥ 2 := by omega
      have hks : k < t.qvs.size := by
        rw [hlv.size_eq]; exact Nat.lt_of_lt_of_le hk (hlv.len_le c hc)
      have hks' : k + 1 < t.qvs.size := by
        rw [hlv.size_eq]; exact Nat.lt_of_lt_of_le hk' (hlv.len_le c hc)
      have hr := hlv.repr k hks
      have hd := qdig_lt codes k c
      have hT := blkStartQ_cnt_le h hc k hk i
      have htb : ((codes[c]!.content >>> sh.toNat) % 256) &&& 3 = qdig codes k c := by
        have : sh.toNat = codes[c]!.len - 2 * (k + 1) := by omega
        rw [this, and3, Nat.mod_mod_of_dvd _ (by decide : 4 ∣ 256)]; rfl
      obtain ⟨vs, hvs, hles⟩ := hr.rankBlock cfg.dbg _ s (Nat.le_of_lt_succ hd) (by omega)
      obtain ⟨ve, hve, hlee⟩ := hr.rankBlock cfg.dbg _ e (Nat.le_of_lt_succ hd) (by omega)
      simp only [if_pos hs2, htb, idx_ok _ _ hks, idx_ok _ _ hks', ok_bind,
        hr.occsSmallerU _ _ (Nat.le_of_lt_succ hd), hvs, hve]
      have hw := walk_stepQ h hc k hk i
      rw [cntR_eq_cntP h hc hk'] at hw
      have m1 := nextPos_mono (qdig codes k c) (digsQ (qdig codes) (qlen codes) k S) hs
      have m2 := nextPos_mono (qdig codes k c) (digsQ (qdig codes) (qlen codes) k S) he
      rw [hw] at m1 m2
      unfold nextPos at m1 m2
      exact ih (k + 1) (sh - 2) _ _ hk' (by omega) (by omega) (by omega)
    · have hs2 : ¬ sh ≥ 2 := by omega
      simp only [if_neg hs2]
      rfl

end Qwt.HQWM
