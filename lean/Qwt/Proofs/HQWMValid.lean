import Qwt.Proofs.CraftDefs
import Qwt.Proofs.HQWMSelect

/-!
From the validity predicate `WMValid 4 codes occ` of the code table (C02, what
`craftWmCodes 4` is proved to deliver) to the condition `QOK` used by the list-level Huffman
quad matrix: prefix-freeness on base-4 digits and "continuing elements precede ending ones" at
every level (from the reverse-lexicographic matrix order, by sortedness of every level under
the digit-reversed prefix).  Arity-4 mirror of `Qwt/Proofs/BinHWMValid.lean`.  Core Lean only.
-/
set_option linter.unusedSimpArgs false
set_option linter.unusedVariables false

namespace Qwt.HQWM
open Qwt
open Qwt.Huff (PrefixCode)
open Qwt.Props.C02 (WMValid digits revLex bitsOf)

/-- code length of symbol `x` in base-4 digits (0 outside the table) -/
def qlen (codes : Array PrefixCode) (x : Nat) : Nat := codes[x]!.len / 2

/-- digit `k` (most significant first) of the code of `x` -/
def qdig (codes : Array PrefixCode) (k x : Nat) : Nat :=
  (codes[x]!.content >>> (codes[x]!.len - 2 * (k + 1))) % 4

theorem qdig_lt (codes : Array PrefixCode) (k x : Nat) : qdig codes k x < 4 :=
  Nat.mod_lt _ (by decide)

theorem bitsOf_four : bitsOf 4 = 2 := rfl

theorem digits_length (cd : PrefixCode) : (digits 4 cd).length = cd.len / 2 := by
  simp [digits, bitsOf_four]

theorem two_pow_two_mul (m : Nat) : 2 ^ (2 * m) = 4 ^ m := by
  rw [Nat.pow_mul]

theorem digits_get (codes : Array PrefixCode) (x t : Nat) (hev : 2 ∣ codes[x]!.len) :
    (digits 4 codes[x]!)[t]? = if t < qlen codes x then some (qdig codes t x) else none := by
  unfold digits
  rw [List.getElem?_map, bitsOf_four]
  by_cases ht : t < qlen codes x
  · have ht' : t < codes[x]!.len / 2 := ht
    rw [List.getElem?_range ht', if_pos ht, qdig, Nat.shiftRight_eq_div_pow]
    have e : codes[x]!.len - 2 * (t + 1) = 2 * (codes[x]!.len / 2 - 1 - t) := by omega
    rw [e, two_pow_two_mul]
    rfl
  · have ht' : codes[x]!.len / 2 ≤ t := Nat.le_of_not_lt ht
    rw [if_neg ht, List.getElem?_eq_none (by simpa using ht')]
    rfl

/-- the digit-reversed value of the first `k` digits of the code of `x` -/
def rkey (codes : Array PrefixCode) : Nat → Nat → Nat
  | 0, _ => 0
  | k + 1, x => rkey codes k x + 4 ^ k * qdig codes k x

theorem rkey_lt (codes : Array PrefixCode) (k x : Nat) : rkey codes k x < 4 ^ k := by
  induction k with
  | zero => simp [rkey]
  | succ k ih =>
    rw [rkey, Nat.pow_succ]
    have h1 : 4 ^ k * qdig codes k x ≤ 4 ^ k * 3 :=
      Nat.mul_le_mul_left _ (Nat.le_of_lt_succ (qdig_lt codes k x))
    omega

theorem revLex_append (l : List Nat) (d : Nat) :
    revLex 4 (l ++ [d]) = revLex 4 l + 4 ^ l.length * d := by
  induction l with
  | nil => simp [revLex]
  | cons a as ih =>
    simp only [List.cons_append, revLex, ih, List.length_cons, Nat.pow_succ]
    rw [Nat.mul_add, Nat.add_assoc, Nat.mul_comm (4 ^ as.length) 4, Nat.mul_assoc]

theorem revLex_take (codes : Array PrefixCode) (x k : Nat) (hev : 2 ∣ codes[x]!.len)
    (hk : k ≤ qlen codes x) :
    revLex 4 ((digits 4 codes[x]!).take k) = rkey codes k x := by
  induction k with
  | zero => simp [revLex, rkey]
  | succ k ih =>
    rw [List.take_add_one, digits_get _ _ _ hev, if_pos (by omega)]
    simp only [Option.toList_some]
    rw [revLex_append, ih (by omega), rkey, List.length_take, digits_length]
    have : min k (codes[x]!.len / 2) = k := Nat.min_eq_left (by unfold qlen at hk; omega)
    rw [this]

/-- a stable partition by `key` of a list sorted by `rk < M` is sorted by `rk + M * key` -/
theorem stablePart_sorted {α : Type} (key rk : α → Nat) (M : Nat) (hrk : ∀ x, rk x < M) (r : Nat)
    (l : List α) (hl : l.Pairwise (fun a b => rk a ≤ rk b)) :
    (Spec.stablePart key r l).Pairwise (fun a b => rk a + M * key a ≤ rk b + M * key b) := by
  induction r with
  | zero => simp [Spec.stablePart]
  | succ r ih =>
    rw [WM.stablePart_succ, List.pairwise_append]
    refine ⟨ih, ?_, ?_⟩
    · apply (hl.filter _).imp_of_mem
      intro a b ha hb hab
      have ha' : key a = r := by simpa using (List.mem_filter.mp ha).2
      have hb' : key b = r := by simpa using (List.mem_filter.mp hb).2
      rw [ha', hb']; omega
    · intro a ha b hb
      have ha' : key a < r := ((mem_stablePart_iff key r l a).mp ha).2
      have hb' : key b = r := by simpa using (List.mem_filter.mp hb).2
      rw [hb']
      have h1 : M * (key a + 1) ≤ M * r := Nat.mul_le_mul_left _ ha'
      have h2 := hrk a
      rw [Nat.mul_add, Nat.mul_one] at h1
      omega

theorem lvlQ_sorted (codes : Array PrefixCode) (S : List Nat) (k : Nat) :
    (lvlQ (qdig codes) (qlen codes) k S).Pairwise
      (fun a b => rkey codes k a ≤ rkey codes k b) := by
  induction k with
  | zero => exact List.pairwise_of_forall (fun _ _ => Nat.le_refl _)
  | succ k ih =>
    rw [lvlQ]
    exact (stablePart_sorted (qdig codes k) (rkey codes k) (4 ^ k) (rkey_lt codes k) 4 _ ih).filter _

/-- `WMValid 4` gives the validity condition of the list-level Huffman quad matrix -/
theorem qok_of_valid {codes : Array PrefixCode} {occ S : List Nat} (hv : WMValid 4 codes occ)
    (hocc : ∀ s, s ∈ occ ↔ s ∈ S) : QOK (qdig codes) (qlen codes) S := by
  have hev : ∀ x : Nat, 2 ∣ codes[x]!.len := fun x => (hv.len_le x).2.1
  have hpos : ∀ x ∈ S, 0 < qlen codes x := by
    intro x hx
    have := (hv.occ_len x ((hocc x).mpr hx)).2
    have := hev x
    unfold qlen; omega
  refine ⟨hpos, qdig_lt codes, ?_, ?_⟩
  · intro x hx y hy hle hdigs
    apply Classical.byContradiction
    intro hne
    apply hv.prefix_free x ((hocc x).mpr hx) y ((hocc y).mpr hy) hne
    have : digits 4 codes[x]! = (digits 4 codes[y]!).take (qlen codes x) := by
      apply List.ext_getElem?
      intro i
      rw [List.getElem?_take, digits_get _ _ _ (hev x), digits_get _ _ _ (hev y)]
      by_cases hi : i < qlen codes x
      · rw [if_pos hi, if_pos hi, if_pos (by omega), hdigs i hi]
      · rw [if_neg hi, if_neg hi]
    rw [this]
    exact List.take_prefix _ _
  · intro k
    have hsorted := stablePart_sorted (qdig codes k) (rkey codes k) (4 ^ k) (rkey_lt codes k) 4 _
      (lvlQ_sorted codes S k)
    apply hsorted.imp_of_mem
    intro a b ha hb hab hbl
    apply Classical.byContradiction
    intro hal
    rw [mem_stablePart_iff] at ha hb
    have haS := lvlQ_subset _ _ _ _ a ha.1
    have hbS := lvlQ_subset _ _ _ _ b hb.1
    have halive := lvlQ_live _ _ S hpos k a ha.1
    have hlen_a : qlen codes a = k + 1 := by omega
    have := hv.matrix_order b ((hocc b).mpr hbS) a ((hocc a).mpr haS) k
      (by rw [digits_length]; exact hlen_a) (by rw [digits_length]; exact hbl)
    rw [revLex_take codes b (k + 1) (hev b) (by omega)] at this
    have e : digits 4 codes[a]! = (digits 4 codes[a]!).take (k + 1) := by
      rw [List.take_of_length_le]; rw [digits_length]; unfold qlen at hlen_a; omega
    rw [e, revLex_take codes a (k + 1) (hev a) (by omega)] at this
    have e1 : rkey codes (k + 1) a = rkey codes k a + 4 ^ k * qdig codes k a := rfl
    have e2 : rkey codes (k + 1) b = rkey codes k b + 4 ^ k * qdig codes k b := rfl
    omega

end Qwt.HQWM
