import Qwt.Proofs.HQWMNew

/-!
Representation invariant `HWM` of the Huffman-shaped quad wavelet tree (`Huff.HQWT`), its
establishment by `Huff.new` from a valid code table, and the query theorems from the invariant.
Arity-4 mirror of `Qwt/Proofs/BinHWMInv.lean`.  Core Lean only.
-/
set_option linter.unusedSimpArgs false
set_option linter.unusedVariables false

namespace Qwt.HQWM
open Qwt Qwt.Huff
open Qwt.BinWM (ok_bind pure_bind' idx_ok sub_ok clen DecOK code_lookup lt_two64)
open Qwt.Props.C02 (WMValid digits PfsTotalH)

/-- `max_len` as `HuffQWaveletTree::new` computes it -/
def maxLenOf (codes : Array PrefixCode) : Nat := codes.foldl (fun m x => max m x.len) 0

/-- the representation invariant of a Huffman-shaped quad tree `t` for the non-empty sequence
    `S` and the code table `codes`: level `k` represents the digit list of the live elements
    (`digsQ`), `t.lens[k]` is their number, the decode tables are those of `codes` -/
structure HWM (c : Cfg) (S : List Nat) (codes : Array PrefixCode) (t : HQWT) : Prop where
  n_eq : t.n = S.length
  codes_eq : t.codesEncode = codes
  nLevels_eq : t.nLevels = maxLenOf codes / 2
  dec_eq : t.codesDecode = decodeTables codes (maxLenOf codes)
  dec : DecOK codes t.codesDecode S
  qok : QOK (qdig codes) (qlen codes) S
  levels : LevelsQ c.B codes S t
  mem_in : ∀ x ∈ S, x < codes.size ∧ codes[x]!.len ≠ 0
  nonmem : ∀ x, x ∉ S → codes[x]!.len = 0
  code_bound : ∀ x : Nat, codes[x]!.len ≤ 32 ∧ 2 ∣ codes[x]!.len ∧
    codes[x]!.content < 2 ^ codes[x]!.len
  bound : ∀ x ∈ S, x < 2 ^ c.W
  w64 : c.W ≤ 64
  len_lt : S.length < 2 ^ 43
  ne : S ≠ []
  pfs_none : c.pfs = false → t.pfs = none

theorem new_okQ (c : Cfg) (hW : c.W ≤ 64) (hLaw : LevelLaw c.dbg c.B) (hP : PfsTotalH c)
    (S : List Nat) (hne : S ≠ [])
    (hb : ∀ x ∈ S, x < 2 ^ c.W) (hS : S.length < 2 ^ 43) (lens : List (Nat × Nat))
    (codes : Array PrefixCode)
    (hcraft : Huff.craftWmCodes 4 lens (Utils.asUsize (Spec.maxNat S)) = .ok codes)
    (occ : List Nat) (hv : WMValid 4 codes occ) (hocc : ∀ s, s ∈ occ ↔ s ∈ S) :
    ∃ t, Huff.new c S.toArray lens = .ok t ∧ HWM c S codes t := by
  have hok := qok_of_valid hv hocc
  have hev : ∀ x : Nat, 2 ∣ codes[x]!.len := fun x => (hv.len_le x).2.1
  have hin : ∀ x ∈ S, x < codes.size ∧ codes[x]!.len ≠ 0 :=
    fun x hx => hv.occ_len x ((hocc x).mpr hx)
  have hin' : ∀ s ∈ S, s < codes.size ∧ s < two64 :=
    fun s hs => ⟨(hin s hs).1, lt_two64 hW (hb s hs)⟩
  obtain ⟨st, h1, h2, h3, h4, h5, h6, h7, h8⟩ :=
    levels_loopQ c hLaw hP codes S hS hok.pos hin' hev (maxLenOf codes / 2)
  have hemp : S.toArray.isEmpty = false := by
    cases S with
    | nil => exact absurd rfl hne
    | cons _ _ => rfl
  have hfold : S.toArray.foldl max 0 = Spec.maxNat S := by simp [Spec.maxNat]
  have hdec : DecOK codes (Huff.decodeTables codes (maxLenOf codes)) S := by
    apply BinWM.decodeTables_ok codes S hin
    intro x hx i hi0 hil hic
    apply Classical.byContradiction
    intro hne'
    have hio : i ∈ occ := by
      apply Classical.byContradiction
      intro hno; exact hi0 (hv.nonocc_len i hno)
    apply hv.prefix_free i hio x ((hocc x).mpr hx) hne'
    have : codes[i]! = codes[x]! := by
      cases h1 : codes[i]!; cases h2 : codes[x]!
      rw [h1, h2] at hil hic
      simp only at hil hic
      rw [hil, hic]
    rw [this]
    exact List.prefix_refl _
  refine ⟨{ n := S.length, nLevels := maxLenOf codes / 2, codesEncode := codes,
            codesDecode := Huff.decodeTables codes (maxLenOf codes),
            qvs := st.qvs, lens := st.lens,
            pfs := if c.pfs then some st.pfs else none }, ?_, ?_⟩
  · unfold Huff.new
    simp only [hemp, Bool.false_eq_true, if_false, hfold, hcraft, ok_bind, pure_bind']
    unfold maxLenOf at h1
    simp only [h1, ok_bind]
    rfl
  · refine ⟨rfl, rfl, rfl, rfl, hdec, hok, ⟨h4, h5, h6, h7, ?_⟩, hin,
      fun x hx => hv.nonocc_len x (fun h => hx ((hocc x).mp h)),
      fun x => ⟨(hv.len_le x).1, hev x, (hv.len_le x).2.2⟩, hb, hW, hS, hne, ?_⟩
    · intro x _
      have := BinWM.len_le_maxLen codes x
      unfold clen at this
      show codes[x]!.len / 2 ≤ maxLenOf codes / 2
      exact Nat.div_le_div_right this
    · intro hf
      simp [hf]

/-! ## queries -/

section inv
variable {c : Cfg} {S : List Nat} {codes : Array PrefixCode} {t : HQWT}

theorem codeOfQ (h : HWM c S codes t) (sym : Nat) :
    codeOf t sym = if sym ∈ S then some codes[sym]! else none := by
  unfold codeOf
  rw [h.codes_eq]
  by_cases hs : sym ∈ S
  · obtain ⟨h1, h2⟩ := h.mem_in sym hs
    have h64 : ¬ sym ≥ two64 := by have := lt_two64 h.w64 (h.bound sym hs); omega
    have hlen : (codes[sym]!.len == 0) = false := by simpa using h2
    rw [if_neg h64, if_pos hs, Array.getElem?_eq_getElem h1, ← getElem!_pos codes sym h1]
    simp only [hlen, Bool.false_eq_true, if_false]
  · rw [if_neg hs]
    have h0 := h.nonmem sym hs
    by_cases h64 : sym ≥ two64
    · rw [if_pos h64]
    · rw [if_neg h64]
      by_cases h1 : sym < codes.size
      · have hlen : (codes[sym]!.len == 0) = true := by simpa using h0
        rw [Array.getElem?_eq_getElem h1, ← getElem!_pos codes sym h1]
        simp only [hlen, if_true]
      · rw [Array.getElem?_eq_none (by omega)]

theorem lookupQ (h : HWM c S codes t) {sym : Nat} (hs : sym ∈ S) :
    idx t.codesEncode (Utils.asUsize sym) = .ok codes[sym]! := by
  rw [h.codes_eq]
  exact (code_lookup (h.mem_in sym hs).1 (lt_two64 h.w64 (h.bound sym hs))).2

theorem inv_getUnchecked (h : HWM c S codes t) (i : Nat) (hi : i < S.length) :
    Huff.getUnchecked c t i = .ok S[i] := by
  have hmem : S[i] ∈ S := List.getElem_mem hi
  exact getUncheckedQ_ok c h.qok h.levels h.dec S[i] i (List.getElem?_eq_getElem hi)
    (h.code_bound _).2.1 (h.code_bound _).2.2 (h.code_bound _).1 (h.bound _ hmem)

theorem inv_get (h : HWM c S codes t) (i : Nat) : Huff.get c t i = .ok S[i]? := by
  unfold Huff.get
  rw [h.n_eq]
  by_cases hi : i < S.length
  · rw [if_neg (by omega), inv_getUnchecked h i hi, List.getElem?_eq_getElem hi]; rfl
  · rw [if_pos (by omega), List.getElem?_eq_none (by omega)]; rfl

theorem inv_rankGo (h : HWM c S codes t) {sym : Nat} (hs : sym ∈ S) (i : Nat)
    (hi : i ≤ S.length) :
    ∃ p, rankUnchecked.go c t codes[sym]! (codes[sym]!.len / 2 + 1) 0
        (Int.ofNat codes[sym]!.len - 2) i 0 = .ok (p + Spec.rank sym i S, p) := by
  have hw := rankGo_ok c h.qok h.levels hs (h.code_bound sym).2.1 i (qlen codes sym + 1) 0
    (Int.ofNat codes[sym]!.len - 2) (by omega) (by omega)
    (by show (codes[sym]!.len : Int) - 2 = _; omega)
  rw [cntR_zero _ _ _ _ _ hi, cntR_full h.qok hs] at hw
  simp only [blkStartQ, Nat.zero_add] at hw
  exact ⟨_, hw⟩

theorem inv_rankUnchecked (h : HWM c S codes t) (sym i : Nat) (hs : sym ∈ S)
    (hi : i ≤ S.length) : Huff.rankUnchecked c t sym i = .ok (Spec.rank sym i S) := by
  obtain ⟨p, hp⟩ := inv_rankGo h hs i hi
  unfold Huff.rankUnchecked
  simp only [lookupQ h hs, ok_bind, hp]
  rw [sub_ok _ _ (by omega), Nat.add_sub_cancel_left]

theorem inv_rank (h : HWM c S codes t) (sym i : Nat) :
    Huff.rank c t sym i =
      .ok (if sym ∈ S ∧ i ≤ S.length then some (Spec.rank sym i S) else none) := by
  unfold Huff.rank
  rw [h.n_eq, codeOfQ h]
  by_cases hi : i ≤ S.length
  · have hi' : ¬ i > S.length := by omega
    by_cases hs : sym ∈ S
    · have hc : sym ∈ S ∧ i ≤ S.length := ⟨hs, hi⟩
      simp only [if_pos hc, if_neg hi', if_pos hs, inv_rankUnchecked h sym i hs hi, ok_bind]
      rfl
    · have hc : ¬ (sym ∈ S ∧ i ≤ S.length) := fun h' => hs h'.1
      simp only [if_neg hc, if_neg hi', if_neg hs]
      rfl
  · have hc : ¬ (sym ∈ S ∧ i ≤ S.length) := fun h' => hi h'.2
    have hi' : i > S.length := by omega
    simp only [if_neg hc, if_pos hi']
    rfl

theorem inv_select (h : HWM c S codes t) (sym k : Nat) :
    Huff.select c t sym k = .ok (if sym ∈ S then Spec.select sym k S else none) := by
  unfold Huff.select
  rw [codeOfQ h]
  by_cases hs : sym ∈ S
  · have hev := (h.code_bound sym).2.1
    have hd := selectDownQ_ok c h.qok h.levels hs hev (qlen codes sym + 1) 0
      (Int.ofNat codes[sym]!.len - 2) (by omega) (by omega)
      (by show (codes[sym]!.len : Int) - 2 = _; omega)
    simp only [blkStartQ, pathOfQ] at hd
    have hlen : S.length < two64 := Nat.lt_trans h.len_lt (by unfold two64; omega)
    have hu := selectUpQ_ok c h.levels hlen hs hev (qlen codes sym) k (Nat.le_refl _)
    have h2q := two_qlen hev
    have hL1 : qlen codes sym ≠ 0 := by
      have := (h.mem_in sym hs).2; omega
    rw [selUpQ_spec h.qok hs _ _ (Nat.le_refl _) (fun h0 => absurd h0 hL1),
      BinWM.select_map_eq _ sym S (fun x hx => agR_full h.qok hs hx),
      show codes[sym]!.len - 2 * qlen codes sym = 0 by omega] at hu
    have hd' : selectDown c t codes[sym]! (codes[sym]!.len / 2 + 1) 0 0
        (Int.ofNat codes[sym]!.len - 2) [] =
        .ok (some (pathOfQ (qdig codes) (qlen codes) sym S (qlen codes sym))) := hd
    simp only [if_pos hs, hd', ok_bind, pathOfQ_length, hu]
  · simp only [if_neg hs]
    rfl

/-! ### the second estimation phase of `rank_prefetch` -/

theorem inv_phase2 (h : HWM c S codes t) {sym : Nat} (hs : sym ∈ S) (i : Nat)
    (hi : i ≤ S.length) : pfsPhase2 c t codes[sym]! i = .ok () := by
  have hev := (h.code_bound sym).2.1
  have h2q := two_qlen hev
  have hL1 : 0 < qlen codes sym := by
    have := (h.mem_in sym hs).2; omega
  have h0 : 0 < t.qvs.size := by
    rw [h.levels.size_eq]; exact Nat.lt_of_lt_of_le hL1 (h.levels.len_le sym hs)
  have hcnt : cntP (qdig codes) (qlen codes) sym S 0 i = i := by
    rw [← cntR_eq_cntP h.qok hs hL1, cntR_zero _ _ _ _ _ hi]
  unfold pfsPhase2
  rw [idx_ok _ _ h0, ok_bind]
  exact phase2Go_ok c h.qok h.levels hs hev i _ 0 _ 0 i hL1
    (by show (codes[sym]!.len : Int) - 2 = _; omega)
    (by omega) (by rw [hcnt]; simp [blkStartQ])

/-- `rank_prefetch` answers like `rank` as soon as estimation phase 1 (the sampled counters of
    `PrefetchSupport`, only run when `pfs = true`) does not fault; phase 2 never faults -/
theorem inv_rankPrefetch_partial (h : HWM c S codes t) (sym i : Nat)
    (hph1 : c.pfs = true → sym ∈ S → i ≤ S.length → pfsPhase1 c t codes[sym]! i = .ok ()) :
    Huff.rankPrefetch c t sym i = Huff.rank c t sym i := by
  unfold Huff.rankPrefetch Huff.rank
  rw [h.n_eq, codeOfQ h]
  by_cases hi : i ≤ S.length
  · have hi' : ¬ i > S.length := by omega
    by_cases hs : sym ∈ S
    · simp only [if_neg hi', if_pos hs]
      unfold Huff.rankPrefetchUnchecked
      simp only [lookupQ h hs, ok_bind, inv_phase2 h hs i hi]
      by_cases hp : c.pfs = true
      · simp only [hp, if_true, hph1 hp hs hi, ok_bind]
      · simp only [hp, Bool.false_eq_true, if_false, pure_bind']
    · simp only [if_neg hi', if_neg hs]
  · have hi' : i > S.length := by omega
    simp only [if_pos hi']

end inv

end Qwt.HQWM
