import Qwt.Spec.Basic
import Qwt.Model.Basic

/-!
Counting lemmas shared by the `DArray` proofs (C07).

`cnt f n` is the number of `i < n` with `f i`.  The `k`-th element of
`(List.range n).filter f` is the unique `p < n` with `f p` and `cnt f p = k`
(`filter_range_getElem?`); `Spec.select` is the `k`-th element of such a filter
(`select_eq_filter`); the population count of a word is `cnt` of its `testBit`
(`popc_eq_cnt`).
-/
namespace Qwt.DAProofs
open Qwt

/-- number of `i < n` with `f i` -/
def cnt (f : Nat → Bool) : Nat → Nat
  | 0 => 0
  | n + 1 => cnt f n + (if f n then 1 else 0)

@[simp] theorem cnt_zero (f : Nat → Bool) : cnt f 0 = 0 := rfl

theorem cnt_succ (f : Nat → Bool) (n : Nat) :
    cnt f (n + 1) = cnt f n + (if f n then 1 else 0) := rfl

theorem cnt_le_succ (f : Nat → Bool) (n : Nat) : cnt f n ≤ cnt f (n + 1) := by
  rw [cnt_succ]; omega

theorem cnt_mono (f : Nat → Bool) {a b : Nat} (h : a ≤ b) : cnt f a ≤ cnt f b := by
  induction b with
  | zero => have : a = 0 := by omega
            subst this; exact Nat.le_refl _
  | succ b ih =>
    by_cases hb : a = b + 1
    · subst hb; exact Nat.le_refl _
    · exact Nat.le_trans (ih (by omega)) (cnt_le_succ f b)

theorem cnt_succ_of_true {f : Nat → Bool} {n : Nat} (h : f n = true) :
    cnt f (n + 1) = cnt f n + 1 := by
  rw [cnt_succ, h]; rfl

theorem cnt_lt_of_lt_of_true {f : Nat → Bool} {a b : Nat} (hab : a < b) (h : f a = true) :
    cnt f a < cnt f b := by
  have h1 := cnt_succ_of_true h
  have h2 := cnt_mono f (show a + 1 ≤ b from hab)
  omega

theorem cnt_le (f : Nat → Bool) (n : Nat) : cnt f n ≤ n := by
  induction n with
  | zero => exact Nat.le_refl _
  | succ n ih => rw [cnt_succ]; split <;> omega

theorem cnt_congr {f g : Nat → Bool} {n : Nat} (h : ∀ i, i < n → f i = g i) :
    cnt f n = cnt g n := by
  induction n with
  | zero => rfl
  | succ n ih =>
    rw [cnt_succ, cnt_succ, ih (fun i hi => h i (by omega)), h n (by omega)]

theorem cnt_add (f : Nat → Bool) (a b : Nat) :
    cnt f (a + b) = cnt f a + cnt (fun i => f (a + i)) b := by
  induction b with
  | zero => rfl
  | succ b ih => rw [← Nat.add_assoc, cnt_succ, cnt_succ, ih]; omega

/-- peel the first index -/
theorem cnt_succ' (f : Nat → Bool) (n : Nat) :
    cnt f (n + 1) = (if f 0 then 1 else 0) + cnt (fun i => f (i + 1)) n := by
  have h := cnt_add f 1 n
  rw [Nat.add_comm 1 n] at h
  rw [h]
  have : cnt f 1 = (if f 0 then 1 else 0) := by simp [cnt_succ]
  rw [this]
  congr 1
  exact cnt_congr (fun i _ => by rw [Nat.add_comm])

theorem cnt_false {f : Nat → Bool} {n : Nat} (h : ∀ i, i < n → f i = false) : cnt f n = 0 := by
  induction n with
  | zero => rfl
  | succ n ih => rw [cnt_succ, ih (fun i hi => h i (by omega)), h n (by omega)]; rfl

/-- two positions holding `f` with the same count below them coincide -/
theorem cnt_inj {f : Nat → Bool} {p q : Nat} (hp : f p = true) (hq : f q = true)
    (h : cnt f p = cnt f q) : p = q := by
  rcases Nat.lt_trichotomy p q with hlt | heq | hgt
  · have := cnt_lt_of_lt_of_true hlt hp; omega
  · exact heq
  · have := cnt_lt_of_lt_of_true hgt hq; omega

theorem length_filter_range (f : Nat → Bool) (n : Nat) :
    ((List.range n).filter f).length = cnt f n := by
  induction n with
  | zero => rfl
  | succ n ih =>
    rw [List.range_succ, List.filter_append, List.length_append, ih, cnt_succ]
    by_cases h : f n = true <;> simp [h]

/-- the `k`-th element of `filter f (range n)` is the `p < n` with `f p` and `k` hits below -/
theorem filter_range_getElem? (f : Nat → Bool) (n k p : Nat) :
    ((List.range n).filter f)[k]? = some p ↔ p < n ∧ f p = true ∧ cnt f p = k := by
  induction n with
  | zero => simp
  | succ n ih =>
    rw [List.range_succ, List.filter_append]
    by_cases hk : k < cnt f n
    · rw [List.getElem?_append_left (by rw [length_filter_range]; exact hk), ih]
      constructor
      · rintro ⟨h1, h2, h3⟩; exact ⟨by omega, h2, h3⟩
      · rintro ⟨h1, h2, h3⟩
        refine ⟨?_, h2, h3⟩
        by_cases hpn : p = n
        · subst hpn; omega
        · omega
    · rw [List.getElem?_append_right (by rw [length_filter_range]; omega), length_filter_range]
      constructor
      · intro h
        by_cases hfn : f n = true
        · simp only [List.filter_cons, hfn, List.filter_nil, if_true] at h
          have hk0 : k - cnt f n = 0 := by
            apply Classical.byContradiction
            intro hne
            rw [List.getElem?_eq_none (by simp; omega)] at h
            cases h
          rw [hk0] at h
          simp only [List.getElem?_cons_zero, Option.some.injEq] at h
          subst h
          exact ⟨by omega, hfn, by omega⟩
        · simp [hfn] at h
      · rintro ⟨h1, h2, h3⟩
        have hpn : p = n := by
          apply Classical.byContradiction
          intro hne
          have := cnt_lt_of_lt_of_true (show p < n by omega) h2
          omega
        subst hpn
        simp [h2, h3]

theorem filter_range_getElem?_none (f : Nat → Bool) (n k : Nat) :
    ((List.range n).filter f)[k]? = none ↔ cnt f n ≤ k := by
  rw [List.getElem?_eq_none_iff, length_filter_range]

/-- elements of a filtered range are strictly increasing -/
theorem filter_range_lt (f : Nat → Bool) (n : Nat) {i j p q : Nat} (hij : i < j)
    (hp : ((List.range n).filter f)[i]? = some p) (hq : ((List.range n).filter f)[j]? = some q) :
    p < q := by
  rw [filter_range_getElem?] at hp hq
  apply Classical.byContradiction
  intro hge
  have := cnt_mono f (show q ≤ p by omega)
  omega

/-! ### `Spec.select` -/

theorem select_eq_filter (c : Bool) (k : Nat) (l : List Bool) :
    Spec.select c k l = ((List.range l.length).filter (fun i => l[i]? == some c))[k]? := by
  induction l generalizing k with
  | nil => simp [Spec.select]
  | cons x xs ih =>
    have hmap : ((List.range xs.length).map Nat.succ).filter (fun i => (x :: xs)[i]? == some c)
        = ((List.range xs.length).filter (fun i => xs[i]? == some c)).map Nat.succ := by
      rw [List.filter_map]
      congr 1
    rw [List.length_cons, List.range_succ_eq_map, List.filter_cons, hmap]
    by_cases hx : (x == c) = true
    · have hx' : ((x :: xs)[0]? == some c) = true := by simpa using hx
      rw [if_pos hx']
      cases k with
      | zero => simp [Spec.select, hx]
      | succ k =>
        simp only [Spec.select, hx, if_true, List.getElem?_cons_succ, List.getElem?_map, ih]
    · have hx' : ¬ ((x :: xs)[0]? == some c) = true := by simpa using hx
      rw [if_neg hx']
      simp only [Spec.select, hx, List.getElem?_map, ih]
      rfl

/-- `Spec.select` on a bit list, by position and count -/
theorem select_eq_some_iff (c : Bool) (k p : Nat) (l : List Bool) :
    Spec.select c k l = some p ↔
      p < l.length ∧ l[p]? = some c ∧ cnt (fun i => l[i]? == some c) p = k := by
  rw [select_eq_filter, filter_range_getElem?]
  simp

/-! ### words -/

theorem bitsOf_length (w n : Nat) : (Spec.bitsOf w n).length = n := by
  induction n generalizing w with
  | zero => rfl
  | succ n ih => simp [Spec.bitsOf, ih]

theorem bitsOf_getElem? (w n i : Nat) :
    (Spec.bitsOf w n)[i]? = if i < n then some (w.testBit i) else none := by
  induction n generalizing w i with
  | zero => simp [Spec.bitsOf]
  | succ n ih =>
    cases i with
    | zero =>
      simp only [Spec.bitsOf, List.getElem?_cons_zero, Nat.zero_lt_succ, if_true,
        Nat.testBit_zero]
      congr 1
    | succ i =>
      simp only [Spec.bitsOf, List.getElem?_cons_succ, ih, Nat.testBit_succ,
        Nat.add_lt_add_iff_right]

theorem popc_eq_cnt (n w : Nat) (h : w < 2 ^ n) : Qwt.popc w = cnt w.testBit n := by
  induction n generalizing w with
  | zero =>
    have : w = 0 := by simpa using h
    subst this
    rw [Qwt.popc]; rfl
  | succ n ih =>
    rw [cnt_succ']
    have hc : cnt (fun i => w.testBit (i + 1)) n = cnt (w / 2).testBit n :=
      cnt_congr (fun i _ => Nat.testBit_succ w i)
    rw [hc, ← ih (w / 2) (by rw [Nat.pow_succ] at h; omega)]
    rw [Qwt.popc]
    by_cases hw : w = 0
    · subst hw; simp [Qwt.popc]
    · rw [dif_neg hw, Nat.testBit_zero]
      congr 1
      have : w % 2 = 0 ∨ w % 2 = 1 := by omega
      rcases this with h0 | h0 <;> simp [h0]

/-- select in a word, by position and count -/
theorem select_bitsOf {w n q r : Nat} (hq : q < n) (hb : w.testBit q = true)
    (hc : cnt w.testBit q = r) : Spec.select true r (Spec.bitsOf w n) = some q := by
  rw [select_eq_some_iff, bitsOf_length]
  refine ⟨hq, ?_, ?_⟩
  · rw [bitsOf_getElem?, if_pos hq, hb]
  · rw [← hc]
    apply cnt_congr
    intro i hi
    rw [bitsOf_getElem?, if_pos (by omega)]
    cases w.testBit i <;> rfl

end Qwt.DAProofs
