import Qwt.Proofs.BinWMSim

/-!
The constructor `BinWT.new` (plain variant) builds levels that represent the list-level
matrix, under `BinLevelLaw`.  Core Lean only.
-/
set_option linter.unusedSimpArgs false

namespace Qwt.BinWM
open Qwt Qwt.BinWT Qwt.RSW

/-! ## alphabet size and number of levels -/

theorem foldl_max_le (S : List Nat) (a x : Nat) (h : x ∈ S ∨ x ≤ a) : x ≤ S.foldl max a := by
  induction S generalizing a with
  | nil => simpa using h
  | cons y ys ih =>
    simp only [List.foldl_cons]
    apply ih
    rcases h with h | h
    · rcases List.mem_cons.mp h with rfl | h
      · right; omega
      · left; exact h
    · right; omega

theorem le_maxNat {S : List Nat} {x : Nat} (h : x ∈ S) : x ≤ Spec.maxNat S :=
  foldl_max_le S 0 x (Or.inl h)

theorem foldl_max_lt (S : List Nat) (a b : Nat) (ha : a < b) (h : ∀ x ∈ S, x < b) :
    S.foldl max a < b := by
  induction S generalizing a with
  | nil => simpa using ha
  | cons y ys ih =>
    simp only [List.foldl_cons]
    apply ih
    · have := h y (by simp); omega
    · intro x hx; exact h x (by simp [hx])

theorem maxNat_lt {S : List Nat} {b : Nat} (hb : 0 < b) (h : ∀ x ∈ S, x < b) : Spec.maxNat S < b :=
  foldl_max_lt S 0 b hb h

theorem lt_two_pow_bitlen (v : Nat) : v < 2 ^ Spec.bitlen v := Nat.lt_log2_self

theorem bitlen_le {W v : Nat} (hW : 0 < W) (hv : v < 2 ^ W) : Spec.bitlen v ≤ W := by
  unfold Spec.bitlen Spec.msb
  by_cases h0 : v = 0
  · subst h0; simp [Nat.log2_zero]; omega
  · have := (Nat.log2_lt h0).mpr hv; omega

theorem msb_ok {W v : Nat} (hW : 0 < W) (hv : v < 2 ^ W) : Utils.msb W v = .ok (Spec.msb v) := by
  unfold Utils.msb Spec.msb
  by_cases h0 : v = 0
  · subst h0; simp [Nat.log2_zero, pure, Except.pure]
  · have hl := (Nat.log2_lt h0).mpr hv
    have hb : (v == 0) = false := by simpa using h0
    simp only [hb, Bool.false_eq_true, if_false, clz, if_neg h0]
    rw [sub_ok _ _ (by omega)]
    congr 1; omega

/-! ## one level -/

theorem bit_eq (L k s : Nat) :
    ((Utils.asUsize (s >>> (L - (k + 1))) &&& 1) == 1) = bitAt L k s := by
  rw [Nat.and_one_is_mod, Utils.asUsize, bitAt]
  have : s >>> (L - (k + 1)) % two64 % 2 = s >>> (L - (k + 1)) % 2 := by
    unfold two64; omega
  rw [this]

theorem part2_fold (p : Nat → Bool) (l : List Nat) (z o : Array Nat) :
    l.foldl (fun (b : Array Nat × Array Nat) a =>
        if p a = false then (b.1.push a, b.2) else (b.1, b.2.push a)) (z, o) =
      (z ++ (l.filter (fun x => !p x)).toArray, o ++ (l.filter p).toArray) := by
  induction l generalizing z o with
  | nil => simp
  | cons x xs ih =>
    simp only [List.foldl_cons]
    cases hx : p x
    · simp [ih, hx, List.filter_cons]
    · simp [ih, hx, List.filter_cons]

theorem stablePartitionOf2_ok (W L k : Nat) (l : List Nat) (hsh : L - (k + 1) < W) :
    Utils.stablePartitionOf2 W l.toArray (L - (k + 1)) = .ok (part (bitAt L k) l).toArray := by
  unfold Utils.stablePartitionOf2
  have hn : ¬ (L - (k + 1) ≥ W ∧ l.toArray.size > 0) := by omega
  rw [if_neg hn]
  have e : (fun (b : Array Nat × Array Nat) a =>
        if (Utils.asUsize (a >>> (L - (k + 1))) &&& 1 == 0) = true then (b.1.push a, b.2)
        else (b.1, b.2.push a)) =
      (fun (b : Array Nat × Array Nat) a =>
        if bitAt L k a = false then (b.1.push a, b.2) else (b.1, b.2.push a)) := by
    funext b a
    rw [← bit_eq, Nat.and_one_is_mod]
    have : Utils.asUsize (a >>> (L - (k + 1))) % 2 = 0 ∨ Utils.asUsize (a >>> (L - (k + 1))) % 2 = 1 := by
      omega
    rcases this with h | h <;> simp [h]
  simp only [List.foldl_toArray', List.size_toArray]
  rw [e, part2_fold]
  simp [part]

theorem new_bv {bvm : BV.BitVector} {r : RSWide} (h : RSW.new bvm = .ok r) : r.bv = bvm := by
  unfold RSW.new at h
  simp only [bind, Except.bind, pure, Except.pure] at h
  split at h
  · cases h
  · split at h
    · cases h
    · cases h; rfl

theorem levelStep_ok (c : Cfg) (hLaw : BinLevelLaw) (L k : Nat) (hk : k < L) (hLW : L ≤ c.W)
    (l : List Nat) (hl : l.length < 2 ^ 43) (bvs : Array RSWide) (lens : Array Nat) :
    ∃ r, RSW.Represents r (l.map (bitAt L k)) ∧
      levelStep c false L #[] { seq := l.toArray, shift := k + 1, bvs := bvs, lens := lens } =
        .ok { seq := (part (bitAt L k) l).toArray, shift := k + 2, bvs := bvs.push r,
              lens := lens.push l.length } := by
  obtain ⟨r, hmk, hrep⟩ := hLaw (l.map (bitAt L k)) (by simpa using hl)
  refine ⟨r, hrep, ?_⟩
  unfold RSW.mkLevel at hmk
  rw [List.foldlM_map] at hmk
  unfold levelStep
  have h1 : ¬ L - (k + 1) ≥ c.W := by omega
  simp only [List.foldlM_toArray', Bool.false_eq_true, if_false, sub_ok L (k + 1) hk, ok_bind,
    if_neg h1, bit_eq]
  cases hb : List.foldlM (fun (b : BV.BitVectorMut) s => BV.push b (bitAt L k s)) {} l with
  | error e => rw [hb] at hmk; cases hmk
  | ok bvm =>
    rw [hb, ok_bind] at hmk
    have hbv := new_bv hmk
    have hnb : bvm.nBits = l.length := by rw [← hbv, hrep.len_eq]; simp
    simp only [ok_bind, hmk, Bool.false_eq_true, if_false, sub_ok L (k + 1) hk,
      stablePartitionOf2_ok c.W L k l (by omega), hnb]
    rfl

/-! ## the loop over the levels -/

theorem levels_loop (c : Cfg) (hLaw : BinLevelLaw) (L : Nat) (hLW : L ≤ c.W) (S : List Nat)
    (hS : S.length < 2 ^ 43) (k : Nat) (hk : k ≤ L) :
    ∃ st : LevelSt,
      (List.range k).foldlM (fun st _ => levelStep c false L #[] st)
        ({ seq := S.toArray, shift := 1 } : LevelSt) = .ok st ∧
      st.seq = (lvl (bitAt L) k S).toArray ∧ st.shift = k + 1 ∧ st.bvs.size = k ∧
      st.lens = Array.replicate k S.length ∧
      ∀ j (h : j < st.bvs.size), RSW.Represents st.bvs[j] (bitsAt (bitAt L) j S) := by
  induction k with
  | zero =>
    refine ⟨_, rfl, rfl, rfl, rfl, rfl, ?_⟩
    intro j h; simp at h
  | succ k ih =>
    obtain ⟨st, h1, h2, h3, h4, h5, h6⟩ := ih (by omega)
    obtain ⟨seq, shift, bvs, lens⟩ := st
    simp only at h2 h3 h4 h5 h6
    subst h2 h3 h5
    obtain ⟨r, hrep, hstep⟩ := levelStep_ok c hLaw L k (by omega) hLW (lvl (bitAt L) k S)
      (by rw [lvl_length]; exact hS) bvs (Array.replicate k S.length)
    rw [lvl_length] at hstep
    refine ⟨{ seq := (part (bitAt L k) (lvl (bitAt L) k S)).toArray, shift := k + 2,
              bvs := bvs.push r, lens := (Array.replicate k S.length).push S.length },
      ?_, ?_, ?_, ?_, ?_, ?_⟩
    · rw [List.range_succ, List.foldlM_append, h1, ok_bind]
      simp only [List.foldlM_cons, List.foldlM_nil, hstep]
      rfl
    · rfl
    · rfl
    · simp [h4]
    · simp [Array.replicate_succ]
    · intro j h
      simp only [Array.size_push] at h
      by_cases hj : j < bvs.size
      · simp only [Array.getElem_push_lt hj]
        exact h6 j hj
      · have : j = bvs.size := by omega
        subst this
        simp only [Array.getElem_push_eq]
        rw [h4]
        exact hrep

/-! ## the constructor -/

/-- the representation invariant of a plain binary wavelet matrix `t` for the sequence `S` -/
structure WMb (c : Cfg) (S : List Nat) (t : WT) : Prop where
  n_eq : t.n = S.length
  empty : S = [] → t = {}
  sigma_eq : S ≠ [] → t.sigma = some (Spec.maxNat S)
  nLevels_eq : S ≠ [] → t.nLevels = Spec.bitlen (Spec.maxNat S)
  nLevels_le : t.nLevels ≤ c.W
  levels : S ≠ [] → Levels t.nLevels S t.bvs
  codes : t.codesEncode = none ∧ t.codesDecode = none
  lens_eq : t.lens = Array.replicate t.nLevels S.length
  bound : ∀ x ∈ S, x < 2 ^ c.W
  len_lt : S.length < 2 ^ 43

theorem new_nil (c : Cfg) : BinWT.new c false ([] : List Nat).toArray [] = .ok {} := rfl

theorem new_ok (c : Cfg) (hW : 0 < c.W) (hLaw : BinLevelLaw) (S : List Nat)
    (hb : ∀ x ∈ S, x < 2 ^ c.W) (hS : S.length < 2 ^ 43) :
    ∃ t, BinWT.new c false S.toArray [] = .ok t ∧ WMb c S t := by
  cases hS0 : S with
  | nil =>
    refine ⟨{}, rfl, ⟨rfl, fun _ => rfl, fun h => absurd rfl h, fun h => absurd rfl h,
      Nat.zero_le _, fun h => absurd rfl h, ⟨rfl, rfl⟩, rfl, by simp, by simp⟩⟩
  | cons y ys =>
    rw [← hS0]
    have hne : S ≠ [] := by rw [hS0]; simp
    have hmax : Spec.maxNat S < 2 ^ c.W := maxNat_lt (Nat.pow_pos (by omega)) hb
    have hLW := bitlen_le hW hmax
    obtain ⟨st, h1, h2, h3, h4, h5, h6⟩ :=
      levels_loop c hLaw (Spec.bitlen (Spec.maxNat S)) hLW S hS _ (Nat.le_refl _)
    have hemp : S.toArray.isEmpty = false := by rw [hS0]; rfl
    have hfold : S.toArray.foldl max 0 = Spec.maxNat S := by simp [Spec.maxNat]
    refine ⟨{ n := S.length, nLevels := Spec.bitlen (Spec.maxNat S), sigma := some (Spec.maxNat S),
              bvs := st.bvs, lens := st.lens }, ?_, ?_⟩
    · unfold BinWT.new
      simp only [hemp, Bool.false_eq_true, if_false, hfold, msb_ok hW hmax, ok_bind, pure_bind']
      have : Spec.msb (Spec.maxNat S) + 1 = Spec.bitlen (Spec.maxNat S) := rfl
      simp only [this, Option.getD_none, h1, ok_bind]
      rfl
    · exact ⟨rfl, fun h => absurd h hne, fun _ => rfl, fun _ => rfl, hLW,
        fun _ => ⟨h4, h6⟩, ⟨rfl, rfl⟩, h5, hb, hS⟩

end Qwt.BinWM
