import Qwt.Props.C06
import Qwt.Props.C19
import Qwt.Proofs.CodecTree
import Qwt.Proofs.PfsBuild

/-! Closure 2 (rank/select bit vectors): every `RSWide` / `RSNarrow` / `PrefetchSupport` value
produced by its constructor is well-formed for the serialisation codec (`Codec.rswWF`,
`Codec.rsnWF`, `Codec.pfsWF`), so the round-trip theorems of C11 apply to it without any
extra hypothesis.

* `RSW.Inv` pins every stored word, so `rswWF_of_inv` needs nothing else.
* `RSN.Inv` does not pin the sub-counter words of the sentinel blocks (indices `2q+1` with
  `nLines ≤ q ≤ sentN`): `rsnWF_of_inv` takes their bound as the hypothesis `htail`, and
  `rsnWF_of_new` discharges it from the construction (`finalBrp_all`). -/
namespace Qwt.Closure2
open Qwt Qwt.BV Qwt.RSBin Qwt.Extracted

theorem p64 : (2:Nat) ^ 64 = 18446744073709551616 := by decide
theorem p43 : (2:Nat) ^ 43 = 8796093022208 := by decide

theorem all_of_getD {a : Array Nat} {P : Nat → Prop} (h : ∀ i, i < a.size → P (a.getD i 0)) :
    ∀ x ∈ a.toList, P x := by
  intro x hx
  obtain ⟨j, hj, rfl⟩ := List.mem_iff_getElem.mp hx
  simp only [Array.length_toList] at hj
  have := h j hj
  simpa [Array.getD, hj] using this

theorem getD_lt_of_all {a : Array Nat} {B : Nat} (h : ∀ x ∈ a.toList, x < B) (hB : 0 < B) (i : Nat) :
    a.getD i 0 < B := by
  by_cases hi : i < a.size
  · have : a.getD i 0 = a[i] := by simp [Array.getD, hi]
    rw [this]; exact h _ (by simp)
  · have : a.getD i 0 = 0 := by simp [Array.getD, hi]
    rw [this]; exact hB

theorem R_le_len (s : List Bool) (i : Nat) : R s i ≤ s.length := by
  have h1 := rank_mono true s (i := i) (j := i + s.length) (by omega)
  have h3 := rank_of_ge true s (i + s.length) (by omega)
  have h4 := List.count_le_length (a := true) (l := s)
  unfold R; omega

/-- the word-level reading of a bit vector already makes it well-formed -/
theorem bvWF_of_holds {b : BitVector} {s : List Bool} (h : Holds b s) (hn : s.length < 2 ^ 64) :
    Codec.bvWF b := by
  have hsz := h.size
  rw [p64] at hn
  refine ⟨by omega, by rw [p64]; omega, all_of_getD (fun i hi => h.lt i hi),
    by rw [h.nBits, p64]; exact hn, ?_⟩
  rw [h.nOnes, p64]; exact Nat.lt_of_le_of_lt List.count_le_length hn

/-- a hint array with its sentinel: small, and every entry is a group index -/
theorem hint_samples_wf {D : Nat → Nat} {P n : Nat} {smp : Array Nat} {hint : Nat}
    (hv : HintInv D P n smp hint) (sent N : Nat)
    (hsz : D n / P + 2 < 2 ^ 64) (hn : n ≤ 8 * N) (hN : N ≤ 2 ^ 64) (hs : sent < 2 ^ 64) :
    (smp.push sent).size < 2 ^ 64 ∧ ∀ x ∈ (smp.push sent).toList, x < 2 ^ 64 := by
  have hsize := hv.size
  have hh := hv.hint_eq
  rw [p64] at *
  refine ⟨by simp only [Array.size_push]; omega, all_of_getD ?_⟩
  intro i hi
  simp only [Array.size_push] at hi
  by_cases hlt : i < smp.size
  · rw [getD_push_lt _ _ _ hlt]
    by_cases h0 : i = 0
    · subst h0; rw [hv.zero]; decide
    · obtain ⟨m, hm, e, _, _⟩ := hv.pos i (by omega) (by omega)
      rw [e]; omega
  · have : i = smp.size := by omega
    subst this; rw [getD_push_eq]; exact hs

theorem samplesWF_of {a : Array (Array Nat)} (hsz : a.size = 2)
    (h : ∀ bit : Bool, (a.getD (if bit then 1 else 0) #[]).size < 2 ^ 64 ∧
      ∀ x ∈ (a.getD (if bit then 1 else 0) #[]).toList, x < 2 ^ 64) :
    Codec.samplesWF 2 (2 ^ 64) a := by
  refine ⟨hsz, ?_⟩
  intro s hs
  obtain ⟨j, hj, rfl⟩ := List.mem_iff_getElem.mp hs
  simp only [Array.length_toList] at hj
  have hj2 : j = 0 ∨ j = 1 := by omega
  rcases hj2 with rfl | rfl
  · have := h false
    simpa [Array.getD, hj] using this
  · have := h true
    simpa [Array.getD, hj] using this

/-! ### RSWide -/

theorem rswWF_of_inv {r : RSW.RSWide} {s : List Bool} (h : RSW.Inv r s) : Codec.rswWF r := by
  have hlen := h.len
  have hnl := h.holds.nLines_eq
  have hl64 : s.length < 2 ^ 64 := by rw [p64]; rw [p43] at hlen; omega
  have hnsb : RSW.nsb r.bv ≤ nLines r.bv := by unfold RSW.nsb; omega
  refine ⟨bvWF_of_holds h.holds hl64, ?_, all_of_getD ?_, samplesWF_of h.ssize ?_, ?_⟩
  · rw [h.smSize, p64]; rw [p43] at hlen; omega
  · intro i hi
    rw [h.smSize] at hi
    by_cases hq : i < RSW.nsb r.bv
    · rw [h.md i hq]
      have := RSW.packN_cq_lt s hlen i 7 (by omega)
      have e : 44 + 12 * 7 = 128 := rfl
      rw [e] at this
      exact this
    · have : i = RSW.nsb r.bv := by omega
      subst this
      rw [h.last]
      have hc := RSW.count_lt s hlen
      have e : (2:Nat) ^ 128 = 2 ^ 44 * 2 ^ 84 := by decide
      rw [e]
      apply Nat.mul_lt_mul_of_pos_right _ (by decide)
      have : (2:Nat) ^ 43 < 2 ^ 44 := by decide
      omega
  · intro bit
    obtain ⟨smp, hint, e, hh⟩ := h.samples bit
    rw [e]
    -- no assumption on the period: a quotient is at most its numerator
    have hC := C_le bit s (512 * nLines r.bv)
    have hd : C bit s (512 * nLines r.bv) / RSW.per bit ≤ 512 * nLines r.bv :=
      Nat.le_trans (Nat.div_le_self _ _) hC
    rw [p43] at hlen
    exact hint_samples_wf hh _ (nLines r.bv)
      (by rw [p64]; show C bit s (512 * nLines r.bv) / RSW.per bit + 2 < _; omega)
      (by omega) (by rw [p64]; omega) (by rw [p64]; omega)
  · rw [h.nZeros, p64]
    have := List.count_le_length (a := false) (l := s)
    rw [p43] at hlen; omega

theorem rswWF_of_holds {b : BitVector} {s : List Bool} (hh : Holds b s) (hl : s.length < 2 ^ 43)
    {r : RSW.RSWide} (e : RSW.new b = .ok r) : Codec.rswWF r := by
  obtain ⟨r', e', _, hinv⟩ := RSW.new_inv hh hl
  rw [e] at e'
  cases e'
  exact rswWF_of_inv hinv

theorem rswWF_of_new {b : BitVector} (hb : BV.Inv b) (hl : (BV.abs b).length < 2 ^ 43)
    {r : RSW.RSWide} (e : RSW.new b = .ok r) : Codec.rswWF r :=
  rswWF_of_holds (Props.C06.holds_of_inv hb) hl e

theorem rsw_mkLevel_wf (bits : List Bool) (hl : bits.length < 2 ^ 43) {r : RSW.RSWide}
    (e : RSW.mkLevel bits = .ok r) : Codec.rswWF r := by
  have h64 : bits.length < two64 := by
    have : (2:Nat) ^ 43 < two64 := by decide
    omega
  obtain ⟨b, hb, hh⟩ := Props.C06.holds_fromBools bits h64
  unfold RSW.mkLevel at e
  have : (bits.foldlM (fun (b : BitVectorMut) x => BV.push b x) {} : M BitVector) = .ok b := hb
  rw [this] at e
  exact rswWF_of_holds hh hl e

/-! ### RSNarrow -/

theorem rsnWF_of_inv {r : RSN.RSNarrow} {s : List Bool} (h : RSN.Inv r s) (hn : s.length < 2 ^ 64)
    (htail : ∀ q, nLines r.bv ≤ q → q ≤ RSN.sentN r.bv →
      r.blockRankPairs.getD (2 * q + 1) 0 < 2 ^ 64) : Codec.rsnWF r := by
  have hnl := h.holds.nLines_eq
  have hsn : RSN.sentN r.bv ≤ nLines r.bv + 1 := by unfold RSN.sentN; split <;> omega
  refine ⟨bvWF_of_holds h.holds hn, ?_, all_of_getD ?_, samplesWF_of h.ssize ?_⟩
  · rw [h.brpSize, p64]; rw [p64] at hn; omega
  · intro i hi
    rw [h.brpSize] at hi
    by_cases hp : i % 2 = 0
    · have := h.abs (i / 2) (by omega)
      rw [show 2 * (i / 2) = i by omega] at this
      rw [this]
      exact Nat.lt_of_le_of_lt (R_le_len s _) hn
    · by_cases hq : i / 2 < nLines r.bv
      · have := h.sub (i / 2) hq
        rw [show 2 * (i / 2) + 1 = i by omega] at this
        rw [this]
        exact Nat.lt_trans (RSN.subOf_fields s _).1 (by decide)
      · have := htail (i / 2) (by omega) (by omega)
        rw [show 2 * (i / 2) + 1 = i by omega] at this
        exact this
  · intro bit
    obtain ⟨smp, hint, e, hh⟩ := h.samples bit
    rw [e]
    -- the only assumption on the period: `2 ≤ per` (the length may be anything below `2^64`,
    -- so the padded length alone is not known to fit in 64 bits)
    have hp : 2 ≤ RSN.per bit := by cases bit <;> decide
    have hC := C_le bit s (64 * (8 * nLines r.bv))
    have hd : C bit s (64 * (8 * nLines r.bv)) / RSN.per bit ≤ 64 * (8 * nLines r.bv) / 2 :=
      Nat.le_trans (Nat.div_le_div_left hp (by decide)) (Nat.div_le_div_right hC)
    rw [p64] at hn
    exact hint_samples_wf hh _ (nLines r.bv)
      (by rw [p64]; show C bit s (64 * (8 * nLines r.bv)) / RSN.per bit + 2 < _; omega)
      (Nat.le_refl _) (by rw [p64]; omega) (by rw [p64]; omega)

/-- every word of the array of rank pairs built by `RSNarrow::new` is a `u64` -/
theorem finalBrp_all {b : BitVector} {s : List Bool} (h : Holds b s) (hn : s.length < 2 ^ 64) :
    2 ≤ (RSN.finalBrp b (RSN.buildAll b)).size ∧
      ∀ x ∈ (RSN.finalBrp b (RSN.buildAll b)).toList, x < 2 ^ 64 := by
  have hv := RSN.BInv.fold h (8 * nLines b) (Nat.le_refl _)
  have hst : (List.range (8 * nLines b)).foldl
      (fun st k => RSN.buildWord st (k / 8) (k % 8) (b.data.getD k 0)) {} = RSN.buildAll b := rfl
  rw [hst] at hv
  generalize RSN.buildAll b = st at hv
  have e8 : 8 * nLines b / 8 = nLines b := by omega
  have e0 : 8 * nLines b % 8 = 0 := by omega
  have hcs : st.curSubrank = 0 := by
    rw [hv.curSubrank, e8, show 64 * (8 * nLines b) = 512 * nLines b by omega]; omega
  have hsr : st.subranks = 0 := by rw [hv.subranks, e0]; rfl
  have hbs := hv.brpSize
  rw [e8] at hbs
  have hbrp : ∀ x ∈ st.brp.toList, x < 2 ^ 64 := all_of_getD (by
    intro i hi
    rw [hbs] at hi
    by_cases hp : i % 2 = 0
    · have := hv.brpAbs (i / 2) (by omega)
      rw [show 2 * (i / 2) = i by omega] at this
      rw [this]
      exact Nat.lt_of_le_of_lt (R_le_len s _) hn
    · have := hv.brpSub (i / 2) (by omega)
      rw [show 2 * (i / 2) + 1 = i by omega] at this
      rw [this]
      exact Nat.lt_trans (RSN.subOf_fields s _).1 (by decide))
  have hnr : st.nextRank < 2 ^ 64 := by
    rw [hv.nextRank]; exact Nat.lt_of_le_of_lt (R_le_len s _) hn
  unfold RSN.finalBrp
  simp only [hcs, hsr, RSN.fold_zero]
  split
  · refine ⟨by simp only [Array.size_push]; omega, ?_⟩
    intro x hx
    simp only [Array.toList_push, List.mem_append, List.mem_singleton] at hx
    rcases hx with ((hx | rfl) | rfl) | rfl
    · exact hbrp x hx
    · decide
    · exact hnr
    · decide
  · refine ⟨by simp only [Array.size_push]; omega, ?_⟩
    intro x hx
    simp only [Array.toList_push, List.mem_append, List.mem_singleton] at hx
    rcases hx with hx | rfl
    · exact hbrp x hx
    · decide

theorem rsnWF_of_holds {b : BitVector} {s : List Bool} (hh : Holds b s) (hn : s.length < 2 ^ 64)
    {r : RSN.RSNarrow} (e : RSN.new b = .ok r) : Codec.rsnWF r := by
  obtain ⟨r', e', _, hinv⟩ := RSN.new_inv hh
  rw [e] at e'
  cases e'
  obtain ⟨hsz, hall⟩ := finalBrp_all hh hn
  have hne := RSN.new_eq b (by omega)
  rw [e] at hne
  have hbrp : r.blockRankPairs = RSN.finalBrp b (RSN.buildAll b) := by
    cases hne; rfl
  refine rsnWF_of_inv hinv hn ?_
  intro q _ _
  rw [hbrp]
  exact getD_lt_of_all hall (by decide) _

theorem rsnWF_of_new {b : BitVector} (hb : BV.Inv b) (hn : b.nBits < 2 ^ 64)
    {r : RSN.RSNarrow} (e : RSN.new b = .ok r) : Codec.rsnWF r :=
  rsnWF_of_holds (Props.C06.holds_of_inv hb) (by rw [BV.abs_length]; exact hn) e

/-! ### PrefetchSupport -/

theorem pfsWF_of_new {qv : QV.QVector} (hq : QV.Inv qv) (hl : QV.len qv < 2 ^ 43)
    {p : PFS.PrefetchSupport} (e : PFS.new qv Extracted.pfsSampleShift = .ok p) : Codec.pfsWF p := by
  have hlen := QV.len_ok qv
  have hn : (QV.abs qv).length + 1 < two64 := by
    have : (2:Nat) ^ 43 + 1 < two64 := by decide
    omega
  obtain ⟨bv, cnt, bit, eb, hI⟩ := PfsP.build_fold qv hq hn _ (Nat.le_refl _)
  let r : Nat → RSN.RSNarrow := fun k =>
    match RSN.new (bv k) with
    | .ok x => x
    | .error _ => default
  have hr : ∀ k, k < 4 → RSN.new (bv k) = .ok (r k) ∧ Codec.rsnWF (r k) := by
    intro k hk
    obtain ⟨_, _, hinv, hlk, _⟩ := hI k hk
    obtain ⟨x, e1, _, _⟩ := Props.C06.rsn_new_inv (Props.C06.holds_of_inv hinv)
    have : r k = x := by simp only [r, e1]
    rw [this]
    refine ⟨e1, rsnWF_of_new hinv ?_ e1⟩
    rw [← BV.abs_length, hlk]
    have := PfsP.mOf_le (Nat.le_refl (QV.abs qv).length)
    have h2 : (2:Nat) ^ 43 < 2 ^ 64 := by decide
    omega
  have hp : PFS.new qv Extracted.pfsSampleShift = .ok ⟨PfsP.mk4 r, Extracted.pfsSampleShift⟩ := by
    unfold PFS.new
    rw [PfsP.one_shiftLeft_shift, QV.len_ok]
    show (List.foldlM (PFS.buildStep qv PfsP.rate) { } (List.range (QV.abs qv).length) >>= _) = _
    rw [eb, PfsP.ok_bind]
    show (PfsP.mk4 bv).mapM RSN.new >>= _ = _
    rw [PfsP.mapM4 RSN.new bv r (fun k hk => (hr k hk).1)]
    rfl
  rw [e] at hp
  cases hp
  refine ⟨⟨?_, ?_⟩, ?_⟩
  · show (4 : Nat) < 2 ^ 64
    decide
  rotate_left
  · show Extracted.pfsSampleShift < 2 ^ 64
    decide
  intro x hx
  have hx' : x ∈ [r 0, r 1, r 2, r 3] := hx
  simp only [List.mem_cons, List.mem_nil_iff, or_false] at hx'
  rcases hx' with rfl | rfl | rfl | rfl
  · exact (hr 0 (by decide)).2
  · exact (hr 1 (by decide)).2
  · exact (hr 2 (by decide)).2
  · exact (hr 3 (by decide)).2

end Qwt.Closure2
