import Qwt.Model.Huff

/-!
C02 — definitions for the correctness statement of `craft_wm_codes`
(`Qwt.Huff.craftWmCodes`): digit view of a `PrefixCode`, the wavelet-matrix validity
predicate `WMValid` and the input condition `LensOK` (near-complete Kraft sum).
-/
namespace Qwt.Props.C02
open Qwt Qwt.Huff

/-- bits per fragment: 2 for the quad routine (`D = 4`), 1 for the binary one -/
def bitsOf (D : Nat) : Nat := if D == 4 then 2 else 1

/-- the fragments (base-`D` digits) of `cd.content`, most significant first,
    `cd.len / bits` of them -/
def digits (D : Nat) (cd : PrefixCode) : List Nat :=
  (List.range (cd.len / bitsOf D)).map
    (fun t => cd.content / D ^ (cd.len / bitsOf D - 1 - t) % D)

/-- value of a digit string read with the LAST digit most significant
    (so `revLex x < revLex y` for equal lengths is the reverse-lexicographic order) -/
def revLex (D : Nat) : List Nat → Nat
  | [] => 0
  | d :: ds => d + D * revLex D ds

/-- validity of a code table for a Huffman-shaped wavelet matrix -/
structure WMValid (D : Nat) (codes : Array PrefixCode) (occurring : List Nat) : Prop where
  /-- (1a) every occurring symbol has a non-empty code (and is inside the table) -/
  occ_len : ∀ s ∈ occurring, s < codes.size ∧ codes[s]!.len ≠ 0
  /-- (1b) every other entry is the empty code -/
  nonocc_len : ∀ s : Nat, s ∉ occurring → codes[s]!.len = 0
  /-- (2) prefix-free -/
  prefix_free : ∀ x ∈ occurring, ∀ y ∈ occurring, x ≠ y →
    ¬ (digits D codes[x]! <+: digits D codes[y]!)
  /-- (3) matrix order: a code ending at level `L` is reverse-lexicographically greater
      than the `(L+1)`-digit prefix of every code that continues past level `L` -/
  matrix_order : ∀ x ∈ occurring, ∀ y ∈ occurring, ∀ L,
    (digits D codes[y]!).length = L + 1 → (digits D codes[x]!).length > L + 1 →
    revLex D ((digits D codes[x]!).take (L + 1)) < revLex D (digits D codes[y]!)
  /-- (4) every code fits in 32 bits, is a whole number of fragments and `content` has no
      bits above `len` -/
  len_le : ∀ s : Nat, codes[s]!.len ≤ 32 ∧ bitsOf D ∣ codes[s]!.len ∧ codes[s]!.content < 2 ^ codes[s]!.len

/-- maximal length (in fragments) -/
def lmax (lens : List (Nat × Nat)) : Nat := (lens.map (·.2)).foldr max 0

/-- `Σ D^(L − len)` -/
def kraft (D L : Nat) (lens : List (Nat × Nat)) : Nat := (lens.map (fun p => D ^ (L - p.2))).sum

/-- admissible code lengths: what a `D`-ary Huffman construction yields -/
structure LensOK (D : Nat) (lens : List (Nat × Nat)) : Prop where
  pos : ∀ p ∈ lens, 1 ≤ p.2
  nodup : (lens.map (·.1)).Nodup
  kraft_le : kraft D (lmax lens) lens ≤ D ^ lmax lens
  near : D ^ lmax lens ≤ kraft D (lmax lens) lens + (D - 1)
  width : lmax lens * bitsOf D ≤ 32

end Qwt.Props.C02
