import Qwt.Proofs.Interfaces
import Qwt.Proofs.BinWMSelect

/-!
Simulation: the loops of the model `Qwt.BinWT` (plain binary wavelet matrix, `compressed =
false`), run on levels that `RSW.Represents` the bit lists of the list-level matrix, compute
the list-level walks of `Qwt.Proofs.BinWM`.  Core Lean only.
-/
set_option linter.unusedSimpArgs false

namespace Qwt.BinWM
open Qwt Qwt.BinWT Qwt.RSW

/-- bit of `x` at level `k` of an `L`-level matrix (most significant of the `L` bits first) -/
def bitAt (L k x : Nat) : Bool := (x >>> (L - (k + 1))) % 2 == 1

/-- the levels of the model represent the bit lists of the list-level matrix of `S` -/
structure Levels (L : Nat) (S : List Nat) (bvs : Array RSWide) : Prop where
  size_eq : bvs.size = L
  repr : ∀ k (h : k < bvs.size), RSW.Represents bvs[k] (bitsAt (bitAt L) k S)

theorem ok_bind {α β : Type} (a : α) (f : α → M β) : (Except.ok a >>= f) = f a := rfl
theorem pure_bind' {α β : Type} (a : α) (f : α → M β) : ((pure a : M α) >>= f) = f a := rfl

theorem ite_bind {α β : Type} (b : Prop) [Decidable b] (x y : M α) (f : α → M β) :
    (if b then x >>= f else y >>= f) = (if b then x else y) >>= f := by
  split <;> rfl

theorem bitOf_ok (repr L k : Nat) (h : k < L) : bitOf repr L k = .ok (bitAt L k repr) := by
  have : k + 1 ≤ L := h
  simp [bitOf, sub, this, bitAt, Nat.and_one_is_mod, bind, Except.bind, pure, Except.pure]

theorem idx_ok {α : Type} (a : Array α) (i : Nat) (h : i < a.size) : idx a i = .ok a[i] := by
  simp [idx, h]

theorem rank_true_add_false (j : Nat) (bs : List Bool) (h : j ≤ bs.length) :
    Spec.rank true j bs + Spec.rank false j bs = j := by
  unfold Spec.rank
  have := List.length_eq_countP_add_countP (fun b => b == true) (l := bs.take j)
  rw [List.count_eq_countP, List.count_eq_countP]
  have e : (fun a => decide ¬(a == true) = true) = (fun b : Bool => b == false) := by
    funext a; cases a <;> rfl
  rw [e] at this
  rw [List.length_take, Nat.min_eq_left h] at this
  exact this.symm

/-- the position update shared by `rankWalk` and `getUnchecked.go` -/
theorem updPos_ok {bv : RSWide} {bs : List Bool} (hr : RSW.Represents bv bs) (bit : Bool)
    (j : Nat) (hj : j ≤ bs.length) :
    (if bit = true then (pure (Spec.rank true j bs + bv.nZeros) : M Nat)
      else sub j (Spec.rank true j bs)) = .ok (mapPos bit bs j) := by
  have h2 := rank_true_add_false j bs hj
  cases bit
  · have : Spec.rank true j bs ≤ j := by omega
    simp [sub, this, mapPos]; omega
  · simp [mapPos, hr.nZeros_eq, pure, Except.pure]; omega

/-! ## rank -/

theorem rankWalk_ok {L : Nat} {S : List Nat} {t : WT} (hlv : Levels L S t.bvs) (sym i : Nat)
    (f k : Nat) (hfk : f + k = L) :
    rankWalk t sym L f k (blkStart (bitAt L) sym S k + cnt (bitAt L) sym S k i)
        (blkStart (bitAt L) sym S k) =
      .ok (blkStart (bitAt L) sym S L + cnt (bitAt L) sym S L i, blkStart (bitAt L) sym S L) := by
  induction f generalizing k with
  | zero =>
    have : k = L := by omega
    subst this
    rfl
  | succ f ih =>
    have hk : k < L := by omega
    have hks : k < t.bvs.size := by rw [hlv.size_eq]; exact hk
    have hr := hlv.repr k hks
    rw [rankWalk, bitOf_ok _ _ _ hk, ok_bind, idx_ok _ _ hks, ok_bind]
    have hlen : (bitsAt (bitAt L) k S).length = S.length := bitsAt_length _ _ _
    have hp : blkStart (bitAt L) sym S k ≤ (bitsAt (bitAt L) k S).length := by
      have := blkStart_cnt_le (bitAt L) sym S k 0; omega
    have hi : blkStart (bitAt L) sym S k + cnt (bitAt L) sym S k i
        ≤ (bitsAt (bitAt L) k S).length := by
      have := blkStart_cnt_le (bitAt L) sym S k i; omega
    rw [hr.rank1U _ hp, ok_bind, hr.rank1U _ hi, ok_bind]
    simp only [ite_bind]
    rw [updPos_ok hr _ _ hp, ok_bind, updPos_ok hr _ _ hi, ok_bind, walk_step]
    exact ih (k + 1) (by omega)

/-! ## bits -/

theorem bitAt_eq_testBit (L k x : Nat) : bitAt L k x = x.testBit (L - (k + 1)) := by
  rw [bitAt, Nat.testBit_eq_decide_div_mod_eq, Nat.shiftRight_eq_div_pow]
  by_cases h : x / 2 ^ (L - (k + 1)) % 2 = 1 <;> simp [h]

/-- `L` bits determine a value below `2 ^ L` -/
theorem agree_eq_beq (L c x : Nat) (hc : c < 2 ^ L) (hx : x < 2 ^ L) :
    agree (bitAt L) c L x = (x == c) := by
  by_cases hxc : x = c
  · subst hxc; simp [agree_self]
  · have : (x == c) = false := by simpa using hxc
    rw [this]
    cases hag : agree (bitAt L) c L x
    · rfl
    · exfalso
      apply hxc
      apply Nat.eq_of_testBit_eq
      intro i
      by_cases hi : i < L
      · have := agree_bit (bitAt L) c x (j := L - (i + 1)) (k := L) (by omega) hag
        rw [bitAt_eq_testBit, bitAt_eq_testBit] at this
        have e : L - (L - (i + 1) + 1) = i := by omega
        rwa [e] at this
      · have h2 : 2 ^ L ≤ 2 ^ i := Nat.pow_le_pow_right (by omega) (by omega)
        rw [Nat.testBit_lt_two_pow (Nat.lt_of_lt_of_le hx h2),
          Nat.testBit_lt_two_pow (Nat.lt_of_lt_of_le hc h2)]

/-- reassembling the value one bit at a time -/
theorem acc_step (W L k x : Nat) (hk : k < L) (hx : x < 2 ^ W) :
    ((x >>> (L - k)) <<< 1) % 2 ^ W ||| (if bitAt L k x = true then 1 else 0) =
      x >>> (L - (k + 1)) := by
  have e : L - k = (L - (k + 1)) + 1 := by omega
  rw [e, Nat.shiftRight_succ, bitAt]
  generalize hy : x >>> (L - (k + 1)) = y
  have hyx : y ≤ x := by rw [← hy, Nat.shiftRight_eq_div_pow]; exact Nat.div_le_self _ _
  have hb : (if (y % 2 == 1) = true then 1 else 0) = y % 2 := by
    have : y % 2 = 0 ∨ y % 2 = 1 := by omega
    rcases this with h | h <;> simp [h]
  rw [hb]
  have hlt : (y / 2) <<< 1 < 2 ^ W := by rw [Nat.shiftLeft_eq]; omega
  rw [Nat.mod_eq_of_lt hlt, ← Nat.shiftLeft_add_eq_or_of_lt (by omega), Nat.shiftLeft_eq]
  omega

/-! ## get -/

theorem go_ok {L : Nat} {S : List Nat} {t : WT} (c : Cfg) (hlv : Levels L S t.bvs)
    (x j : Nat) (hj : S[j]? = some x) (hx : x < 2 ^ c.W) (f k : Nat) (hfk : f + k = L) :
    getUnchecked.go c false t f k (x >>> (L - k)) (track (bitAt L) S x j k) k = .ok (x, L) := by
  induction f generalizing k with
  | zero =>
    have : k = L := by omega
    subst this
    simp [getUnchecked.go, pure, Except.pure]
  | succ f ih =>
    have hk : k < L := by omega
    have hks : k < t.bvs.size := by rw [hlv.size_eq]; exact hk
    have hr := hlv.repr k hks
    have hlen : (bitsAt (bitAt L) k S).length = S.length := bitsAt_length _ _ _
    have hlt := track_lt (bitAt L) S x j hj k
    have hbit := bitsAt_track (bitAt L) S x j hj k
    have hgetD : (bitsAt (bitAt L) k S).getD (track (bitAt L) S x j k) false = bitAt L k x := by
      rw [List.getD_eq_getElem?_getD, hbit]; rfl
    rw [getUnchecked.go]
    rw [idx_ok _ _ hks, ok_bind, hr.getU _ (by omega), ok_bind, hgetD,
      hr.rank1U _ (by omega), ok_bind]
    simp only [ite_bind]
    rw [updPos_ok hr _ _ (by omega), ok_bind]
    simp only [Bool.false_eq_true, if_false, pure_bind']
    rw [acc_step c.W L k x hk hx]
    exact ih (k + 1) (by omega)

theorem getUnchecked_ok {L : Nat} {S : List Nat} {t : WT} (c : Cfg) (hlv : Levels L S t.bvs)
    (hL : t.nLevels = L) (x j : Nat) (hj : S[j]? = some x) (hx : x < 2 ^ c.W) (hxL : x < 2 ^ L) :
    BinWT.getUnchecked c false t j = .ok x := by
  have h := go_ok c hlv x j hj hx L 0 (by omega)
  have e : x >>> (L - 0) = 0 := by
    rw [Nat.sub_zero, Nat.shiftRight_eq_div_pow]; exact Nat.div_eq_of_lt hxL
  rw [e] at h
  simp only [track] at h
  simp only [BinWT.getUnchecked, hL, h, ok_bind]
  rfl

/-! ## select -/

/-- the `(b, rank_b)` pairs recorded by the downward pass, deepest level first -/
def pathOf (β : Nat → Nat → Bool) (c : Nat) (S : List Nat) : Nat → List (Nat × Nat)
  | 0 => []
  | k + 1 => (blkStart β c S k, Spec.rank (β k c) (blkStart β c S k) (bitsAt β k S)) :: pathOf β c S k

theorem rankB_ok {bv : RSWide} {bs : List Bool} (hr : RSW.Represents bv bs) (bit : Bool)
    (j : Nat) (hne : bs ≠ []) (hj : j ≤ bs.length) :
    (if bit = true then RSW.rank1 bv j else RSW.rank0 bv j) = .ok (some (Spec.rank bit j bs)) := by
  cases bit
  · simp [hr.rank0, hne, hj]
  · simp [hr.rank1, hne, hj]

theorem mapPos_eq (bit : Bool) (bs : List Bool) (j : Nat) {nz : Nat} (hnz : nz = bs.count false) :
    Spec.rank bit j bs + (if bit = true then nz else 0) = mapPos bit bs j := by
  cases bit <;> simp [mapPos, hnz]; omega

theorem selectDown_ok {L : Nat} {S : List Nat} {t : WT} (hlv : Levels L S t.bvs) (hne : S ≠ [])
    (sym : Nat) (f k : Nat) (hfk : f + k = L) :
    selectDown t sym L f k (blkStart (bitAt L) sym S k) (pathOf (bitAt L) sym S k) =
      .ok (some (pathOf (bitAt L) sym S L)) := by
  induction f generalizing k with
  | zero =>
    have : k = L := by omega
    subst this
    rfl
  | succ f ih =>
    have hk : k < L := by omega
    have hks : k < t.bvs.size := by rw [hlv.size_eq]; exact hk
    have hr := hlv.repr k hks
    have hlen : (bitsAt (bitAt L) k S).length = S.length := bitsAt_length _ _ _
    have hbne : bitsAt (bitAt L) k S ≠ [] := by
      intro h; rw [h] at hlen; exact hne (List.eq_nil_of_length_eq_zero hlen.symm)
    have hp : blkStart (bitAt L) sym S k ≤ (bitsAt (bitAt L) k S).length := by
      have := blkStart_cnt_le (bitAt L) sym S k 0; omega
    rw [selectDown, bitOf_ok _ _ _ hk, ok_bind, idx_ok _ _ hks, ok_bind]
    simp only [ite_bind]
    rw [rankB_ok hr _ _ hbne hp, ok_bind]
    simp only
    rw [mapPos_eq _ _ _ hr.nZeros_eq]
    exact ih (k + 1) (by omega)

theorem selB_ok {bv : RSWide} {bs : List Bool} (hr : RSW.Represents bv bs) (bit : Bool) (j : Nat) :
    (if bit = true then RSW.select1 bv j else RSW.select0 bv j) = .ok (Spec.select bit j bs) := by
  cases bit
  · simp [hr.select0]
  · simp [hr.select1]

theorem sub_ok (a b : Nat) (h : b ≤ a) : sub a b = .ok (a - b) := by simp [sub, h]

theorem select_ge {v : Bool} {bs : List Bool} {b res p : Nat}
    (h : Spec.select v (Spec.rank v b bs + res) bs = some p) : b ≤ p := by
  obtain ⟨_, hget, hrank⟩ := select_some h
  apply Classical.byContradiction
  intro hlt
  have hmono := rank_mono v bs (show p + 1 ≤ b by omega)
  rw [rank_succ_of_get hget, hrank] at hmono
  omega

theorem selectUp_ok {L : Nat} {S : List Nat} {t : WT} (hlv : Levels L S t.bvs)
    (hS : S.length < two64) (sym : Nat) (k res : Nat) (hk : k ≤ L) :
    selectUp t sym L (pathOf (bitAt L) sym S k) (k - 1) res =
      .ok (selUp (bitAt L) sym S k res) := by
  induction k generalizing res with
  | zero => rfl
  | succ k ih =>
    have hk' : k < L := by omega
    have hks : k < t.bvs.size := by rw [hlv.size_eq]; exact hk'
    have hr := hlv.repr k hks
    have hlen : (bitsAt (bitAt L) k S).length = S.length := bitsAt_length _ _ _
    rw [pathOf, selectUp, Nat.add_sub_cancel, bitOf_ok _ _ _ hk', ok_bind, idx_ok _ _ hks, ok_bind,
      selUp]
    by_cases hov : Spec.rank (bitAt L k sym) (blkStart (bitAt L) sym S k) (bitsAt (bitAt L) k S)
        + res ≥ two64
    · rw [if_pos hov]
      have hnone : Spec.select (bitAt L k sym)
          (Spec.rank (bitAt L k sym) (blkStart (bitAt L) sym S k) (bitsAt (bitAt L) k S) + res)
          (bitsAt (bitAt L) k S) = none := by
        apply select_none
        have := List.count_le_length (a := bitAt L k sym) (l := bitsAt (bitAt L) k S)
        omega
      rw [hnone]; rfl
    · rw [if_neg hov]
      simp only [ite_bind]
      rw [selB_ok hr, ok_bind]
      cases hq : Spec.select (bitAt L k sym)
          (Spec.rank (bitAt L k sym) (blkStart (bitAt L) sym S k) (bitsAt (bitAt L) k S) + res)
          (bitsAt (bitAt L) k S) with
      | none => rfl
      | some q =>
        simp only
        rw [sub_ok _ _ (select_ge hq), ok_bind]
        exact ih _ (by omega)

end Qwt.BinWM
