import Qwt.Proofs.BinHWMSim

/-!
The decode tables of the Huffman-shaped wavelet trees: `decodeTables codes maxLen` lets
`tableFind` recover every symbol from `(content, len)` of its code, provided two distinct
symbols with non-empty codes never share `(content, len)` (a consequence of
prefix-freeness).  Core Lean only.
-/
set_option linter.unusedSimpArgs false

namespace Qwt.BinWM
open Qwt
open Qwt.Huff (PrefixCode)

theorem mem_insertByKey {α : Type} (key : α → Nat) (x y : α) (l : List α) :
    y ∈ Huff.insertByKey key x l ↔ y = x ∨ y ∈ l := by
  induction l with
  | nil => simp [Huff.insertByKey]
  | cons z zs ih =>
    unfold Huff.insertByKey
    split
    · simp
    · simp only [List.mem_cons, ih]
      constructor
      · rintro (h | h | h)
        · exact Or.inr (Or.inl h)
        · exact Or.inl h
        · exact Or.inr (Or.inr h)
      · rintro (h | h | h)
        · exact Or.inr (Or.inl h)
        · exact Or.inl h
        · exact Or.inr (Or.inr h)

theorem mem_foldl_insert {α : Type} (key : α → Nat) (l acc : List α) (y : α) :
    y ∈ l.foldl (fun acc x => Huff.insertByKey key x acc) acc ↔ y ∈ acc ∨ y ∈ l := by
  induction l generalizing acc with
  | nil => simp
  | cons x xs ih =>
    rw [List.foldl_cons, ih, mem_insertByKey]
    simp only [List.mem_cons]
    constructor
    · rintro ((h | h) | h)
      · exact Or.inr (Or.inl h)
      · exact Or.inl h
      · exact Or.inr (Or.inr h)
    · rintro (h | h | h)
      · exact Or.inl (Or.inr h)
      · exact Or.inl (Or.inl h)
      · exact Or.inr h

theorem mem_sortByKey {α : Type} (key : α → Nat) (l : List α) (y : α) :
    y ∈ Huff.sortByKey key l ↔ y ∈ l := by
  unfold Huff.sortByKey
  rw [mem_foldl_insert]; simp

/-- one step of the filling loop of `decodeTables` -/
def fillStep (codes : Array PrefixCode) (acc : Array (List (Nat × Nat))) (i : Nat) :
    Array (List (Nat × Nat)) :=
  if codes[i]!.len != 0 then acc.modify codes[i]!.len (fun l => l ++ [(codes[i]!.content, i)])
  else acc

theorem size_fill (codes : Array PrefixCode) (is : List Nat) (acc : Array (List (Nat × Nat))) :
    (is.foldl (fillStep codes) acc).size = acc.size := by
  induction is generalizing acc with
  | nil => rfl
  | cons i is ih =>
    rw [List.foldl_cons, ih]
    unfold fillStep
    split <;> simp

theorem mem_fill (codes : Array PrefixCode) (is : List Nat) (acc : Array (List (Nat × Nat)))
    (l : Nat) (hl : l < acc.size) (e : Nat × Nat) :
    e ∈ ((is.foldl (fillStep codes) acc)[l]?.getD []) ↔
      e ∈ (acc[l]?.getD []) ∨
        ∃ i ∈ is, codes[i]!.len ≠ 0 ∧ codes[i]!.len = l ∧ e = (codes[i]!.content, i) := by
  induction is generalizing acc with
  | nil => simp
  | cons i is ih =>
    rw [List.foldl_cons, ih _ (by unfold fillStep; split <;> simp [hl])]
    unfold fillStep
    by_cases h0 : codes[i]!.len = 0
    · simp [h0]
    · have hb : (codes[i]!.len != 0) = true := by simpa using h0
      rw [if_pos hb, Array.getElem?_modify]
      by_cases hil : codes[i]!.len = l
      · rw [if_pos hil, Array.getElem?_eq_getElem hl]
        simp only [Option.map_some, Option.getD_some, List.mem_append, List.mem_singleton,
          List.mem_cons, exists_eq_or_imp, List.not_mem_nil, or_false]
        constructor
        · rintro ((h | h) | h)
          · exact Or.inl h
          · exact Or.inr (Or.inl ⟨h0, hil, h⟩)
          · exact Or.inr (Or.inr h)
        · rintro (h | ⟨_, _, h⟩ | h)
          · exact Or.inl (Or.inl h)
          · exact Or.inl (Or.inr h)
          · exact Or.inr h
      · rw [if_neg hil]
        simp only [List.mem_cons, exists_eq_or_imp]
        constructor
        · rintro (h | h)
          · exact Or.inl h
          · exact Or.inr (Or.inr h)
        · rintro (h | ⟨_, h, _⟩ | h)
          · exact Or.inl h
          · exact absurd h hil
          · exact Or.inr h

theorem foldl_max_len_le (codes : List PrefixCode) (a : Nat) (cd : PrefixCode)
    (h : cd ∈ codes ∨ cd.len ≤ a) : cd.len ≤ codes.foldl (fun m x => max m x.len) a := by
  induction codes generalizing a with
  | nil => simpa using h
  | cons y ys ih =>
    simp only [List.foldl_cons]
    apply ih
    rcases h with h | h
    · rcases List.mem_cons.mp h with rfl | h
      · right; omega
      · left; exact h
    · right; omega

theorem len_le_maxLen (codes : Array PrefixCode) (x : Nat) :
    clen codes x ≤ codes.foldl (fun m x => max m x.len) 0 := by
  unfold clen
  by_cases hx : x < codes.size
  · rw [getElem!_pos codes x hx, ← Array.foldl_toList]
    exact foldl_max_len_le _ _ _ (Or.inl (by simp))
  · have : codes[x]! = default := by
      rw [getElem!_def, Array.getElem?_eq_none (by omega)]
    rw [this]; exact Nat.zero_le _

/-- the decode tables find every coded symbol back -/
theorem decodeTables_ok (codes : Array PrefixCode) (S : List Nat)
    (hin : ∀ x ∈ S, x < codes.size ∧ clen codes x ≠ 0)
    (huniq : ∀ x ∈ S, ∀ i, codes[i]!.len ≠ 0 → codes[i]!.len = codes[x]!.len →
      codes[i]!.content = codes[x]!.content → i = x) :
    DecOK codes (Huff.decodeTables codes (codes.foldl (fun m x => max m x.len) 0)) S := by
  intro x hx
  obtain ⟨hxs, hx0⟩ := hin x hx
  have hle := len_le_maxLen codes x
  generalize codes.foldl (fun m x => max m x.len) 0 = maxLen at hle
  unfold Huff.decodeTables
  have hfold : (List.range codes.size).foldl (fun (acc : Array (List (Nat × Nat))) i =>
        let cd := codes[i]!
        if cd.len != 0 then acc.modify cd.len (fun l => l ++ [(cd.content, i)]) else acc)
        (Array.replicate (maxLen + 1) []) =
      (List.range codes.size).foldl (fillStep codes) (Array.replicate (maxLen + 1) []) := rfl
  simp only [hfold]
  have hsz : clen codes x < ((List.range codes.size).foldl (fillStep codes)
      (Array.replicate (maxLen + 1) [])).size := by
    rw [size_fill, Array.size_replicate]; omega
  rw [Array.getElem?_map, Array.getElem?_eq_getElem hsz]
  refine ⟨_, rfl, ?_⟩
  have hmem := fun e => mem_fill codes (List.range codes.size) (Array.replicate (maxLen + 1) [])
    (clen codes x) (by rw [Array.size_replicate]; omega) e
  rw [Array.getElem?_eq_getElem hsz] at hmem
  simp only [Option.getD_some, Array.getElem?_replicate, List.mem_range] at hmem
  have hrep : (if clen codes x < maxLen + 1 then some ([] : List (Nat × Nat)) else none).getD [] = [] := by
    split <;> rfl
  simp only [hrep, List.not_mem_nil, false_or] at hmem
  generalize ((List.range codes.size).foldl (fillStep codes)
      (Array.replicate (maxLen + 1) []))[clen codes x] = row at hmem
  unfold Huff.tableFind
  simp only [List.toList_toArray]
  have hxin : (codes[x]!.content, x) ∈ Huff.sortByKey (fun e => e.1) row := by
    rw [mem_sortByKey, hmem]
    exact ⟨x, hxs, hx0, rfl, rfl⟩
  cases hf : (Huff.sortByKey (fun e => e.1) row).find? (fun e => e.1 == codes[x]!.content) with
  | none =>
    have := List.find?_eq_none.mp hf _ hxin
    simp at this
  | some e =>
    have he1 := List.find?_some hf
    have he2 := List.mem_of_find?_eq_some hf
    rw [mem_sortByKey, hmem] at he2
    obtain ⟨i, _, hi0, hil, rfl⟩ := he2
    have : i = x := huniq x hx i hi0 hil (by simpa using he1)
    subst this
    rfl

end Qwt.BinWM
