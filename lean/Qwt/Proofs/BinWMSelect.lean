import Qwt.Proofs.BinWM

/-!
Pure list-level binary wavelet matrix, continued: following an element down (`get`) and the
upward pass of `select`.  Core Lean only.
-/
set_option linter.unusedSimpArgs false

namespace Qwt.BinWM
open Qwt

variable {α : Type}

/-! ## `get`: following one element down -/

/-- position at level `k` of the element `x` that sits at position `j` of `S` -/
def track (β : Nat → α → Bool) (S : List α) (x : α) (j : Nat) : Nat → Nat
  | 0 => j
  | k + 1 => mapPos (β k x) (bitsAt β k S) (track β S x j k)

theorem track_get (β : Nat → α → Bool) (S : List α) (x : α) (j : Nat) (h : S[j]? = some x)
    (k : Nat) : (lvl β k S)[track β S x j k]? = some x := by
  induction k with
  | zero => exact h
  | succ k ih =>
    rw [lvl, track, bitsAt]
    exact part_getElem (β k) _ _ x ih

theorem track_lt (β : Nat → α → Bool) (S : List α) (x : α) (j : Nat) (h : S[j]? = some x)
    (k : Nat) : track β S x j k < S.length := by
  have := (List.getElem?_eq_some_iff.mp (track_get β S x j h k)).1
  rwa [lvl_length] at this

theorem bitsAt_track (β : Nat → α → Bool) (S : List α) (x : α) (j : Nat) (h : S[j]? = some x)
    (k : Nat) : (bitsAt β k S)[track β S x j k]? = some (β k x) := by
  rw [bitsAt, List.getElem?_map, track_get β S x j h k]; rfl

/-! ## `select`: the upward pass -/

/-- composition of two selections: the `res`-th element satisfying `q ∧ f = v` is the
    `j`-th element satisfying `q`, where `j` is the position of the `res`-th `v` among the
    `q`-elements -/
theorem select_comp (q f : α → Bool) (v : Bool) (S : List α) (res j : Nat)
    (h : Spec.select v res ((S.filter q).map f) = some j) :
    Spec.select true res (S.map (fun x => q x && (f x == v))) = Spec.select true j (S.map q) := by
  obtain ⟨hj, hget, hrank⟩ := select_some h
  rw [List.length_map] at hj
  have hjc : j < (S.map q).count true := by
    rw [count_map]
    have e : (fun x => q x == true) = q := by funext y; cases q y <;> rfl
    rw [e, List.countP_eq_length_filter]; exact hj
  obtain ⟨m, hm⟩ := select_isSome hjc
  rw [hm]
  obtain ⟨hml, hmget, hmrank⟩ := select_some hm
  rw [List.length_map] at hml
  rw [select_eq_some_iff]
  have hSm : S[m]? = some S[m] := List.getElem?_eq_getElem hml
  have hqm : q S[m] = true := by
    rw [List.getElem?_map, hSm] at hmget
    simpa using hmget
  have e : (fun x => q x == true) = q := by funext y; cases q y <;> rfl
  rw [rank_map, e] at hmrank
  -- the j-th element of the filtered list is S[m]
  have hfj : (S.filter q)[j]? = some S[m] := by
    have := filter_getElem q m S S[m] hSm hqm
    rwa [hmrank] at this
  have hfm : f S[m] = v := by
    rw [List.getElem?_map, hfj] at hget
    simpa using hget
  refine ⟨?_, ?_⟩
  · rw [List.getElem?_map, hSm]; simp [hqm, hfm]
  · rw [rank_map] at hrank ⊢
    rw [← hrank, ← hmrank, filter_take, List.countP_filter]
    congr 1; funext x
    cases q x <;> cases f x <;> cases v <;> rfl

/-- the upward pass of `select` on lists: from an offset `res` in the block of level `k`
    to a position of `S` -/
def selUp (β : Nat → α → Bool) (c : α) (S : List α) : Nat → Nat → Option Nat
  | 0, res => some res
  | k + 1, res =>
    match Spec.select (β k c) (Spec.rank (β k c) (blkStart β c S k) (bitsAt β k S) + res)
        (bitsAt β k S) with
    | none => none
    | some q => selUp β c S k (q - blkStart β c S k)

theorem count_agree (β : Nat → α → Bool) (c : α) (S : List α) (k : Nat) :
    (S.map (agree β c k)).count true = (S.filter (agree β c k)).length := by
  rw [count_map]
  have e : (fun x => agree β c k x == true) = agree β c k := by
    funext y; cases agree β c k y <;> rfl
  rw [e, List.countP_eq_length_filter]

/-- one upward step, offset inside the block -/
theorem sel_step_in (β : Nat → α → Bool) (c : α) (S : List α) (k res : Nat)
    (hres : res < (S.filter (agree β c (k + 1))).length) :
    ∃ j, Spec.select (β k c) (Spec.rank (β k c) (blkStart β c S k) (bitsAt β k S) + res)
            (bitsAt β k S) = some (blkStart β c S k + j) ∧
      Spec.select (β k c) res ((S.filter (agree β c k)).map (β k)) = some j := by
  obtain ⟨A, C, h1, h2⟩ := blk β c S k
  have hc : res < ((S.filter (agree β c k)).map (β k)).count (β k c) := by
    rw [count_map, List.countP_eq_length_filter, filter_agree_succ]; exact hres
  obtain ⟨j, hj⟩ := select_isSome hc
  refine ⟨j, ?_, hj⟩
  obtain ⟨hjl, hjget, hjrank⟩ := select_some hj
  rw [List.length_map] at hjl
  rw [select_eq_some_iff, bitsAt, h1, ← h2]
  refine ⟨?_, ?_⟩
  · rw [List.map_append, List.map_append, List.append_assoc,
      List.getElem?_append_right (by simp), List.length_map, Nat.add_sub_cancel_left,
      List.getElem?_append_left (by simpa using hjl)]
    exact hjget
  · rw [rank_map, rank_map]
    have ht : (A ++ S.filter (agree β c k) ++ C).take A.length = A := by simp [List.append_assoc]
    have ht2 : (A ++ S.filter (agree β c k) ++ C).take (A.length + j)
        = A ++ (S.filter (agree β c k)).take j := by
      rw [List.append_assoc, List.take_length_add_append,
        List.take_append_of_le_length (Nat.le_of_lt hjl)]
    rw [ht, ht2, List.countP_append, ← rank_map, hjrank]

/-- one upward step, offset beyond the block: the answer (if any) is beyond the block -/
theorem sel_step_out (β : Nat → α → Bool) (c : α) (S : List α) (k res q : Nat)
    (hres : (S.filter (agree β c (k + 1))).length ≤ res)
    (h : Spec.select (β k c) (Spec.rank (β k c) (blkStart β c S k) (bitsAt β k S) + res)
            (bitsAt β k S) = some q) :
    blkStart β c S k + (S.filter (agree β c k)).length ≤ q ∧ q < S.length := by
  obtain ⟨A, C, h1, h2⟩ := blk β c S k
  obtain ⟨hql, hqget, hqrank⟩ := select_some h
  rw [bitsAt_length] at hql
  refine ⟨?_, hql⟩
  apply Classical.byContradiction
  intro hlt
  have hlt : q + 1 ≤ blkStart β c S k + (S.filter (agree β c k)).length := by omega
  have hmono := rank_mono (β k c) (bitsAt β k S) hlt
  rw [rank_succ_of_get hqget, hqrank] at hmono
  have hend : Spec.rank (β k c) (blkStart β c S k + (S.filter (agree β c k)).length) (bitsAt β k S)
      = Spec.rank (β k c) (blkStart β c S k) (bitsAt β k S)
        + (S.filter (agree β c (k + 1))).length := by
    rw [bitsAt, h1, ← h2, rank_map, rank_map]
    have ht : (A ++ S.filter (agree β c k) ++ C).take A.length = A := by simp [List.append_assoc]
    have ht2 : (A ++ S.filter (agree β c k) ++ C).take (A.length + (S.filter (agree β c k)).length)
        = A ++ S.filter (agree β c k) := by
      rw [List.append_assoc, List.take_length_add_append, List.take_append_of_le_length (Nat.le_refl _),
        List.take_length]
    rw [ht, ht2, List.countP_append, List.countP_eq_length_filter (l := S.filter _),
      filter_agree_succ]
  omega

/-- correctness of the upward pass -/
theorem selUp_spec (β : Nat → α → Bool) (c : α) (S : List α) (k res : Nat)
    (h0 : k = 0 → res < S.length) :
    selUp β c S k res = Spec.select true res (S.map (agree β c k)) := by
  induction k generalizing res with
  | zero =>
    have hres := h0 rfl
    rw [selUp]
    symm
    rw [select_eq_some_iff]
    have : agree β c 0 = fun _ => true := by funext x; exact agree_zero β c x
    refine ⟨?_, ?_⟩
    · rw [List.getElem?_map, List.getElem?_eq_getElem hres]; simp [agree_zero]
    · rw [rank_map, this]
      simp; omega
  | succ k ih =>
    rw [selUp]
    by_cases hres : res < (S.filter (agree β c (k + 1))).length
    · obtain ⟨j, hj1, hj2⟩ := sel_step_in β c S k res hres
      rw [hj1]
      simp only [Nat.add_sub_cancel_left]
      have hjl : j < (S.filter (agree β c k)).length := by
        have := (select_some hj2).1; simpa using this
      have hjS : j < S.length := Nat.lt_of_lt_of_le hjl (List.length_filter_le _ _)
      rw [ih j (fun _ => hjS)]
      have := select_comp (agree β c k) (β k) (β k c) S res j hj2
      rw [← this]
      congr 2; funext x; rw [agree_succ]
    · have hres : (S.filter (agree β c (k + 1))).length ≤ res := by omega
      have hnone : Spec.select true res (S.map (agree β c (k + 1))) = none :=
        select_none (by rw [count_agree]; exact hres)
      rw [hnone]
      cases hq : Spec.select (β k c) (Spec.rank (β k c) (blkStart β c S k) (bitsAt β k S) + res)
          (bitsAt β k S) with
      | none => rfl
      | some q =>
        simp only
        obtain ⟨hq1, hq2⟩ := sel_step_out β c S k res q hres hq
        cases k with
        | zero =>
          exfalso
          have : agree β c 0 = fun _ => true := by funext x; exact agree_zero β c x
          rw [this, List.filter_eq_self.mpr (by simp)] at hq1
          omega
        | succ k =>
          rw [ih _ (by intro h; cases h)]
          exact select_none (by rw [count_agree]; omega)

/-! ## from `agree` to equality -/

theorem select_map_eq [BEq α] (q : α → Bool) (c : α) (S : List α)
    (h : ∀ x ∈ S, q x = (x == c)) (k : Nat) :
    Spec.select true k (S.map q) = Spec.select c k S := by
  induction S generalizing k with
  | nil => rfl
  | cons x xs ih =>
    have hx := h x (by simp)
    have ih' := fun k => ih (fun y hy => h y (by simp [hy])) k
    simp only [List.map_cons, Spec.select]
    rw [hx]
    cases hb : x == c
    · simp [ih']
    · cases k with
      | zero => simp
      | succ k => simp [ih']

theorem countP_eq_count [BEq α] (q : α → Bool) (c : α) (S : List α)
    (h : ∀ x ∈ S, q x = (x == c)) : S.countP q = S.count c := by
  rw [List.count_eq_countP]
  exact List.countP_congr (fun x hx => by rw [h x hx])

end Qwt.BinWM
