import Qwt.Proofs.CraftInv

/-! C02: from the loop invariant to the statements about `craftWmCodes`: the context built
from a `LensOK` / `LensAdm` input, and the final shape of the code table (`Crafted`). -/
namespace Qwt.Proofs.Craft
open Qwt Qwt.Huff Qwt.Props.C02

def sortedLens (D : Nat) (lens : List (Nat × Nat)) : List (Nat × Nat) :=
  sortByKey (fun x => x.2) (lens.map (fun x => (x.1, x.2 * bitsOf D)))

def slotsOf (D alph : Nat) : Nat := if D == 4 then alph * 4 else alph + 1

def mkCtx (D : Nat) (lens : List (Nat × Nat)) (sigma slack : Nat) : Ctx :=
  { D := D, b := bitsOf D, f := sortedLens D lens, T := lmax lens * bitsOf D, sigma := sigma,
    slots := slotsOf D lens.length, slack := slack }

theorem craftWmCodes_eq (D : Nat) (lens : List (Nat × Nat)) (sigma slack : Nat) :
    craftWmCodes D lens sigma =
      (do let st ← (List.range lens.length).foldlM
            (craftStep D (mkCtx D lens sigma slack).f) (initSt (mkCtx D lens sigma slack))
          pure st.assignments) := rfl

end Qwt.Proofs.Craft

namespace Qwt.Props.C02
/-- admissible lengths with an explicit bound `slack` on the Kraft deficit that still fits the
    scratch array (`LensOK` is the case `slack = D − 1`) -/
structure LensAdm (D : Nat) (lens : List (Nat × Nat)) (slack : Nat) : Prop where
  pos : ∀ p ∈ lens, 1 ≤ p.2
  nodup : (lens.map (·.1)).Nodup
  kraft_le : kraft D (lmax lens) lens ≤ D ^ lmax lens
  near : D ^ lmax lens ≤ kraft D (lmax lens) lens + slack
  width : lmax lens * bitsOf D ≤ 32
  fits : lens ≠ [] → lens.length + slack ≤ Qwt.Proofs.Craft.slotsOf D lens.length
end Qwt.Props.C02

namespace Qwt.Proofs.Craft
open Qwt Qwt.Huff Qwt.Props.C02

theorem LensOK.adm {D : Nat} (hD : D = 4 ∨ D = 2) {lens : List (Nat × Nat)} (h : LensOK D lens) :
    LensAdm D lens (D - 1) := by
  refine ⟨h.pos, h.nodup, h.kraft_le, h.near, h.width, ?_⟩
  intro hne
  have : 0 < lens.length := List.length_pos_iff.mpr hne
  rcases hD with rfl | rfl <;> simp [slotsOf] <;> omega

theorem le_lmax {lens : List (Nat × Nat)} {p : Nat × Nat} (h : p ∈ lens) : p.2 ≤ lmax lens := by
  induction lens with
  | nil => cases h
  | cons q qs ih =>
    simp only [lmax, List.map_cons, List.foldr_cons] at ih ⊢
    rcases List.mem_cons.mp h with rfl | h
    · exact Nat.le_max_left _ _
    · exact Nat.le_trans (ih h) (Nat.le_max_right _ _)

theorem sortedLens_perm (D : Nat) (lens : List (Nat × Nat)) :
    (sortedLens D lens).Perm (lens.map (fun x => (x.1, x.2 * bitsOf D))) :=
  sortByKey_perm _ _

theorem sortedLens_length (D : Nat) (lens : List (Nat × Nat)) :
    (sortedLens D lens).length = lens.length := by
  rw [(sortedLens_perm D lens).length_eq, List.length_map]

theorem mem_sortedLens {D : Nat} {lens : List (Nat × Nat)} {p : Nat × Nat} :
    p ∈ sortedLens D lens ↔ ∃ x ∈ lens, p = (x.1, x.2 * bitsOf D) := by
  rw [(sortedLens_perm D lens).mem_iff, List.mem_map]
  constructor
  · rintro ⟨x, hx, rfl⟩; exact ⟨x, hx, rfl⟩
  · rintro ⟨x, hx, rfl⟩; exact ⟨x, hx, rfl⟩

theorem getD_eq_getElem' (f : List (Nat × Nat)) {i : Nat} (hi : i < f.length) :
    f.getD i (0, 0) = f[i] := by
  simp [List.getD_eq_getElem?_getD, List.getElem?_eq_getElem hi]

theorem ksum_eq_kraft {D : Nat} (hD : D = 2 ^ bitsOf D) (lens : List (Nat × Nat)) :
    ksum (lmax lens * bitsOf D) (sortedLens D lens) = kraft D (lmax lens) lens := by
  unfold ksum kraft
  rw [((sortedLens_perm D lens).map _).sum_nat, List.map_map]
  congr 1
  apply List.map_congr_left
  intro x hx
  simp only [Function.comp]
  conv => rhs; rw [hD]
  rw [← Nat.pow_mul, Nat.mul_sub, Nat.mul_comm (bitsOf D), Nat.mul_comm (bitsOf D)]

theorem mkCtx_ok {D : Nat} (hD : D = 4 ∨ D = 2) {lens : List (Nat × Nat)} {sigma slack : Nat}
    (h : LensAdm D lens slack) (hs : ∀ p ∈ lens, p.1 ≤ sigma) :
    (mkCtx D lens sigma slack).OK := by
  have hpar : (D = 4 ∧ bitsOf D = 2) ∨ (D = 2 ∧ bitsOf D = 1) := by
    rcases hD with rfl | rfl
    · exact Or.inl ⟨rfl, rfl⟩
    · exact Or.inr ⟨rfl, rfl⟩
  have hD2 : D = 2 ^ bitsOf D := by
    rcases hpar with ⟨h1, h2⟩ | ⟨h1, h2⟩ <;> rw [h2] <;> exact h1
  have hmem : ∀ i (hi : i < (sortedLens D lens).length),
      ∃ x ∈ lens, (sortedLens D lens).getD i (0, 0) = (x.1, x.2 * bitsOf D) := by
    intro i hi
    rw [getD_eq_getElem' _ hi]
    exact mem_sortedLens.mp (List.getElem_mem hi)
  refine ⟨hpar, ?_, ?_, ?_, ?_, h.width, ?_, ?_, ?_, ?_⟩
  · intro i i' h1 h2
    have h2 : i' < (sortedLens D lens).length := h2
    show ((sortedLens D lens).getD i (0, 0)).2 ≤ ((sortedLens D lens).getD i' (0, 0)).2
    rcases Nat.lt_or_eq_of_le h1 with h1 | rfl
    · rw [getD_eq_getElem' _ h2, getD_eq_getElem' _ (show i < _ by omega)]
      exact List.pairwise_iff_getElem.mp (sortByKey_sorted (fun x : Nat × Nat => x.2) _) i i' (Nat.lt_trans h1 h2) h2 h1
    · exact Nat.le_refl _
  · intro i i' h1 h2 he
    have h1 : i < (sortedLens D lens).length := h1
    have h2 : i' < (sortedLens D lens).length := h2
    have he : ((sortedLens D lens).getD i (0, 0)).1 = ((sortedLens D lens).getD i' (0, 0)).1 := he
    rw [getD_eq_getElem' _ h1, getD_eq_getElem' _ h2] at he
    have hnd : ((sortedLens D lens).map (·.1)).Nodup := by
      have p := (sortedLens_perm D lens).map (·.1)
      rw [List.map_map] at p
      refine p.symm.nodup ?_
      have e : ((fun x : Nat × Nat => x.1) ∘ fun x : Nat × Nat => (x.1, x.2 * bitsOf D)) = (fun x => x.1) := rfl
      rw [e]; exact h.nodup
    have hp := List.pairwise_iff_getElem.mp hnd
    rcases Nat.lt_trichotomy i i' with hlt | heq | hgt
    · exact absurd (by rw [List.getElem_map, List.getElem_map]; exact he) (hp i i' (by simpa using h1) (by simpa using h2) hlt)
    · exact heq
    · exact absurd (by rw [List.getElem_map, List.getElem_map]; exact he.symm) (hp i' i (by simpa using h2) (by simpa using h1) hgt)
  · intro i hi
    obtain ⟨x, _, hx⟩ := hmem i hi
    show bitsOf D ∣ ((sortedLens D lens).getD i (0, 0)).2
    rw [hx]; exact Nat.dvd_mul_left _ _
  · intro i hi
    obtain ⟨x, hxm, hx⟩ := hmem i hi
    show ((sortedLens D lens).getD i (0, 0)).2 ≤ lmax lens * bitsOf D
    rw [hx]; exact Nat.mul_le_mul_right _ (le_lmax hxm)
  · show ksum (lmax lens * bitsOf D) (sortedLens D lens) ≤ 2 ^ (lmax lens * bitsOf D)
    rw [ksum_eq_kraft hD2, Nat.mul_comm, Nat.pow_mul, ← hD2]; exact h.kraft_le
  · show 2 ^ (lmax lens * bitsOf D) ≤ ksum (lmax lens * bitsOf D) (sortedLens D lens) + slack
    rw [ksum_eq_kraft hD2, Nat.mul_comm, Nat.pow_mul, ← hD2]; exact h.near
  · intro i hi
    obtain ⟨x, hxm, hx⟩ := hmem i hi
    show ((sortedLens D lens).getD i (0, 0)).1 ≤ sigma
    rw [hx]; exact hs x hxm
  · intro hpos
    show (sortedLens D lens).length + slack ≤ slotsOf D lens.length
    have hpos : 0 < (sortedLens D lens).length := hpos
    rw [sortedLens_length] at hpos ⊢
    exact h.fits (List.length_pos_iff.mp hpos)
/-- final shape of the table: symbol `sy i` (the `i`-th in sorted order) got the digit
    reversal of the stored node `v i` of depth `tl i` bits -/
structure Crafted (X : Ctx) (v : Nat → Nat) (codes : Array PrefixCode) : Prop where
  size : codes.size = X.sigma + 1
  code : ∀ i, i < X.f.length → ∃ rc, codes.getD (X.sy i) {} = ⟨rc, X.tl i⟩ ∧
    RevInv X.D (X.tl i / X.b) (X.tl i / X.b) (v i) rc
  vlt : ∀ i, i < X.f.length → v i < 2 ^ X.tl i
  ord : ∀ i i', i < i' → i' < X.f.length → v i' % 2 ^ X.tl i < v i
  other : ∀ s, (∀ i, i < X.f.length → X.sy i ≠ s) → codes.getD s {} = {}

theorem craft_run {X : Ctx} (hX : X.OK) :
    ∃ st, (List.range X.f.length).foldlM (craftStep X.D X.f) (initSt X) = .ok st ∧
      Crafted X (fun i => st.c.getD i 0) st.assignments := by
  obtain ⟨st, h1, h2⟩ := craft_loop_inv hX X.f.length (Nat.le_refl _)
  refine ⟨st, h1, h2.asize, h2.asg, ?_, ?_, h2.nasg⟩
  · intro i hi
    have := h2.bnd i (by have := h2.jm; omega)
    rwa [lev, if_pos hi] at this
  · intro i i' h3 h4
    have := h2.ord i i' h3 (by have := h2.jm; omega)
    rwa [lev, if_pos (by omega)] at this

theorem craft_core {D : Nat} (hD : D = 4 ∨ D = 2) {lens : List (Nat × Nat)} {sigma slack : Nat}
    (h : LensAdm D lens slack) (hs : ∀ p ∈ lens, p.1 ≤ sigma) :
    ∃ codes v, craftWmCodes D lens sigma = .ok codes ∧ Crafted (mkCtx D lens sigma slack) v codes := by
  have hX := mkCtx_ok hD h hs
  obtain ⟨st, h1, h2⟩ := craft_run hX
  refine ⟨st.assignments, _, ?_, h2⟩
  rw [craftWmCodes_eq D lens sigma slack]
  have e : (mkCtx D lens sigma slack).f.length = lens.length := sortedLens_length D lens
  rw [e] at h1
  show (do let st ← (List.range lens.length).foldlM
            (craftStep (mkCtx D lens sigma slack).D (mkCtx D lens sigma slack).f) (initSt (mkCtx D lens sigma slack))
           pure st.assignments) = _
  rw [h1]; rfl

theorem getElem!_eq (codes : Array PrefixCode) (s : Nat) : codes[s]! = codes.getD s {} := by
  rw [Array.getElem!_eq_getD]; rfl

/-- facts about the code of the `i`-th symbol -/
theorem Crafted.at {X : Ctx} (hX : X.OK) (hb : X.b = bitsOf X.D) {v : Nat → Nat}
    {codes : Array PrefixCode} (hc : Crafted X v codes) {i : Nat} (hi : i < X.f.length) :
    codes[X.sy i]!.len = X.tl i ∧ X.D ^ (X.tl i / X.b) = 2 ^ X.tl i ∧
    codes[X.sy i]!.content < 2 ^ X.tl i ∧
    digits X.D codes[X.sy i]! = leDigits X.D (X.tl i / X.b) (v i) := by
  obtain ⟨rc, h1, h2⟩ := hc.code i hi
  have hpow : X.D ^ (X.tl i / X.b) = 2 ^ X.tl i := by
    rw [hX.D_eq, ← Nat.pow_mul, Nat.mul_div_cancel' (hX.dvd i hi)]
  rw [getElem!_eq, h1]
  refine ⟨rfl, hpow, hpow ▸ h2.lt, ?_⟩
  unfold digits
  simp only []
  rw [← hb]
  exact h2.digits_eq

theorem wmvalid_of_crafted {X : Ctx} (hX : X.OK) (hb : X.b = bitsOf X.D)
    (hpos : ∀ i, i < X.f.length → 1 ≤ X.tl i) {v : Nat → Nat}
    {codes : Array PrefixCode} (hc : Crafted X v codes) (occ : List Nat)
    (hocc : ∀ s, s ∈ occ ↔ ∃ i, i < X.f.length ∧ X.sy i = s) : WMValid X.D codes occ := by
  have hrev : ∀ i, i < X.f.length → ∀ n w, n ≤ X.tl i / X.b →
      revLex X.D ((leDigits X.D (X.tl i / X.b) w).take n) = w % X.D ^ n := by
    intro i _ n w hn
    rw [take_leDigits w hn, revLex_leDigits]
  refine ⟨?_, ?_, ?_, ?_, ?_⟩
  · intro s hs
    obtain ⟨i, hi, rfl⟩ := (hocc s).mp hs
    have := hX.sym_le i hi
    obtain ⟨h1, _⟩ := hc.at hX hb hi
    have := hpos i hi
    rw [hc.size, h1]; omega
  · intro s hs
    rw [getElem!_eq, hc.other s (fun i hi e => hs ((hocc s).mpr ⟨i, hi, e⟩))]
  · intro x hx y hy hxy hpre
    obtain ⟨i, hi, rfl⟩ := (hocc x).mp hx
    obtain ⟨i', hi', rfl⟩ := (hocc y).mp hy
    obtain ⟨_, px, _, dx⟩ := hc.at hX hb hi
    obtain ⟨_, py, _, dy⟩ := hc.at hX hb hi'
    rw [dx, dy] at hpre
    have hlen : X.tl i / X.b ≤ X.tl i' / X.b := by simpa using hpre.length_le
    have htake := List.prefix_iff_eq_take.mp hpre
    rw [leDigits_length] at htake
    have hval := congrArg (revLex X.D) htake
    rw [hrev i' hi' _ _ hlen, revLex_leDigits, px, Nat.mod_eq_of_lt (hc.vlt i hi)] at hval
    rcases Nat.lt_trichotomy i i' with hlt | heq | hgt
    · have := hc.ord i i' hlt hi'
      omega
    · exact hxy (by rw [heq])
    · have hs := hX.sorted i' i (by omega) hi
      have hk : X.tl i' / X.b ≤ X.tl i / X.b := Nat.div_le_div_right hs
      have hke : X.tl i / X.b = X.tl i' / X.b := by omega
      have hte : X.tl i = X.tl i' := by
        rw [← Nat.mul_div_cancel' (hX.dvd i hi), ← Nat.mul_div_cancel' (hX.dvd i' hi'), hke]
      have := hc.ord i' i hgt hi
      rw [← hte, Nat.mod_eq_of_lt (hc.vlt i hi)] at this
      have h2 := hc.vlt i' hi'
      rw [← hte] at h2
      rw [Nat.mod_eq_of_lt h2] at hval
      omega
  · intro x hx y hy L hyL hxL
    obtain ⟨i, hi, rfl⟩ := (hocc x).mp hx
    obtain ⟨i', hi', rfl⟩ := (hocc y).mp hy
    obtain ⟨_, px, _, dx⟩ := hc.at hX hb hi
    obtain ⟨_, py, _, dy⟩ := hc.at hX hb hi'
    rw [dy, leDigits_length] at hyL
    rw [dx, leDigits_length] at hxL
    rw [dx, dy, hrev i hi _ _ (by omega), revLex_leDigits, ← hyL, py,
      Nat.mod_eq_of_lt (hc.vlt i' hi')]
    have hlt : i' < i := by
      apply Nat.lt_of_not_le
      intro hle
      have := Nat.div_le_div_right (c := X.b) (hX.sorted i i' hle hi')
      omega
    exact hc.ord i' i hlt hi
  · intro s
    by_cases hs : ∃ i, i < X.f.length ∧ X.sy i = s
    · obtain ⟨i, hi, rfl⟩ := hs
      obtain ⟨h1, _, h3, _⟩ := hc.at hX hb hi
      have := hX.leT i hi
      have := hX.T32
      rw [h1]
      exact ⟨by omega, hb ▸ hX.dvd i hi, h3⟩
    · rw [getElem!_eq, hc.other s (fun i hi e => hs ⟨i, hi, e⟩)]
      exact ⟨Nat.zero_le _, Nat.dvd_zero _, by decide⟩

end Qwt.Proofs.Craft
