import Qwt.Proofs.BinHWMInv
import Qwt.Proofs.HQWMBits

/-!
Size of the level data of the Huffman-shaped *binary* wavelet tree (mirror of
`Qwt/Proofs/HQWMBits.lean`): the levels hold, in total, one bit per (element, code bit), i.e.
`Σ_k lens[k] = Σ_{x ∈ S} len(code x)`.  This ties the entropy bound C15 (stated over
`cost f ℓ`) to the model of `WaveletTree<_, _, true>`.  Core Lean only.
-/
set_option linter.unusedSimpArgs false
set_option linter.unusedVariables false

namespace Qwt.BinWM
open Qwt Qwt.BinWT
open Qwt.Huff (PrefixCode)

theorem part_countP (p P : Nat → Bool) (l : List Nat) : (part p l).countP P = l.countP P := by
  unfold part
  rw [List.countP_append]
  induction l with
  | nil => rfl
  | cons a l ih =>
    simp only [List.filter_cons, List.countP_cons]
    cases hp : p a <;> cases hP : P a <;> simp [hp, hP] <;> omega

/-- the live elements of level `k` are, up to order, the elements with more than `k` bits -/
theorem lvlH_countP (β : Nat → Nat → Bool) (len : Nat → Nat) (S : List Nat)
    (hpos : ∀ x ∈ S, 0 < len x) (P : Nat → Bool) (k : Nat) :
    (lvlH β len k S).countP P = S.countP (fun x => P x && decide (k < len x)) := by
  induction k generalizing P with
  | zero =>
    rw [lvlH]
    apply List.countP_congr
    intro x hx
    have := hpos x hx
    simp [this]
  | succ k ih =>
    rw [lvlH, List.countP_filter, part_countP, ih]
    apply List.countP_congr
    intro x hx
    by_cases h1 : k + 1 < len x
    · have h2 : k < len x := by omega
      simp [h1, h2]
    · simp [h1]

theorem lvlH_length_eq (β : Nat → Nat → Bool) (len : Nat → Nat) (S : List Nat)
    (hpos : ∀ x ∈ S, 0 < len x) (k : Nat) :
    (lvlH β len k S).length = S.countP (fun x => decide (k < len x)) := by
  have h := lvlH_countP β len S hpos (fun _ => true) k
  rw [List.countP_true] at h
  rw [h]
  apply List.countP_congr
  intro x _
  simp

theorem sum_map_congr (f g : Nat → Nat) (S : List Nat) (h : ∀ x ∈ S, f x = g x) :
    (S.map f).sum = (S.map g).sum := by
  induction S with
  | nil => rfl
  | cons a S ih =>
    simp only [List.map_cons, List.sum_cons]
    rw [h a (by simp), ih (fun x hx => h x (by simp [hx]))]

/-- total number of bits stored in the levels of the Huffman-shaped binary tree -/
theorem invH_level_bits {c : Cfg} {S : List Nat} {codes : Array PrefixCode} {t : WT}
    (h : HWMb c S codes t) :
    t.lens.toList.sum = (S.map (fun x => codes[x]!.len)).sum := by
  have hl : t.lens.toList = (List.range t.nLevels).map
      (fun k => (lvlH (cbit codes) (clen codes) k S).length) := by
    apply List.ext_getElem
    · simp [h.levels.lens_size]
    · intro i h1 h2
      simp only [Array.length_toList] at h1
      simp only [Array.getElem_toList, List.getElem_map, List.getElem_range]
      exact h.levels.lens_eq i h1
  have hfun : (fun k => (lvlH (cbit codes) (clen codes) k S).length) =
      (fun k => S.countP (fun x => decide (k < clen codes x))) := by
    funext k
    exact lvlH_length_eq _ _ S h.hok.pos k
  rw [hl, hfun, Qwt.HQWM.sum_levels]
  apply sum_map_congr
  intro x hx
  have h1 := h.levels.len_le x hx
  rw [Nat.min_eq_right h1]
  rfl

end Qwt.BinWM
