import Qwt.Model.Codec

/-!
Property C11, generic part: a schema-directed bincode decoder for the serde data model `Val`
and the proof that it inverts `Codec.encode` on every well-typed value.

* `Ty`            — type language (the "schema" serde derives from the Rust type);
* `HasTy v t`     — typing judgment including the machine ranges
                    (`n < 256^bytes`, `-2^63 ≤ i < 2^63`, sequence length `< 2^64`);
* `decode t bs`   — total decoder, structural recursion on `t`, inner recursion on the element
                    count for sequences (`decodeN`);
* `decode_encode` — `HasTy v t → decode t (encode v ++ rest) = some (v, rest)`.
-/
namespace Qwt.Codec

/-- the serde "schema" of a serialisable Rust type -/
inductive Ty where
  | num (bytes : Nat)
  | i64
  | seq (t : Ty)
  | tup (ts : List Ty)
  | opt (t : Ty)
  | unit
  | struct (fields : List (String × Ty))
  deriving Repr, Inhabited

/-! ### Typing judgment -/

mutual
  /-- `v` is a value of type `t` (with all numbers inside their machine width) -/
  def HasTy : Val → Ty → Prop
    | .num b n, .num b' => b = b' ∧ n < 256 ^ b
    | .i64 i, .i64 => -9223372036854775808 ≤ i ∧ i < 9223372036854775808
    | .seq vs, .seq t => HasTyAll vs t ∧ lengthVals vs < 18446744073709551616
    | .tup vs, .tup ts => HasTyList vs ts
    | .opt none, .opt _ => True
    | .opt (some v), .opt t => HasTy v t
    | .unit, .unit => True
    | .struct fs, .struct fts => HasTyFields fs fts
    | _, _ => False
  /-- every element has type `t` (homogeneous sequence) -/
  def HasTyAll : List Val → Ty → Prop
    | [], _ => True
    | v :: vs, t => HasTy v t ∧ HasTyAll vs t
  /-- pointwise typing (tuple / fixed array) -/
  def HasTyList : List Val → List Ty → Prop
    | [], [] => True
    | v :: vs, t :: ts => HasTy v t ∧ HasTyList vs ts
    | _, _ => False
  /-- pointwise typing of struct fields; the field names must agree -/
  def HasTyFields : List (String × Val) → List (String × Ty) → Prop
    | [], [] => True
    | (k, v) :: fs, (k', t) :: fts => k = k' ∧ HasTy v t ∧ HasTyFields fs fts
    | _, _ => False
end

/-! ### Decoder -/

/-- read `k` little-endian bytes (each `< 256`) -/
def takeLE : Nat → List Nat → Option (Nat × List Nat)
  | 0, bs => some (0, bs)
  | _ + 1, [] => none
  | k + 1, b :: bs =>
    if b < 256 then
      match takeLE k bs with
      | none => none
      | some (n, r) => some (b + 256 * n, r)
    else none

/-- two's complement reading of a `u64` -/
def toI64 (u : Nat) : Int :=
  if u < 9223372036854775808 then (u : Int) else (u : Int) - 18446744073709551616

/-- `n` elements with the element decoder `f` -/
def decodeN (f : List Nat → Option (Val × List Nat)) : Nat → List Nat → Option (List Val × List Nat)
  | 0, bs => some ([], bs)
  | n + 1, bs =>
    match f bs with
    | none => none
    | some (v, bs') =>
      match decodeN f n bs' with
      | none => none
      | some (vs, bs'') => some (v :: vs, bs'')

mutual
  /-- schema-directed bincode decoder: the decoded value and the unread rest -/
  def decode : Ty → List Nat → Option (Val × List Nat)
    | .num b, bs =>
      match takeLE b bs with
      | none => none
      | some (n, r) => some (.num b n, r)
    | .i64, bs =>
      match takeLE 8 bs with
      | none => none
      | some (n, r) => some (.i64 (toI64 n), r)
    | .seq t, bs =>
      match takeLE 8 bs with
      | none => none
      | some (n, r) =>
        match decodeN (decode t) n r with
        | none => none
        | some (vs, r') => some (.seq vs, r')
    | .tup ts, bs =>
      match decodeList ts bs with
      | none => none
      | some (vs, r) => some (.tup vs, r)
    | .opt t, bs =>
      match bs with
      | 0 :: r => some (.opt none, r)
      | 1 :: r =>
        (match decode t r with
         | none => none
         | some (v, r') => some (.opt (some v), r'))
      | _ => none
    | .unit, bs => some (.unit, bs)
    | .struct fts, bs =>
      match decodeFields fts bs with
      | none => none
      | some (fs, r) => some (.struct fs, r)
  def decodeList : List Ty → List Nat → Option (List Val × List Nat)
    | [], bs => some ([], bs)
    | t :: ts, bs =>
      match decode t bs with
      | none => none
      | some (v, r) =>
        match decodeList ts r with
        | none => none
        | some (vs, r') => some (v :: vs, r')
  def decodeFields : List (String × Ty) → List Nat → Option (List (String × Val) × List Nat)
    | [], bs => some ([], bs)
    | (k, t) :: fts, bs =>
      match decode t bs with
      | none => none
      | some (v, r) =>
        match decodeFields fts r with
        | none => none
        | some (fs, r') => some ((k, v) :: fs, r')
end

/-! ### Integers -/

theorem length_leBytes (k n : Nat) : (leBytes k n).length = k := by
  induction k generalizing n with
  | zero => rfl
  | succ k ih => simp [leBytes, ih]

theorem leBytes_lt (k n : Nat) : ∀ b ∈ leBytes k n, b < 256 := by
  induction k generalizing n with
  | zero => intro b hb; simp [leBytes] at hb
  | succ k ih =>
    intro b hb
    simp only [leBytes, List.mem_cons] at hb
    rcases hb with rfl | hb
    · exact Nat.mod_lt _ (by decide)
    · exact ih _ b hb

/-- `leBytes` round trip -/
theorem takeLE_leBytes (k n : Nat) (rest : List Nat) (h : n < 256 ^ k) :
    takeLE k (leBytes k n ++ rest) = some (n, rest) := by
  induction k generalizing n with
  | zero =>
    have : n = 0 := by simpa using h
    subst this; rfl
  | succ k ih =>
    have h' : n / 256 < 256 ^ k := by
      rw [Nat.div_lt_iff_lt_mul (by decide)]; rw [Nat.pow_succ] at h; exact h
    have hm : n % 256 < 256 := Nat.mod_lt _ (by decide)
    simp only [leBytes, List.cons_append, takeLE, hm, if_true, ih _ h']
    congr 2
    omega

/-- without the range hypothesis the low `k` bytes come back -/
theorem takeLE_leBytes_mod (k n : Nat) (rest : List Nat) :
    takeLE k (leBytes k n ++ rest) = some (n % 256 ^ k, rest) := by
  induction k generalizing n with
  | zero => simp [leBytes, takeLE, Nat.mod_one]
  | succ k ih =>
    have hm : n % 256 < 256 := Nat.mod_lt _ (by decide)
    simp only [leBytes, List.cons_append, takeLE, hm, if_true, ih]
    congr 2
    rw [Nat.pow_succ, Nat.mul_comm (256 ^ k) 256, Nat.mod_mul]

theorem toI64_roundtrip (i : Int) (h1 : -9223372036854775808 ≤ i) (h2 : i < 9223372036854775808) :
    toI64 (i % 18446744073709551616).toNat = i := by
  unfold toI64
  split <;> omega

theorem i64_toNat_lt (i : Int) : (i % 18446744073709551616).toNat < 256 ^ 8 := by
  have : (256 : Nat) ^ 8 = 18446744073709551616 := by decide
  omega

/-! ### The round trip -/

theorem decodeN_zero (f) (bs : List Nat) : decodeN f 0 bs = some ([], bs) := rfl

mutual
  /-- **C11, generic form**: decoding the encoding of a well-typed value yields the value and
      leaves exactly the bytes that followed it. -/
  theorem decode_encode : ∀ (v : Val) (t : Ty) (rest : List Nat), HasTy v t →
      decode t (encode v ++ rest) = some (v, rest)
    | .num b n, .num b', rest, h => by
      simp only [HasTy] at h
      obtain ⟨rfl, h⟩ := h
      simp only [encode, decode, takeLE_leBytes _ _ _ h]
    | .i64 i, .i64, rest, h => by
      simp only [HasTy] at h
      simp only [encode, decode, takeLE_leBytes _ _ _ (i64_toNat_lt i),
        toI64_roundtrip i h.1 h.2]
    | .seq vs, .seq t, rest, h => by
      simp only [HasTy] at h
      have hl : lengthVals vs < 256 ^ 8 := by
        have : (256 : Nat) ^ 8 = 18446744073709551616 := by decide
        omega
      simp only [encode, decode, List.append_assoc, takeLE_leBytes _ _ _ hl,
        decodeN_encodeList vs t rest h.1]
    | .tup vs, .tup ts, rest, h => by
      simp only [HasTy] at h
      simp only [encode, decode, decodeList_encodeList vs ts rest h]
    | .opt none, .opt t, rest, _ => by
      simp only [encode, decode, List.cons_append, List.nil_append]
    | .opt (some v), .opt t, rest, h => by
      simp only [HasTy] at h
      simp only [encode, decode, List.cons_append, decode_encode v t rest h]
    | .unit, .unit, rest, _ => by
      simp only [encode, decode, List.nil_append]
    | .struct fs, .struct fts, rest, h => by
      simp only [HasTy] at h
      simp only [encode, decode, decodeFields_encodeFields fs fts rest h]
    | .num _ _, .i64, _, h | .num _ _, .seq _, _, h | .num _ _, .tup _, _, h
    | .num _ _, .opt _, _, h | .num _ _, .unit, _, h | .num _ _, .struct _, _, h => by
      simp [HasTy] at h
    | .i64 _, .num _, _, h | .i64 _, .seq _, _, h | .i64 _, .tup _, _, h
    | .i64 _, .opt _, _, h | .i64 _, .unit, _, h | .i64 _, .struct _, _, h => by
      simp [HasTy] at h
    | .seq _, .num _, _, h | .seq _, .i64, _, h | .seq _, .tup _, _, h
    | .seq _, .opt _, _, h | .seq _, .unit, _, h | .seq _, .struct _, _, h => by
      simp [HasTy] at h
    | .tup _, .num _, _, h | .tup _, .i64, _, h | .tup _, .seq _, _, h
    | .tup _, .opt _, _, h | .tup _, .unit, _, h | .tup _, .struct _, _, h => by
      simp [HasTy] at h
    | .opt _, .num _, _, h | .opt _, .i64, _, h | .opt _, .seq _, _, h
    | .opt _, .tup _, _, h | .opt _, .unit, _, h | .opt _, .struct _, _, h => by
      simp [HasTy] at h
    | .unit, .num _, _, h | .unit, .i64, _, h | .unit, .seq _, _, h
    | .unit, .tup _, _, h | .unit, .opt _, _, h | .unit, .struct _, _, h => by
      simp [HasTy] at h
    | .struct _, .num _, _, h | .struct _, .i64, _, h | .struct _, .seq _, _, h
    | .struct _, .tup _, _, h | .struct _, .opt _, _, h | .struct _, .unit, _, h => by
      simp [HasTy] at h
  theorem decodeN_encodeList : ∀ (vs : List Val) (t : Ty) (rest : List Nat), HasTyAll vs t →
      decodeN (decode t) (lengthVals vs) (encodeList vs ++ rest) = some (vs, rest)
    | [], t, rest, _ => by
      simp only [encodeList, lengthVals, List.nil_append, decodeN_zero]
    | v :: vs, t, rest, h => by
      simp only [HasTyAll] at h
      have e : lengthVals (v :: vs) = lengthVals vs + 1 := by
        simp only [lengthVals]; omega
      rw [e]
      simp only [encodeList, List.append_assoc, decodeN, decode_encode v t _ h.1,
        decodeN_encodeList vs t rest h.2]
  theorem decodeList_encodeList : ∀ (vs : List Val) (ts : List Ty) (rest : List Nat),
      HasTyList vs ts → decodeList ts (encodeList vs ++ rest) = some (vs, rest)
    | [], [], rest, _ => by
      simp only [encodeList, decodeList, List.nil_append]
    | v :: vs, t :: ts, rest, h => by
      simp only [HasTyList] at h
      simp only [encodeList, List.append_assoc, decodeList, decode_encode v t _ h.1,
        decodeList_encodeList vs ts rest h.2]
    | [], _ :: _, _, h => by simp [HasTyList] at h
    | _ :: _, [], _, h => by simp [HasTyList] at h
  theorem decodeFields_encodeFields : ∀ (fs : List (String × Val)) (fts : List (String × Ty))
      (rest : List Nat), HasTyFields fs fts →
      decodeFields fts (encodeFields fs ++ rest) = some (fs, rest)
    | [], [], rest, _ => by
      simp only [encodeFields, decodeFields, List.nil_append]
    | (k, v) :: fs, (k', t) :: fts, rest, h => by
      simp only [HasTyFields] at h
      obtain ⟨rfl, hv, hf⟩ := h
      simp only [encodeFields, List.append_assoc, decodeFields, decode_encode v t _ hv,
        decodeFields_encodeFields fs fts rest hf]
    | [], _ :: _, _, h => by simp [HasTyFields] at h
    | _ :: _, [], _, h => by simp [HasTyFields] at h
end

/-- whole-buffer form -/
theorem decode_encode_nil (v : Val) (t : Ty) (h : HasTy v t) :
    decode t (encode v) = some (v, []) := by
  simpa using decode_encode v t [] h

/-- `encode` is injective on the values of one type (no two states share a serialisation) -/
theorem encode_injective (v w : Val) (t : Ty) (hv : HasTy v t) (hw : HasTy w t)
    (h : encode v = encode w) : v = w := by
  have e1 := decode_encode_nil v t hv
  have e2 := decode_encode_nil w t hw
  rw [h, e2] at e1
  injection e1 with e1
  injection e1 with e1 _
  exact e1.symm

/-! ### Length facts -/

theorem lengthVals_eq (vs : List Val) : lengthVals vs = vs.length := by
  induction vs with
  | nil => rfl
  | cons v vs ih => simp only [lengthVals, ih, List.length_cons]; omega

theorem encodeList_append (xs ys : List Val) :
    encodeList (xs ++ ys) = encodeList xs ++ encodeList ys := by
  induction xs with
  | nil => simp [encodeList]
  | cons x xs ih => simp [encodeList, ih]

mutual
  /-- serialised size in bytes -/
  def byteSize : Val → Nat
    | .num b _ => b
    | .i64 _ => 8
    | .seq vs => 8 + byteSizeList vs
    | .tup vs => byteSizeList vs
    | .opt none => 1
    | .opt (some v) => 1 + byteSize v
    | .unit => 0
    | .struct fs => byteSizeFields fs
  def byteSizeList : List Val → Nat
    | [] => 0
    | v :: vs => byteSize v + byteSizeList vs
  def byteSizeFields : List (String × Val) → Nat
    | [] => 0
    | (_, v) :: fs => byteSize v + byteSizeFields fs
end

mutual
  theorem length_encode : ∀ v : Val, (encode v).length = byteSize v
    | .num b n => by simp only [encode, byteSize, length_leBytes]
    | .i64 i => by simp only [encode, byteSize, length_leBytes]
    | .seq vs => by
      simp only [encode, byteSize, List.length_append, length_leBytes, length_encodeList vs]
    | .tup vs => by simp only [encode, byteSize, length_encodeList vs]
    | .opt none => by simp only [encode, byteSize, List.length_singleton]
    | .opt (some v) => by
      simp only [encode, byteSize, List.length_cons, length_encode v]; omega
    | .unit => by simp only [encode, byteSize, List.length_nil]
    | .struct fs => by simp only [encode, byteSize, length_encodeFields fs]
  theorem length_encodeList : ∀ vs : List Val, (encodeList vs).length = byteSizeList vs
    | [] => by simp only [encodeList, byteSizeList, List.length_nil]
    | v :: vs => by
      simp only [encodeList, byteSizeList, List.length_append, length_encode v,
        length_encodeList vs]
  theorem length_encodeFields : ∀ fs : List (String × Val),
      (encodeFields fs).length = byteSizeFields fs
    | [] => by simp only [encodeFields, byteSizeFields, List.length_nil]
    | (_, v) :: fs => by
      simp only [encodeFields, byteSizeFields, List.length_append, length_encode v,
        length_encodeFields fs]
end

mutual
  /-- every element of an encoding is a byte -/
  theorem encode_lt : ∀ (v : Val) (b : Nat), b ∈ encode v → b < 256
    | .num k n, b, h => by simp only [encode] at h; exact leBytes_lt _ _ b h
    | .i64 i, b, h => by simp only [encode] at h; exact leBytes_lt _ _ b h
    | .seq vs, b, h => by
      simp only [encode, List.mem_append] at h
      rcases h with h | h
      · exact leBytes_lt _ _ b h
      · exact encodeList_lt vs b h
    | .tup vs, b, h => by simp only [encode] at h; exact encodeList_lt vs b h
    | .opt none, b, h => by simp only [encode, List.mem_singleton] at h; omega
    | .opt (some v), b, h => by
      simp only [encode, List.mem_cons] at h
      rcases h with h | h
      · omega
      · exact encode_lt v b h
    | .unit, b, h => by simp [encode] at h
    | .struct fs, b, h => by simp only [encode] at h; exact encodeFields_lt fs b h
  theorem encodeList_lt : ∀ (vs : List Val) (b : Nat), b ∈ encodeList vs → b < 256
    | [], b, h => by simp [encodeList] at h
    | v :: vs, b, h => by
      simp only [encodeList, List.mem_append] at h
      rcases h with h | h
      · exact encode_lt v b h
      · exact encodeList_lt vs b h
  theorem encodeFields_lt : ∀ (fs : List (String × Val)) (b : Nat), b ∈ encodeFields fs → b < 256
    | [], b, h => by simp [encodeFields] at h
    | (_, v) :: fs, b, h => by
      simp only [encodeFields, List.mem_append] at h
      rcases h with h | h
      · exact encode_lt v b h
      · exact encodeFields_lt fs b h
end

theorem byteSizeList_map_const (f : α → Val) (c : Nat) (l : List α)
    (h : ∀ x ∈ l, byteSize (f x) = c) : byteSizeList (l.map f) = l.length * c := by
  induction l with
  | nil => simp [byteSizeList]
  | cons x xs ih =>
    simp only [List.map_cons, byteSizeList, List.length_cons]
    rw [h x (by simp), ih (fun y hy => h y (by simp [hy]))]
    rw [Nat.succ_mul]; omega

end Qwt.Codec
