import Qwt.Proofs.CraftDigits
/-! C02: the fragment-reversal loop (`reverseCode`) of `craft_wm_codes` never faults for
`l ≤ 32` and yields the digit reversal (`RevInv`). -/
namespace Qwt.Proofs.Craft
open Qwt Qwt.Huff Qwt.Props.C02

theorem or_eq_add_of_dvd {a x i : Nat} (ha : 2 ^ i ∣ a) (hx : x < 2 ^ i) : a ||| x = a + x := by
  obtain ⟨A, rfl⟩ := ha
  rw [Nat.mul_comm, ← Nat.shiftLeft_eq, Nat.shiftLeft_add_eq_or_of_lt hx]

theorem shl32_ok {x s : Nat} (hs : s < 32) (hx : x * 2 ^ s < two32) : shl32 x s = .ok (x * 2 ^ s) := by
  simp [shl32, hs, Nat.shiftLeft_eq, Nat.mod_eq_of_lt hx, pure, Except.pure]

theorem sub_ok {a c : Nat} (h : c ≤ a) : sub a c = .ok (a - c) := by simp [sub, h]

theorem and3 (x : Nat) : x &&& 3 = x % 4 := Nat.and_two_pow_sub_one_eq_mod x 2
theorem and1 (x : Nat) : x &&& 1 = x % 2 := Nat.and_two_pow_sub_one_eq_mod x 1

theorem reverseCode4_spec {k l : Nat} (v : Nat) (hl : l = 2 * k) (hl32 : l ≤ 32) :
    ∃ rc, reverseCode 4 v l = .ok rc ∧ RevInv 4 k k v rc := by
  have key : ∀ n, n ≤ k → ∃ acc, (List.range n).foldlM (fun acc k => do
      let t := 2 * k
      let s ← sub l (t + 2)
      let v ← shl32 ((v >>> t) &&& 3) s
      pure (acc ||| v)) 0 = (.ok acc : M Nat) ∧ RevInv 4 k n v acc := by
    intro n
    induction n with
    | zero => intro _; exact ⟨0, rfl, RevInv.zero (by decide)⟩
    | succ n ih =>
      intro hn
      obtain ⟨acc, hacc, hinv⟩ := ih (by omega)
      have hstep := hinv.step (by decide) (show n < k by omega)
      refine ⟨_, ?_, hstep⟩
      rw [List.range_succ, List.foldlM_append, hacc]
      have hd : v / 4 ^ n % 4 < 4 := Nat.mod_lt _ (by decide)
      have hpow : (4:Nat) ^ (k - 1 - n) = 2 ^ (l - (2 * n + 2)) := by
        rw [show (4:Nat) = 2 ^ 2 from rfl, ← Nat.pow_mul]; congr 1; omega
      have hlt : v / 4 ^ n % 4 * 2 ^ (l - (2 * n + 2)) < 2 ^ (l - 2 * n) := by
        have : l - 2 * n = (l - (2 * n + 2)) + 2 := by omega
        rw [this, Nat.pow_add, Nat.mul_comm]
        exact Nat.mul_lt_mul_of_pos_left hd (Nat.pow_pos (by decide))
      have h32 : (2:Nat) ^ (l - 2 * n) ≤ two32 := by
        rw [show two32 = 2 ^ 32 from rfl]; exact Nat.pow_le_pow_right (by decide) (by omega)
      have hdvd : 2 ^ (l - 2 * n) ∣ acc := by
        have := hinv.dvd
        rwa [show (4:Nat) = 2 ^ 2 from rfl, ← Nat.pow_mul, show 2 * (k - n) = l - 2 * n by omega] at this
      have hsh : (v >>> (2 * n)) &&& 3 = v / 4 ^ n % 4 := by
        rw [and3, Nat.shiftRight_eq_div_pow, Nat.pow_mul]
      simp only [List.foldlM_cons, List.foldlM_nil, bind, Except.bind, pure, Except.pure]
      rw [sub_ok (by omega), hsh]
      simp only []
      rw [shl32_ok (by omega) (Nat.lt_of_lt_of_le hlt h32)]
      simp only []
      rw [or_eq_add_of_dvd hdvd hlt, hpow]
  obtain ⟨rc, h1, h2⟩ := key k (Nat.le_refl _)
  refine ⟨rc, ?_, h2⟩
  have : l / 2 = k := by omega
  simp only [reverseCode, this]
  exact h1


theorem reverseCode2_spec {D l : Nat} (hD : (D == 4) = false) (v : Nat) (hl32 : l ≤ 32) :
    ∃ rc, reverseCode D v l = .ok rc ∧ RevInv 2 l l v rc := by
  have key : ∀ n, n ≤ l → ∃ acc, (List.range n).foldlM (fun acc t => do
      let s ← sub l (t + 1)
      let v ← shl32 ((v >>> t) &&& 1) s
      pure (acc ||| v)) 0 = (.ok acc : M Nat) ∧ RevInv 2 l n v acc := by
    intro n
    induction n with
    | zero => intro _; exact ⟨0, rfl, RevInv.zero (by decide)⟩
    | succ n ih =>
      intro hn
      obtain ⟨acc, hacc, hinv⟩ := ih (by omega)
      have hstep := hinv.step (by decide) (show n < l by omega)
      refine ⟨_, ?_, hstep⟩
      rw [List.range_succ, List.foldlM_append, hacc]
      have hd : v / 2 ^ n % 2 < 2 := Nat.mod_lt _ (by decide)
      have hpow : (l - 1 - n) = (l - (n + 1)) := by omega
      have hlt : v / 2 ^ n % 2 * 2 ^ (l - (n + 1)) < 2 ^ (l - n) := by
        have : l - n = (l - (n + 1)) + 1 := by omega
        rw [this, Nat.pow_add, Nat.mul_comm]
        exact Nat.mul_lt_mul_of_pos_left hd (Nat.pow_pos (by decide))
      have h32 : (2:Nat) ^ (l - n) ≤ two32 := by
        rw [show two32 = 2 ^ 32 from rfl]; exact Nat.pow_le_pow_right (by decide) (by omega)
      have hdvd : 2 ^ (l - n) ∣ acc := hinv.dvd
      have hsh : (v >>> n) &&& 1 = v / 2 ^ n % 2 := by
        rw [and1, Nat.shiftRight_eq_div_pow]
      simp only [List.foldlM_cons, List.foldlM_nil, bind, Except.bind, pure, Except.pure]
      rw [sub_ok (by omega), hsh]
      simp only []
      rw [shl32_ok (by omega) (Nat.lt_of_lt_of_le hlt h32)]
      simp only []
      rw [or_eq_add_of_dvd hdvd hlt, hpow]
  obtain ⟨rc, h1, h2⟩ := key l (Nat.le_refl _)
  refine ⟨rc, ?_, h2⟩
  simp only [reverseCode, hD]
  exact h1

end Qwt.Proofs.Craft
