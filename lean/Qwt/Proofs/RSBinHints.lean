import Qwt.Proofs.RSBinWord

/-! Select hints, generically.  `D n` is the cumulative count after `n` build steps (a step is a
512-bit line for `RSWide`, a 64-bit word for `RSNarrow`); a group is eight steps.  A hint is
recorded at the first step at which the count reaches the next multiple of `P`; at most one
multiple is crossed per step because a step adds at most `P`. -/
namespace Qwt.RSBin

structure HintInv (D : Nat → Nat) (P n : Nat) (smp : Array Nat) (hint : Nat) : Prop where
  hint_eq : hint = D n / P
  size : smp.size = hint + 1
  zero : smp.getD 0 0 = 0
  pos : ∀ h, 1 ≤ h → h ≤ hint →
    ∃ m, m < n ∧ smp.getD h 0 = m / 8 ∧ D m < h * P ∧ h * P ≤ D (m + 1)

theorem HintInv.init (D : Nat → Nat) (P : Nat) (h0 : D 0 = 0) : HintInv D P 0 #[0] 0 where
  hint_eq := by simp [h0]
  size := rfl
  zero := rfl
  pos := by intro h h1 h2; omega

theorem getD_push_lt (a : Array Nat) (x i : Nat) (h : i < a.size) : (a.push x).getD i 0 = a.getD i 0 := by
  simp [Array.getD, h, Array.getElem_push_lt, Nat.lt_succ_of_lt h]

theorem getD_push_eq (a : Array Nat) (x : Nat) : (a.push x).getD a.size 0 = x := by
  simp [Array.getD]

theorem HintInv.step {D : Nat → Nat} {P n : Nat} {smp : Array Nat} {hint : Nat}
    (hv : HintInv D P n smp hint) (hP : 0 < P) (hmono : D n ≤ D (n + 1)) (hstep : D (n + 1) ≤ D n + P) :
    HintInv D P (n + 1)
      (if D (n + 1) / P > hint then smp.push (n / 8) else smp)
      (if D (n + 1) / P > hint then hint + 1 else hint) := by
  have hq1 : D n / P ≤ D (n + 1) / P := Nat.div_le_div_right hmono
  have hq2 : D (n + 1) / P ≤ D n / P + 1 := by
    calc D (n + 1) / P ≤ (D n + P) / P := Nat.div_le_div_right hstep
      _ = D n / P + 1 := Nat.add_div_right _ hP
  by_cases hc : D (n + 1) / P > hint
  · simp only [hc, if_true]
    have hnew : D (n + 1) / P = hint + 1 := by have := hv.hint_eq; omega
    refine ⟨hnew.symm, by simp [hv.size], ?_, ?_⟩
    · rw [getD_push_lt _ _ _ (by have := hv.size; omega)]; exact hv.zero
    · intro h h1 h2
      by_cases hh : h ≤ hint
      · obtain ⟨m, hm, e, a1, a2⟩ := hv.pos h h1 hh
        refine ⟨m, by omega, ?_, a1, a2⟩
        rw [getD_push_lt _ _ _ (by have := hv.size; omega)]; exact e
      · have hh' : h = hint + 1 := by omega
        subst hh'
        refine ⟨n, by omega, ?_, ?_, ?_⟩
        · have := getD_push_eq smp (n / 8)
          rw [hv.size] at this; exact this
        · -- D n / P = hint
          have : D n / P < hint + 1 := by have := hv.hint_eq; omega
          exact (Nat.div_lt_iff_lt_mul hP).1 this
        · have : hint + 1 ≤ D (n + 1) / P := by omega
          exact (Nat.le_div_iff_mul_le hP).1 this
  · simp only [hc, if_false]
    have hsame : D (n + 1) / P = hint := by have := hv.hint_eq; omega
    refine ⟨hsame.symm, hv.size, hv.zero, ?_⟩
    intro h h1 h2
    obtain ⟨m, hm, e, a1, a2⟩ := hv.pos h h1 h2
    exact ⟨m, by omega, e, a1, a2⟩

/-- the two hints read by a select for the `k`-th occurrence bracket its group `g` -/
theorem HintInv.bracket {D : Nat → Nat} {P N : Nat} {smp : Array Nat} {hint : Nat}
    (hv : HintInv D P N smp hint) (hP : 0 < P) (hmono : ∀ {i j}, i ≤ j → D i ≤ D j)
    (k : Nat) (hk : k < D N) (sent g : Nat) (hg1 : D (8 * g) ≤ k) (hg2 : k < D (8 * (g + 1)))
    (hsent : g ≤ sent) :
    k / P + 1 < (smp.push sent).size ∧ (smp.push sent).getD (k / P) 0 ≤ g ∧
      g ≤ (smp.push sent).getD (k / P + 1) 0 := by
  have hkh : k / P ≤ hint := by rw [hv.hint_eq]; exact Nat.div_le_div_right (Nat.le_of_lt hk)
  have hsz := hv.size
  generalize hkp : k / P = kp at *
  refine ⟨by simp; omega, ?_, ?_⟩
  · rw [getD_push_lt _ _ _ (by omega)]
    by_cases h0 : kp = 0
    · rw [h0, hv.zero]; exact Nat.zero_le _
    · obtain ⟨m, hm, e, a1, a2⟩ := hv.pos kp (by omega) hkh
      rw [e]
      -- D m < (k/P) * P ≤ k
      have h1 : kp * P ≤ k := by rw [← hkp]; exact Nat.div_mul_le_self k P
      apply Nat.le_of_not_lt
      intro hgt
      have : D (8 * (g + 1)) ≤ D m := hmono (by omega)
      omega
  · by_cases hlast : kp + 1 ≤ hint
    · rw [getD_push_lt _ _ _ (by omega)]
      obtain ⟨m, hm, e, a1, a2⟩ := hv.pos (kp + 1) (by omega) hlast
      rw [e]
      have h1 : k < (kp + 1) * P := by
        have := Nat.div_add_mod k P
        have := Nat.mod_lt k hP
        rw [Nat.add_mul, Nat.one_mul, Nat.mul_comm, ← hkp]; omega
      apply Nat.le_of_not_lt
      intro hgt
      have : D (m + 1) ≤ D (8 * g) := hmono (by omega)
      omega
    · have : kp + 1 = smp.size := by omega
      rw [this, getD_push_eq]; exact hsent

end Qwt.RSBin
