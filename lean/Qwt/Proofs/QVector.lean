import Qwt.Model.QVector

/-!
Helper lemmas for property C13 (`Qwt.Props.C13`): abstraction function and representation
invariant of the quad-vector model `Qwt.QV.QVector`, and the characterisation of every
model operation against them.  Core Lean only.
-/
namespace Qwt.QV
open Qwt

/-! ## Abstraction -/

/-- word `k` of the flat word array (0 outside the allocation) -/
def wd (d : Array Nat) (k : Nat) : Nat := d[k]?.getD 0

/-- high bit of the symbol at (global) position `i`: bit `i % 128` of word
    `i % 256 / 128` of line `i / 256` -/
def hbit (d : Array Nat) (i : Nat) : Bool :=
  (wd d (4 * (i / 256) + i % 256 / 128)).testBit (i % 128)

/-- low bit of the symbol at position `i`: same bit of word `2 + i % 256 / 128` -/
def lbit (d : Array Nat) (i : Nat) : Bool :=
  (wd d (4 * (i / 256) + 2 + i % 256 / 128)).testBit (i % 128)

/-- the symbol stored at position `i`, read directly from the words -/
def symAt (d : Array Nat) (i : Nat) : Nat := 2 * (hbit d i).toNat + (lbit d i).toNat

/-- abstraction: the sequence of stored symbols -/
def abs (q : QVector) : List Nat := (List.range (q.position / 2)).map (symAt q.data)

/-- representation invariant (with `n = position / 2` the number of symbols):
    `position` is even, there are exactly `⌈n/256⌉` lines of four words, every word is a
    `u128`, and every position at or after `n` (padding) holds two zero bits. -/
structure Inv (q : QVector) : Prop where
  even : q.position % 2 = 0
  size : q.data.size = 4 * ((q.position / 2 + 255) / 256)
  word : ∀ k, wd q.data k < 2 ^ 128
  pad : ∀ i, q.position / 2 ≤ i → symAt q.data i = 0

theorem symAt_lt (d : Array Nat) (i : Nat) : symAt d i < 4 := by
  unfold symAt
  cases hbit d i <;> cases lbit d i <;> decide

theorem symAt_eq_zero {d : Array Nat} {i : Nat} :
    symAt d i = 0 ↔ hbit d i = false ∧ lbit d i = false := by
  unfold symAt
  cases hbit d i <;> cases lbit d i <;> decide

theorem wd_of_lt {d : Array Nat} {k : Nat} (h : k < d.size) : wd d k = d[k] := by
  simp [wd, h]

theorem wd_of_ge {d : Array Nat} {k : Nat} (h : d.size ≤ k) : wd d k = 0 := by
  simp [wd, h]

theorem wd_modify {d : Array Nat} {k : Nat} (f : Nat → Nat) (hk : k < d.size) (j : Nat) :
    wd (d.modify k f) j = if j = k then f (wd d j) else wd d j := by
  unfold wd
  rw [Array.getElem?_modify]
  by_cases h : k = j
  · subst h; simp [hk]
  · have h' : ¬ j = k := fun e => h e.symm
    simp [h, h']

theorem wd_append_zero (d : Array Nat) (j : Nat) : wd (d ++ #[0, 0, 0, 0]) j = wd d j := by
  unfold wd
  rw [Array.getElem?_append]
  by_cases h : j < d.size
  · simp [h]
  · have h1 : d[j]? = none := by simp; omega
    rw [if_neg h, h1]
    generalize j - d.size = m
    match m with
    | 0 | 1 | 2 | 3 => rfl
    | m + 4 => simp

theorem hbit_append_zero (d : Array Nat) (i : Nat) : hbit (d ++ #[0, 0, 0, 0]) i = hbit d i := by
  simp only [hbit, wd_append_zero]

theorem lbit_append_zero (d : Array Nat) (i : Nat) : lbit (d ++ #[0, 0, 0, 0]) i = lbit d i := by
  simp only [lbit, wd_append_zero]

theorem symAt_append_zero (d : Array Nat) (i : Nat) :
    symAt (d ++ #[0, 0, 0, 0]) i = symAt d i := by
  simp only [symAt, hbit_append_zero, lbit_append_zero]

/-! ## `setSymbol` -/

theorem and3 (s : Nat) : s &&& 3 = s % 4 := Nat.and_two_pow_sub_one_eq_mod s 2
theorem and127 (s : Nat) : s &&& 127 = s % 128 := Nat.and_two_pow_sub_one_eq_mod s 7
theorem and255 (s : Nat) : s &&& 255 = s % 256 := Nat.and_two_pow_sub_one_eq_mod s 8
theorem shr1 (s : Nat) : s >>> 1 = s / 2 := Nat.shiftRight_eq_div_pow s 1
theorem shr7 (s : Nat) : s >>> 7 = s / 128 := Nat.shiftRight_eq_div_pow s 7
theorem shr8 (s : Nat) : s >>> 8 = s / 256 := Nat.shiftRight_eq_div_pow s 8

theorem setSymbol_eq (d : Array Nat) (line s p : Nat) :
    setSymbol d line s p =
      (d.modify (4 * line + p / 128) (fun w => w ||| ((s % 4 / 2) <<< (p % 128)))).modify
        (4 * line + (p / 128 + 2)) (fun w => w ||| ((s % 4 % 2) <<< (p % 128))) := by
  simp only [setSymbol, and3, and127, shr1, shr7, Nat.and_one_is_mod]

/-- bit `j` of `w ||| (b <<< sh)` for a one-bit `b` -/
theorem testBit_or_bit (w b sh j : Nat) (hb : b < 2) :
    (w ||| (b <<< sh)).testBit j = (w.testBit j || (decide (j = sh) && decide (b = 1))) := by
  rw [Nat.testBit_or, Nat.testBit_shiftLeft]
  have hb' : b = 0 ∨ b = 1 := by omega
  rcases hb' with rfl | rfl
  · simp
  · by_cases h : j = sh
    · subst h; simp
    · have : ¬ (j - sh = 0 ∧ sh ≤ j) := by omega
      by_cases h2 : sh ≤ j
      · have h3 : Nat.testBit 1 (j - sh) = false := by
          cases h4 : Nat.testBit 1 (j - sh)
          · rfl
          · have := Nat.testBit_one_eq_true_iff_self_eq_zero.mp h4; omega
        simp [h, h3]
      · simp [h, h2]

theorem or_bit_lt (w b sh : Nat) (hw : w < 2 ^ 128) (hb : b < 2) (hsh : sh < 128) :
    w ||| (b <<< sh) < 2 ^ 128 := by
  apply Nat.lt_pow_two_of_testBit
  intro j hj
  rw [testBit_or_bit _ _ _ _ hb]
  have h1 : w.testBit j = false :=
    Nat.testBit_lt_two_pow (Nat.lt_of_lt_of_le hw (Nat.pow_le_pow_right (by decide) hj))
  have h2 : ¬ j = sh := by omega
  simp [h1, h2]

theorem size_setSymbol (d : Array Nat) (line s p : Nat) : (setSymbol d line s p).size = d.size := by
  simp only [setSymbol_eq, Array.size_modify]

theorem wd_setSymbol {d : Array Nat} {line p : Nat} (s : Nat) (hp : p < 256)
    (hl : 4 * line + 3 < d.size) (j : Nat) :
    wd (setSymbol d line s p) j =
      if j = 4 * line + p / 128 then wd d j ||| ((s % 4 / 2) <<< (p % 128))
      else if j = 4 * line + (p / 128 + 2) then wd d j ||| ((s % 4 % 2) <<< (p % 128))
      else wd d j := by
  rw [setSymbol_eq, wd_modify _ (by rw [Array.size_modify]; omega), wd_modify _ (by omega)]
  by_cases h1 : j = 4 * line + p / 128
  · have h2 : ¬ j = 4 * line + (p / 128 + 2) := by omega
    simp only [h1, if_true]
    rw [if_neg (by omega)]
  · simp only [h1, if_false]

theorem word_setSymbol {d : Array Nat} {line p : Nat} (s : Nat) (hp : p < 256)
    (hl : 4 * line + 3 < d.size) (hw : ∀ k, wd d k < 2 ^ 128) (j : Nat) :
    wd (setSymbol d line s p) j < 2 ^ 128 := by
  rw [wd_setSymbol s hp hl]
  split
  · exact or_bit_lt _ _ _ (hw j) (by omega) (by omega)
  · split
    · exact or_bit_lt _ _ _ (hw j) (by omega) (by omega)
    · exact hw j

theorem hbit_setSymbol {d : Array Nat} {line p : Nat} (s : Nat) (hp : p < 256)
    (hl : 4 * line + 3 < d.size) (i : Nat) :
    hbit (setSymbol d line s p) i =
      (hbit d i || (decide (i = 256 * line + p) && decide (s % 4 / 2 = 1))) := by
  unfold hbit
  rw [wd_setSymbol s hp hl]
  by_cases h : i = 256 * line + p
  · have e1 : 4 * (i / 256) + i % 256 / 128 = 4 * line + p / 128 := by omega
    have e2 : i % 128 = p % 128 := by omega
    rw [if_pos e1, testBit_or_bit _ _ _ _ (by omega), e2]
    simp [h]
  · by_cases e1 : 4 * (i / 256) + i % 256 / 128 = 4 * line + p / 128
    · rw [if_pos e1, testBit_or_bit _ _ _ _ (by omega)]
      have e2 : ¬ i % 128 = p % 128 := by omega
      simp [h, e2]
    · rw [if_neg e1, if_neg (by omega)]
      simp [h]

theorem lbit_setSymbol {d : Array Nat} {line p : Nat} (s : Nat) (hp : p < 256)
    (hl : 4 * line + 3 < d.size) (i : Nat) :
    lbit (setSymbol d line s p) i =
      (lbit d i || (decide (i = 256 * line + p) && decide (s % 4 % 2 = 1))) := by
  unfold lbit
  rw [wd_setSymbol s hp hl]
  rw [if_neg (by omega)]
  by_cases h : i = 256 * line + p
  · have e1 : 4 * (i / 256) + 2 + i % 256 / 128 = 4 * line + (p / 128 + 2) := by omega
    have e2 : i % 128 = p % 128 := by omega
    rw [if_pos e1, testBit_or_bit _ _ _ _ (by omega), e2]
    simp [h]
  · by_cases e1 : 4 * (i / 256) + 2 + i % 256 / 128 = 4 * line + (p / 128 + 2)
    · rw [if_pos e1, testBit_or_bit _ _ _ _ (by omega)]
      have e2 : ¬ i % 128 = p % 128 := by omega
      simp [h, e2]
    · rw [if_neg e1]
      simp [h]

/-- writing symbol `s` into a slot that holds two zero bits stores `s % 4` there and
    leaves every other position unchanged -/
theorem symAt_setSymbol {d : Array Nat} {line p : Nat} (s : Nat) (hp : p < 256)
    (hl : 4 * line + 3 < d.size) (hz : symAt d (256 * line + p) = 0) (i : Nat) :
    symAt (setSymbol d line s p) i = if i = 256 * line + p then s % 4 else symAt d i := by
  unfold symAt
  rw [hbit_setSymbol s hp hl, lbit_setSymbol s hp hl]
  by_cases h : i = 256 * line + p
  · obtain ⟨h1, h2⟩ := symAt_eq_zero.mp hz
    subst h
    rw [h1, h2, if_pos rfl]
    have : s % 4 = 0 ∨ s % 4 = 1 ∨ s % 4 = 2 ∨ s % 4 = 3 := by omega
    rcases this with e | e | e | e <;> rw [e] <;> simp
  · simp [h]

/-! ## `push`, `extend`, `fromIter` -/

/-- the builder word array after the conditional `push(DataLine::default())` -/
def grow (b : QVector) : Array Nat :=
  if b.position / 2 % 256 = 0 then b.data ++ #[0, 0, 0, 0] else b.data

theorem size_grow {b : QVector} (h : Inv b) : (grow b).size = 4 * (b.position / 2 / 256 + 1) := by
  have hs := h.size
  unfold grow
  split
  · rw [Array.size_append, hs]; simp; omega
  · rw [hs]; omega

theorem push_eq (b : QVector) (s : Nat) (h : Inv b) (hn : b.position + 2 < two64) :
    push b s = .ok { data := setSymbol (grow b) (b.position / 2 / 256) s (b.position / 2 % 256),
                     position := b.position + 2 } := by
  have hs := size_grow h
  unfold grow at hs
  unfold push grow
  simp only [and255, add64, hn, if_true, beq_iff_eq]
  rw [if_neg (by omega)]
  have : (if b.position / 2 % 256 = 0 then b.data ++ #[0, 0, 0, 0] else b.data).size / 4 - 1 = b.position / 2 / 256 := by omega
  rw [this]
  rfl

theorem wd_grow (b : QVector) (j : Nat) : wd (grow b) j = wd b.data j := by
  unfold grow; split
  · exact wd_append_zero _ _
  · rfl

theorem symAt_grow (b : QVector) (i : Nat) : symAt (grow b) i = symAt b.data i := by
  simp only [symAt, hbit, lbit, wd_grow]

theorem push_ok (b : QVector) (s : Nat) (h : Inv b) (hn : b.position + 2 < two64) :
    ∃ b', push b s = .ok b' ∧ Inv b' ∧ abs b' = abs b ++ [s % 4] := by
  refine ⟨_, push_eq b s h hn, ?_, ?_⟩
  all_goals
    have hev := h.even
    have hsz := size_grow h
    have hp : b.position / 2 % 256 < 256 := Nat.mod_lt _ (by decide)
    have hl : 4 * (b.position / 2 / 256) + 3 < (grow b).size := by omega
    have hpos : 256 * (b.position / 2 / 256) + b.position / 2 % 256 = b.position / 2 := by omega
    have hz : symAt (grow b) (256 * (b.position / 2 / 256) + b.position / 2 % 256) = 0 := by
      rw [symAt_grow, hpos]; exact h.pad _ (Nat.le_refl _)
  · constructor
    · show (b.position + 2) % 2 = 0; omega
    · show (setSymbol _ _ _ _).size = 4 * (((b.position + 2) / 2 + 255) / 256)
      rw [size_setSymbol, hsz]; omega
    · intro k
      exact word_setSymbol s hp hl (fun k => by rw [wd_grow]; exact h.word k) k
    · intro i hi
      show symAt (setSymbol _ _ _ _) i = 0
      have hi' : b.position / 2 + 1 ≤ i := by
        have : (b.position + 2) / 2 ≤ i := hi
        omega
      rw [symAt_setSymbol s hp hl hz, hpos, if_neg (by omega), symAt_grow]
      exact h.pad i (by omega)
  · show List.map (symAt (setSymbol _ _ _ _)) (List.range ((b.position + 2) / 2)) = _
    have e : (b.position + 2) / 2 = b.position / 2 + 1 := by omega
    rw [e, List.range_succ, List.map_append, abs]
    congr 1
    · apply List.map_congr_left
      intro i hi
      have := List.mem_range.mp hi
      rw [symAt_setSymbol s hp hl hz, hpos, if_neg (by omega), symAt_grow]
    · simp only [List.map_cons, List.map_nil]
      rw [symAt_setSymbol s hp hl hz, hpos, if_pos rfl]
theorem asU8_mod4 (v : Int) : asU8 v % 4 = (v % 4).toNat := by
  unfold asU8; omega

theorem extend_ok (b : QVector) (vals : List Int) (h : Inv b)
    (hn : b.position + 2 * vals.length < two64) :
    ∃ q, extend b vals = .ok q ∧ Inv q ∧ q.position = b.position + 2 * vals.length ∧
      abs q = abs b ++ vals.map (fun v => (v % 4).toNat) := by
  induction vals generalizing b with
  | nil => exact ⟨b, rfl, h, rfl, by simp⟩
  | cons v vs ih =>
    simp only [List.length_cons] at hn
    obtain ⟨b', e1, i1, a1⟩ := push_ok b (asU8 v) h (by omega)
    have p1 : b'.position = b.position + 2 := by
      rw [push_eq b _ h (by omega)] at e1
      cases e1; rfl
    obtain ⟨q, e2, i2, p2, a2⟩ := ih b' i1 (by omega)
    refine ⟨q, ?_, i2, ?_, ?_⟩
    · unfold extend at e2 ⊢
      rw [List.foldlM_cons, e1]; exact e2
    · rw [p2, p1, List.length_cons]; omega
    · rw [a2, a1, asU8_mod4]; simp

theorem empty_inv : Inv {} ∧ abs {} = [] := by
  refine ⟨⟨rfl, rfl, ?_, ?_⟩, rfl⟩
  · intro k; simp [wd]
  · intro i _; simp [symAt, hbit, lbit, wd]

theorem fromIter_ok (vals : List Int) (hn : 2 * vals.length < two64) :
    ∃ q, fromIter vals = .ok q ∧ Inv q ∧ abs q = vals.map (fun v => (v % 4).toNat) := by
  obtain ⟨q, e, i, _, a⟩ := extend_ok {} vals empty_inv.1 (by simpa using hn)
  exact ⟨q, e, i, by simpa [empty_inv.2] using a⟩

theorem length_abs (q : QVector) : (abs q).length = q.position / 2 := by simp [abs]

theorem len_ok (q : QVector) : len q = (abs q).length := by
  rw [length_abs, len, shr1]

theorem isEmpty_ok {q : QVector} (h : Inv q) : isEmpty q = true ↔ abs q = [] := by
  have := h.even
  rw [← List.length_eq_zero_iff, length_abs, isEmpty, beq_iff_eq]; omega
/-! ## `get`, `getUnchecked`, iterator -/

theorem shr_and_one (w sh : Nat) : (w >>> sh) &&& 1 = (w.testBit sh).toNat := by
  rw [Nat.and_one_is_mod, Nat.shiftRight_eq_div_pow, Nat.toNat_testBit]

theorem two_bits (a b : Bool) : (a.toNat <<< 1) ||| b.toNat = 2 * a.toNat + b.toNat := by
  cases a <;> cases b <;> decide

theorem uidx_ok {d : Array Nat} {k : Nat} (h : k < d.size) : uidx d k = .ok (wd d k) := by
  simp [uidx, h, wd]

theorem lineGet_ok {d : Array Nat} {line p : Nat} (hp : p < 256) (hl : 4 * line + 3 < d.size) :
    lineGet d line p = .ok (symAt d (256 * line + p)) := by
  unfold lineGet
  simp only [shr7, and127]
  rw [uidx_ok (by omega), uidx_ok (by omega)]
  simp only [bind, Except.bind, pure, Except.pure, shr_and_one, two_bits]
  unfold symAt hbit lbit
  have e1 : 4 * ((256 * line + p) / 256) + (256 * line + p) % 256 / 128 = 4 * line + p / 128 := by omega
  have e2 : 4 * ((256 * line + p) / 256) + 2 + (256 * line + p) % 256 / 128 = 4 * line + (p / 128 + 2) := by omega
  have e3 : (256 * line + p) % 128 = p % 128 := by omega
  rw [e1, e2, e3]

theorem getElem_abs (q : QVector) (i : Nat) (hi : i < (abs q).length) :
    (abs q)[i] = symAt q.data i := by
  simp [abs]

theorem getUnchecked_ok (dbg : Bool) {q : QVector} (h : Inv q) {i : Nat}
    (hi : i < (abs q).length) : getUnchecked dbg q i = .ok (abs q)[i] := by
  have hs := h.size
  have hi' : i < q.position / 2 := by simpa [length_abs] using hi
  have hl : 4 * (i / 256) + 3 < q.data.size := by omega
  unfold getUnchecked
  have e : (256 * (i / 256) + i % 256) = i := by omega
  have hnl : ¬ (i / 256 ≥ q.data.size / 4) := by omega
  simp only [dbgAssert, hi', decide_true, Bool.not_true, Bool.and_false, shr8, and255, nLines]
  rw [lineGet_ok (Nat.mod_lt _ (by decide)) hl, e, getElem_abs, if_neg hnl]
  rfl

theorem get_ok (dbg : Bool) {q : QVector} (h : Inv q) (i : Nat) :
    get dbg q i = .ok (abs q)[i]? := by
  unfold get
  rw [shr1]
  by_cases hi : i < q.position / 2
  · have hi' : i < (abs q).length := by rw [length_abs]; exact hi
    rw [if_neg (by omega), getUnchecked_ok dbg h hi', List.getElem?_eq_getElem hi']
    rfl
  · rw [if_pos (by omega), List.getElem?_eq_none (by rw [length_abs]; omega)]
    rfl

theorem iter_next_ok (dbg : Bool) {q : QVector} (h : Inv q) (k : Nat) (hk : k + 1 < two64) :
    Iter.next dbg q { i := k } = .ok ((abs q)[k]?, { i := k + 1 }) := by
  unfold Iter.next
  simp only [add64, hk, if_true]
  show (do let v ← get dbg q (k + 1 - 1); pure (v, ({ i := k + 1 } : Iter))) = _
  rw [Nat.add_sub_cancel, get_ok dbg h]
  rfl
/-! ## `normalize`, `lineRank` -/

theorem popc_zero : popc 0 = 0 := by rw [popc]; simp

theorem popc_eq_countP (n : Nat) : ∀ w, w < 2 ^ n →
    popc w = (List.range n).countP (fun j => w.testBit j) := by
  induction n with
  | zero => intro w hw; have : w = 0 := by omega
            subst this; simp [popc_zero]
  | succ n ih =>
    intro w hw
    rw [popc]
    split
    · next h => subst h; simp
    · rw [ih (w / 2) (by rw [Nat.pow_succ] at hw; omega), List.range_succ_eq_map,
        List.countP_cons, List.countP_map]
      have e : ((fun j => w.testBit j) ∘ Nat.succ) = fun j => (w / 2).testBit j := by
        funext j; simp [Nat.testBit_succ]
      rw [e, Nat.testBit_zero]
      have : w % 2 = 0 ∨ w % 2 = 1 := by omega
      rcases this with h | h <;> simp [h] <;> omega

/-- masking with `2^k - 1` and counting = counting the set bits below `k` -/
theorem popc_and_mask (w k : Nat) :
    popc (w &&& (2 ^ k - 1)) = (List.range k).countP (fun j => w.testBit j) := by
  rw [popc_eq_countP k _ (Nat.and_lt_two_pow _ (by have := Nat.two_pow_pos k; omega))]
  apply List.countP_congr
  intro j hj
  have := List.mem_range.mp hj
  simp [this]

theorem mask128_eq : mask128 = 2 ^ 128 - 1 := by decide

theorem testBit_mask128 (j : Nat) : mask128.testBit j = decide (j < 128) := by
  rw [mask128_eq, Nat.testBit_two_pow_sub_one]

theorem mask128_lt : mask128 < 2 ^ 128 := by decide

theorem hbit_line (d : Array Nat) (line j : Nat) (hj : j < 256) :
    hbit d (256 * line + j) = (wd d (4 * line + j / 128)).testBit (j % 128) := by
  unfold hbit
  have e1 : 4 * ((256 * line + j) / 256) + (256 * line + j) % 256 / 128 = 4 * line + j / 128 := by omega
  have e3 : (256 * line + j) % 128 = j % 128 := by omega
  rw [e1, e3]

theorem lbit_line (d : Array Nat) (line j : Nat) (hj : j < 256) :
    lbit d (256 * line + j) = (wd d (4 * line + (j / 128 + 2))).testBit (j % 128) := by
  unfold lbit
  have e1 : 4 * ((256 * line + j) / 256) + 2 + (256 * line + j) % 256 / 128 = 4 * line + (j / 128 + 2) := by omega
  have e3 : (256 * line + j) % 128 = j % 128 := by omega
  rw [e1, e3]

/-- one normalised word: bit `j` is set iff the (high, low) bit pair encodes `symbol` -/
theorem norm_word_bit (wh wl symbol j : Nat) (hs : symbol < 4) (hj : j < 128) :
    (((wh ^^^ (if symbol >>> 1 == 0 then mask128 else 0)) &&&
      (wl ^^^ (if symbol &&& 1 == 0 then mask128 else 0))).testBit j)
      = decide (2 * (wh.testBit j).toNat + (wl.testBit j).toNat = symbol) := by
  rw [Nat.testBit_and, Nat.testBit_xor, Nat.testBit_xor]
  have : symbol = 0 ∨ symbol = 1 ∨ symbol = 2 ∨ symbol = 3 := by omega
  rcases this with rfl | rfl | rfl | rfl <;>
    simp [testBit_mask128, hj] <;>
    cases wh.testBit j <;> cases wl.testBit j <;> decide

theorem norm_word_lt (wh wl symbol : Nat) (h2 : wl < 2 ^ 128) :
    ((wh ^^^ (if symbol >>> 1 == 0 then mask128 else 0)) &&&
      (wl ^^^ (if symbol &&& 1 == 0 then mask128 else 0))) < 2 ^ 128 := by
  apply Nat.and_lt_two_pow
  apply Nat.xor_lt_two_pow h2
  split
  · exact mask128_lt
  · exact Nat.two_pow_pos _

/-- `normalize` never faults on an allocated line and a symbol `< 4`; the two words it
    returns are `u128`s and are the characteristic bit vectors of `symbol` in the two
    half-lines (stated on the raw words: `symAt`). -/
theorem normalize_raw {d : Array Nat} {line symbol : Nat} (hw : ∀ k, wd d k < 2 ^ 128)
    (hs : symbol < 4) (hl : 4 * line + 3 < d.size) :
    ∃ w0 w1, normalize d line symbol = .ok (w0, w1) ∧ w0 < 2 ^ 128 ∧ w1 < 2 ^ 128 ∧
      (∀ j, j < 128 → w0.testBit j = decide (symAt d (256 * line + j) = symbol)) ∧
      (∀ j, j < 128 → w1.testBit j = decide (symAt d (256 * line + 128 + j) = symbol)) := by
  refine ⟨_, _, ?_, norm_word_lt (wd d (4 * line)) _ symbol (hw (4 * line + 2)),
    norm_word_lt (wd d (4 * line + 1)) _ symbol (hw (4 * line + 3)), ?_, ?_⟩
  · unfold normalize
    have : ¬ (symbol >>> 1 ≥ 2) := by rw [shr1]; omega
    rw [uidx_ok (by omega), uidx_ok (by omega), uidx_ok (by omega), uidx_ok (by omega)]
    simp only [this, if_false]
    rfl
  · intro j hj
    rw [norm_word_bit _ _ _ _ hs hj]
    unfold symAt
    rw [hbit_line _ _ _ (by omega), lbit_line _ _ _ (by omega)]
    have e1 : j / 128 = 0 := by omega
    have e2 : j % 128 = j := by omega
    rw [e1, e2]
    rfl
  · intro j hj
    rw [norm_word_bit _ _ _ _ hs hj]
    unfold symAt
    rw [Nat.add_assoc, hbit_line _ _ _ (by omega), lbit_line _ _ _ (by omega)]
    have e1 : (128 + j) / 128 = 1 := by omega
    have e2 : (128 + j) % 128 = j := by omega
    rw [e1, e2]
theorem rank_mask0 (i : Nat) (hi : i ≤ 256) :
    (if i >>> 7 == 0 then (1 <<< (i &&& 127)) - 1 else mask128) = 2 ^ (min i 128) - 1 := by
  rw [shr7, and127, Nat.shiftLeft_eq, Nat.one_mul]
  by_cases h : i < 128
  · have e1 : i / 128 = 0 := by omega
    have e2 : i % 128 = i := by omega
    have e3 : min i 128 = i := by omega
    rw [e1, e2, e3]; rfl
  · have e1 : ¬ (i / 128 = 0) := by omega
    have e3 : min i 128 = 128 := by omega
    rw [e3, ← mask128_eq]
    simp [e1]

theorem rank_mask1 (i : Nat) (hi : i ≤ 256) :
    (if i >>> 7 == 1 then (1 <<< (i &&& 127)) - 1 else (if i >>> 7 == 2 then mask128 else 0))
      = 2 ^ (i - 128) - 1 := by
  rw [shr7, and127, Nat.shiftLeft_eq, Nat.one_mul]
  by_cases h : i < 128
  · have e1 : i / 128 = 0 := by omega
    have e3 : i - 128 = 0 := by omega
    rw [e1, e3]; rfl
  · by_cases h2 : i < 256
    · have e1 : i / 128 = 1 := by omega
      have e2 : i % 128 = i - 128 := by omega
      rw [e1, e2]; rfl
    · have e : i = 256 := by omega
      subst e; decide

theorem lineRank_raw (dbg : Bool) {d : Array Nat} {line symbol i : Nat}
    (hw : ∀ k, wd d k < 2 ^ 128) (hs : symbol < 4) (hl : 4 * line + 3 < d.size) (hi : i ≤ 256) :
    lineRank dbg d line symbol i =
      .ok ((List.range i).countP (fun j => decide (symAt d (256 * line + j) = symbol))) := by
  obtain ⟨w0, w1, e, -, -, b0, b1⟩ := normalize_raw hw hs hl
  unfold lineRank
  have h3 : symbol ≤ 3 := by omega
  simp only [dbgAssert, h3, hi, decide_true, Bool.not_true, Bool.and_false, e,
    rank_mask0 i hi, rank_mask1 i hi]
  show Except.ok _ = Except.ok _
  rw [popc_and_mask, popc_and_mask]
  apply congrArg Except.ok
  have hsplit : i = min i 128 + (i - 128) := by omega
  have A : (List.range (min i 128)).countP (fun j => w0.testBit j) =
      (List.range (min i 128)).countP (fun j => decide (symAt d (256 * line + j) = symbol)) :=
    List.countP_congr (fun j hj => by
      have := List.mem_range.mp hj
      simp only [b0 j (by omega)])
  have B : (List.range (i - 128)).countP (fun j => w1.testBit j) =
      (List.range (i - 128)).countP
        ((fun j => decide (symAt d (256 * line + j) = symbol)) ∘ (fun x => min i 128 + x)) :=
    List.countP_congr (fun j hj => by
      have := List.mem_range.mp hj
      have e : min i 128 = 128 := by omega
      simp only [b1 j (by omega), Function.comp, e, Nat.add_assoc])
  rw [A, B]
  conv => rhs; rw [hsplit, List.range_add, List.countP_append, List.countP_map]
/-! ## abstract-level statements for `normalize` / `lineRank` -/

/-- under the invariant the raw symbol at any position is the abstract one, padding and
    everything beyond the allocation reading as symbol 0 -/
theorem symAt_eq_getD {q : QVector} (h : Inv q) (i : Nat) :
    symAt q.data i = (abs q).getD i 0 := by
  by_cases hi : i < q.position / 2
  · have hi' : i < (abs q).length := by rw [length_abs]; exact hi
    rw [List.getD_eq_getElem?_getD, List.getElem?_eq_getElem hi', getElem_abs]; rfl
  · rw [List.getD_eq_getElem?_getD, List.getElem?_eq_none (by rw [length_abs]; omega)]
    exact h.pad i (by omega)

theorem line_lt {q : QVector} {line : Nat} (hl : line < nLines q) (h : Inv q) :
    4 * line + 3 < q.data.size := by
  have := h.size; unfold nLines at hl; omega

theorem drop_take_abs (q : QVector) (a i : Nat) (h : a + i ≤ (abs q).length) :
    ((abs q).drop a).take i = (List.range i).map (fun j => symAt q.data (a + j)) := by
  apply List.ext_getElem
  · simp; omega
  · intro k h1 h2
    simp [abs]

theorem normalize_ok {q : QVector} (h : Inv q) {line symbol : Nat} (hs : symbol < 4)
    (hl : line < nLines q) :
    ∃ w0 w1, normalize q.data line symbol = .ok (w0, w1) ∧ w0 < 2 ^ 128 ∧ w1 < 2 ^ 128 ∧
      (∀ j, j < 128 → w0.testBit j = decide ((abs q).getD (256 * line + j) 0 = symbol)) ∧
      (∀ j, j < 128 → w1.testBit j = decide ((abs q).getD (256 * line + 128 + j) 0 = symbol)) := by
  obtain ⟨w0, w1, e, l0, l1, b0, b1⟩ := normalize_raw h.word hs (line_lt hl h)
  refine ⟨w0, w1, e, l0, l1, ?_, ?_⟩
  · intro j hj; rw [b0 j hj, symAt_eq_getD h]
  · intro j hj; rw [b1 j hj, symAt_eq_getD h]

/-- rank inside a line, any `i ≤ 256`: counts over the zero-padded sequence -/
theorem lineRank_padded (dbg : Bool) {q : QVector} (h : Inv q) {line symbol i : Nat}
    (hs : symbol < 4) (hl : line < nLines q) (hi : i ≤ 256) :
    lineRank dbg q.data line symbol i =
      .ok ((List.range i).countP (fun j => (abs q).getD (256 * line + j) 0 == symbol)) := by
  rw [lineRank_raw dbg h.word hs (line_lt hl h) hi]
  apply congrArg Except.ok
  apply List.countP_congr
  intro j _
  simp only [symAt_eq_getD h, beq_iff_eq, decide_eq_true_eq]

theorem lineRank_ok (dbg : Bool) {q : QVector} (h : Inv q) {line symbol i : Nat}
    (hs : symbol < 4) (hl : line < nLines q) (hi : i ≤ min 256 (len q - 256 * line)) :
    lineRank dbg q.data line symbol i =
      .ok ((((abs q).drop (256 * line)).take i).count symbol) := by
  have hlen := len_ok q
  have hsz := h.size
  have hl' : 256 * line < (abs q).length := by
    unfold nLines at hl; rw [length_abs]; omega
  rw [lineRank_raw dbg h.word hs (line_lt hl h) (by omega), drop_take_abs q _ _ (by omega),
    List.count, List.countP_map]
  apply congrArg Except.ok
  apply List.countP_congr
  intro j _
  simp
end Qwt.QV
