import Qwt.Model.Prefetch
import Qwt.Proofs.BitVectorOps
import Qwt.Proofs.QVector
import Qwt.Proofs.PfsArith
import Qwt.Props.C06

/-!
`PrefetchSupport::new` (`src/quadwt/prefetch_support.rs`, model `Qwt.PFS.new`) never faults on a
quad vector satisfying the C13 invariant and produces four sample bit vectors whose prefix
ranks are the sampled (`/ rate`, `rate = 2 ^ pfsSampleShift`) prefix ranks of the level: `PfsRep`.

The build state holds three arrays of length four; they are handled as `mk4 f = #[f 0, f 1, f 2, f 3]`.
-/
set_option linter.unusedVariables false
open Qwt Qwt.BV

namespace Qwt.PfsP

def mk4 {α} (f : Nat → α) : Array α := #[f 0, f 1, f 2, f 3]

theorem lt4 {k : Nat} (h : k < 4) : k = 0 ∨ k = 1 ∨ k = 2 ∨ k = 3 := by omega

theorem mk4_get {α} [Inhabited α] (f : Nat → α) {k : Nat} (h : k < 4) : (mk4 f)[k]! = f k := by
  rcases lt4 h with rfl | rfl | rfl | rfl <;> rfl

theorem mk4_modify {α} (f : Nat → α) (g : α → α) {s : Nat} (h : s < 4) :
    (mk4 f).modify s g = mk4 (fun k => if k = s then g (f k) else f k) := by
  rcases lt4 h with rfl | rfl | rfl | rfl <;> rfl

theorem mk4_set {α} (f : Nat → α) (v : α) {s : Nat} (h : s < 4) :
    (mk4 f).set! s v = mk4 (fun k => if k = s then v else f k) := by
  rcases lt4 h with rfl | rfl | rfl | rfl <;> rfl

theorem mk4_congr {α} {f g : Nat → α} (h : ∀ k, k < 4 → f k = g k) : mk4 f = mk4 g := by
  unfold mk4
  rw [h 0 (by decide), h 1 (by decide), h 2 (by decide), h 3 (by decide)]

theorem ok_bind {α β} (a : α) (f : α → M β) : (Except.ok a >>= f) = f a := rfl

theorem push4 (bv bv' : Nat → BitVector) (bits : Array Bool)
    (h : ∀ k, k < 4 → BV.push (bv k) bits[k]! = .ok (bv' k)) :
    (List.range 4).foldlM (fun (bvs : Array BitVectorMut) k => do
        let b ← BV.push bvs[k]! bits[k]!
        pure (bvs.set! k b)) (mk4 bv) = .ok (mk4 bv') := by
  have e : List.range 4 = [0, 1, 2, 3] := rfl
  rw [e]
  simp only [List.foldlM_cons, List.foldlM_nil]
  have h0 := h 0 (by decide)
  have h1 := h 1 (by decide)
  have h2 := h 2 (by decide)
  have h3 := h 3 (by decide)
  have e0 : (mk4 bv)[0]! = bv 0 := rfl
  rw [e0, h0, ok_bind, pure_bind]
  have e1 : ((mk4 bv).set! 0 (bv' 0))[1]! = bv 1 := rfl
  rw [e1, h1, ok_bind, pure_bind]
  have e2 : (((mk4 bv).set! 0 (bv' 0)).set! 1 (bv' 1))[2]! = bv 2 := rfl
  rw [e2, h2, ok_bind, pure_bind]
  have e3 : ((((mk4 bv).set! 0 (bv' 0)).set! 1 (bv' 1)).set! 2 (bv' 2))[3]! = bv 3 := rfl
  rw [e3, h3, ok_bind]
  rfl


/-- loop invariant of `PrefetchSupport::new` after `i` elements of `L` -/
def StInv (L : List Nat) (i : Nat) (bv : Nat → BitVector) (cnt : Nat → Nat) (bit : Nat → Bool) : Prop :=
  ∀ k, k < 4 →
    cnt k = Spec.rank k i L ∧
    bit k = decide (Spec.rank k (cOf L.length i) L / rate < Spec.rank k i L / rate) ∧
    BV.Inv (bv k) ∧ (BV.abs (bv k)).length = mOf L.length i ∧
    ∀ j, j ≤ mOf L.length i →
      Spec.rank true j (BV.abs (bv k)) = Spec.rank k (covered L.length j) L / rate

theorem mOf_le {n i : Nat} (h : i ≤ n) : mOf n i ≤ n := by
  by_cases hin : i = n
  · subst hin; rw [mOf_self]; exact nbOf_le _
  · rw [mOf_of_ne hin]
    by_cases h0 : i = 0
    · subst h0; rw [Nat.zero_add, Nat.div_eq_of_lt (by have := rate_pos; omega)]; omega
    · have e := ceil_succ rate_pos (i - 1)
      rw [show i - 1 + 1 + rate - 1 = i + rate - 1 by omega] at e
      have := Nat.div_le_self (i - 1) rate
      omega


theorem getElem?_of_eq {L : List Nat} {i sym : Nat} (hi : i < L.length) (hs : L[i] = sym) :
    L[i]? = some sym := by rw [List.getElem?_eq_getElem hi, hs]

theorem buildStep_ok (qv : QV.QVector) (hq : QV.Inv qv) (hn : (QV.abs qv).length + 1 < two64)
    (i : Nat) (hi : i < (QV.abs qv).length) (bv : Nat → BitVector) (cnt : Nat → Nat)
    (bit : Nat → Bool) (h : StInv (QV.abs qv) i bv cnt bit) :
    ∃ bv' cnt' bit', PFS.buildStep qv rate ⟨mk4 bv, mk4 cnt, mk4 bit⟩ i =
        .ok ⟨mk4 bv', mk4 cnt', mk4 bit'⟩ ∧ StInv (QV.abs qv) (i + 1) bv' cnt' bit' := by
  have hget := QV.getUnchecked_ok false hq hi
  have hsym : (QV.abs qv)[i] < 4 := by rw [QV.getElem_abs]; exact QV.symAt_lt _ _
  generalize hs : (QV.abs qv)[i] = sym at hget hsym
  have hLi := getElem?_of_eq hi hs
  generalize hL : QV.abs qv = L at *
  have hlen : QV.len qv = L.length := by rw [QV.len_ok, hL]
  -- the new counters and flags
  have hcnt : ∀ k, k < 4 → (if k = sym then cnt k + 1 else cnt k) = Spec.rank k (i + 1) L := by
    intro k hk
    by_cases e : k = sym
    · rw [if_pos e, (h k hk).1, RSQP.rank_succ_of_eq k L (by rw [hLi, e])]
    · rw [if_neg e, (h k hk).1, RSQP.rank_succ_of_ne k L (by rw [hLi]; intro e'; cases e'; exact e rfl)]
  have hbit : ∀ k, k < 4 →
      (if ((cnt sym + 1) % rate == 0) = true then (if k = sym then true else bit k) else bit k) =
        decide (Spec.rank k (cOf L.length i) L / rate < Spec.rank k (i + 1) L / rate) := by
    intro k hk
    have hle := RSQP.rank_mono k L (cOf_le (Nat.le_of_lt hi))
    by_cases e : k = sym
    · subst e
      rw [RSQP.rank_succ_of_eq k L hLi, flag_succ hle, ← (h k hk).2.1, ← (h k hk).1]
      cases ((cnt k + 1) % rate == 0) <;> simp
    · rw [RSQP.rank_succ_of_ne k L (by rw [hLi]; intro e'; cases e'; exact e rfl), ← (h k hk).2.1]
      simp [e]
  unfold PFS.buildStep
  rw [hget]
  simp only [ok_bind, mk4_modify cnt _ hsym]
  rw [mk4_get _ hsym, if_pos rfl]
  have hbits : (if ((cnt sym + 1) % rate == 0) = true then (mk4 bit).set! sym true else mk4 bit) =
      mk4 (fun k => if ((cnt sym + 1) % rate == 0) = true then (if k = sym then true else bit k)
        else bit k) := by
    cases ((cnt sym + 1) % rate == 0)
    · rfl
    · simp only [if_true]; exact mk4_set bit true hsym
  rw [hbits]
  have hcond : ((i % rate == 0 || i + 1 == QV.len qv) = true) ↔ (i % rate = 0 ∨ i + 1 = L.length) := by
    rw [hlen]; simp
  by_cases hp : i % rate = 0 ∨ i + 1 = L.length
  · rw [if_pos (hcond.mpr hp)]
    obtain ⟨hm, hc, hcov⟩ := step_push hi hp
    let bitN : Nat → Bool := fun k =>
      if ((cnt sym + 1) % rate == 0) = true then (if k = sym then true else bit k) else bit k
    let bv' : Nat → BitVector := fun k =>
      match BV.push (bv k) (bitN k) with
      | .ok b => b
      | .error _ => bv k
    have hpush : ∀ k, k < 4 → BV.push (bv k) (bitN k) = .ok (bv' k) ∧ BV.Inv (bv' k) ∧
        BV.abs (bv' k) = BV.abs (bv k) ++ [bitN k] := by
      intro k hk
      obtain ⟨_, _, hI, hlenk, _⟩ := h k hk
      have hnb : (bv k).nBits + 1 < two64 := by
        rw [← BV.abs_length, hlenk]
        have := mOf_le (Nat.le_of_lt hi)
        omega
      obtain ⟨b', e, hI', ha'⟩ := BV.push_spec (bv k) (bitN k) hI hnb
      have eb : bv' k = b' := by simp only [bv', e]
      rw [eb]; exact ⟨e, hI', ha'⟩
    refine ⟨bv', fun k => if k = sym then cnt k + 1 else cnt k, fun _ => false, ?_, ?_⟩
    · rw [push4 bv bv' _ (fun k hk => by rw [mk4_get _ hk]; exact (hpush k hk).1)]
      rfl
    · intro k hk
      obtain ⟨_, _, hI, hlenk, hpre⟩ := h k hk
      obtain ⟨_, hI', ha'⟩ := hpush k hk
      refine ⟨hcnt k hk, ?_, hI', ?_, ?_⟩
      · rw [hc]; simp
      · rw [ha', List.length_append, hlenk, hm]; rfl
      · intro j hj
        rw [ha']
        by_cases hjm : j ≤ mOf L.length i
        · rw [rank_append_le _ _ _ (by rw [hlenk]; exact hjm)]; exact hpre j hjm
        · have ej : j = (BV.abs (bv k)).length + 1 := by rw [hlenk]; omega
          rw [ej, rank_append_last, hlenk, hpre _ (Nat.le_refl _), covered_mOf (Nat.le_of_lt hi),
            hcov]
          show _ + (if bitN k = true then 1 else 0) = _
          rw [show bitN k = _ from hbit k hk]
          exact flag_add (RSQP.rank_mono k L (by have := cOf_le (Nat.le_of_lt hi); omega))
            (by
              have := RSQP.rank_sub_le k L (i := cOf L.length i) (j := i + 1)
                (by have := cOf_le (Nat.le_of_lt hi); omega)
              have := lt_cOf_add hi
              omega)
  · rw [if_neg (fun hc => hp (hcond.mp hc))]
    obtain ⟨hm, hc⟩ := step_nopush hi hp
    refine ⟨bv, fun k => if k = sym then cnt k + 1 else cnt k, _, rfl, ?_⟩
    intro k hk
    obtain ⟨_, _, hI, hlenk, hpre⟩ := h k hk
    refine ⟨hcnt k hk, ?_, hI, ?_, ?_⟩
    · rw [hc]; exact hbit k hk
    · rw [hm]; exact hlenk
    · rw [hm]; exact hpre


theorem init_stInv (L : List Nat) :
    StInv L 0 (fun _ => ({} : BitVector)) (fun _ => 0) (fun _ => false) := by
  intro k _
  refine ⟨(RSQP.rank_zero k L).symm, ?_, BV.init_inv.1, ?_, ?_⟩
  · rw [cOf_zero]; simp
  · rw [BV.init_inv.2, mOf_zero]; rfl
  · intro j hj
    rw [mOf_zero] at hj
    have : j = 0 := by omega
    subst this
    rw [covered_zero, RSQP.rank_zero, RSQP.rank_zero, Nat.zero_div]

theorem build_fold (qv : QV.QVector) (hq : QV.Inv qv) (hn : (QV.abs qv).length + 1 < two64) :
    ∀ n, n ≤ (QV.abs qv).length → ∃ bv cnt bit,
      (List.range n).foldlM (PFS.buildStep qv rate) {} = .ok ⟨mk4 bv, mk4 cnt, mk4 bit⟩ ∧
      StInv (QV.abs qv) n bv cnt bit := by
  intro n
  induction n with
  | zero => intro _; exact ⟨_, _, _, rfl, init_stInv _⟩
  | succ n ih =>
    intro hle
    obtain ⟨bv, cnt, bit, e, hI⟩ := ih (by omega)
    obtain ⟨bv', cnt', bit', e', hI'⟩ := buildStep_ok qv hq hn n (by omega) bv cnt bit hI
    refine ⟨bv', cnt', bit', ?_, hI'⟩
    rw [List.range_succ, List.foldlM_append, e, ok_bind, List.foldlM_cons, e', ok_bind]
    rfl

theorem mapM4 {α β} (f : α → M β) (a : Nat → α) (b : Nat → β)
    (h : ∀ k, k < 4 → f (a k) = .ok (b k)) : (mk4 a).mapM f = .ok (mk4 b) := by
  rw [Array.mapM_eq_mapM_toList]
  show List.toArray <$> List.mapM f [a 0, a 1, a 2, a 3] = _
  simp only [List.mapM_cons, List.mapM_nil, h 0 (by decide), h 1 (by decide), h 2 (by decide),
    h 3 (by decide), ok_bind]
  rfl

/-- what `PrefetchSupport::new` establishes for a level holding the quaternary list `L` -/
structure PfsRep (L : List Nat) (p : PFS.PrefetchSupport) : Prop where
  shift : p.sampleRateShift = Extracted.pfsSampleShift
  size : p.samples.size = 4
  sample : ∀ k, k < 4 → ∃ r bits, p.samples[k]? = some r ∧ RSN.Inv r bits ∧
    bits.length = nbOf L.length ∧
    ∀ j, j ≤ nbOf L.length →
      Spec.rank true j bits = Spec.rank k (covered L.length j) L / rate

theorem mk4_getElem? {α} (f : Nat → α) {k : Nat} (h : k < 4) : (mk4 f)[k]? = some (f k) := by
  rcases lt4 h with rfl | rfl | rfl | rfl <;> rfl

theorem new_ok (qv : QV.QVector) (hq : QV.Inv qv) (hn : (QV.abs qv).length + 1 < two64) :
    ∃ p, PFS.new qv Extracted.pfsSampleShift = .ok p ∧ PfsRep (QV.abs qv) p := by
  obtain ⟨bv, cnt, bit, e, hI⟩ := build_fold qv hq hn _ (Nat.le_refl _)
  let r : Nat → RSN.RSNarrow := fun k =>
    match RSN.new (bv k) with
    | .ok x => x
    | .error _ => default
  have hr : ∀ k, k < 4 → RSN.new (bv k) = .ok (r k) ∧ RSN.Inv (r k) (BV.abs (bv k)) := by
    intro k hk
    obtain ⟨x, e1, _, e3⟩ := Props.C06.rsn_new_inv (Props.C06.holds_of_inv (hI k hk).2.2.1)
    have : r k = x := by simp only [r, e1]
    rw [this]; exact ⟨e1, e3⟩
  refine ⟨⟨mk4 r, Extracted.pfsSampleShift⟩, ?_, rfl, rfl, ?_⟩
  · unfold PFS.new
    rw [one_shiftLeft_shift, QV.len_ok]
    show (List.foldlM (PFS.buildStep qv rate) { } (List.range (QV.abs qv).length) >>= _) = _
    rw [e, ok_bind]
    show (mk4 bv).mapM RSN.new >>= _ = _
    rw [mapM4 RSN.new bv r (fun k hk => (hr k hk).1)]
    rfl
  · intro k hk
    obtain ⟨_, _, _, hl, hpre⟩ := hI k hk
    rw [mOf_self] at hl hpre
    exact ⟨r k, BV.abs (bv k), mk4_getElem? r hk, (hr k hk).2, hl, hpre⟩


/-! ### `approx_rank_unchecked` -/

/-- the value of `approx_rank_unchecked(tb, pos)` on a level holding `L` -/
def approxSpec (L : List Nat) (tb pos : Nat) : Nat :=
  Spec.rank tb (covered L.length (pos / rate + 1)) L / rate * rate

theorem uidx_ok' {α} {a : Array α} {i : Nat} {x : α} (h : a[i]? = some x) : uidx a i = .ok x := by
  obtain ⟨hi, hx⟩ := Array.getElem?_eq_some_iff.mp h
  simp [uidx, hi, hx]

theorem approx_ok {L : List Nat} {p : PFS.PrefetchSupport} (h : PfsRep L p) {tb pos : Nat}
    (htb : tb < 4) (hpos : pos / rate + 1 ≤ nbOf L.length) :
    PFS.approxRankUnchecked p tb pos = .ok (approxSpec L tb pos) := by
  obtain ⟨r, bits, hr, hinv, hlen, hpre⟩ := h.sample tb htb
  have hne : bits ≠ [] := by
    intro e; rw [e] at hlen; simp at hlen
    generalize pos / rate = q at hpos
    omega
  unfold PFS.approxRankUnchecked
  rw [h.shift, one_shiftLeft_shift, shiftRight_shift, uidx_ok' hr, ok_bind, hinv.rank1_eq,
    if_pos ⟨hne, by rw [hlen]; exact hpos⟩, ok_bind]
  show Except.ok _ = _
  rw [hpre _ hpos]
  rfl

theorem approxSpec_le_rank (L : List Nat) (tb pos : Nat) :
    approxSpec L tb pos ≤ Spec.rank tb (covered L.length (pos / rate + 1)) L := by
  unfold approxSpec; exact Nat.div_mul_le_self _ _

/-- a lower estimate up to one: `approx_rank(tb, pos) ≤ rank(tb, pos) + 1` -/
theorem approxSpec_le_succ (L : List Nat) (tb pos : Nat) :
    approxSpec L tb pos ≤ Spec.rank tb pos L + 1 := by
  have h1 := approxSpec_le_rank L tb pos
  have h2 := RSQP.rank_mono tb L (covered_block_le L.length pos)
  have h3 := RSQP.rank_sub_le tb L (Nat.le_add_right pos 1)
  omega

theorem approxSpec_le_count (L : List Nat) (tb pos : Nat) : approxSpec L tb pos ≤ L.count tb :=
  Nat.le_trans (approxSpec_le_rank L tb pos) (RSQP.rank_le_count tb L _)

theorem approxSpec_mono (L : List Nat) (tb : Nat) {p q : Nat} (h : p ≤ q) :
    approxSpec L tb p ≤ approxSpec L tb q := by
  unfold approxSpec
  apply Nat.mul_le_mul_right
  apply Nat.div_le_div_right
  apply RSQP.rank_mono
  apply covered_mono
  have := Nat.div_le_div_right (c := rate) h
  omega

/-- the meaning of a single sample bit: bit `j` is set iff the counter of `k` passes a multiple
    of rate inside the chunk covered by bit `j` -/
theorem sample_bit {L : List Nat} {k : Nat} {bits : List Bool}
    (hpre : ∀ j, j ≤ nbOf L.length →
      Spec.rank true j bits = Spec.rank k (covered L.length j) L / rate)
    (hlen : bits.length = nbOf L.length) (j : Nat) (hj : j < nbOf L.length) :
    bits[j]? = some (decide (Spec.rank k (covered L.length j) L / rate <
      Spec.rank k (covered L.length (j + 1)) L / rate)) := by
  have h1 := hpre j (by omega)
  have h2 := hpre (j + 1) (by omega)
  have hj' : j < bits.length := by omega
  rw [List.getElem?_eq_getElem hj']
  have h3 := RSBin.rank_succ true bits j
  rw [List.getElem?_eq_getElem hj'] at h3
  congr 1
  cases hb : bits[j]
  · rw [hb] at h3; simp at h3
    have : ¬ (Spec.rank k (covered L.length j) L / rate <
      Spec.rank k (covered L.length (j + 1)) L / rate) := by omega
    simp [this]
  · rw [hb] at h3; simp at h3
    have : (Spec.rank k (covered L.length j) L / rate <
      Spec.rank k (covered L.length (j + 1)) L / rate) := by omega
    simp [this]

end Qwt.PfsP
