import Qwt.Proofs.WordBytes

/-! Helper lemmas for C17: arithmetic on eight base-256 digits (all by `omega`). -/
namespace Qwt.Proofs.Word
open Qwt Qwt.Utils

theorem W8_lt {b0 b1 b2 b3 b4 b5 b6 b7 : Nat}
    (h0 : b0 < 256) (h1 : b1 < 256) (h2 : b2 < 256) (h3 : b3 < 256) (h4 : b4 < 256)
    (h5 : b5 < 256) (h6 : b6 < 256) (h7 : b7 < 256) :
    W8 b0 b1 b2 b3 b4 b5 b6 b7 < 18446744073709551616 := by
  unfold W8; omega

theorem W8_add (a0 a1 a2 a3 a4 a5 a6 a7 b0 b1 b2 b3 b4 b5 b6 b7 : Nat) :
    W8 a0 a1 a2 a3 a4 a5 a6 a7 + W8 b0 b1 b2 b3 b4 b5 b6 b7 =
      W8 (a0 + b0) (a1 + b1) (a2 + b2) (a3 + b3) (a4 + b4) (a5 + b5) (a6 + b6) (a7 + b7) := by
  unfold W8; omega

theorem W8_sub {a0 a1 a2 a3 a4 a5 a6 a7 b0 b1 b2 b3 b4 b5 b6 b7 : Nat}
    (h0 : b0 ≤ a0) (h1 : b1 ≤ a1) (h2 : b2 ≤ a2) (h3 : b3 ≤ a3) (h4 : b4 ≤ a4)
    (h5 : b5 ≤ a5) (h6 : b6 ≤ a6) (h7 : b7 ≤ a7) :
    W8 b0 b1 b2 b3 b4 b5 b6 b7 ≤ W8 a0 a1 a2 a3 a4 a5 a6 a7 ∧
    W8 a0 a1 a2 a3 a4 a5 a6 a7 - W8 b0 b1 b2 b3 b4 b5 b6 b7 =
      W8 (a0 - b0) (a1 - b1) (a2 - b2) (a3 - b3) (a4 - b4) (a5 - b5) (a6 - b6) (a7 - b7) := by
  unfold W8; omega

theorem W8_shr1 {c0 c1 c2 c3 c4 c5 c6 c7 : Nat}
    (h0 : c0 % 2 = 0) (h1 : c1 % 2 = 0) (h2 : c2 % 2 = 0) (h3 : c3 % 2 = 0) (h4 : c4 % 2 = 0)
    (h5 : c5 % 2 = 0) (h6 : c6 % 2 = 0) (h7 : c7 % 2 = 0) :
    W8 c0 c1 c2 c3 c4 c5 c6 c7 >>> 1 =
      W8 (c0 / 2) (c1 / 2) (c2 / 2) (c3 / 2) (c4 / 2) (c5 / 2) (c6 / 2) (c7 / 2) := by
  unfold W8; omega

theorem W8_shr2 {p0 p1 p2 p3 p4 p5 p6 p7 : Nat}
    (_h0 : p0 < 256) (_h1 : p1 < 256) (_h2 : p2 < 256) (_h3 : p3 < 256) (_h4 : p4 < 256)
    (_h5 : p5 < 256) (_h6 : p6 < 256) (_h7 : p7 < 256) :
    W8 p0 p1 p2 p3 p4 p5 p6 p7 >>> 2 =
      W8 (p0 / 4 + 64 * (p1 % 4)) (p1 / 4 + 64 * (p2 % 4)) (p2 / 4 + 64 * (p3 % 4))
        (p3 / 4 + 64 * (p4 % 4)) (p4 / 4 + 64 * (p5 % 4)) (p5 / 4 + 64 * (p6 % 4))
        (p6 / 4 + 64 * (p7 % 4)) (p7 / 4) := by
  unfold W8; omega

theorem W8_shr4 {p0 p1 p2 p3 p4 p5 p6 p7 : Nat}
    (_h0 : p0 < 256) (_h1 : p1 < 256) (_h2 : p2 < 256) (_h3 : p3 < 256) (_h4 : p4 < 256)
    (_h5 : p5 < 256) (_h6 : p6 < 256) (_h7 : p7 < 256) :
    W8 p0 p1 p2 p3 p4 p5 p6 p7 >>> 4 =
      W8 (p0 / 16 + 16 * (p1 % 16)) (p1 / 16 + 16 * (p2 % 16)) (p2 / 16 + 16 * (p3 % 16))
        (p3 / 16 + 16 * (p4 % 16)) (p4 / 16 + 16 * (p5 % 16)) (p5 / 16 + 16 * (p6 % 16))
        (p6 / 16 + 16 * (p7 % 16)) (p7 / 16) := by
  unfold W8; omega

/-- multiplication by `0x0101010101010101` computes the prefix sums of the digits -/
theorem W8_mul_ones {r0 r1 r2 r3 r4 r5 r6 r7 : Nat}
    (h : r0 + r1 + r2 + r3 + r4 + r5 + r6 + r7 < 256) :
    (W8 r0 r1 r2 r3 r4 r5 r6 r7 * 72340172838076673) % 18446744073709551616 =
      W8 r0 (r0 + r1) (r0 + r1 + r2) (r0 + r1 + r2 + r3) (r0 + r1 + r2 + r3 + r4)
        (r0 + r1 + r2 + r3 + r4 + r5) (r0 + r1 + r2 + r3 + r4 + r5 + r6)
        (r0 + r1 + r2 + r3 + r4 + r5 + r6 + r7) := by
  unfold W8; omega

end Qwt.Proofs.Word
