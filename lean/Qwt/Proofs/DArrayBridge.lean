import Qwt.Proofs.BitVectorIter
import Qwt.Props.C07

/-!
Bridge between C08 and C07: the representation invariant `BV.Inv b` of the bit vector
(C08, `Qwt/Proofs/BitVectorBasic.lean`) yields both hypotheses of the `DArray` theorems about
the bit vector, for the sequence `BV.abs b`:

* `BV.HoldsD b (BV.abs b)` — the word-level predicate used by C07;
* `PosIterSpec b (BV.abs b)` — the position iterator (C08's `posIter_new_ok`).

Hence the `DArray` theorems hold for every reachable bit vector, with `select_in_word`
(C17) as the only remaining hypothesis.
-/
namespace Qwt.DAProofs
open Qwt Qwt.BV Qwt.DA

theorem holds_of_inv {b : BitVector} (hb : Inv b) : HoldsD b (abs b) where
  nBits := (abs_length b).symm
  size := by rw [abs_length]; exact hb.size
  lt := hb.words
  bit := by
    intro p hp
    have hi : p / 64 < b.data.size := by omega
    have hw : b.data[p / 64]! = wordAt b.data (p / 64) := by
      rw [getElem!_pos b.data _ hi, wordAt_of_lt hi]
    rw [hw, List.getD_eq_getElem?_getD, abs_getElem?]
    show bitAt b p = _
    by_cases h : p < b.nBits
    · rw [if_pos h]; rfl
    · rw [if_neg h, hb.pad p (by omega)]; rfl

theorem posIterSpec_of_inv {b : BitVector} (hb : Inv b) : PosIterSpec b (abs b) := by
  intro bit
  rw [posIter_new_ok bit b hb, abs_length]

end Qwt.DAProofs

namespace Qwt.Props.C07
open Qwt Qwt.BV Qwt.DA Qwt.DAProofs

/-- `select1` on the `DArray` of any bit vector satisfying the C08 invariant -/
theorem select1_ok_inv (s0 : Bool) {b : BitVector} (hb : Inv b) (hsel : SelectInWordSpec)
    (k : Nat) : DA.select1 (DA.new s0 b) k = .ok (Spec.select true k (abs b)) :=
  select1_ok s0 (holds_of_inv hb) hsel (posIterSpec_of_inv hb) k

theorem select0_ok_inv {b : BitVector} (hb : Inv b) (hsel : SelectInWordSpec) (k : Nat) :
    DA.select0 true (DA.new true b) k = .ok (Spec.select false k (abs b)) :=
  select0_ok (holds_of_inv hb) hsel (posIterSpec_of_inv hb) k

theorem select_ok_inv (bit s0 : Bool) {b : BitVector} (hb : Inv b) (hsel : SelectInWordSpec)
    (k : Nat) : DA.select bit (DA.new s0 b) (invNew bit b) k = .ok (Spec.select bit k (abs b)) :=
  select_ok bit s0 (holds_of_inv hb) hsel (posIterSpec_of_inv hb) k

theorem inventory_ok_inv (bit : Bool) {b : BitVector} (hb : Inv b) :
    (invNew bit b).nSets = (abs b).count bit ∧
      InvSpec (Spec.positions bit (abs b)) (invNew bit b) :=
  inventory_ok bit (posIterSpec_of_inv hb)

theorem countOnes_ok_inv (s0 : Bool) {b : BitVector} (hb : Inv b) :
    DA.countOnes (DA.new s0 b) = (abs b).count true :=
  countOnes_ok s0 (posIterSpec_of_inv hb)

theorem countZeros_ok_inv (s0 : Bool) {b : BitVector} (hb : Inv b) :
    DA.countZeros (DA.new s0 b) = .ok ((abs b).count false) :=
  countZeros_ok s0 (holds_of_inv hb) (posIterSpec_of_inv hb)

theorem len_ok_inv (s0 : Bool) {b : BitVector} (hb : Inv b) :
    DA.len (DA.new s0 b) = (abs b).length := len_ok s0 (holds_of_inv hb)

theorem get_ok_inv (s0 : Bool) {b : BitVector} (hb : Inv b) (i : Nat) :
    DA.get (DA.new s0 b) i = .ok (abs b)[i]? := get_ok s0 (holds_of_inv hb) i

end Qwt.Props.C07
