import Qwt.Proofs.BitVectorIter

/-!
C08 — helper definitions, part 5: histories of mutating operations.
-/
namespace Qwt.BV
open Qwt

/-- the mutating operations of `BitVectorMut` -/
inductive Op where
  | push (bit : Bool)
  | appendBits (bits len : Nat)
  | extendWithZeros (n : Nat)
  | set (i : Nat) (bit : Bool)
  | setBits (i len bits : Nat)
  | extendBools (bs : List Bool)
  | extendPositions (ps : List Nat)
  deriving Repr, DecidableEq

/-- the operation in the model -/
def Op.apply : Op → BitVector → M BitVector
  | .push bit, b => BV.push b bit
  | .appendBits bits len, b => BV.appendBits b bits len
  | .extendWithZeros n, b => BV.extendWithZeros b n
  | .set i bit, b => BV.set b i bit
  | .setBits i len bits, b => BV.setBits b i len bits
  | .extendBools bs, b => BV.extendBools b bs
  | .extendPositions ps, b => BV.extendPositions b ps

/-- the operation on the plain sequence of booleans -/
def Op.spec : Op → List Bool → List Bool
  | .push bit, l => l ++ [bit]
  | .appendBits bits len, l => l ++ Spec.bitsOf bits len
  | .extendWithZeros n, l => l ++ List.replicate n false
  | .set i bit, l => l.set i bit
  | .setBits i len bits, l => l.take i ++ Spec.bitsOf bits len ++ l.drop (i + len)
  | .extendBools bs, l => l ++ bs
  | .extendPositions ps, l => ps.foldl specSetPos l

/-- documented preconditions plus the explicit `usize` overflow guard, on the plain sequence -/
def Op.Pre : Op → List Bool → Prop
  | .push _, l => l.length + 1 < two64
  | .appendBits bits len, l => len ≤ 64 ∧ bits < 2 ^ len ∧ l.length + len < two64
  | .extendWithZeros n, l => l.length + n + 511 < two64
  | .set i _, l => i < l.length
  | .setBits i len bits, l => i + len ≤ l.length ∧ len ≤ 64 ∧ bits < 2 ^ len
  | .extendBools bs, l => l.length + bs.length < two64
  | .extendPositions ps, _ => ∀ p ∈ ps, p + 512 < two64

instance (op : Op) (l : List Bool) : Decidable (op.Pre l) := by
  cases op <;> unfold Op.Pre <;> infer_instance

/-- run a history in the model -/
def run (h : List Op) (b : BitVector) : M BitVector := h.foldlM (fun b op => op.apply b) b

/-- run a history on the plain sequence -/
def runSpec (h : List Op) (l : List Bool) : List Bool := h.foldl (fun l op => op.spec l) l

/-- every operation of the history meets its precondition when it is issued -/
def HistPre : List Op → List Bool → Prop
  | [], _ => True
  | op :: h, l => op.Pre l ∧ HistPre h (op.spec l)

instance instDecidableHistPre : (h : List Op) → (l : List Bool) → Decidable (HistPre h l)
  | [], _ => isTrue trivial
  | op :: h, l =>
    have := instDecidableHistPre h (op.spec l)
    by unfold HistPre; infer_instance

theorem Op.step (op : Op) (b : BitVector) (hb : Inv b) (hp : op.Pre (abs b)) :
    ∃ b', op.apply b = .ok b' ∧ Inv b' ∧ abs b' = op.spec (abs b) := by
  cases op with
  | push bit => exact push_spec b bit hb (by simpa [Op.Pre] using hp)
  | appendBits bits len =>
    obtain ⟨h1, h2, h3⟩ := hp
    exact appendBits_spec b bits len hb h1 h2 (by simpa using h3)
  | extendWithZeros n => exact extendWithZeros_spec b n hb (by simpa [Op.Pre] using hp)
  | set i bit => exact set_spec b i bit hb (by simpa [Op.Pre] using hp)
  | setBits i len bits =>
    obtain ⟨h1, h2, h3⟩ := hp
    exact setBits_spec b i len bits hb (by simpa using h1) h2 h3
  | extendBools bs => exact extendBools_spec bs b hb (by simpa [Op.Pre] using hp)
  | extendPositions ps => exact extendPositions_spec ps b hb hp

theorem run_spec (h : List Op) : ∀ (b : BitVector), Inv b → HistPre h (abs b) →
    ∃ b', run h b = .ok b' ∧ Inv b' ∧ abs b' = runSpec h (abs b) := by
  induction h with
  | nil => intro b hb _; exact ⟨b, rfl, hb, rfl⟩
  | cons op h ih =>
    intro b hb hp
    obtain ⟨hp1, hp2⟩ := hp
    obtain ⟨b1, h1, hb1, ha1⟩ := op.step b hb hp1
    rw [← ha1] at hp2
    obtain ⟨b2, h2, hb2, ha2⟩ := ih b1 hb1 hp2
    refine ⟨b2, ?_, hb2, ?_⟩
    · unfold run at h2 ⊢
      rw [List.foldlM_cons, h1, bind_ok, h2]
    · rw [ha2, ha1]; rfl

end Qwt.BV
