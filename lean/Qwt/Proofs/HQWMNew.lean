import Qwt.Proofs.QWT
import Qwt.Proofs.HQWMSim

/-!
The constructor `Huff.new` of the Huffman-shaped quad wavelet matrix: given the code table
produced by `craftWmCodes 4`, the level loop builds levels representing the list-level Huffman
quad matrix (under `LevelLaw`).  Arity-4 mirror of `Qwt/Proofs/BinHWMNew.lean`.  Core Lean only.
-/
set_option linter.unusedSimpArgs false
set_option linter.unusedVariables false

namespace Qwt.Props.C02
open Qwt

/-- what the construction needs from the sampling structure when `pfs = true`: totality of
    `PrefetchSupport::new` on every quad vector produced by pushes of two-bit symbols -/
def PfsTotalH (c : Cfg) : Prop :=
  c.pfs = true → ∀ digits : List Nat, (∀ d ∈ digits, d < 4) → ∀ qvb,
    digits.foldlM (fun (b : QV.QVectorBuilder) d => QV.push b d) {} = .ok qvb →
    ∃ p, PFS.new (QV.build qvb) Extracted.pfsSampleShift = .ok p

theorem pfsTotalH_of_false {c : Cfg} (h : c.pfs = false) : PfsTotalH c := by
  intro h'; rw [h] at h'; cases h'

end Qwt.Props.C02

namespace Qwt.HQWM
open Qwt Qwt.Huff
open Qwt.BinWM (ok_bind pure_bind' idx_ok sub_ok clen code_lookup)
open Qwt.Props.C02 (PfsTotalH)

/-- the sequence carried by the level loop: the live elements by digit, then everything ended -/
def seqQ (δ : Nat → Nat → Nat) (len : Nat → Nat) : Nat → List Nat → List Nat
  | 0, S => S
  | k + 1, S =>
    (seqQ δ len k S).filter (fun x => decide (k + 1 < len x) && (δ k x == 0)) ++
    (seqQ δ len k S).filter (fun x => decide (k + 1 < len x) && (δ k x == 1)) ++
    (seqQ δ len k S).filter (fun x => decide (k + 1 < len x) && (δ k x == 2)) ++
    (seqQ δ len k S).filter (fun x => decide (k + 1 < len x) && (δ k x == 3)) ++
    (seqQ δ len k S).filter (fun x => decide (len x ≤ k + 1))

theorem seqQ_subset (δ : Nat → Nat → Nat) (len : Nat → Nat) (S : List Nat) (k : Nat) :
    ∀ x ∈ seqQ δ len k S, x ∈ S := by
  induction k with
  | zero => intro x hx; exact hx
  | succ k ih =>
    intro x hx
    simp only [seqQ, List.mem_append, List.mem_filter] at hx
    rcases hx with (((h | h) | h) | h) | h <;> exact ih x h.1

theorem seqQ_length (δ : Nat → Nat → Nat) (len : Nat → Nat) (hδ : ∀ k x, δ k x < 4) (S : List Nat)
    (k : Nat) : (seqQ δ len k S).length = S.length := by
  induction k with
  | zero => rfl
  | succ k ih =>
    simp only [seqQ, List.length_append]
    rw [← ih]
    generalize seqQ δ len k S = l
    induction l with
    | nil => rfl
    | cons x xs ihl =>
      simp only [List.filter_cons, List.length_cons]
      by_cases h1 : k + 1 < len x
      · have h2 : ¬ len x ≤ k + 1 := by omega
        have h4 : δ k x = 0 ∨ δ k x = 1 ∨ δ k x = 2 ∨ δ k x = 3 := by have := hδ k x; omega
        rcases h4 with h | h | h | h <;> simp [h1, h2, h] <;> omega
      · have h2 : len x ≤ k + 1 := by omega
        simp [h1, h2]; omega

/-- the live part of the carried sequence is the level of the list-level matrix -/
theorem seqQ_live (δ : Nat → Nat → Nat) (len : Nat → Nat) (S : List Nat)
    (hpos : ∀ x ∈ S, 0 < len x) (k : Nat) :
    (seqQ δ len k S).filter (fun x => decide (k < len x)) = lvlQ δ len k S := by
  induction k with
  | zero =>
    simp only [seqQ, lvlQ]
    apply List.filter_eq_self.mpr
    intro x hx; simpa using hpos x hx
  | succ k ih =>
    rw [lvlQ, ← ih, seqQ, QWTree.stablePart4]
    simp only [List.filter_append, List.filter_filter]
    have e3 : (seqQ δ len k S).filter
        (fun x => decide (k + 1 < len x) && decide (len x ≤ k + 1)) = [] := by
      apply List.filter_eq_nil_iff.mpr
      intro x _; simp
    rw [e3, List.append_nil]
    have hc : ∀ d : Nat, (seqQ δ len k S).filter
          (fun x => decide (k + 1 < len x) && (decide (k + 1 < len x) && (δ k x == d))) =
        (seqQ δ len k S).filter
          (fun x => decide (k + 1 < len x) && ((δ k x == d) && decide (k < len x))) := by
      intro d
      apply List.filter_congr
      intro x _
      by_cases h : k + 1 < len x
      · have : k < len x := by omega
        simp [h, this]
      · simp [h]
    rw [hc 0, hc 1, hc 2, hc 3]

/-! ## the two loops of `levelStep` -/

/-- a loop pushing a digit for some of the elements is the push loop over the filtered list -/
theorem foldlM_filter_pushQ (q : Nat → Bool) (g : Nat → Nat)
    (body : QV.QVectorBuilder → Nat → M QV.QVectorBuilder) (l : List Nat)
    (hbody : ∀ b, ∀ s ∈ l, body b s = if q s then QV.push b (g s) else pure b)
    (init : QV.QVectorBuilder) :
    l.foldlM body init = ((l.filter q).map g).foldlM (fun b x => QV.push b x) init := by
  induction l generalizing init with
  | nil => rfl
  | cons s ss ih =>
    have ih' := ih (fun b s hs => hbody b s (by simp [hs]))
    rw [List.foldlM_cons, hbody init s (by simp)]
    cases hq : q s
    · simp only [Bool.false_eq_true, if_false, pure_bind', List.filter_cons, hq]
      exact ih' init
    · simp only [if_true, List.filter_cons, hq, List.map_cons, List.foldlM_cons]
      cases QV.push init (g s) with
      | error e => rfl
      | ok b => exact ih' b

theorem len_le_iff {codes : Array PrefixCode} {a : Nat} (hev : 2 ∣ codes[a]!.len) (k : Nat) :
    codes[a]!.len ≤ 2 * (k + 1) ↔ qlen codes a ≤ k + 1 := by
  unfold qlen; omega

theorem partQ_fold (codes : Array PrefixCode) (k : Nat) (l : List Nat)
    (hl : ∀ s ∈ l, s < codes.size ∧ s < two64) (hev : ∀ s : Nat, 2 ∣ codes[s]!.len)
    (b0 b1 b2 b3 b4 : Array Nat) :
    l.foldlM (fun (b : Array (Array Nat)) a => (do
        let code ← idx codes (Utils.asUsize a)
        if code.len ≤ 2 * (k + 1) then pure (b.modify 4 (·.push a))
        else
          let d := (code.content >>> (code.len - 2 * (k + 1))) &&& (4 - 1)
          pure (b.modify d (·.push a)) : M (Array (Array Nat)))) #[b0, b1, b2, b3, b4] =
      .ok #[b0 ++ (l.filter (fun x => decide (k + 1 < qlen codes x) && (qdig codes k x == 0))).toArray,
            b1 ++ (l.filter (fun x => decide (k + 1 < qlen codes x) && (qdig codes k x == 1))).toArray,
            b2 ++ (l.filter (fun x => decide (k + 1 < qlen codes x) && (qdig codes k x == 2))).toArray,
            b3 ++ (l.filter (fun x => decide (k + 1 < qlen codes x) && (qdig codes k x == 3))).toArray,
            b4 ++ (l.filter (fun x => decide (qlen codes x ≤ k + 1))).toArray] := by
  induction l generalizing b0 b1 b2 b3 b4 with
  | nil => simp [pure, Except.pure]
  | cons a as ih =>
    have ih' := ih (fun s hs => hl s (by simp [hs]))
    obtain ⟨ha1, ha2⟩ := hl a (by simp)
    rw [List.foldlM_cons, (code_lookup ha1 ha2).2, ok_bind]
    by_cases hle : codes[a]!.len ≤ 2 * (k + 1)
    · have h2 : qlen codes a ≤ k + 1 := (len_le_iff (hev a) k).mp hle
      have h1 : ¬ k + 1 < qlen codes a := by omega
      rw [if_pos hle, pure_bind']
      have : #[b0, b1, b2, b3, b4].modify 4 (·.push a) = #[b0, b1, b2, b3, b4.push a] := rfl
      rw [this, ih']
      simp [List.filter_cons, h1, h2]
    · have h2 : ¬ qlen codes a ≤ k + 1 := fun h => hle ((len_le_iff (hev a) k).mpr h)
      have h1 : k + 1 < qlen codes a := by omega
      rw [if_neg hle]
      have hd : (codes[a]!.content >>> (codes[a]!.len - 2 * (k + 1))) &&& (4 - 1)
          = qdig codes k a := by
        show _ &&& 3 = _
        rw [and3]; rfl
      simp only [hd, pure_bind']
      have h4 : qdig codes k a = 0 ∨ qdig codes k a = 1 ∨ qdig codes k a = 2 ∨ qdig codes k a = 3 := by
        have := qdig_lt codes k a; omega
      rcases h4 with h | h | h | h
      · have : #[b0, b1, b2, b3, b4].modify 0 (·.push a) = #[b0.push a, b1, b2, b3, b4] := rfl
        simp only [h, this, ih']
        simp [List.filter_cons, h1, h2, h]
      · have : #[b0, b1, b2, b3, b4].modify 1 (·.push a) = #[b0, b1.push a, b2, b3, b4] := rfl
        simp only [h, this, ih']
        simp [List.filter_cons, h1, h2, h]
      · have : #[b0, b1, b2, b3, b4].modify 2 (·.push a) = #[b0, b1, b2.push a, b3, b4] := rfl
        simp only [h, this, ih']
        simp [List.filter_cons, h1, h2, h]
      · have : #[b0, b1, b2, b3, b4].modify 3 (·.push a) = #[b0, b1, b2, b3.push a, b4] := rfl
        simp only [h, this, ih']
        simp [List.filter_cons, h1, h2, h]

theorem partitionWithCodesQ_ok (codes : Array PrefixCode) (k : Nat) (l : List Nat)
    (hl : ∀ s ∈ l, s < codes.size ∧ s < two64) (hev : ∀ s : Nat, 2 ∣ codes[s]!.len) :
    Huff.partitionWithCodes 4 l.toArray (2 * (k + 1)) codes =
      .ok ((l.filter (fun x => decide (k + 1 < qlen codes x) && (qdig codes k x == 0))) ++
           (l.filter (fun x => decide (k + 1 < qlen codes x) && (qdig codes k x == 1))) ++
           (l.filter (fun x => decide (k + 1 < qlen codes x) && (qdig codes k x == 2))) ++
           (l.filter (fun x => decide (k + 1 < qlen codes x) && (qdig codes k x == 3))) ++
           (l.filter (fun x => decide (qlen codes x ≤ k + 1)))).toArray := by
  unfold Huff.partitionWithCodes
  have : Array.replicate (4 + 1) (#[] : Array Nat) = #[#[], #[], #[], #[], #[]] := rfl
  simp only [List.foldlM_toArray', this]
  rw [partQ_fold codes k l hl hev, ok_bind]
  simp [pure, Except.pure]

/-! ## one level -/

theorem bind_ok_inv {α β : Type} {x : M α} {f : α → M β} {r : β} (h : (x >>= f) = .ok r) :
    ∃ a, x = .ok a ∧ f a = .ok r := by
  cases x with
  | error e => cases h
  | ok a => exact ⟨a, rfl, h⟩

theorem fromQV_qv {dbg : Bool} {B : Nat} {qv : QV.QVector} {r : RSQ.RSQVector}
    (h : RSQ.fromQV dbg B qv = .ok r) : r.qv = qv := by
  unfold RSQ.fromQV at h
  obtain ⟨rs, _, h⟩ := bind_ok_inv h
  obtain ⟨cnt, _, h⟩ := bind_ok_inv h
  cases h
  rfl

/-- the body of the digit-pushing loop of `levelStep` -/
def pushBody (codes : Array PrefixCode) (shift : Nat) (b : QV.QVectorBuilder) (s : Nat) :
    M QV.QVectorBuilder :=
  match codes[Utils.asUsize s]? with
  | none => throw Fault.unwrapNone
  | some code =>
    if code.len ≥ shift then QV.push b ((code.content >>> (code.len - shift)) &&& 3) else pure b

theorem levelStep_eq (c : Cfg) (codes : Array PrefixCode) (st : LevelSt) :
    levelStep c codes st = (do
      let qvb ← st.seq.foldlM (pushBody codes st.shift) {}
      let qv := QV.build qvb
      let pfs ← if c.pfs then do
          let p ← PFS.new qv Extracted.pfsSampleShift
          pure (st.pfs.push p)
        else pure st.pfs
      let rs ← RSQ.fromQV c.dbg c.B qv
      let seq ← partitionWithCodes 4 st.seq st.shift codes
      return { seq, shift := st.shift + 2, qvs := st.qvs.push rs,
               lens := st.lens.push (QV.len qv), pfs }) := rfl

theorem levelStepQ_ok (cfg : Cfg) (hLaw : LevelLaw cfg.dbg cfg.B) (hP : PfsTotalH cfg) (k : Nat)
    (codes : Array PrefixCode) (S : List Nat) (hS : S.length < 2 ^ 43)
    (hpos : ∀ x ∈ S, 0 < qlen codes x) (hin : ∀ s ∈ S, s < codes.size ∧ s < two64)
    (hev : ∀ s : Nat, 2 ∣ codes[s]!.len)
    (qvs : Array RSQ.RSQVector) (lens : Array Nat) (pfs : Array PFS.PrefetchSupport) :
    ∃ r pf, RSQ.Represents cfg.B r (digsQ (qdig codes) (qlen codes) k S) ∧
      (cfg.pfs = false → pf = pfs) ∧
      levelStep cfg codes
          { seq := (seqQ (qdig codes) (qlen codes) k S).toArray, shift := 2 * (k + 1),
            qvs := qvs, lens := lens, pfs := pfs } =
        .ok { seq := (seqQ (qdig codes) (qlen codes) (k + 1) S).toArray, shift := 2 * (k + 1) + 2,
              qvs := qvs.push r,
              lens := lens.push (lvlQ (qdig codes) (qlen codes) k S).length, pfs := pf } := by
  have hdl : ∀ d ∈ digsQ (qdig codes) (qlen codes) k S, d < 4 := by
    intro d hd
    obtain ⟨x, _, rfl⟩ := List.mem_map.mp hd
    exact qdig_lt codes k x
  have hlen : (digsQ (qdig codes) (qlen codes) k S).length < 2 ^ Extracted.rsqLenLimitLog := by
    rw [digsQ, List.length_map]
    exact Nat.lt_of_le_of_lt (lvlQ_length_le _ _ _ _) (by simpa [Extracted.rsqLenLimitLog] using hS)
  obtain ⟨r, hmk, hrep⟩ := hLaw _ hdl hlen
  obtain ⟨qvb, hq, hfrom⟩ := QWTree.mkLevel_inv hmk
  have hsub := seqQ_subset (qdig codes) (qlen codes) S k
  have hin' : ∀ s ∈ seqQ (qdig codes) (qlen codes) k S, s < codes.size ∧ s < two64 :=
    fun s hs => hin s (hsub s hs)
  have hqlen : QV.len (QV.build qvb) = (lvlQ (qdig codes) (qlen codes) k S).length := by
    have h1 := fromQV_qv hfrom
    have h2 := hrep.len_eq
    rw [digsQ, List.length_map] at h2
    rw [← h2, RSQ.len, h1]
  have hfold : (seqQ (qdig codes) (qlen codes) k S).foldlM (pushBody codes (2 * (k + 1))) {}
      = .ok qvb := by
    rw [foldlM_filter_pushQ (fun x => decide (k < qlen codes x)) (qdig codes k) _ _ ?_ {}]
    · rw [seqQ_live _ _ _ hpos]
      exact hq
    · intro b s hs
      obtain ⟨h1, h2⟩ := hin' s hs
      unfold pushBody
      rw [(code_lookup h1 h2).1]
      simp only
      by_cases hk : k < qlen codes s
      · have : codes[s]!.len ≥ 2 * (k + 1) := by unfold qlen at hk; omega
        simp only [this, hk, if_true, decide_true, and3]
        rfl
      · have : ¬ codes[s]!.len ≥ 2 * (k + 1) := by unfold qlen at hk; omega
        simp [this, hk]
  have hpart := partitionWithCodesQ_ok codes k _ hin' hev
  by_cases hp : cfg.pfs = true
  · obtain ⟨pp, hpp⟩ := hP hp _ hdl qvb hq
    refine ⟨r, pfs.push pp, hrep, (fun hf => by rw [hf] at hp; cases hp), ?_⟩
    rw [levelStep_eq]
    simp only [List.foldlM_toArray', hfold, ok_bind, hp, if_true, hpp, hfrom, hpart, hqlen,
      pure_bind']
    rfl
  · refine ⟨r, pfs, hrep, fun _ => rfl, ?_⟩
    rw [levelStep_eq]
    simp only [List.foldlM_toArray', hfold, ok_bind, hp, if_false, hfrom, hpart, hqlen,
      pure_bind', Bool.false_eq_true]
    rfl

/-! ## the loop over the levels -/

theorem levels_loopQ (cfg : Cfg) (hLaw : LevelLaw cfg.dbg cfg.B) (hP : PfsTotalH cfg)
    (codes : Array PrefixCode) (S : List Nat) (hS : S.length < 2 ^ 43)
    (hpos : ∀ x ∈ S, 0 < qlen codes x) (hin : ∀ s ∈ S, s < codes.size ∧ s < two64)
    (hev : ∀ s : Nat, 2 ∣ codes[s]!.len) (k : Nat) :
    ∃ st : LevelSt,
      (List.range k).foldlM (fun st _ => levelStep cfg codes st)
        ({ seq := S.toArray, shift := 2 } : LevelSt) = .ok st ∧
      st.seq = (seqQ (qdig codes) (qlen codes) k S).toArray ∧ st.shift = 2 * (k + 1) ∧
      st.qvs.size = k ∧ st.lens.size = k ∧
      (∀ j (h : j < st.qvs.size),
        RSQ.Represents cfg.B st.qvs[j] (digsQ (qdig codes) (qlen codes) j S)) ∧
      (∀ j (h : j < st.lens.size), st.lens[j] = (lvlQ (qdig codes) (qlen codes) j S).length) ∧
      (cfg.pfs = false → st.pfs = #[]) := by
  induction k with
  | zero =>
    refine ⟨_, rfl, rfl, rfl, rfl, rfl, ?_, ?_, fun _ => rfl⟩
    · intro j h; simp at h
    · intro j h; simp at h
  | succ k ih =>
    obtain ⟨st, h1, h2, h3, h4, h5, h6, h7, h8⟩ := ih
    obtain ⟨seq, shift, qvs, lens, pfs⟩ := st
    simp only at h2 h3 h4 h5 h6 h7 h8
    subst h2 h3
    obtain ⟨r, pf, hrep, hpf, hstep⟩ :=
      levelStepQ_ok cfg hLaw hP k codes S hS hpos hin hev qvs lens pfs
    refine ⟨{ seq := (seqQ (qdig codes) (qlen codes) (k + 1) S).toArray, shift := 2 * (k + 1) + 2,
              qvs := qvs.push r,
              lens := lens.push (lvlQ (qdig codes) (qlen codes) k S).length, pfs := pf },
      ?_, ?_, ?_, ?_, ?_, ?_, ?_, ?_⟩
    · rw [List.range_succ, List.foldlM_append, h1, ok_bind]
      simp only [List.foldlM_cons, List.foldlM_nil, hstep]
      rfl
    · rfl
    · show 2 * (k + 1) + 2 = 2 * (k + 1 + 1); omega
    · simp [h4]
    · simp [h5]
    · intro j h
      simp only [Array.size_push] at h
      by_cases hj : j < qvs.size
      · simp only [Array.getElem_push_lt hj]
        exact h6 j hj
      · have : j = qvs.size := by omega
        subst this
        simp only [Array.getElem_push_eq]
        rw [h4]
        exact hrep
    · intro j h
      simp only [Array.size_push] at h
      by_cases hj : j < lens.size
      · simp only [Array.getElem_push_lt hj]
        exact h7 j hj
      · have : j = lens.size := by omega
        subst this
        simp only [Array.getElem_push_eq]
        rw [h5]
    · intro hf
      show pf = #[]
      rw [hpf hf]; exact h8 hf

end Qwt.HQWM
