import Qwt.Proofs.BinWMNew
import Qwt.Proofs.BinHWMSim

/-!
The constructor `BinWT.new` in the Huffman-shaped variant (`compressed = true`): given the
code table produced by `craftWmCodes`, the level loop builds levels representing the
list-level Huffman matrix (under `BinLevelLaw`).  Core Lean only.
-/
set_option linter.unusedSimpArgs false

namespace Qwt.BinWM
open Qwt Qwt.BinWT Qwt.RSW
open Qwt.Huff (PrefixCode)

/-- the sequence carried by the level loop: live zeros, live ones, then everything ended -/
def seqH (β : Nat → Nat → Bool) (len : Nat → Nat) : Nat → List Nat → List Nat
  | 0, S => S
  | k + 1, S =>
    (seqH β len k S).filter (fun x => decide (k + 1 < len x) && !β k x) ++
    (seqH β len k S).filter (fun x => decide (k + 1 < len x) && β k x) ++
    (seqH β len k S).filter (fun x => decide (len x ≤ k + 1))

theorem seqH_subset (β : Nat → Nat → Bool) (len : Nat → Nat) (S : List Nat) (k : Nat) :
    ∀ x ∈ seqH β len k S, x ∈ S := by
  induction k with
  | zero => intro x hx; exact hx
  | succ k ih =>
    intro x hx
    simp only [seqH, List.mem_append, List.mem_filter] at hx
    rcases hx with (h | h) | h <;> exact ih x h.1

theorem seqH_length (β : Nat → Nat → Bool) (len : Nat → Nat) (S : List Nat) (k : Nat) :
    (seqH β len k S).length = S.length := by
  induction k with
  | zero => rfl
  | succ k ih =>
    simp only [seqH, List.length_append]
    rw [← ih]
    generalize seqH β len k S = l
    induction l with
    | nil => rfl
    | cons x xs ihl =>
      simp only [List.filter_cons, List.length_cons]
      by_cases h1 : k + 1 < len x
      · have h2 : ¬ len x ≤ k + 1 := by omega
        cases hb : β k x <;> simp [h1, h2, hb] <;> omega
      · have h2 : len x ≤ k + 1 := by omega
        simp [h1, h2]; omega

/-- the live part of the carried sequence is the level of the list-level matrix -/
theorem seqH_live (β : Nat → Nat → Bool) (len : Nat → Nat) (S : List Nat)
    (hpos : ∀ x ∈ S, 0 < len x) (k : Nat) :
    (seqH β len k S).filter (fun x => decide (k < len x)) = lvlH β len k S := by
  induction k with
  | zero =>
    simp only [seqH, lvlH]
    apply List.filter_eq_self.mpr
    intro x hx; simpa using hpos x hx
  | succ k ih =>
    rw [lvlH, ← ih, seqH, part]
    simp only [List.filter_append, List.filter_filter]
    have e3 : (seqH β len k S).filter (fun x => decide (k + 1 < len x) && decide (len x ≤ k + 1)) = [] := by
      apply List.filter_eq_nil_iff.mpr
      intro x _; simp
    rw [e3, List.append_nil]
    congr 1
    · apply List.filter_congr
      intro x _
      by_cases h : k + 1 < len x
      · have : k < len x := by omega
        simp [h, this]
      · simp [h]
    · apply List.filter_congr
      intro x _
      by_cases h : k + 1 < len x
      · have : k < len x := by omega
        simp [h, this]
      · simp [h]

/-! ## the two loops of `levelStep` -/

/-- a loop pushing a bit for some of the elements is the push loop over the filtered list -/
theorem foldlM_filter_push (q : Nat → Bool) (g : Nat → Bool)
    (body : BV.BitVectorMut → Nat → M BV.BitVectorMut) (l : List Nat)
    (hbody : ∀ b, ∀ s ∈ l, body b s = if q s then BV.push b (g s) else pure b)
    (init : BV.BitVectorMut) :
    l.foldlM body init = ((l.filter q).map g).foldlM (fun b x => BV.push b x) init := by
  induction l generalizing init with
  | nil => rfl
  | cons s ss ih =>
    have ih' := ih (fun b s hs => hbody b s (by simp [hs]))
    rw [List.foldlM_cons, hbody init s (by simp)]
    cases hq : q s
    · simp only [Bool.false_eq_true, if_false, pure_bind', List.filter_cons, hq]
      exact ih' init
    · simp only [if_true, List.filter_cons, hq, List.map_cons, List.foldlM_cons]
      cases BV.push init (g s) with
      | error e => rfl
      | ok b => exact ih' b

theorem code_lookup {codes : Array PrefixCode} {s : Nat} (hs : s < codes.size) (h64 : s < two64) :
    codes[Utils.asUsize s]? = some codes[s]! ∧ idx codes (Utils.asUsize s) = .ok codes[s]! := by
  have e : Utils.asUsize s = s := Nat.mod_eq_of_lt h64
  rw [e, getElem!_pos codes s hs]
  exact ⟨Array.getElem?_eq_getElem hs, idx_ok _ _ hs⟩

theorem cbit_eq (codes : Array PrefixCode) (k x : Nat) :
    ((codes[x]!.content >>> (codes[x]!.len - (k + 1)) &&& 1) == 1) = cbit codes k x := by
  rw [Nat.and_one_is_mod]; rfl

theorem partH_fold (codes : Array PrefixCode) (k : Nat) (l : List Nat)
    (hl : ∀ s ∈ l, s < codes.size ∧ s < two64) (z o t : Array Nat) :
    l.foldlM (fun (b : Array (Array Nat)) a => (do
        let code ← idx codes (Utils.asUsize a)
        if code.len ≤ k + 1 then pure (b.modify 2 (·.push a))
        else
          let d := (code.content >>> (code.len - (k + 1))) &&& (2 - 1)
          pure (b.modify d (·.push a)) : M (Array (Array Nat)))) #[z, o, t] =
      .ok #[z ++ (l.filter (fun x => decide (k + 1 < clen codes x) && !cbit codes k x)).toArray,
            o ++ (l.filter (fun x => decide (k + 1 < clen codes x) && cbit codes k x)).toArray,
            t ++ (l.filter (fun x => decide (clen codes x ≤ k + 1))).toArray] := by
  induction l generalizing z o t with
  | nil => simp [pure, Except.pure]
  | cons a as ih =>
    have ih' := ih (fun s hs => hl s (by simp [hs]))
    obtain ⟨ha1, ha2⟩ := hl a (by simp)
    rw [List.foldlM_cons, (code_lookup ha1 ha2).2, ok_bind]
    by_cases hle : codes[a]!.len ≤ k + 1
    · have h1 : ¬ k + 1 < clen codes a := by unfold clen; omega
      have h2 : clen codes a ≤ k + 1 := hle
      rw [if_pos hle, pure_bind']
      have : #[z, o, t].modify 2 (·.push a) = #[z, o, t.push a] := rfl
      rw [this, ih']
      simp [List.filter_cons, h1, h2]
    · have h1 : k + 1 < clen codes a := by unfold clen; omega
      have h2 : ¬ clen codes a ≤ k + 1 := by omega
      rw [if_neg hle]
      have hd : (codes[a]!.content >>> (codes[a]!.len - (k + 1))) &&& (2 - 1)
          = if cbit codes k a then 1 else 0 := by
        rw [← cbit_eq, Nat.and_one_is_mod]
        have : codes[a]!.content >>> (codes[a]!.len - (k + 1)) % 2 = 0 ∨
            codes[a]!.content >>> (codes[a]!.len - (k + 1)) % 2 = 1 := by omega
        rcases this with h | h <;> simp [h]
      simp only [hd, pure_bind']
      cases hb : cbit codes k a
      · have : #[z, o, t].modify 0 (·.push a) = #[z.push a, o, t] := rfl
        simp only [Bool.false_eq_true, if_false, this, ih']
        simp [List.filter_cons, h1, h2, hb]
      · have : #[z, o, t].modify 1 (·.push a) = #[z, o.push a, t] := rfl
        simp only [if_true, this, ih']
        simp [List.filter_cons, h1, h2, hb]

theorem partitionWithCodes_ok (codes : Array PrefixCode) (k : Nat) (l : List Nat)
    (hl : ∀ s ∈ l, s < codes.size ∧ s < two64) :
    Huff.partitionWithCodes 2 l.toArray (k + 1) codes =
      .ok ((l.filter (fun x => decide (k + 1 < clen codes x) && !cbit codes k x)) ++
           (l.filter (fun x => decide (k + 1 < clen codes x) && cbit codes k x)) ++
           (l.filter (fun x => decide (clen codes x ≤ k + 1)))).toArray := by
  unfold Huff.partitionWithCodes
  have : Array.replicate (2 + 1) (#[] : Array Nat) = #[#[], #[], #[]] := rfl
  simp only [List.foldlM_toArray', this]
  rw [partH_fold codes k l hl, ok_bind]
  simp [pure, Except.pure]

/-! ## one level -/

theorem levelStepH_ok (c : Cfg) (hLaw : BinLevelLaw) (L k : Nat) (codes : Array PrefixCode)
    (S : List Nat) (hS : S.length < 2 ^ 43) (hpos : ∀ x ∈ S, 0 < clen codes x)
    (hin : ∀ s ∈ S, s < codes.size ∧ s < two64) (bvs : Array RSWide) (lens : Array Nat) :
    ∃ r, RSW.Represents r (bitsH (cbit codes) (clen codes) k S) ∧
      levelStep c true L codes
          { seq := (seqH (cbit codes) (clen codes) k S).toArray, shift := k + 1, bvs := bvs, lens := lens } =
        .ok { seq := (seqH (cbit codes) (clen codes) (k + 1) S).toArray, shift := k + 2,
              bvs := bvs.push r,
              lens := lens.push (lvlH (cbit codes) (clen codes) k S).length } := by
  have hlen : (bitsH (cbit codes) (clen codes) k S).length < 2 ^ 43 := by
    rw [bitsH, List.length_map]
    exact Nat.lt_of_le_of_lt (lvlH_length_le _ _ _ _) hS
  obtain ⟨r, hmk, hrep⟩ := hLaw _ hlen
  refine ⟨r, hrep, ?_⟩
  have hsub := seqH_subset (cbit codes) (clen codes) S k
  have hin' : ∀ s ∈ seqH (cbit codes) (clen codes) k S, s < codes.size ∧ s < two64 :=
    fun s hs => hin s (hsub s hs)
  unfold RSW.mkLevel at hmk
  rw [bitsH, ← seqH_live _ _ _ hpos] at hmk
  unfold levelStep
  simp only [List.foldlM_toArray', if_true]
  rw [foldlM_filter_push (fun x => decide (k < clen codes x)) (cbit codes k) _ _ ?_ {}]
  · cases hb : List.foldlM (fun (b : BV.BitVectorMut) x => BV.push b x) {}
        (((seqH (cbit codes) (clen codes) k S).filter (fun x => decide (k < clen codes x))).map
          (cbit codes k)) with
    | error e => rw [hb] at hmk; cases hmk
    | ok bvm =>
      rw [hb, ok_bind] at hmk
      have hbv := new_bv hmk
      have hnb : bvm.nBits = (lvlH (cbit codes) (clen codes) k S).length := by
        rw [← hbv, hrep.len_eq, bitsH, List.length_map]
      simp only [ok_bind, hmk, partitionWithCodes_ok codes k _ hin', hnb]
      rfl
  · intro b s hs
    obtain ⟨h1, h2⟩ := hin' s hs
    rw [(code_lookup h1 h2).1]
    simp only
    by_cases hk : k < clen codes s
    · have : codes[s]!.len ≥ k + 1 := hk
      simp only [this, hk, if_true, decide_true, cbit_eq]
    · have : ¬ codes[s]!.len ≥ k + 1 := hk
      simp [this, hk]

/-! ## the loop over the levels -/

theorem levels_loopH (c : Cfg) (hLaw : BinLevelLaw) (L : Nat) (codes : Array PrefixCode)
    (S : List Nat) (hS : S.length < 2 ^ 43) (hpos : ∀ x ∈ S, 0 < clen codes x)
    (hin : ∀ s ∈ S, s < codes.size ∧ s < two64) (k : Nat) :
    ∃ st : LevelSt,
      (List.range k).foldlM (fun st _ => levelStep c true L codes st)
        ({ seq := S.toArray, shift := 1 } : LevelSt) = .ok st ∧
      st.seq = (seqH (cbit codes) (clen codes) k S).toArray ∧ st.shift = k + 1 ∧ st.bvs.size = k ∧
      st.lens.size = k ∧
      (∀ j (h : j < st.bvs.size), RSW.Represents st.bvs[j] (bitsH (cbit codes) (clen codes) j S)) ∧
      (∀ j (h : j < st.lens.size), st.lens[j] = (lvlH (cbit codes) (clen codes) j S).length) := by
  induction k with
  | zero =>
    refine ⟨_, rfl, rfl, rfl, rfl, rfl, ?_, ?_⟩
    · intro j h; simp at h
    · intro j h; simp at h
  | succ k ih =>
    obtain ⟨st, h1, h2, h3, h4, h5, h6, h7⟩ := ih
    obtain ⟨seq, shift, bvs, lens⟩ := st
    simp only at h2 h3 h4 h5 h6 h7
    subst h2 h3
    obtain ⟨r, hrep, hstep⟩ := levelStepH_ok c hLaw L k codes S hS hpos hin bvs lens
    refine ⟨{ seq := (seqH (cbit codes) (clen codes) (k + 1) S).toArray, shift := k + 2,
              bvs := bvs.push r, lens := lens.push (lvlH (cbit codes) (clen codes) k S).length },
      ?_, ?_, ?_, ?_, ?_, ?_, ?_⟩
    · rw [List.range_succ, List.foldlM_append, h1, ok_bind]
      simp only [List.foldlM_cons, List.foldlM_nil, hstep]
      rfl
    · rfl
    · rfl
    · simp [h4]
    · simp [h5]
    · intro j h
      simp only [Array.size_push] at h
      by_cases hj : j < bvs.size
      · simp only [Array.getElem_push_lt hj]
        exact h6 j hj
      · have : j = bvs.size := by omega
        subst this
        simp only [Array.getElem_push_eq]
        rw [h4]
        exact hrep
    · intro j h
      simp only [Array.size_push] at h
      by_cases hj : j < lens.size
      · simp only [Array.getElem_push_lt hj]
        exact h7 j hj
      · have : j = lens.size := by omega
        subst this
        simp only [Array.getElem_push_eq]
        rw [h5]

end Qwt.BinWM
