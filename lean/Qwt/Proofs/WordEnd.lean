import Qwt.Proofs.WordTable

/-! Helper lemmas for C17: end of `select_in_word`; select on a word split into bytes. -/
namespace Qwt.Proofs.Word
open Qwt Qwt.Utils Qwt.Extracted

theorem pure_bind' {α β} (x : α) (f : α → M β) : ((pure x : M α) >>= f) = f x := rfl

theorem siwEnd_miss (word bs k : Nat) : siwEnd word bs k 8 = .ok 64 := rfl

theorem siwEnd_hit (word bs k t bt prev : Nat) (ht : t < 8)
    (hb : (word >>> (t * 8)) &&& 0xFF = bt) (hbt : bt < 256)
    (hprev : (((bs <<< 8) % two64) >>> (t * 8)) &&& 0xFF = prev)
    (h1 : prev ≤ k) (h2 : k - prev < pc8 bt) (h3 : pc8 bt ≤ 8) :
    siwEnd word bs k t = .ok (t * 8 + selOr (k - prev) bt) := by
  unfold siwEnd
  have hne : ¬ ((t * 8 == 64) = true) := by
    rw [beq_iff_eq]; omega
  rw [if_neg hne, hb, hprev]
  have hs : sub k prev = .ok (k - prev) := by unfold sub; rw [if_pos h1]
  have hlt : (k - prev) <<< 8 < two64 := by unfold two64; omega
  have hor : bt ||| (k - prev) <<< 8 = (k - prev) * 256 + bt := by
    have hbt' : bt < 2 ^ 8 := by omega
    have h := Nat.shiftLeft_add_eq_or_of_lt hbt' (k - prev)
    have h2 : bt ||| (k - prev) <<< 8 = (k - prev) <<< 8 + bt :=
      (Nat.or_comm _ _).trans h.symm
    omega
  rw [hs, ok_bind, if_pos hlt]
  rw [pure_bind', hor, (table_get (k - prev) bt (by omega) hbt).1, ok_bind]
  rfl


def cnts (ls : List (List Bool)) : Nat := (ls.map (fun l => l.count true)).sum
def lens (ls : List (List Bool)) : Nat := (ls.map List.length).sum

theorem select_flatten_hit : ∀ (ls : List (List Bool)) (t k : Nat) (l : List Bool),
    ls[t]? = some l → cnts (ls.take t) ≤ k → k < cnts (ls.take t) + l.count true →
    Spec.select true k ls.flatten =
      (Spec.select true (k - cnts (ls.take t)) l).map (· + lens (ls.take t)) := by
  intro ls
  induction ls with
  | nil => intro t k l h; simp at h
  | cons x xs ih =>
    intro t k l h hlo hhi
    rw [List.flatten_cons, select_append]
    cases t with
    | zero =>
      simp at h; subst h
      have hhi' : k < List.count true x := by simpa [cnts] using hhi
      rw [if_pos hhi']
      simp [cnts, lens]
    | succ t =>
      simp at h
      simp only [List.take_succ_cons, cnts, lens, List.map_cons, List.sum_cons] at hlo hhi ⊢
      have hn : ¬ (k < List.count true x) := by omega
      rw [if_neg hn, ih t (k - List.count true x) l h (by unfold cnts; omega) (by unfold cnts; omega)]
      unfold cnts lens
      have e : k - List.count true x - (List.map (fun l => List.count true l) (List.take t xs)).sum =
          k - (List.count true x + (List.map (fun l => List.count true l) (List.take t xs)).sum) := by
        omega
      rw [e]
      cases Spec.select true (k - (List.count true x +
        (List.map (fun l => List.count true l) (List.take t xs)).sum)) l <;> simp
      omega

theorem map_sel_congr (l : List Bool) (k A B X Y : Nat) (h1 : A = B) (h2 : X = Y) :
    Option.map (fun x => x + A) (Spec.select true (k - X) l) =
      Option.map (fun x => x + B) (Spec.select true (k - Y) l) := by
  rw [h1, h2]

theorem select_W8_hit {b0 b1 b2 b3 b4 b5 b6 b7 : Nat}
    (h0 : b0 < 256) (h1 : b1 < 256) (h2 : b2 < 256) (h3 : b3 < 256) (h4 : b4 < 256)
    (h5 : b5 < 256) (h6 : b6 < 256) (h7 : b7 < 256) (t k : Nat) (ht : t < 8)
    (hlo : nth8 0 (pc8 b0) (pc8 b0 + pc8 b1) (pc8 b0 + pc8 b1 + pc8 b2)
      (pc8 b0 + pc8 b1 + pc8 b2 + pc8 b3) (pc8 b0 + pc8 b1 + pc8 b2 + pc8 b3 + pc8 b4)
      (pc8 b0 + pc8 b1 + pc8 b2 + pc8 b3 + pc8 b4 + pc8 b5)
      (pc8 b0 + pc8 b1 + pc8 b2 + pc8 b3 + pc8 b4 + pc8 b5 + pc8 b6) t ≤ k)
    (hhi : k < nth8 (pc8 b0) (pc8 b0 + pc8 b1) (pc8 b0 + pc8 b1 + pc8 b2)
      (pc8 b0 + pc8 b1 + pc8 b2 + pc8 b3) (pc8 b0 + pc8 b1 + pc8 b2 + pc8 b3 + pc8 b4)
      (pc8 b0 + pc8 b1 + pc8 b2 + pc8 b3 + pc8 b4 + pc8 b5)
      (pc8 b0 + pc8 b1 + pc8 b2 + pc8 b3 + pc8 b4 + pc8 b5 + pc8 b6)
      (pc8 b0 + pc8 b1 + pc8 b2 + pc8 b3 + pc8 b4 + pc8 b5 + pc8 b6 + pc8 b7) t) :
    Spec.select true k (Spec.bitsOf (W8 b0 b1 b2 b3 b4 b5 b6 b7) 64) =
      (Spec.select true (k - nth8 0 (pc8 b0) (pc8 b0 + pc8 b1) (pc8 b0 + pc8 b1 + pc8 b2)
      (pc8 b0 + pc8 b1 + pc8 b2 + pc8 b3) (pc8 b0 + pc8 b1 + pc8 b2 + pc8 b3 + pc8 b4)
      (pc8 b0 + pc8 b1 + pc8 b2 + pc8 b3 + pc8 b4 + pc8 b5)
      (pc8 b0 + pc8 b1 + pc8 b2 + pc8 b3 + pc8 b4 + pc8 b5 + pc8 b6) t)
        (Spec.bitsOf (nth8 b0 b1 b2 b3 b4 b5 b6 b7 t) 8)).map (· + t * 8) := by
  have hfl : Spec.bitsOf (W8 b0 b1 b2 b3 b4 b5 b6 b7) 64 =
      [Spec.bitsOf b0 8, Spec.bitsOf b1 8, Spec.bitsOf b2 8, Spec.bitsOf b3 8, Spec.bitsOf b4 8,
        Spec.bitsOf b5 8, Spec.bitsOf b6 8, Spec.bitsOf b7 8].flatten := by
    rw [bitsOf_W8 h0 h1 h2 h3 h4 h5 h6 h7]; simp
  rw [hfl]
  have : t = 0 ∨ t = 1 ∨ t = 2 ∨ t = 3 ∨ t = 4 ∨ t = 5 ∨ t = 6 ∨ t = 7 := by omega
  rcases this with h | h | h | h | h | h | h | h
  all_goals
    rw [select_flatten_hit _ t k (Spec.bitsOf (nth8 b0 b1 b2 b3 b4 b5 b6 b7 t) 8) (by subst h; rfl)
      (by subst h; simp only [nth8] at hlo
          simp only [cnts, List.take, List.map, List.sum_cons, List.sum_nil]; try unfold pc8 at hlo
          omega)
      (by subst h; simp only [nth8] at hhi ⊢
          simp only [cnts, List.take, List.map, List.sum_cons, List.sum_nil]; try unfold pc8 at hhi
          omega)]
    subst h
    simp only [nth8, cnts, lens, List.take, List.map, List.sum_cons, List.sum_nil, bitsOf_length, pc8]
    apply map_sel_congr <;> omega

end Qwt.Proofs.Word
