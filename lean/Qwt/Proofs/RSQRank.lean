import Qwt.Proofs.RSQBuild

/-! `RepInv ⇒` `get`, `rank`, `occs`, `rankBlock`. -/
namespace Qwt.RSQP
open Qwt Qwt.QV Qwt.RSQ Qwt.Extracted

theorem nSuperblocks_eq {B : Nat} {rs : RSSupportPlain} {s : List Nat} (h : RSInv B rs s) :
    nSuperblocks rs = s.length / (8 * B) + 1 := by
  unfold nSuperblocks; rw [h.sbs_size, Nat.mul_div_cancel_left _ (by decide : 0 < 4)]

theorem rank_lt_two64 (c : Nat) (s : List Nat) (i : Nat) (hlen : s.length < 2 ^ 43) :
    Spec.rank c i s < 2 ^ 64 := by
  have := rank_le_count c s i
  have := List.count_le_length (a := c) (l := s)
  omega

/-- `get_rank`: absolute counter plus block counter = rank at the block start -/
theorem getRank_ok {B : Nat} {rs : RSSupportPlain} {s : List Nat} (hB : B = 256 ∨ B = 512)
    (h : RSInv B rs s) (hlen : s.length < 2 ^ 43) {j c b : Nat} (hj : j ≤ s.length / (8 * B)) (hc : c < 4)
    (hb7 : b ≤ 7) (hb : 8 * j + b ≤ s.length / B + 1) :
    getRank rs j c b = .ok (Spec.rank c ((8 * j + b) * B) s) := by
  unfold getRank
  rw [if_neg (by omega)]
  rw [uidx_ok (by rw [h.sbs_size]; omega)]
  simp only [ok_bind]
  have h1 := h.sb j c hj hc
  unfold sbOf at h1
  rw [h1, two64_eq, Nat.mod_eq_of_lt (rank_lt_two64 _ _ _ hlen)]
  by_cases hb0 : b = 0
  · subst hb0
    simp only [Nat.lt_irrefl, if_false, Nat.mul_zero, Nat.add_zero, gt_iff_lt]
    congr 2
    rcases hB with rfl | rfl <;> omega
  · have h2 := h.fl j c b hj hc (by omega) hb7
    rw [if_pos hb] at h2
    unfold fld at h2
    rw [if_pos (by omega), Nat.mul_one, show (0xFFF : Nat) = 2 ^ 12 - 1 from rfl,
      Nat.and_two_pow_sub_one_eq_mod, Nat.mod_mod_of_dvd _ (by decide : 2 ^ 12 ∣ 2 ^ 64),
      Nat.mul_comm (b - 1) 12, show (2 : Nat) ^ 12 = 4096 from rfl, h2]
    have := rank_mono c s (show j * (8 * B) ≤ (8 * j + b) * B by rcases hB with rfl | rfl <;> omega)
    show Except.ok _ = Except.ok _
    congr 1; omega

theorem rankBlock_ok {B : Nat} {rs : RSSupportPlain} {s : List Nat} (hB : B = 256 ∨ B = 512)
    (h : RSInv B rs s) (hlen : s.length < 2 ^ 43) (dbg : Bool) {c i : Nat} (hc : c ≤ 3)
    (hi : i ≤ s.length) :
    rankBlock dbg B rs c i = .ok (Spec.rank c (i / B * B) s) := by
  unfold rankBlock
  rw [dbgAssert_true dbg (decide_eq_true hc), sbq, nSuperblocks_eq h, Nat.mul_comm B 8]
  simp only [ok_bind]
  have hsb : i / (8 * B) ≤ s.length / (8 * B) := Nat.div_le_div_right hi
  have hbl : i / B ≤ s.length / B := Nat.div_le_div_right hi
  rw [if_neg (by omega)]
  have e7 : i / B &&& 7 = i / B % 8 := Nat.and_two_pow_sub_one_eq_mod _ 3
  have hdec : 8 * (i / (8 * B)) + i / B % 8 = i / B := by rcases hB with rfl | rfl <;> omega
  rw [e7, getRank_ok hB h hlen hsb (by omega) (by omega) (by omega), hdec]


/-- `lineRank` in terms of `Spec.rank`, when the counted prefix lies inside the sequence -/
theorem lineRank_rank {q : QVector} {s : List Nat} (h : Holds q s) (hs : ∀ x ∈ s, x < 4) (dbg : Bool)
    {l c i : Nat} (hc : c < 4) (hi : i ≤ 256) (hin : 256 * l + i ≤ s.length) (hl : l < (s.length + 255) / 256) :
    lineRank dbg q.data l c i = .ok (Spec.rank c (256 * l + i) s - Spec.rank c (256 * l) s) := by
  rw [lineRank_ok h hs dbg hl hc hi, cnt_line_eq_rank s c (256 * l) i hin]

theorem rankIntraBlock_ok {B : Nat} {r : RSQVector} {s : List Nat} (h : RepInv B r s) (dbg : Bool)
    {c i : Nat} (hc : c ≤ 3) (hi : i ≤ s.length) :
    rankIntraBlock dbg B r c i = .ok (Spec.rank c i s - Spec.rank c (i / B * B) s) := by
  unfold rankIntraBlock
  have hq := h.holds
  have hs := h.syms
  rw [dbgAssert_true dbg (decide_eq_true hc), holds_nLines hq]
  rcases h.hB with rfl | rfl
  · rw [dbgAssert_true dbg (by decide)]
    simp only [ok_bind, show ((256 : Nat) == 256) = true from rfl, if_true]
    have e8 : i >>> 8 = i / 256 := by rw [Nat.shiftRight_eq_div_pow]
    have e255 : i &&& 255 = i % 256 := Nat.and_two_pow_sub_one_eq_mod i 8
    rw [e8, e255]
    by_cases hl : i / 256 < (s.length + 255) / 256
    · rw [if_pos hl, lineRank_rank hq hs dbg (by omega) (by omega) (by omega) hl]
      rw [show 256 * (i / 256) + i % 256 = i by omega, Nat.mul_comm]
    · rw [if_neg hl]
      rw [show i / 256 * 256 = i by omega, Nat.sub_self]; rfl
  · rw [dbgAssert_true dbg (by decide)]
    simp only [ok_bind, show ((512 : Nat) == 256) = false from rfl, show ((512 : Nat) == 512) = true from rfl,
      if_true, Bool.false_eq_true, if_false]
    have e9 : i >>> 9 = i / 512 := by rw [Nat.shiftRight_eq_div_pow]
    have e511 : i &&& 511 = i % 512 := Nat.and_two_pow_sub_one_eq_mod i 9
    rw [e9, e511]
    have hgt : (i % 512 > 256) = (256 < i % 512) := rfl
    by_cases hl : i / 512 * 2 < (s.length + 255) / 256
    · rw [if_pos hl]
      by_cases hoff : i % 512 ≤ 256
      · rw [if_pos hoff, lineRank_rank hq hs dbg (by omega) (by omega) (by omega) hl]
        simp only [ok_bind]
        rw [if_neg (by omega)]
        rw [show 256 * (i / 512 * 2) + i % 512 = i by omega,
          show 256 * (i / 512 * 2) = i / 512 * 512 by omega]; rfl
      · have hl' : i / 512 * 2 + 1 < (s.length + 255) / 256 := by omega
        rw [if_neg hoff, lineRank_rank hq hs dbg (by omega) (by omega) (by omega) hl]
        simp only [ok_bind]
        rw [if_pos (by omega), if_pos hl',
          lineRank_rank hq hs dbg (by omega) (by omega) (by omega) hl']
        simp only [ok_bind]
        have m1 := rank_mono c s (show 256 * (i / 512 * 2) ≤ 256 * (i / 512 * 2) + 256 by omega)
        have m2 := rank_mono c s (show 256 * (i / 512 * 2) + 256 ≤ i by omega)
        rw [show 256 * (i / 512 * 2 + 1) + (i % 512 - 256) = i by omega,
          show 256 * (i / 512 * 2 + 1) = 256 * (i / 512 * 2) + 256 by omega,
          show i / 512 * 512 = 256 * (i / 512 * 2) by omega]
        show Except.ok _ = Except.ok _
        congr 1; omega
    · rw [if_neg hl]
      simp only [pure_bind]
      rw [if_neg (by omega)]
      rw [show i / 512 * 512 = i by omega, Nat.sub_self]; rfl

theorem rankUnchecked_ok {B : Nat} {r : RSQVector} {s : List Nat} (h : RepInv B r s) (dbg : Bool)
    {c i : Nat} (hc : c ≤ 3) (hi : i ≤ s.length) :
    rankUnchecked dbg B r c i = .ok (Spec.rank c i s) := by
  unfold rankUnchecked
  rw [dbgAssert_true dbg (decide_eq_true hc), rankBlock_ok h.hB h.rs h.hlen dbg hc hi,
    rankIntraBlock_ok h dbg hc hi]
  simp only [ok_bind]
  have := rank_mono c s (show i / B * B ≤ i from Nat.div_mul_le_self _ _)
  show Except.ok _ = Except.ok _
  congr 1; omega

theorem rank_ok {B : Nat} {r : RSQVector} {s : List Nat} (h : RepInv B r s) (dbg : Bool) (c i : Nat) :
    RSQ.rank dbg B r c i = .ok (if c ≤ 3 ∧ i ≤ s.length then some (Spec.rank c i s) else none) := by
  unfold RSQ.rank RSQ.len
  rw [holds_len h.holds]
  by_cases hc : c ≤ 3 ∧ i ≤ s.length
  · rw [if_neg (by simp; omega), if_pos hc, rankUnchecked_ok h dbg hc.1 hc.2]; rfl
  · rw [if_pos (by simp; omega), if_neg hc]; rfl



theorem occsSmaller_succ (s : List Nat) (c : Nat) :
    Spec.occsSmaller id (c + 1) s = Spec.occsSmaller id c s + s.count c := by
  unfold Spec.occsSmaller
  induction s with
  | nil => rfl
  | cons x xs ih =>
    rw [List.countP_cons, List.countP_cons, List.count_cons, ih]
    by_cases h1 : x < c
    · have h2 : x < c + 1 := by omega
      have h3 : ¬ x = c := by omega
      simp [h1, h2, h3]; omega
    · by_cases h3 : x = c
      · subst h3; simp
        omega
      · have h2 : ¬ x < c + 1 := by omega
        simp [h1, h2, h3]

theorem occsSmaller_zero (s : List Nat) : Spec.occsSmaller id 0 s = 0 := by
  unfold Spec.occsSmaller
  induction s with
  | nil => rfl
  | cons x xs ih => rw [List.countP_cons, ih]; simp

theorem nOccs_getD {B : Nat} {r : RSQVector} {s : List Nat} (h : RepInv B r s) {c : Nat} (hc : c ≤ 4) :
    r.nOccsSmaller.size = 5 ∧ r.nOccsSmaller.getD c 0 = Spec.occsSmaller id c s := by
  rw [h.occs]
  refine ⟨rfl, ?_⟩
  have h5 : c = 0 ∨ c = 1 ∨ c = 2 ∨ c = 3 ∨ c = 4 := by omega
  rcases h5 with rfl | rfl | rfl | rfl | rfl
  · rw [occsSmaller_zero]; rfl
  · rw [occsSmaller_succ, occsSmaller_zero, Nat.zero_add]; rfl
  · rw [occsSmaller_succ, occsSmaller_succ, occsSmaller_zero, Nat.zero_add]; rfl
  · rw [occsSmaller_succ, occsSmaller_succ, occsSmaller_succ, occsSmaller_zero, Nat.zero_add]; rfl
  · rw [occsSmaller_succ, occsSmaller_succ, occsSmaller_succ, occsSmaller_succ, occsSmaller_zero,
      Nat.zero_add]; rfl

theorem occsSmallerUnchecked_ok {B : Nat} {r : RSQVector} {s : List Nat} (h : RepInv B r s) (dbg : Bool)
    {c : Nat} (hc : c ≤ 3) :
    RSQ.occsSmallerUnchecked dbg r c = .ok (Spec.occsSmaller id c s) := by
  unfold RSQ.occsSmallerUnchecked
  obtain ⟨h1, h2⟩ := nOccs_getD h (c := c) (by omega)
  rw [dbgAssert_true dbg (decide_eq_true hc), idx_ok (by omega), h2]; rfl

theorem occsSmaller_ok {B : Nat} {r : RSQVector} {s : List Nat} (h : RepInv B r s) (dbg : Bool) (c : Nat) :
    RSQ.occsSmaller dbg r c = .ok (if c ≤ 3 then some (Spec.occsSmaller id c s) else none) := by
  unfold RSQ.occsSmaller
  by_cases hc : c ≤ 3
  · rw [if_neg (by omega), if_pos hc, occsSmallerUnchecked_ok h dbg hc]; rfl
  · rw [if_pos (by omega), if_neg hc]; rfl

theorem occsUnchecked_ok {B : Nat} {r : RSQVector} {s : List Nat} (h : RepInv B r s) (dbg : Bool)
    {c : Nat} (hc : c ≤ 3) :
    RSQ.occsUnchecked dbg r c = .ok (s.count c) := by
  unfold RSQ.occsUnchecked
  obtain ⟨h1, h2⟩ := nOccs_getD h (c := c) (by omega)
  obtain ⟨_, h3⟩ := nOccs_getD h (c := c + 1) (by omega)
  rw [dbgAssert_true dbg (decide_eq_true hc), idx_ok (by omega), idx_ok (by omega), h2, h3,
    occsSmaller_succ]
  simp only [ok_bind]
  rw [if_neg (by omega)]
  unfold sub
  rw [if_pos (by omega)]
  show Except.ok _ = Except.ok _
  congr 1; omega

theorem occs_ok {B : Nat} {r : RSQVector} {s : List Nat} (h : RepInv B r s) (dbg : Bool) (c : Nat) :
    RSQ.occs dbg r c = .ok (if c ≤ 3 then some (s.count c) else none) := by
  unfold RSQ.occs
  by_cases hc : c ≤ 3
  · rw [if_neg (by omega), if_pos hc, occsUnchecked_ok h dbg hc]; rfl
  · rw [if_pos (by omega), if_neg hc]; rfl

theorem rsq_get_ok {B : Nat} {r : RSQVector} {s : List Nat} (h : RepInv B r s) (dbg : Bool) (i : Nat) :
    RSQ.get dbg r i = .ok s[i]? := get_ok h.holds h.syms dbg i

theorem rsq_getU_ok {B : Nat} {r : RSQVector} {s : List Nat} (h : RepInv B r s) (dbg : Bool) {i : Nat}
    (hi : i < s.length) : RSQ.getUnchecked dbg r i = .ok (s.getD i 0) :=
  getUnchecked_ok h.holds h.syms dbg hi

theorem rsq_len {B : Nat} {r : RSQVector} {s : List Nat} (h : RepInv B r s) : RSQ.len r = s.length :=
  holds_len h.holds

theorem rankBlock_le {B : Nat} {r : RSQVector} {s : List Nat} (h : RepInv B r s) (dbg : Bool) {c i : Nat}
    (hc : c ≤ 3) (hi : i ≤ s.length) :
    ∃ v, RSQ.rankBlock dbg B r.rs c i = .ok v ∧ v ≤ Spec.rank c i s :=
  ⟨_, rankBlock_ok h.hB h.rs h.hlen dbg hc hi, rank_mono c s (Nat.div_mul_le_self _ _)⟩


end Qwt.RSQP
