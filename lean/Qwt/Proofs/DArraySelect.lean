import Qwt.Proofs.DArrayCnt
import Qwt.Proofs.DArrayInv

/-!
`DArray::select` (C07, part 2): the word-level representation predicate `BV.HoldsD`, the
word scan, and the query itself.
-/
namespace Qwt.BV

/-- the bit vector `b` holds the bit list `s`: bit `i` is bit `i % 64` of word `i / 64`,
    whole 512-bit lines are allocated, padding bits are zero, words are 64-bit values -/
structure HoldsD (b : BitVector) (s : List Bool) : Prop where
  nBits : b.nBits = s.length
  size : b.data.size = 8 * ((s.length + 511) / 512)
  lt : ∀ i (h : i < b.data.size), b.data[i] < 2 ^ 64
  bit : ∀ p, p < 64 * b.data.size → (b.data[p / 64]!).testBit (p % 64) = s.getD p false

end Qwt.BV

namespace Qwt.DAProofs
open Qwt Qwt.DA Qwt.BV Qwt.Extracted

/-! ### effective words: the word, or its complement for `select0` -/

def effWord (bit : Bool) (b : BitVector) (i : Nat) : Nat :=
  if bit then b.data[i]! else not64 b.data[i]!

/-- the effective bit at position `p` (`true` = a match) -/
def effBit (bit : Bool) (b : BitVector) (p : Nat) : Bool :=
  (effWord bit b (p / 64)).testBit (p % 64)

theorem not64_lt (a : Nat) : not64 a < 2 ^ 64 := by
  unfold not64 mask64 two64; omega

theorem testBit_not64 (a : Nat) (ha : a < 2 ^ 64) (i : Nat) (hi : i < 64) :
    (not64 a).testBit i = !a.testBit i := by
  have e : not64 a = 2 ^ 64 - (a + 1) := by
    unfold not64 mask64 two64
    rw [Nat.mod_eq_of_lt (by omega)]; omega
  rw [e, Nat.testBit_two_pow_sub_succ ha]
  simp [hi]

theorem effWord_lt {b : BitVector} {s : List Bool} (h : HoldsD b s) (bit : Bool) (i : Nat) :
    effWord bit b i < 2 ^ 64 := by
  unfold effWord
  cases bit
  · exact not64_lt _
  · simp only [if_true]
    by_cases hi : i < b.data.size
    · rw [getElem!_pos b.data i hi]; exact h.lt i hi
    · rw [getElem!_neg b.data i hi]; exact Nat.two_pow_pos 64

theorem effBit_eq {b : BitVector} {s : List Bool} (h : HoldsD b s) (bit : Bool) (p : Nat)
    (hp : p < s.length) : effBit bit b p = decide (s[p]! = bit) := by
  have hsz := h.size
  have hp' : p < 64 * b.data.size := by omega
  have hi : p / 64 < b.data.size := by omega
  have hb := h.bit p hp'
  have hs : s.getD p false = s[p]! := by
    rw [List.getD_eq_getElem?_getD, getElem!_pos s p hp, List.getElem?_eq_getElem hp]; rfl
  rw [hs] at hb
  unfold effBit effWord
  cases bit
  · have hlt : b.data[p / 64]! < 2 ^ 64 := by
      rw [getElem!_pos b.data _ hi]; exact h.lt _ hi
    simp only [Bool.false_eq_true, if_false]
    rw [testBit_not64 _ hlt _ (by omega), hb]
    cases s[p]! <;> rfl
  · simp only [if_true]
    rw [hb]
    cases s[p]! <;> rfl

/-! ### the masked first word and the popcount of a scanned word -/

theorem testBit_mask (w lo q : Nat) (hq : q < 64) :
    (w &&& (mask64 <<< lo) % two64).testBit q = (decide (lo ≤ q) && w.testBit q) := by
  have e1 : two64 = 2 ^ 64 := by unfold two64; rfl
  have e2 : mask64 = 2 ^ 64 - 1 := by unfold mask64 two64; rfl
  rw [Nat.testBit_and, e1, Nat.testBit_mod_two_pow, Nat.testBit_shiftLeft, e2,
    Nat.testBit_two_pow_sub_one]
  by_cases h : lo ≤ q
  · have : q - lo < 64 := by omega
    simp [h, hq, this, Bool.and_comm]
  · simp [h]

/-- counting the set bits of a word that shows the effective bits `≥ lo` of word `wi` -/
theorem cnt_word (T : Nat → Bool) (wi lo word : Nat)
    (hw : ∀ q, q < 64 → word.testBit q = (decide (lo ≤ q) && T (64 * wi + q)))
    (q' : Nat) (h1 : lo ≤ q') (h2 : q' ≤ 64) :
    cnt word.testBit q' + cnt T (64 * wi + lo) = cnt T (64 * wi + q') := by
  obtain ⟨d, rfl⟩ : ∃ d, q' = lo + d := ⟨q' - lo, by omega⟩
  rw [cnt_add word.testBit lo d, ← Nat.add_assoc, cnt_add T (64 * wi + lo) d]
  have z : cnt word.testBit lo = 0 := by
    apply cnt_false
    intro i hi
    rw [hw i (by omega)]
    simp [show ¬ lo ≤ i by omega]
  have e : cnt (fun i => word.testBit (lo + i)) d = cnt (fun i => T (64 * wi + lo + i)) d := by
    apply cnt_congr
    intro i hi
    rw [hw (lo + i) (by omega)]
    simp [Nat.add_assoc]
  rw [z, e]; omega

/-! ### `getWord` -/

theorem getWord_ok {b : BitVector} {s : List Bool} (h : HoldsD b s) (i : Nat)
    (hi : i < b.data.size) : getWord b i = .ok b.data[i]! := by
  have hsz := h.size
  unfold getWord nLines
  rw [Nat.shiftRight_eq_div_pow]
  rw [if_pos (by omega), Array.getElem?_eq_getElem hi, getElem!_pos b.data i hi]
  rfl

/-! ### the scan -/

/-- The scan loop finds the word of the target position `P` (the `k`-th effective bit):
    it starts in word `wi ≤ P / 64` with `rem` matches still to skip from bit `lo` of that
    word on, never leaves the vector and needs at most `P / 64 - wi + 1` rounds. -/
theorem scan_ok {b : BitVector} {s : List Bool} (h : HoldsD b s) (bit : Bool) (P k : Nat)
    (hP : effBit bit b P = true) (hk : cnt (effBit bit b) P = k) (hPlt : P < 64 * b.data.size) :
    ∀ (fuel wi word rem lo : Nat), lo < 64 → word < 2 ^ 64 →
      (∀ q, q < 64 → word.testBit q = (decide (lo ≤ q) && effBit bit b (64 * wi + q))) →
      cnt (effBit bit b) (64 * wi + lo) + rem = k → wi ≤ P / 64 → P / 64 - wi < fuel →
      ∃ word' rem', scan bit b fuel wi word rem = .ok (P / 64, word', rem') ∧ word' < 2 ^ 64 ∧
        Spec.select true rem' (Spec.bitsOf word' 64) = some (P % 64) := by
  intro fuel
  induction fuel with
  | zero => intro wi word rem lo _ _ _ _ _ hf; omega
  | succ f ih =>
    intro wi word rem lo hlo hword hw hinv hwi hf
    have hpc : Qwt.popc word + cnt (effBit bit b) (64 * wi + lo)
        = cnt (effBit bit b) (64 * wi + 64) := by
      rw [popc_eq_cnt 64 word hword]
      exact cnt_word _ wi lo word hw 64 (by omega) (Nat.le_refl _)
    -- the target is not below the current scan position
    have hge : 64 * wi + lo ≤ P := by
      apply Classical.byContradiction; intro hn
      have := cnt_lt_of_lt_of_true (show P < 64 * wi + lo by omega) hP
      omega
    unfold scan
    simp only []
    by_cases hrem : rem < Qwt.popc word
    · -- the target is in this word
      rw [if_pos hrem]
      have hlt : P < 64 * wi + 64 := by
        apply Classical.byContradiction; intro hn
        have := cnt_mono (effBit bit b) (show 64 * wi + 64 ≤ P by omega)
        omega
      have hdiv : P / 64 = wi := by omega
      refine ⟨word, rem, ?_, hword, ?_⟩
      · rw [hdiv]; rfl
      · have hq : P % 64 < 64 := by omega
        have hPe : 64 * wi + P % 64 = P := by omega
        apply select_bitsOf hq
        · rw [hw _ hq, hPe, hP]; simp; omega
        · have := cnt_word _ wi lo word hw (P % 64) (by omega) (by omega)
          rw [hPe] at this; omega
    · -- move on to the next word
      rw [if_neg hrem]
      have hnext : 64 * wi + 64 ≤ P := by
        apply Classical.byContradiction; intro hn
        have h1 := cnt_succ_of_true hP
        have h2 := cnt_mono (effBit bit b) (show P + 1 ≤ 64 * wi + 64 by omega)
        omega
      have hwi' : wi + 1 < b.data.size := by omega
      rw [getWord_ok h _ hwi']
      simp only [bind, Except.bind]
      have hww : (if bit = true then b.data[wi + 1]! else not64 b.data[wi + 1]!)
          = effWord bit b (wi + 1) := rfl
      rw [hww]
      obtain ⟨word', rem', h1, h2, h3⟩ := ih (wi + 1) (effWord bit b (wi + 1))
        (rem - Qwt.popc word) 0 (by omega) (effWord_lt h bit _)
        (by
          intro q hq
          unfold effBit
          have e1 : (64 * (wi + 1) + q) / 64 = wi + 1 := by omega
          have e2 : (64 * (wi + 1) + q) % 64 = q := by omega
          rw [e1, e2]; simp)
        (by
          have : 64 * (wi + 1) + 0 = 64 * wi + 64 := by omega
          rw [this]; omega)
        (by omega) (by omega)
      exact ⟨word', rem', h1, h2, h3⟩

/-! ### the query -/

theorem idx_of_getElem? {α} {a : Array α} {i : Nat} {v : α} (h : a[i]? = some v) :
    idx a i = .ok v := by
  have hi : i < a.size := by
    apply Classical.byContradiction; intro hn
    rw [Array.getElem?_eq_none (by omega)] at h; cases h
  unfold idx
  rw [dif_pos hi]
  rw [Array.getElem?_eq_getElem hi] at h
  cases h; rfl

/-- the hypothesis on `select_in_word` (property C17) -/
def SelectInWordSpec : Prop :=
  ∀ w k, w < 2 ^ 64 → k < 128 → Utils.selectInWord w k =
    .ok (match Spec.select true k (Spec.bitsOf w 64) with | some p => p | none => 64)

/-- the hypothesis on the position iterator of the bit vector (property C08): it yields
    the positions of `bit` in `s` in increasing order -/
def PosIterSpec (b : BitVector) (s : List Bool) : Prop :=
  ∀ bit, PosIter.collect bit b (b.nBits + 1) PosIter.new =
    (List.range s.length).filter (fun i => s[i]! = bit)

/-- `select` on a vector holding `s`, given inventories satisfying the invariant for the
    list `ps` of the positions of `bit` -/
theorem select_core {b : BitVector} {s : List Bool} (hb : HoldsD b s) (bit : Bool)
    (hsel : SelectInWordSpec) (d : DArray) (hd : d.bv = b) (inv : Inventories)
    (hn : inv.nSets = ((List.range s.length).filter (fun i => decide (s[i]! = bit))).length)
    (hinv : InvSpec ((List.range s.length).filter (fun i => decide (s[i]! = bit))) inv) (k : Nat) :
    DA.select bit d inv k =
      .ok (((List.range s.length).filter (fun i => decide (s[i]! = bit)))[k]?) := by
  obtain ⟨ps, hps⟩ : ∃ ps, ps = (List.range s.length).filter (fun i => decide (s[i]! = bit)) :=
    ⟨_, rfl⟩
  rw [← hps] at hn hinv ⊢
  have hchar : ∀ i p, ps[i]? = some p ↔
      p < s.length ∧ decide (s[p]! = bit) = true ∧ cnt (fun i => decide (s[i]! = bit)) p = i := by
    intro i p; rw [hps]; exact filter_range_getElem? _ _ _ _
  have hgetD : ∀ i (hi : i < ps.length), ps.getD i 0 = ps[i] := by
    intro i hi
    rw [List.getD_eq_getElem?_getD, List.getElem?_eq_getElem hi]; rfl
  have hmono : ∀ i j, i ≤ j → j < ps.length → ps.getD i 0 ≤ ps.getD j 0 := by
    intro i j hij hj
    have hi : i < ps.length := by omega
    rw [hgetD i hi, hgetD j hj]
    have h1 := (hchar i ps[i]).mp (List.getElem?_eq_getElem hi)
    have h2 := (hchar j ps[j]).mp (List.getElem?_eq_getElem hj)
    apply Classical.byContradiction; intro hn
    have := cnt_lt_of_lt_of_true (f := fun i => decide (s[i]! = bit))
      (show ps[j] < ps[i] by omega) h2.2.1
    omega
  unfold DA.select
  simp only [bind, Except.bind, pure, Except.pure, daBlockSize_eq, daSubblockSize_eq, hn]
  by_cases hk : k ≥ ps.length
  · rw [if_pos hk, List.getElem?_eq_none hk]
  rw [if_neg hk]
  have hk' : k < ps.length := by omega
  rw [List.getElem?_eq_getElem hk']
  have hg : 1024 * (k / 1024) < ps.length := by omega
  have hand1 : k &&& 1024 - 1 = k % 1024 := Nat.and_two_pow_sub_one_eq_mod k 10
  have hand2 : k &&& 32 - 1 = k % 32 := Nat.and_two_pow_sub_one_eq_mod k 5
  rw [hand1, hand2]
  by_cases hdense : ps.getD (min (1024 * (k / 1024) + 1023) (ps.length - 1)) 0
      - ps.getD (1024 * (k / 1024)) 0 < 65536
  · -- dense group
    obtain ⟨h1, h2⟩ := hinv.dense _ hg hdense
    rw [idx_of_getElem? h1]
    simp only [Int.ofNat_eq_natCast]
    rw [if_neg (by omega)]
    have hsub := h2 (k % 1024 / 32) (by omega) (by omega)
    have e1 : 32 * (k / 1024) + k % 1024 / 32 = k / 32 := by omega
    have e2 : 1024 * (k / 1024) + 32 * (k % 1024 / 32) = 32 * (k / 32) := by omega
    rw [e1, e2] at hsub
    have hle1 : ps.getD (1024 * (k / 1024)) 0 ≤ ps.getD (32 * (k / 32)) 0 :=
      hmono _ _ (by omega) (by omega)
    have hle2 : ps.getD (32 * (k / 32)) 0 ≤
        ps.getD (min (1024 * (k / 1024) + 1023) (ps.length - 1)) 0 :=
      hmono _ _ (by omega) (by omega)
    rw [Nat.mod_eq_of_lt (by omega)] at hsub
    rw [idx_of_getElem? hsub]
    simp only [Int.toNat_natCast]
    have hstart : ps.getD (1024 * (k / 1024)) 0 +
        (ps.getD (32 * (k / 32)) 0 - ps.getD (1024 * (k / 1024)) 0) = ps.getD (32 * (k / 32)) 0 := by
      omega
    rw [hstart]
    by_cases hrem : k % 32 = 0
    · have : 32 * (k / 32) = k := by omega
      rw [if_pos (by simp [hrem]), this, hgetD k hk']
    · rw [if_neg (by simp [hrem])]
      -- the start position and the target position
      generalize hP0 : ps.getD (32 * (k / 32)) 0 = P0
      have hk0 : 32 * (k / 32) < ps.length := by omega
      have hc0 := (hchar (32 * (k / 32)) P0).mp (by rw [← hP0, hgetD _ hk0, List.getElem?_eq_getElem hk0])
      have hcP := (hchar k ps[k]).mp (List.getElem?_eq_getElem hk')
      generalize ps[k] = P at hcP ⊢
      have hsz := hb.size
      have hT0 : cnt (effBit bit b) P0 = 32 * (k / 32) := by
        rw [← hc0.2.2]
        exact cnt_congr (fun i hi => effBit_eq hb bit i (by omega))
      have hTP : cnt (effBit bit b) P = k := by
        rw [← hcP.2.2]
        exact cnt_congr (fun i hi => effBit_eq hb bit i (by omega))
      have hPT : effBit bit b P = true := by rw [effBit_eq hb bit P hcP.1]; exact hcP.2.1
      have hP0P : P0 ≤ P := by
        apply Classical.byContradiction; intro hn
        have := cnt_lt_of_lt_of_true (show P < P0 by omega) hPT
        omega
      rw [hd, Nat.shiftRight_eq_div_pow, Nat.and_two_pow_sub_one_eq_mod P0 6,
        getWord_ok hb _ (by omega)]
      simp only []
      have hww : (if bit = true then b.data[P0 / 2 ^ 6]! else not64 b.data[P0 / 2 ^ 6]!)
          = effWord bit b (P0 / 64) := rfl
      rw [hww]
      obtain ⟨word', rem', hs1, hs2, hs3⟩ := scan_ok hb bit P k hPT hTP (by omega)
        (nLines b * 8 + 1) (P0 / 64)
        (effWord bit b (P0 / 64) &&& (mask64 <<< (P0 % 2 ^ 6)) % two64) (k % 32) (P0 % 64)
        (by omega)
        (Nat.lt_of_le_of_lt Nat.and_le_left (effWord_lt hb bit _))
        (by
          intro q hq
          rw [testBit_mask _ _ _ hq]
          unfold effBit
          have e1 : (64 * (P0 / 64) + q) / 64 = P0 / 64 := by omega
          have e2 : (64 * (P0 / 64) + q) % 64 = q := by omega
          rw [e1, e2])
        (by
          have : 64 * (P0 / 64) + P0 % 64 = P0 := by omega
          rw [this, hT0]; omega)
        (Nat.div_le_div_right hP0P)
        (by unfold nLines; omega)
      rw [show P0 / 2 ^ 6 = P0 / 64 from rfl, hs1]
      simp only []
      have hrem' : rem' < 128 := by
        rw [select_eq_some_iff] at hs3
        have := cnt_le (fun i => (Spec.bitsOf word' 64)[i]? == some true) (P % 64)
        omega
      rw [hsel word' rem' hs2 hrem', hs3]
      simp only [Nat.shiftLeft_eq]
      congr 2
      omega
  · -- sparse group
    obtain ⟨off, h1, h2⟩ := hinv.sparse _ hg hdense
    rw [idx_of_getElem? h1]
    simp only [Int.ofNat_eq_natCast]
    rw [if_pos (by omega)]
    have e : (-(-(off : Int) - 1) - 1).toNat = off := by omega
    rw [e, idx_of_getElem? (h2 (k % 1024) (by omega) (by omega))]
    simp only []
    have : 1024 * (k / 1024) + k % 1024 = k := by omega
    rw [this, hgetD k hk']

end Qwt.DAProofs
