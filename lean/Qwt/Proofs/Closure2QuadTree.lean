import Qwt.Proofs.CodecTree
import Qwt.Proofs.PfsTree
import Qwt.Props.Closed

/-!
Serialisation well-formedness (`Codec.qwtWF`, `Codec.hqwtWF`) of the quad wavelet trees built by
`QWTree.new` and `Huff.new`, given the leaf facts (well-formedness of one level built by
`RSQ.mkLevel`, of `RSQ.default`, and of `PFS.new`) as explicit hypotheses.  Core Lean only.

The level loops are inverted generically: whatever `levelStep` returns, the pushed level is
`RSQ.mkLevel` of a list of two-bit digits no longer than the carried sequence, and the pushed
sampling structure is `PFS.new` of a vector satisfying `QV.Inv`.
-/
set_option linter.unusedSimpArgs false
set_option linter.unusedVariables false

namespace Qwt.Closure2.QuadTree
open Qwt Qwt.Codec
open Qwt.HQWM (bind_ok_inv)

/-- leaf hypothesis on one rank/select quad level -/
def LeafQ (c : Cfg) : Prop :=
  ∀ (digits : List Nat) (r : RSQ.RSQVector), (∀ d ∈ digits, d < 4) → digits.length < 2 ^ 43 →
    RSQ.mkLevel c.dbg c.B digits = .ok r → Codec.rsqWF r

/-- leaf hypothesis on one sampling structure -/
def LeafP : Prop :=
  ∀ (qv : QV.QVector) (p : PFS.PrefetchSupport), QV.Inv qv → QV.len qv < 2 ^ 43 →
    PFS.new qv Extracted.pfsSampleShift = .ok p → Codec.pfsWF p

/-! ### the push loop -/

/-- a loop whose body either keeps the builder or pushes a two-bit digit is a push loop over some
    digit list no longer than the input -/
theorem fold_digits {σ : Type} (step : QV.QVectorBuilder → σ → M QV.QVectorBuilder)
    (hstep : ∀ b s b', step b s = .ok b' → b' = b ∨ ∃ d, d < 4 ∧ QV.push b d = .ok b') :
    ∀ (l : List σ) (b0 qvb : QV.QVectorBuilder), l.foldlM step b0 = .ok qvb →
      ∃ digits : List Nat, (∀ d ∈ digits, d < 4) ∧ digits.length ≤ l.length ∧
        digits.foldlM (fun (b : QV.QVectorBuilder) d => QV.push b d) b0 = .ok qvb := by
  intro l
  induction l with
  | nil =>
    intro b0 qvb h
    cases h
    exact ⟨[], by simp, by simp, rfl⟩
  | cons a l ih =>
    intro b0 qvb h
    rw [List.foldlM_cons] at h
    obtain ⟨b1, h1, h2⟩ := bind_ok_inv h
    obtain ⟨digits, hd, hl, hf⟩ := ih b1 qvb h2
    rcases hstep b0 a b1 h1 with rfl | ⟨d, hd4, hpush⟩
    · exact ⟨digits, hd, by simp only [List.length_cons]; omega, hf⟩
    · refine ⟨d :: digits, ?_, by simp only [List.length_cons]; omega, ?_⟩
      · intro x hx
        rcases List.mem_cons.mp hx with rfl | hx
        · exact hd4
        · exact hd x hx
      · rw [List.foldlM_cons, hpush]; exact hf

/-- the vector built by a push loop satisfies the quad-vector invariant and has the length of
    the digit list -/
theorem pushed_inv (digits : List Nat) (hl : digits.length < 2 ^ 43) (qvb : QV.QVectorBuilder)
    (hq : digits.foldlM (fun (b : QV.QVectorBuilder) d => QV.push b d) {} = .ok qvb) :
    QV.Inv (QV.build qvb) ∧ QV.len (QV.build qvb) = digits.length := by
  have h64 : two64 = 2 ^ 64 := by decide
  obtain ⟨q, e, hinv, habs⟩ := RSQP.pushes_ok digits {} QV.empty_inv.1 (by
    show 0 + 2 * _ < two64
    omega)
  rw [hq] at e
  cases e
  refine ⟨hinv, ?_⟩
  show QV.len qvb = _
  rw [QV.len_ok, habs, QV.empty_inv.2]
  simp

/-- what one level of either tree yields: a well-formed level, a well-formed sampling structure,
    and a level length bounded by the carried sequence -/
theorem level_core (c : Cfg) (hQ : LeafQ c) (hP : LeafP) {σ : Type}
    (step : QV.QVectorBuilder → σ → M QV.QVectorBuilder)
    (hstep : ∀ b s b', step b s = .ok b' → b' = b ∨ ∃ d, d < 4 ∧ QV.push b d = .ok b')
    (seq : Array σ) (hlen : seq.size < 2 ^ 43) (qvb : QV.QVectorBuilder)
    (hfold : seq.foldlM step {} = .ok qvb) :
    (∀ r, RSQ.fromQV c.dbg c.B (QV.build qvb) = .ok r → Codec.rsqWF r) ∧
    (∀ p, PFS.new (QV.build qvb) Extracted.pfsSampleShift = .ok p → Codec.pfsWF p) ∧
    QV.len (QV.build qvb) ≤ seq.size := by
  rw [← Array.foldlM_toList] at hfold
  obtain ⟨digits, hd, hl, hq⟩ := fold_digits step hstep seq.toList {} qvb hfold
  have hl' : digits.length ≤ seq.size := by simpa using hl
  have hl43 : digits.length < 2 ^ 43 := by omega
  obtain ⟨hinv, hqlen⟩ := pushed_inv digits hl43 qvb hq
  refine ⟨?_, ?_, by omega⟩
  · intro r hr
    apply hQ digits r hd hl43
    show (digits.foldlM (fun (b : QV.QVectorBuilder) d => QV.push b d) {} >>=
      fun qvb => RSQ.fromQV c.dbg c.B (QV.build qvb)) = .ok r
    rw [hq]; exact hr
  · intro p hp
    exact hP _ p hinv (by omega) hp

/-! ### generic array facts -/

theorem arrAll_push {α : Type} {p : α → Prop} {a : Array α} {x : α}
    (h : ∀ y ∈ a.toList, p y) (hx : p x) : ∀ y ∈ (a.push x).toList, p y := by
  intro y hy
  rw [Array.toList_push, List.mem_append, List.mem_singleton] at hy
  rcases hy with hy | rfl
  · exact h y hy
  · exact hx

/-! ### the plain quad wavelet tree -/

/-- the state invariant of the level loop of `QWTree.new` -/
structure QInv (n : Nat) (st : QWTree.LevelSt) (k : Nat) : Prop where
  seq : st.seq.size = n
  qsize : st.qvs.size = k
  qwf : ∀ r ∈ st.qvs.toList, Codec.rsqWF r
  psize : st.pfs.size ≤ k
  pwf : ∀ p ∈ st.pfs.toList, Codec.pfsWF p

theorem buckets_total (sh : Nat) (l : List Nat) (b : Utils.Buckets4) :
    (l.foldl (fun (b : Utils.Buckets4) a => b.push (Utils.asUsize (a >>> sh) &&& 3) a) b).concat.size =
      b.concat.size + l.length := by
  induction l generalizing b with
  | nil => rfl
  | cons a l ih =>
    rw [List.foldl_cons, ih, List.length_cons]
    have : (b.push (Utils.asUsize (a >>> sh) &&& 3) a).concat.size = b.concat.size + 1 := by
      unfold Utils.Buckets4.push Utils.Buckets4.concat
      split
      · simp only [Array.size_append, Array.size_push]; omega
      · split
        · simp only [Array.size_append, Array.size_push]; omega
        · split
          · simp only [Array.size_append, Array.size_push]; omega
          · simp only [Array.size_append, Array.size_push]; omega
    omega

theorem part4_size {W sh : Nat} {a a' : Array Nat}
    (h : Utils.stablePartitionOf4 W a sh = .ok a') : a'.size = a.size := by
  unfold Utils.stablePartitionOf4 at h
  split at h
  · cases h
  · cases h
    rw [← Array.foldl_toList, buckets_total]
    simp [Utils.Buckets4.concat]

theorem twoBits_step (c : Cfg) (sh : Nat) :
    ∀ (b : QV.QVectorBuilder) (s : Nat) (b' : QV.QVectorBuilder),
      (do let tb ← QWTree.twoBits c s sh; QV.push b tb : M QV.QVectorBuilder) = .ok b' →
      b' = b ∨ ∃ d, d < 4 ∧ QV.push b d = .ok b' := by
  intro b s b' h
  obtain ⟨tb, h1, h2⟩ := bind_ok_inv h
  refine Or.inr ⟨tb, ?_, h2⟩
  unfold QWTree.twoBits at h1
  split at h1
  · cases h1
  · cases h1
    rw [QWTree.and3_eq_mod]
    exact Nat.mod_lt _ (by decide)

theorem qwt_levelStep_inv (c : Cfg) (hQ : LeafQ c) (hP : LeafP) (st st' : QWTree.LevelSt)
    (hlen : st.seq.size < 2 ^ 43) (h : QWTree.levelStep c st = .ok st') :
    st'.seq.size = st.seq.size ∧ (∃ r, st'.qvs = st.qvs.push r ∧ Codec.rsqWF r) ∧
    (st'.pfs = st.pfs ∨ ∃ p, st'.pfs = st.pfs.push p ∧ Codec.pfsWF p) := by
  unfold QWTree.levelStep at h
  obtain ⟨_, _, h⟩ := bind_ok_inv h
  obtain ⟨qvb, hfold, h⟩ := bind_ok_inv h
  obtain ⟨hr, hp, _⟩ := level_core c hQ hP _ (twoBits_step c st.shift) st.seq hlen qvb hfold
  dsimp only at h
  by_cases hc : c.pfs = true
  · rw [if_pos hc] at h
    obtain ⟨p, hp1, h⟩ := bind_ok_inv h
    obtain ⟨pf, hpf, h⟩ := bind_ok_inv h
    cases hpf
    obtain ⟨rs, hrs, h⟩ := bind_ok_inv h
    obtain ⟨seq, hseq, h⟩ := bind_ok_inv h
    cases h
    exact ⟨part4_size hseq, ⟨rs, rfl, hr rs hrs⟩, Or.inr ⟨p, rfl, hp p hp1⟩⟩
  · rw [if_neg hc] at h
    obtain ⟨pf, hpf, h⟩ := bind_ok_inv h
    cases hpf
    obtain ⟨rs, hrs, h⟩ := bind_ok_inv h
    obtain ⟨seq, hseq, h⟩ := bind_ok_inv h
    cases h
    exact ⟨part4_size hseq, ⟨rs, rfl, hr rs hrs⟩, Or.inl rfl⟩

theorem qwt_levels_inv (c : Cfg) (hQ : LeafQ c) (hP : LeafP) (n : Nat) (hn : n < 2 ^ 43) :
    ∀ (l : List Nat) (st0 st : QWTree.LevelSt) (k : Nat), QInv n st0 k →
      l.foldlM (fun st _ => QWTree.levelStep c st) st0 = .ok st → QInv n st (k + l.length) := by
  intro l
  induction l with
  | nil => intro st0 st k h0 h; cases h; exact h0
  | cons a l ih =>
    intro st0 st k I h
    rw [List.foldlM_cons] at h
    obtain ⟨st1, h3, h2⟩ := bind_ok_inv h
    obtain ⟨g1, ⟨r, g2, g3⟩, g4⟩ := qwt_levelStep_inv c hQ hP st0 st1 (by rw [I.seq]; exact hn) h3
    have I1 : QInv n st1 (k + 1) := by
      refine ⟨by rw [g1]; exact I.seq, ?_, ?_, ?_, ?_⟩
      · rw [g2, Array.size_push, I.qsize]
      · rw [g2]; exact arrAll_push I.qwf g3
      · rcases g4 with g4 | ⟨p, g4, _⟩
        · rw [g4]; have := I.psize; omega
        · rw [g4, Array.size_push]; have := I.psize; omega
      · rcases g4 with g4 | ⟨p, g4, g5⟩
        · rw [g4]; exact I.pwf
        · rw [g4]; exact arrAll_push I.pwf g5
    have := ih st1 st (k + 1) I1 h2
    rw [List.length_cons, show k + (l.length + 1) = k + 1 + l.length by omega]
    exact this

theorem pow_256 (w : Nat) : 2 ^ (8 * w) = 256 ^ w := by
  rw [Nat.pow_mul]

end Qwt.Closure2.QuadTree

namespace Qwt.Closure2
open Qwt Qwt.Codec Qwt.Closure2.QuadTree
open Qwt.HQWM (bind_ok_inv)

theorem qwtWF_of_new (c : Cfg) (wbytes : Nat) (hWb : c.W = 8 * wbytes) (hW : 0 < c.W)
    (hW128 : c.W ≤ 128) (hB : c.B = 256 ∨ c.B = 512)
    (S : List Nat) (hS : ∀ x ∈ S, x < 2 ^ c.W) (hlen : S.length < 2 ^ 43)
    (hQ : ∀ (digits : List Nat) (r : RSQ.RSQVector), (∀ d ∈ digits, d < 4) →
      digits.length < 2 ^ 43 → RSQ.mkLevel c.dbg c.B digits = .ok r → Codec.rsqWF r)
    (hD : ∀ r, RSQ.default c.B = .ok r → Codec.rsqWF r)
    (hP : ∀ (qv : QV.QVector) (p : PFS.PrefetchSupport), QV.Inv qv → QV.len qv < 2 ^ 43 →
      PFS.new qv Extracted.pfsSampleShift = .ok p → Codec.pfsWF p)
    {t : QWTree.QWT} (ht : QWTree.new c S.toArray = .ok t) : Codec.qwtWF wbytes t := by
  by_cases hemp : S = []
  · subst hemp
    unfold QWTree.new at ht
    have he : (([] : List Nat).toArray).isEmpty = true := rfl
    simp only [he, if_true] at ht
    obtain ⟨d, hd, ht⟩ := bind_ok_inv ht
    cases ht
    refine ⟨by show (0 : Nat) < 2 ^ 64; decide, by show (0 : Nat) < 2 ^ 64; decide,
      Nat.pow_pos (by decide), ⟨by show (1 : Nat) < 2 ^ 64; decide, ?_⟩, trivial⟩
    intro x hx
    simp only [List.mem_singleton] at hx
    subst hx
    exact hD _ hd
  · have hne : S.toArray.isEmpty = false := by
      cases S with
      | nil => exact absurd rfl hemp
      | cons a l => rfl
    have hsig : S.toArray.foldl max 0 = Spec.maxNat S := by rw [List.foldl_toArray]; rfl
    have hsl := QWTree.maxNat_lt hS
    have hL := QWTree.nLevelsOf_shift _ _ hsl hW
    have e : (Nat.log2 (Spec.maxNat S) + 1 + 1) / 2 = QWTree.nLevelsOf (Spec.maxNat S) := rfl
    unfold QWTree.new at ht
    simp only [hne, Bool.false_eq_true, if_false, hsig, QWTree.msb_ok _ _ hsl, QWTree.ok_bind, e]
      at ht
    obtain ⟨st, hst, ht⟩ := bind_ok_inv ht
    cases ht
    have I := qwt_levels_inv c hQ hP S.length hlen _
      { seq := S.toArray, shift := 2 * (QWTree.nLevelsOf (Spec.maxNat S) - 1) } st 0
      ⟨by simp, rfl, by simp, by simp, by simp⟩ hst
    have hnl : QWTree.nLevelsOf (Spec.maxNat S) ≤ 64 := by omega
    have h1 := I.qsize
    have h2 := I.psize
    simp only [List.length_range, Nat.zero_add] at h1 h2
    refine ⟨?_, ?_, ?_, ⟨?_, I.qwf⟩, ?_⟩
    · show S.toArray.size < 2 ^ 64
      simp only [List.size_toArray]; omega
    · show QWTree.nLevelsOf (Spec.maxNat S) < 2 ^ 64
      omega
    · show Spec.maxNat S < 256 ^ wbytes
      rw [← pow_256, ← hWb]; exact hsl
    · show st.qvs.size < 2 ^ 64
      omega
    · show Codec.pfsOptWF (if c.pfs = true then some st.pfs else none)
      by_cases hc : c.pfs = true
      · rw [if_pos hc]
        exact ⟨by omega, I.pwf⟩
      · rw [if_neg hc]; trivial

end Qwt.Closure2

namespace Qwt.Closure2.QuadTree
open Qwt Qwt.Codec
open Qwt.HQWM (bind_ok_inv)

/-! ### the Huffman-shaped quad wavelet tree -/

section huff
open Qwt.Huff Qwt.Proofs.Craft

theorem pushBody_step (codes : Array PrefixCode) (sh : Nat) :
    ∀ (b : QV.QVectorBuilder) (s : Nat) (b' : QV.QVectorBuilder),
      HQWM.pushBody codes sh b s = .ok b' →
      b' = b ∨ ∃ d, d < 4 ∧ QV.push b d = .ok b' := by
  intro b s b' h
  unfold HQWM.pushBody at h
  split at h
  · cases h
  · split at h
    · exact Or.inr ⟨_, by rw [HQWM.and3]; exact Nat.mod_lt _ (by decide), h⟩
    · cases h; exact Or.inl rfl

/-- total number of elements in a list of buckets -/
def total (l : List (Array Nat)) : Nat := (l.map Array.size).sum

theorem total_modify (a : Nat) : ∀ (l : List (Array Nat)) (k : Nat),
    total (l.modify k (·.push a)) ≤ total l + 1 := by
  intro l
  induction l with
  | nil => intro k; simp [total]
  | cons x xs ih =>
    intro k
    cases k with
    | zero => simp [total]; omega
    | succ k =>
      have := ih k
      simp only [total, List.modify_succ_cons, List.map_cons, List.sum_cons] at this ⊢
      omega

theorem foldl_append_size (l : List (Array Nat)) (init : Array Nat) :
    (l.foldl (· ++ ·) init).size = init.size + total l := by
  induction l generalizing init with
  | nil => simp [total]
  | cons x xs ih =>
    rw [List.foldl_cons, ih]
    simp only [total, List.map_cons, List.sum_cons, Array.size_append]
    omega

theorem part_fold {step : Array (Array Nat) → Nat → M (Array (Array Nat))}
    (hstep : ∀ b a b', step b a = .ok b' → ∃ k, b' = b.modify k (·.push a)) :
    ∀ (l : List Nat) (b b' : Array (Array Nat)), l.foldlM step b = .ok b' →
      total b'.toList ≤ total b.toList + l.length := by
  intro l
  induction l with
  | nil => intro b b' h; cases h; simp
  | cons a l ih =>
    intro b b' h
    rw [List.foldlM_cons] at h
    obtain ⟨b1, h1, h2⟩ := bind_ok_inv h
    obtain ⟨k, rfl⟩ := hstep b a b1 h1
    have g1 := ih _ b' h2
    have g2 := total_modify a b.toList k
    rw [Array.toList_modify] at g1
    simp only [List.length_cons]
    omega

theorem partH_size {seq seq' : Array Nat} {shift : Nat} {codes : Array PrefixCode}
    (h : Huff.partitionWithCodes 4 seq shift codes = .ok seq') : seq'.size ≤ seq.size := by
  unfold Huff.partitionWithCodes at h
  obtain ⟨b, hb, h⟩ := bind_ok_inv h
  cases h
  rw [← Array.foldlM_toList] at hb
  have := part_fold (by
    intro b a b' h
    obtain ⟨code, _, h⟩ := bind_ok_inv h
    split at h
    · cases h; exact ⟨_, rfl⟩
    · cases h; exact ⟨_, rfl⟩) seq.toList _ b hb
  rw [← Array.foldl_toList, foldl_append_size]
  have e : total (Array.replicate (4 + 1) (#[] : Array Nat)).toList = 0 := by
    simp [total]
  rw [e] at this
  simp only [Array.length_toList] at this
  simp only [Array.size_empty]
  omega

theorem hqwt_levelStep_inv (c : Cfg) (hQ : LeafQ c) (hP : LeafP) (codes : Array PrefixCode)
    (st st' : Huff.LevelSt) (hlen : st.seq.size < 2 ^ 43)
    (h : Huff.levelStep c codes st = .ok st') :
    st'.seq.size ≤ st.seq.size ∧ (∃ r, st'.qvs = st.qvs.push r ∧ Codec.rsqWF r) ∧
    (∃ n, st'.lens = st.lens.push n ∧ n ≤ st.seq.size) ∧
    (st'.pfs = st.pfs ∨ ∃ p, st'.pfs = st.pfs.push p ∧ Codec.pfsWF p) := by
  rw [HQWM.levelStep_eq] at h
  obtain ⟨qvb, hfold, h⟩ := bind_ok_inv h
  obtain ⟨hr, hp, hl⟩ := level_core c hQ hP _ (pushBody_step codes st.shift) st.seq hlen qvb hfold
  dsimp only at h
  by_cases hc : c.pfs = true
  · rw [if_pos hc] at h
    obtain ⟨p, hp1, h⟩ := bind_ok_inv h
    obtain ⟨pf, hpf, h⟩ := bind_ok_inv h
    cases hpf
    obtain ⟨rs, hrs, h⟩ := bind_ok_inv h
    obtain ⟨seq, hseq, h⟩ := bind_ok_inv h
    cases h
    exact ⟨partH_size hseq, ⟨rs, rfl, hr rs hrs⟩, ⟨_, rfl, hl⟩, Or.inr ⟨p, rfl, hp p hp1⟩⟩
  · rw [if_neg hc] at h
    obtain ⟨pf, hpf, h⟩ := bind_ok_inv h
    cases hpf
    obtain ⟨rs, hrs, h⟩ := bind_ok_inv h
    obtain ⟨seq, hseq, h⟩ := bind_ok_inv h
    cases h
    exact ⟨partH_size hseq, ⟨rs, rfl, hr rs hrs⟩, ⟨_, rfl, hl⟩, Or.inl rfl⟩

/-- the state invariant of the level loop of `Huff.new` -/
structure HInv (n : Nat) (st : Huff.LevelSt) (k : Nat) : Prop where
  seq : st.seq.size ≤ n
  qsize : st.qvs.size = k
  qwf : ∀ r ∈ st.qvs.toList, Codec.rsqWF r
  lsize : st.lens.size = k
  lwf : ∀ x ∈ st.lens.toList, x ≤ n
  psize : st.pfs.size ≤ k
  pwf : ∀ p ∈ st.pfs.toList, Codec.pfsWF p

theorem hqwt_levels_inv (c : Cfg) (hQ : LeafQ c) (hP : LeafP) (codes : Array PrefixCode)
    (n : Nat) (hn : n < 2 ^ 43) :
    ∀ (l : List Nat) (st0 st : Huff.LevelSt) (k : Nat), HInv n st0 k →
      l.foldlM (fun st _ => Huff.levelStep c codes st) st0 = .ok st → HInv n st (k + l.length) := by
  intro l
  induction l with
  | nil => intro st0 st k h0 h; cases h; exact h0
  | cons a l ih =>
    intro st0 st k I h
    rw [List.foldlM_cons] at h
    obtain ⟨st1, h3, h2⟩ := bind_ok_inv h
    have hsz := I.seq
    obtain ⟨g1, ⟨r, g2, g3⟩, ⟨m, g6, g7⟩, g4⟩ :=
      hqwt_levelStep_inv c hQ hP codes st0 st1 (by omega) h3
    have I1 : HInv n st1 (k + 1) := by
      refine ⟨by omega, ?_, ?_, ?_, ?_, ?_, ?_⟩
      · rw [g2, Array.size_push, I.qsize]
      · rw [g2]; exact arrAll_push I.qwf g3
      · rw [g6, Array.size_push, I.lsize]
      · rw [g6]; exact arrAll_push I.lwf (by omega)
      · rcases g4 with g4 | ⟨p, g4, _⟩
        · rw [g4]; have := I.psize; omega
        · rw [g4, Array.size_push]; have := I.psize; omega
      · rcases g4 with g4 | ⟨p, g4, g5⟩
        · rw [g4]; exact I.pwf
        · rw [g4]; exact arrAll_push I.pwf g5
    have := ih st1 st (k + 1) I1 h2
    rw [List.length_cons, show k + (l.length + 1) = k + 1 + l.length by omega]
    exact this

/-! #### the code tables -/

theorem mem_codes {codes : Array PrefixCode} {x : PrefixCode} (hx : x ∈ codes.toList) :
    ∃ i : Nat, codes[i]! = x := by
  obtain ⟨i, hi⟩ := List.getElem?_of_mem hx
  rw [Array.getElem?_toList] at hi
  refine ⟨i, ?_⟩
  rw [Array.getElem!_eq_getD, Array.getD_eq_getD_getElem?, hi]
  rfl

theorem maxLen_le (codes : Array PrefixCode) (h : ∀ i : Nat, codes[i]!.len ≤ 32) :
    HQWM.maxLenOf codes ≤ 32 := by
  unfold HQWM.maxLenOf
  rw [← Array.foldl_toList]
  have key : ∀ (l : List PrefixCode) (a : Nat), a ≤ 32 → (∀ x ∈ l, x.len ≤ 32) →
      l.foldl (fun m x => max m x.len) a ≤ 32 := by
    intro l
    induction l with
    | nil => intro a ha _; exact ha
    | cons y ys ih =>
      intro a ha hl
      rw [List.foldl_cons]
      apply ih
      · have := hl y (by simp); omega
      · intro x hx; exact hl x (by simp [hx])
  apply key _ 0 (by omega)
  intro x hx
  obtain ⟨i, rfl⟩ := mem_codes hx
  exact h i

theorem fill_len (codes : Array PrefixCode) (maxLen : Nat) : ∀ (n L : Nat) (l : List (Nat × Nat)),
    ((List.range n).foldl (fillStep codes) (Array.replicate (maxLen + 1) []))[L]? = some l →
      l.length ≤ n := by
  intro n
  induction n with
  | zero =>
    intro L l h
    simp only [List.range_zero, List.foldl_nil, Array.getElem?_replicate] at h
    split at h
    · cases h; simp
    · cases h
  | succ n ih =>
    intro L l h
    rw [List.range_succ, List.foldl_append] at h
    generalize (List.range n).foldl (fillStep codes) (Array.replicate (maxLen + 1) []) = acc at ih h
    simp only [List.foldl_cons, List.foldl_nil] at h
    unfold fillStep at h
    simp only [] at h
    by_cases hz : codes[n]!.len = 0
    · rw [if_neg (by simp [hz])] at h
      have := ih L l h; omega
    · rw [if_pos (by simp [hz]), Array.getElem?_modify] at h
      by_cases hLe : codes[n]!.len = L
      · rw [if_pos hLe] at h
        cases hacc : acc[L]? with
        | none => rw [hacc] at h; cases h
        | some l0 =>
          rw [hacc] at h
          simp only [Option.map_some] at h
          cases h
          have := ih L l0 hacc
          simp only [List.length_append, List.length_singleton]
          omega
      · rw [if_neg hLe] at h
        have := ih L l h; omega

theorem decTables_wf (wbytes : Nat) (codes : Array PrefixCode) (maxLen : Nat)
    (hmax : maxLen + 1 < 2 ^ 64) (hsz : codes.size < 2 ^ 64)
    (hcb : ∀ i : Nat, codes[i]!.content < 2 ^ 32) (hsym : codes.size ≤ 256 ^ wbytes) :
    Codec.decWF wbytes (decodeTables codes maxLen) := by
  obtain ⟨hsz', hmem⟩ := fill_spec codes maxLen codes.size
  have hlen := fill_len codes maxLen codes.size
  rw [decodeTables_eq]
  generalize (List.range codes.size).foldl (fillStep codes) (Array.replicate (maxLen + 1) []) = filled
    at hsz' hmem hlen
  refine ⟨by rw [Array.size_map, hsz']; exact hmax, ?_⟩
  intro x hx
  rw [Array.toList_map] at hx
  obtain ⟨l, hl, rfl⟩ := List.mem_map.mp hx
  obtain ⟨L, hL⟩ := List.getElem?_of_mem hl
  rw [Array.getElem?_toList] at hL
  have hLs : L < filled.size := (Array.getElem?_eq_some_iff.mp hL).1
  have hperm := sortByKey_perm (fun x : Nat × Nat => x.1) l
  have hget : filled.getD L [] = l := by
    rw [Array.getD_eq_getD_getElem?, hL]; rfl
  refine ⟨?_, ?_⟩
  · show (sortByKey (fun x : Nat × Nat => x.1) l).toArray.size < 2 ^ 64
    rw [List.size_toArray, hperm.length_eq]
    have := hlen L l hL
    omega
  · intro y hy
    have hy' : y ∈ l := hperm.mem_iff.mp (by simpa using hy)
    obtain ⟨cc, i⟩ := y
    rw [← hget] at hy'
    obtain ⟨h1, _, _, h4⟩ := (hmem L cc i (by omega)).mp hy'
    refine ⟨?_, ?_⟩
    · show cc < 2 ^ 32
      rw [← h4]; exact hcb i
    · show i < 256 ^ wbytes
      omega

end huff

end Qwt.Closure2.QuadTree

namespace Qwt.Closure2
open Qwt Qwt.Codec Qwt.Huff Qwt.Closure2.QuadTree
open Qwt.HQWM (bind_ok_inv)

theorem hqwtWF_of_new (c : Cfg) (wbytes : Nat) (hWb : c.W = 8 * wbytes) (hW : c.W ≤ 64)
    (hB : c.B = 256 ∨ c.B = 512)
    (S : List Nat) (hb : ∀ x ∈ S, x < 2 ^ c.W) (hmax : ∀ x ∈ S, x + 1 < 2 ^ 64)
    (hS : S.length < 2 ^ 43)
    (lens : List (Nat × Nat)) (hlens : Props.C02.LensOK 4 lens)
    (hsyms : ∀ s, s ∈ lens.map (·.1) ↔ s ∈ S)
    (hQ : ∀ (digits : List Nat) (r : RSQ.RSQVector), (∀ d ∈ digits, d < 4) →
      digits.length < 2 ^ 43 → RSQ.mkLevel c.dbg c.B digits = .ok r → Codec.rsqWF r)
    (hD : ∀ r, RSQ.default c.B = .ok r → Codec.rsqWF r)
    (hP : ∀ (qv : QV.QVector) (p : PFS.PrefetchSupport), QV.Inv qv → QV.len qv < 2 ^ 43 →
      PFS.new qv Extracted.pfsSampleShift = .ok p → Codec.pfsWF p)
    {t : Huff.HQWT} (ht : Huff.new c S.toArray lens = .ok t) : Codec.hqwtWF wbytes t := by
  by_cases hemp : S = []
  · subst hemp
    unfold Huff.new at ht
    have he : (([] : List Nat).toArray).isEmpty = true := rfl
    simp only [he, if_true] at ht
    obtain ⟨d, hd, ht⟩ := bind_ok_inv ht
    cases ht
    refine ⟨by show (0 : Nat) < 2 ^ 64; decide, by show (0 : Nat) < 2 ^ 64; decide,
      ⟨by show (0 : Nat) < 2 ^ 64; decide, by intro x hx; cases hx⟩,
      ⟨by show (0 : Nat) < 2 ^ 64; decide, by intro x hx; cases hx⟩,
      ⟨by show (1 : Nat) < 2 ^ 64; decide, ?_⟩,
      ⟨by show (1 : Nat) < 2 ^ 64; decide, ?_⟩, trivial⟩
    · intro x hx
      simp only [List.mem_singleton] at hx
      subst hx
      exact hD _ hd
    · intro x hx
      simp only [List.mem_singleton] at hx
      subst hx
      show (0 : Nat) < 2 ^ 64
      decide
  · have hne : S.toArray.isEmpty = false := by
      cases S with
      | nil => exact absurd rfl hemp
      | cons a l => rfl
    have hfold : S.toArray.foldl max 0 = Spec.maxNat S := by rw [List.foldl_toArray]; rfl
    have hsl := QWTree.maxNat_lt hb
    have hm1 : Spec.maxNat S < 2 ^ 64 - 1 :=
      QWTree.foldl_max_lt S 0 _ (by decide) (fun x hx => by have := hmax x hx; omega)
    have h64 : two64 = 2 ^ 64 := by decide
    have hsig : Utils.asUsize (Spec.maxNat S) = Spec.maxNat S :=
      Nat.mod_eq_of_lt (by rw [h64]; omega)
    have hs : ∀ p ∈ lens, p.1 ≤ Utils.asUsize (Spec.maxNat S) := by
      intro p hp
      rw [hsig]
      exact QWTree.le_maxNat ((hsyms p.1).mp (List.mem_map.mpr ⟨p, hp, rfl⟩))
    unfold Huff.new at ht
    simp only [hne, Bool.false_eq_true, if_false, hfold] at ht
    obtain ⟨codes, hcraft, ht⟩ := bind_ok_inv ht
    have hv := Props.C02.craft_valid (Or.inl rfl) hlens hs hcraft
    have hsize := (Props.C02.craft_lens (Or.inl rfl) hlens hs hcraft).1
    rw [hsig] at hsize
    obtain ⟨st, hst, ht⟩ := bind_ok_inv ht
    cases ht
    have I := hqwt_levels_inv c hQ hP codes S.length hS _
      { seq := S.toArray, shift := 2 } st 0
      ⟨by simp, rfl, by simp, rfl, by simp, by simp, by simp⟩ hst
    have hml := maxLen_le codes (fun i => (hv.len_le i).1)
    unfold HQWM.maxLenOf at hml
    have h1 := I.qsize
    have h2 := I.psize
    have h3 := I.lsize
    simp only [List.length_range, Nat.zero_add] at h1 h2 h3
    have hpw : (2 : Nat) ^ c.W = 256 ^ wbytes := by rw [hWb, pow_256]
    refine ⟨?_, ?_, ⟨?_, ?_⟩, ?_, ⟨?_, I.qwf⟩, ⟨?_, ?_⟩, ?_⟩
    · show S.toArray.size < 2 ^ 64
      simp only [List.size_toArray]; omega
    · show codes.foldl (fun m x => max m x.len) 0 / 2 < 2 ^ 64
      omega
    · show codes.size < 2 ^ 64
      omega
    · intro x hx
      have hx' : x ∈ codes.toList := hx
      obtain ⟨i, rfl⟩ := mem_codes hx'
      obtain ⟨g1, _, g3⟩ := hv.len_le i
      have : (2 : Nat) ^ codes[i]!.len ≤ 2 ^ 32 := Nat.pow_le_pow_right (by decide) g1
      show codes[i]!.content < 2 ^ 32 ∧ codes[i]!.len < 2 ^ 32
      exact ⟨by omega, by omega⟩
    · show Codec.decWF wbytes (Huff.decodeTables codes (codes.foldl (fun m x => max m x.len) 0))
      apply decTables_wf wbytes codes _ (by omega) (by omega)
      · intro i
        obtain ⟨g1, _, g3⟩ := hv.len_le i
        have : (2 : Nat) ^ codes[i]!.len ≤ 2 ^ 32 := Nat.pow_le_pow_right (by decide) g1
        omega
      · rw [← hpw]; omega
    · show st.qvs.size < 2 ^ 64
      omega
    · show st.lens.size < 2 ^ 64
      omega
    · intro x hx
      have := I.lwf x hx
      show x < 2 ^ 64
      omega
    · show Codec.pfsOptWF (if c.pfs = true then some st.pfs else none)
      by_cases hc : c.pfs = true
      · rw [if_pos hc]
        exact ⟨by omega, I.pwf⟩
      · rw [if_neg hc]; trivial


end Qwt.Closure2
