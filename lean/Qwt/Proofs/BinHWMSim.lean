import Qwt.Proofs.BinWMSim
import Qwt.Proofs.BinHWMSelect

/-!
Simulation for the Huffman-shaped variant (`compressed = true`): the model loops, run on
levels representing the bit lists of the list-level Huffman matrix, compute its walks.
Core Lean only.
-/
set_option linter.unusedSimpArgs false

namespace Qwt.BinWM
open Qwt Qwt.BinWT Qwt.RSW
open Qwt.Huff (PrefixCode)

/-- code length of symbol `x` in the table (0 outside the table) -/
def clen (codes : Array PrefixCode) (x : Nat) : Nat := codes[x]!.len

/-- bit `k` (most significant first) of the code of `x` -/
def cbit (codes : Array PrefixCode) (k x : Nat) : Bool := bitAt (clen codes x) k codes[x]!.content

/-- the levels of the model represent the bit lists of the list-level Huffman matrix of `S` -/
structure LevelsH (codes : Array PrefixCode) (S : List Nat) (t : WT) : Prop where
  size_eq : t.bvs.size = t.nLevels
  lens_size : t.lens.size = t.nLevels
  repr : ∀ k (h : k < t.bvs.size), RSW.Represents t.bvs[k] (bitsH (cbit codes) (clen codes) k S)
  lens_eq : ∀ k (h : k < t.lens.size), t.lens[k] = (lvlH (cbit codes) (clen codes) k S).length
  len_le : ∀ x ∈ S, clen codes x ≤ t.nLevels

theorem lvlH_length_le (β : Nat → Nat → Bool) (len : Nat → Nat) (k : Nat) (S : List Nat) :
    (lvlH β len k S).length ≤ S.length := by
  induction k with
  | zero => exact Nat.le_refl _
  | succ k ih =>
    rw [lvlH]
    exact Nat.le_trans (List.length_filter_le _ _) (by rw [part_length]; exact ih)

theorem mem_lvlH {β : Nat → Nat → Bool} {len : Nat → Nat} {S : List Nat} (h : HOK β len S)
    {c : Nat} (hc : c ∈ S) (k : Nat) (hk : k < len c) : c ∈ lvlH β len k S := by
  obtain ⟨A, C, h1, _⟩ := blkH h hc k hk
  rw [h1]
  simp only [List.mem_append, List.mem_filter]
  refine Or.inl (Or.inr ⟨hc, ?_⟩)
  simp [agP, agree_self, hk]

/-! ## rank -/

theorem rankWalkH_ok {codes : Array PrefixCode} {S : List Nat} {t : WT}
    (h : HOK (cbit codes) (clen codes) S) (hlv : LevelsH codes S t) {c : Nat} (hc : c ∈ S)
    (i : Nat) (f k : Nat) (hfk : f + k = clen codes c) :
    rankWalk t codes[c]!.content (clen codes c) f k
        (blkStartH (cbit codes) (clen codes) c S k + cntR (cbit codes) (clen codes) c S k i)
        (blkStartH (cbit codes) (clen codes) c S k) =
      .ok (blkStartH (cbit codes) (clen codes) c S (clen codes c)
             + cntR (cbit codes) (clen codes) c S (clen codes c) i,
           blkStartH (cbit codes) (clen codes) c S (clen codes c)) := by
  induction f generalizing k with
  | zero =>
    have : k = clen codes c := by omega
    subst this
    rfl
  | succ f ih =>
    have hk : k < clen codes c := by omega
    have hks : k < t.bvs.size := by
      rw [hlv.size_eq]; exact Nat.lt_of_lt_of_le hk (hlv.len_le c hc)
    have hr := hlv.repr k hks
    rw [rankWalk, bitOf_ok _ _ _ hk, ok_bind, idx_ok _ _ hks, ok_bind, cntR_eq_cntP h hc hk]
    have hi := blkStartH_cnt_le h hc k hk i
    have hp : blkStartH (cbit codes) (clen codes) c S k
        ≤ (bitsH (cbit codes) (clen codes) k S).length := by omega
    rw [hr.rank1U _ hp, ok_bind, hr.rank1U _ hi, ok_bind]
    simp only [ite_bind]
    rw [updPos_ok hr _ _ hp, ok_bind, updPos_ok hr _ _ hi, ok_bind]
    have hw := walk_stepH h hc k hk i
    simp only [cbit] at hw ⊢
    rw [hw]
    exact ih (k + 1) (by omega)

/-! ## select -/

def pathOfH (β : Nat → Nat → Bool) (len : Nat → Nat) (c : Nat) (S : List Nat) :
    Nat → List (Nat × Nat)
  | 0 => []
  | k + 1 => (blkStartH β len c S k, Spec.rank (β k c) (blkStartH β len c S k) (bitsH β len k S))
      :: pathOfH β len c S k

theorem selectDownH_ok {codes : Array PrefixCode} {S : List Nat} {t : WT}
    (h : HOK (cbit codes) (clen codes) S) (hlv : LevelsH codes S t) {c : Nat} (hc : c ∈ S)
    (f k : Nat) (hfk : f + k = clen codes c) :
    selectDown t codes[c]!.content (clen codes c) f k
        (blkStartH (cbit codes) (clen codes) c S k) (pathOfH (cbit codes) (clen codes) c S k) =
      .ok (some (pathOfH (cbit codes) (clen codes) c S (clen codes c))) := by
  induction f generalizing k with
  | zero =>
    have : k = clen codes c := by omega
    subst this
    rfl
  | succ f ih =>
    have hk : k < clen codes c := by omega
    have hks : k < t.bvs.size := by
      rw [hlv.size_eq]; exact Nat.lt_of_lt_of_le hk (hlv.len_le c hc)
    have hr := hlv.repr k hks
    have hbne : bitsH (cbit codes) (clen codes) k S ≠ [] := by
      intro hnil
      have := mem_lvlH h hc k hk
      rw [bitsH, List.map_eq_nil_iff] at hnil
      rw [hnil] at this; cases this
    have hp : blkStartH (cbit codes) (clen codes) c S k
        ≤ (bitsH (cbit codes) (clen codes) k S).length := by
      have := blkStartH_cnt_le h hc k hk 0; omega
    rw [selectDown, bitOf_ok _ _ _ hk, ok_bind, idx_ok _ _ hks, ok_bind]
    simp only [ite_bind]
    rw [rankB_ok hr _ _ hbne hp, ok_bind]
    simp only
    rw [mapPos_eq _ _ _ hr.nZeros_eq]
    exact ih (k + 1) (by omega)

theorem selectUpH_ok {codes : Array PrefixCode} {S : List Nat} {t : WT}
    (hlv : LevelsH codes S t) (hS : S.length < two64) {c : Nat} (hc : c ∈ S)
    (k res : Nat) (hk : k ≤ clen codes c) :
    selectUp t codes[c]!.content (clen codes c) (pathOfH (cbit codes) (clen codes) c S k) (k - 1) res =
      .ok (selUpH (cbit codes) (clen codes) c S k res) := by
  induction k generalizing res with
  | zero => rfl
  | succ k ih =>
    have hk' : k < clen codes c := by omega
    have hks : k < t.bvs.size := by
      rw [hlv.size_eq]; exact Nat.lt_of_lt_of_le hk' (hlv.len_le c hc)
    have hr := hlv.repr k hks
    have hlen : (bitsH (cbit codes) (clen codes) k S).length ≤ S.length := by
      rw [bitsH, List.length_map]; exact lvlH_length_le _ _ _ _
    rw [pathOfH, selectUp, Nat.add_sub_cancel, bitOf_ok _ _ _ hk', ok_bind, idx_ok _ _ hks, ok_bind,
      selUpH]
    have e : bitAt (clen codes c) k codes[c]!.content = cbit codes k c := rfl
    rw [e]
    by_cases hov : Spec.rank (cbit codes k c) (blkStartH (cbit codes) (clen codes) c S k)
        (bitsH (cbit codes) (clen codes) k S) + res ≥ two64
    · rw [if_pos hov]
      have hnone : Spec.select (cbit codes k c)
          (Spec.rank (cbit codes k c) (blkStartH (cbit codes) (clen codes) c S k)
            (bitsH (cbit codes) (clen codes) k S) + res)
          (bitsH (cbit codes) (clen codes) k S) = none := by
        apply select_none
        have := List.count_le_length (a := cbit codes k c) (l := bitsH (cbit codes) (clen codes) k S)
        omega
      rw [hnone]; rfl
    · rw [if_neg hov]
      simp only [ite_bind]
      rw [selB_ok hr, ok_bind]
      cases hq : Spec.select (cbit codes k c)
          (Spec.rank (cbit codes k c) (blkStartH (cbit codes) (clen codes) c S k)
            (bitsH (cbit codes) (clen codes) k S) + res)
          (bitsH (cbit codes) (clen codes) k S) with
      | none => rfl
      | some q =>
        simp only
        rw [sub_ok _ _ (select_ge hq), ok_bind]
        exact ih _ (by omega)

/-! ## get -/

theorem ite_pure_bind {α β : Type} (b : Prop) [Decidable b] (a : α) (y : M α) (f : α → M β) :
    (if b then f a else y >>= f) = (if b then pure a else y) >>= f := by
  split <;> rfl

theorem two32_eq : Huff.two32 = 2 ^ 32 := by decide

theorem goH_ok {codes : Array PrefixCode} {S : List Nat} {t : WT} (c : Cfg)
    (h : HOK (cbit codes) (clen codes) S) (hlv : LevelsH codes S t) (x j : Nat)
    (hj : S[j]? = some x) (hcont : codes[x]!.content < 2 ^ 32)
    (f k : Nat) (hfk : f + k = t.nLevels) (hk : k ≤ clen codes x) :
    getUnchecked.go c true t f k (codes[x]!.content >>> (clen codes x - k))
        (trackH (cbit codes) (clen codes) S x j k) k = .ok (codes[x]!.content, clen codes x) := by
  have hxS : x ∈ S := List.mem_of_getElem? hj
  have hle := hlv.len_le x hxS
  have hpos := h.pos x hxS
  induction f generalizing k with
  | zero =>
    have : k = clen codes x := by omega
    subst this
    simp [getUnchecked.go, pure, Except.pure]
  | succ f ih =>
    have hkn : k < t.nLevels := by omega
    have hkl : k < t.lens.size := by rw [hlv.lens_size]; exact hkn
    have hks : k < t.bvs.size := by rw [hlv.size_eq]; exact hkn
    rw [getUnchecked.go]
    simp only [if_true]
    rw [idx_ok _ _ hkl, ok_bind, hlv.lens_eq k hkl]
    by_cases hk' : k < clen codes x
    · have hr := hlv.repr k hks
      have hlt := track_ltH h x j hj k hk'
      have hbit := bitsH_track h x j hj k hk'
      have hlen : (bitsH (cbit codes) (clen codes) k S).length
          = (lvlH (cbit codes) (clen codes) k S).length := by rw [bitsH, List.length_map]
      have hgetD : (bitsH (cbit codes) (clen codes) k S).getD
          (trackH (cbit codes) (clen codes) S x j k) false = cbit codes k x := by
        rw [List.getD_eq_getElem?_getD, hbit]; rfl
      have hstop : decide (trackH (cbit codes) (clen codes) S x j k
          ≥ (lvlH (cbit codes) (clen codes) k S).length) = false := by
        simp; omega
      rw [pure_bind', hstop]
      simp only [Bool.false_eq_true, if_false]
      rw [idx_ok _ _ hks, ok_bind, hr.getU _ (by omega), ok_bind, hgetD,
        hr.rank1U _ (by omega), ok_bind]
      simp only [ite_bind]
      rw [updPos_ok hr _ _ (by omega), ok_bind]
      have hacc : (codes[x]!.content >>> (clen codes x - k) <<< 1 % Huff.two32 |||
          if cbit codes k x = true then 1 else 0) = codes[x]!.content >>> (clen codes x - (k + 1)) := by
        have := acc_step 32 (clen codes x) k codes[x]!.content hk' hcont
        rw [← two32_eq] at this
        exact this
      rw [hacc]
      exact ih (k + 1) (by omega) (by omega)
    · have hke : k = clen codes x := by omega
      obtain ⟨k', rfl⟩ : ∃ k', k = k' + 1 := ⟨k - 1, by omega⟩
      have hend := track_endH h x j hj k' hke
      have hstop : decide (trackH (cbit codes) (clen codes) S x j (k' + 1)
          ≥ (lvlH (cbit codes) (clen codes) (k' + 1) S).length) = true := by
        simp; omega
      simp only [pure_bind', hstop, if_true]
      rw [← hke, Nat.sub_self, Nat.shiftRight_zero]
      rfl

/-- what `get` needs from the decode tables -/
def DecOK (codes : Array PrefixCode) (dec : Array (Array (Nat × Nat))) (S : List Nat) : Prop :=
  ∀ x ∈ S, ∃ tbl, dec[clen codes x]? = some tbl ∧ Huff.tableFind tbl codes[x]!.content = some x

theorem getUncheckedH_ok {codes : Array PrefixCode} {S : List Nat} {t : WT} (c : Cfg)
    (h : HOK (cbit codes) (clen codes) S) (hlv : LevelsH codes S t)
    {dec : Array (Array (Nat × Nat))} (hdec : t.codesDecode = some dec) (hd : DecOK codes dec S)
    (x j : Nat) (hj : S[j]? = some x)
    (hcont : codes[x]!.content < 2 ^ clen codes x) (hl32 : clen codes x ≤ 32) (hx : x < 2 ^ c.W) :
    BinWT.getUnchecked c true t j = .ok x := by
  have hxS : x ∈ S := List.mem_of_getElem? hj
  have hc32 : codes[x]!.content < 2 ^ 32 :=
    Nat.lt_of_lt_of_le hcont (Nat.pow_le_pow_right (by omega) hl32)
  have hgo := goH_ok c h hlv x j hj hc32 t.nLevels 0 (by omega) (by omega)
  have e : codes[x]!.content >>> (clen codes x - 0) = 0 := by
    rw [Nat.sub_zero, Nat.shiftRight_eq_div_pow]; exact Nat.div_eq_of_lt hcont
  rw [e] at hgo
  simp only [trackH] at hgo
  obtain ⟨tbl, htbl, hfind⟩ := hd x hxS
  have hidx : idx dec (clen codes x) = .ok tbl := by
    unfold idx
    obtain ⟨hlt, hget⟩ := Array.getElem?_eq_some_iff.mp htbl
    simp [hlt, hget]
  simp only [BinWT.getUnchecked, hgo, ok_bind, if_true, hdec, unwrap, hidx, hfind, hx]
  rfl

end Qwt.BinWM
