import Qwt.Props.Closed
import Qwt.Props.C11

/-!
The binary wavelet trees returned by `BinWT.new` (plain and Huffman-shaped) are
serialisation-well-formed (`Codec.wtWF`), given that every level built by `RSW.mkLevel` is
(`hWl`, proved separately for the leaf).

The level loop is inverted generically (both variants at once): a successful `levelStep` pushes
`r` with `RSW.mkLevel bits = .ok r` and pushes `bits.length` to `lens`.  The bounds on `lens`
(hence on `bits.length`) come from the existing invariants `WMb` / `HWMb`.
Core Lean only.
-/
set_option linter.unusedSimpArgs false

namespace Qwt.Closure2
namespace BinTree
open Qwt Qwt.BinWT Qwt.RSW Qwt.BinWM Qwt.Extracted

theorem bind_inv {α β : Type} {x : M α} {f : α → M β} {b : β} (e : x >>= f = .ok b) :
    ∃ a, x = .ok a ∧ f a = .ok b := by
  cases x with
  | error err => cases e
  | ok a => exact ⟨a, rfl, e⟩

theorem push_nBits {b b' : BV.BitVectorMut} {bit : Bool} (h : BV.push b bit = .ok b') :
    b'.nBits = b.nBits + 1 := by
  unfold BV.push at h
  obtain ⟨n, h1, h2⟩ := bind_inv h
  have hn : n = b.nBits + 1 := by
    unfold add64 at h1
    split at h1
    · cases h1; rfl
    · cases h1
  subst hn
  cases bit
  · simp only [Bool.false_eq_true, if_false] at h2
    cases h2; rfl
  · simp only [if_true] at h2
    split at h2 <;> split at h2 <;>
      first
        | (obtain ⟨d, _, h3⟩ := bind_inv h2; cases h3; rfl)
        | (cases h2; rfl)

theorem pushes_nBits (bits : List Bool) (b0 bvm : BV.BitVectorMut)
    (h : bits.foldlM (fun (b : BV.BitVectorMut) x => BV.push b x) b0 = .ok bvm) :
    bvm.nBits = b0.nBits + bits.length := by
  induction bits generalizing b0 with
  | nil => cases h; rfl
  | cons x xs ih =>
    rw [List.foldlM_cons] at h
    obtain ⟨b1, h1, h2⟩ := bind_inv h
    rw [ih b1 h2, push_nBits h1, List.length_cons]; omega

/-- a loop that, per element, pushes one bit or leaves the builder alone is a push loop -/
theorem fold_push_inv (body : BV.BitVectorMut → Nat → M BV.BitVectorMut)
    (hbody : ∀ b s b', body b s = .ok b' → (∃ bit, BV.push b bit = .ok b') ∨ b' = b)
    (l : List Nat) (b0 bvm : BV.BitVectorMut) (h : l.foldlM body b0 = .ok bvm) :
    ∃ bits : List Bool, bits.foldlM (fun (b : BV.BitVectorMut) x => BV.push b x) b0 = .ok bvm := by
  induction l generalizing b0 with
  | nil => cases h; exact ⟨[], rfl⟩
  | cons s ss ih =>
    rw [List.foldlM_cons] at h
    obtain ⟨b1, h1, h2⟩ := bind_inv h
    obtain ⟨bits, hb⟩ := ih b1 h2
    rcases hbody b0 s b1 h1 with ⟨bit, hp⟩ | rfl
    · refine ⟨bit :: bits, ?_⟩
      rw [List.foldlM_cons, hp]; exact hb
    · exact ⟨bits, hb⟩

/-- generic inversion of one level of the constructor (both variants) -/
theorem levelStep_inv (c : Cfg) (compressed : Bool) (nL : Nat) (codes : Array Huff.PrefixCode)
    (st st' : LevelSt) (h : levelStep c compressed nL codes st = .ok st') :
    ∃ bits r, RSW.mkLevel bits = .ok r ∧ st'.bvs = st.bvs.push r ∧
      st'.lens = st.lens.push bits.length := by
  unfold levelStep at h
  obtain ⟨bvm, h1, h⟩ := bind_inv h
  obtain ⟨rs, h2, h⟩ := bind_inv h
  have hfin : st'.bvs = st.bvs.push rs ∧ st'.lens = st.lens.push bvm.nBits := by
    cases compressed
    · simp only [Bool.false_eq_true, if_false] at h
      obtain ⟨sh, _, h⟩ := bind_inv h
      obtain ⟨seq, _, h⟩ := bind_inv h
      cases h; exact ⟨rfl, rfl⟩
    · simp only [if_true] at h
      obtain ⟨seq, _, h⟩ := bind_inv h
      cases h; exact ⟨rfl, rfl⟩
  clear h
  rw [← Array.foldlM_toList] at h1
  refine Exists.elim (fold_push_inv _ ?_ _ _ _ h1) ?_
  rotate_left
  · intro bits hb
    refine ⟨bits, rs, ?_, hfin.1, ?_⟩
    · unfold RSW.mkLevel
      rw [hb]; exact h2
    · have := pushes_nBits bits _ _ hb
      rw [hfin.2, this]
      simp
  · intro b s b' hs
    cases compressed
    · simp only [Bool.false_eq_true, if_false] at hs
      obtain ⟨sh, _, hs⟩ := bind_inv hs
      split at hs
      · cases hs
      · exact Or.inl ⟨_, hs⟩
    · simp only [if_true] at hs
      split at hs
      · cases hs
      · split at hs
        · exact Or.inl ⟨_, hs⟩
        · cases hs; exact Or.inr rfl

/-- the invariant carried through the level loop -/
def LvInv (st : LevelSt) : Prop :=
  ∀ r ∈ st.bvs.toList, ∃ bits, RSW.mkLevel bits = .ok r ∧ bits.length ∈ st.lens.toList

theorem loop_inv (c : Cfg) (compressed : Bool) (nL : Nat) (codes : Array Huff.PrefixCode)
    (l : List Nat) (st st' : LevelSt) (hi : LvInv st)
    (h : l.foldlM (fun st _ => levelStep c compressed nL codes st) st = .ok st') : LvInv st' := by
  induction l generalizing st with
  | nil => cases h; exact hi
  | cons x xs ih =>
    rw [List.foldlM_cons] at h
    obtain ⟨st1, h1, h2⟩ := bind_inv h
    apply ih st1 _ h2
    obtain ⟨bits, r, hm, hb, hl⟩ := levelStep_inv c compressed nL codes st st1 h1
    intro r' hr'
    rw [hb] at hr'
    rw [hl]
    simp only [Array.toList_push, List.mem_append, List.mem_singleton] at hr' ⊢
    rcases hr' with hr' | rfl
    · obtain ⟨bits', h3, h4⟩ := hi r' hr'
      exact ⟨bits', h3, Or.inl h4⟩
    · exact ⟨bits, hm, Or.inr rfl⟩

theorem lvInv_init (seq : Array Nat) : LvInv ({ seq, shift := 1 } : LevelSt) := by
  intro r hr; simp at hr

theorem two_pow_43_le : (2 : Nat) ^ 43 ≤ 2 ^ 64 := Nat.pow_le_pow_right (by decide) (by decide)

/-- assembling `wtWF` from the pieces (shared by both variants) -/
theorem wtWF_assemble (wbytes : Nat) (t : WT) (n : Nat) (hn : n < 2 ^ 43)
    (hWl : ∀ (bits : List Bool) (r : RSW.RSWide), bits.length < 2 ^ 43 →
      RSW.mkLevel bits = .ok r → Codec.rswWF r)
    (h1 : t.n < 2 ^ 64) (h2 : t.nLevels < 2 ^ 64)
    (h3 : Codec.optAll (· < 256 ^ wbytes) t.sigma)
    (h4 : Codec.optAll (Codec.arrAll Codec.codeWF) t.codesEncode)
    (h5 : Codec.optAll (Codec.decWF wbytes) t.codesDecode)
    (hbs : t.bvs.size = t.nLevels) (hls : t.lens.size = t.nLevels)
    (hle : ∀ x ∈ t.lens.toList, x ≤ n)
    (hinv : ∀ r ∈ t.bvs.toList, ∃ bits, RSW.mkLevel bits = .ok r ∧ bits.length ∈ t.lens.toList) :
    Codec.wtWF wbytes t := by
  have h43 := two_pow_43_le
  refine ⟨h1, h2, h3, h4, h5, ⟨by rw [hbs]; exact h2, ?_⟩, ⟨by rw [hls]; exact h2, ?_⟩⟩
  · intro r hr
    obtain ⟨bits, hm, hl⟩ := hinv r hr
    exact hWl bits r (Nat.lt_of_le_of_lt (hle _ hl) hn) hm
  · intro x hx
    have := hle x hx
    show x < 2 ^ 64
    omega

theorem pow_bytes (w : Nat) : (2 : Nat) ^ (8 * w) = 256 ^ w := by
  rw [Nat.pow_mul]

end BinTree

open Qwt Qwt.BinWT Qwt.RSW Qwt.BinWM Qwt.Extracted BinTree

/-! ## the decode tables -/

namespace BinTree

theorem length_fill (codes : Array Huff.PrefixCode) (is : List Nat)
    (acc : Array (List (Nat × Nat))) (l : Nat) :
    ((is.foldl (fillStep codes) acc)[l]?.getD []).length ≤ (acc[l]?.getD []).length + is.length := by
  induction is generalizing acc with
  | nil => simp
  | cons i is ih =>
    rw [List.foldl_cons]
    refine Nat.le_trans (ih _) ?_
    rw [List.length_cons]
    have : ((fillStep codes acc i)[l]?.getD []).length ≤ (acc[l]?.getD []).length + 1 := by
      unfold fillStep
      split
      · rw [Array.getElem?_modify]
        split
        · cases acc[l]? <;> simp
        · omega
      · omega
    omega

end BinTree

/-- the decode tables of any code table with 32-bit contents over at most `256^wbytes` symbols
    are serialisation-well-formed (shared by the binary and the quad Huffman trees) -/
theorem decodeTables_wf (wbytes : Nat) (codes : Array Huff.PrefixCode) (maxLen : Nat)
    (hmax : maxLen + 1 < 2 ^ 64) (hc : ∀ x : Nat, codes[x]!.content < 2 ^ 32)
    (hsz : codes.size < 2 ^ 64) (hsz' : codes.size ≤ 256 ^ wbytes) :
    Codec.decWF wbytes (Huff.decodeTables codes maxLen) := by
  have e : Huff.decodeTables codes maxLen =
      ((List.range codes.size).foldl (fillStep codes) (Array.replicate (maxLen + 1) [])).map
        (fun l => (Huff.sortByKey (fun x => x.1) l).toArray) := rfl
  rw [e]
  generalize hf : (List.range codes.size).foldl (fillStep codes) (Array.replicate (maxLen + 1) []) = filled
  have hfs : filled.size = maxLen + 1 := by rw [← hf, size_fill]; simp
  refine ⟨by rw [Array.size_map, hfs]; exact hmax, ?_⟩
  intro a ha
  rw [Array.toList_map] at ha
  obtain ⟨l, hl, rfl⟩ := List.mem_map.mp ha
  obtain ⟨j, hj, rfl⟩ := List.mem_iff_getElem.mp hl
  simp only [Array.length_toList] at hj
  have hget : filled.toList[j] = filled[j]?.getD [] := by
    rw [Array.getElem_toList, Array.getElem?_eq_getElem hj]; rfl
  rw [hget]
  refine ⟨?_, ?_⟩
  · have h1 := BinTree.length_fill codes (List.range codes.size) (Array.replicate (maxLen + 1) []) j
    rw [hf] at h1
    have h2 : ((Array.replicate (maxLen + 1) ([] : List (Nat × Nat)))[j]?.getD []).length = 0 := by
      rw [Array.getElem?_replicate]; split <;> rfl
    rw [h2, List.length_range] at h1
    have h3 := (Qwt.Proofs.Craft.sortByKey_perm (fun x : Nat × Nat => x.1) (filled[j]?.getD [])).length_eq
    simp only [List.size_toArray, h3]
    omega
  · intro x hx
    simp only at hx
    rw [mem_sortByKey] at hx
    rw [← hf, mem_fill codes _ _ j (by simp; omega)] at hx
    rcases hx with hx | ⟨i, hi, _, _, rfl⟩
    · rw [Array.getElem?_replicate] at hx
      split at hx <;> simp at hx
    · rw [List.mem_range] at hi
      exact ⟨hc i, Nat.lt_of_lt_of_le hi hsz'⟩

/-- the plain binary wavelet tree returned by `new` is serialisation-well-formed.
    (`hW64` is needed: with an element type of `2^64` bits or more the number of levels
    need not fit a `u64`.) -/
theorem wtWF_of_new (c : Cfg) (wbytes : Nat) (hWb : c.W = 8 * wbytes) (hW : 0 < c.W)
    (hW64 : c.W < 2 ^ 64)
    (S : List Nat) (hb : ∀ x ∈ S, x < 2 ^ c.W) (hS : S.length < 2 ^ 43)
    (hWl : ∀ (bits : List Bool) (r : RSW.RSWide), bits.length < 2 ^ 43 →
      RSW.mkLevel bits = .ok r → Codec.rswWF r)
    {t : BinWT.WT} (ht : BinWT.new c false S.toArray [] = .ok t) : Codec.wtWF wbytes t := by
  cases hS0 : S with
  | nil =>
    subst hS0
    cases ht
    exact Qwt.C11.wtWF_default wbytes
  | cons y ys =>
    have hne : S ≠ [] := by rw [hS0]; simp
    have inv : WMb c S t := Props.C03.wt_inv c hW Props.Closed.binLevelLaw S hb hS ht
    have hmax : Spec.maxNat S < 2 ^ c.W := maxNat_lt (Nat.pow_pos (by omega)) hb
    have hemp : S.toArray.isEmpty = false := by rw [hS0]; rfl
    have hfold : S.toArray.foldl max 0 = Spec.maxNat S := by simp [Spec.maxNat]
    have hinv : ∀ r ∈ t.bvs.toList, ∃ bits, RSW.mkLevel bits = .ok r ∧ bits.length ∈ t.lens.toList := by
      unfold BinWT.new at ht
      simp only [hemp, Bool.false_eq_true, if_false, hfold, msb_ok hW hmax, ok_bind, pure_bind',
        Option.getD_none] at ht
      obtain ⟨st, h1, h2⟩ := bind_inv ht
      cases h2
      exact loop_inv c false _ _ _ _ st (lvInv_init _) h1
    have h43 := two_pow_43_le
    refine wtWF_assemble wbytes t S.length hS hWl ?_ ?_ ?_ ?_ ?_ (inv.levels hne).size_eq ?_ ?_ hinv
    · rw [inv.n_eq]; omega
    · have := inv.nLevels_le; omega
    · rw [inv.sigma_eq hne]
      show Spec.maxNat S < 256 ^ wbytes
      rw [← pow_bytes, ← hWb]; exact hmax
    · rw [inv.codes.1]; trivial
    · rw [inv.codes.2]; trivial
    · rw [inv.lens_eq]; simp
    · intro x hx
      rw [inv.lens_eq] at hx
      simp at hx
      omega

/-! ## the Huffman-shaped tree -/

namespace BinTree

theorem foldl_max_len_bound (l : List Huff.PrefixCode) (a b : Nat) (ha : a ≤ b)
    (h : ∀ x ∈ l, x.len ≤ b) : l.foldl (fun m x => max m x.len) a ≤ b := by
  induction l generalizing a with
  | nil => simpa using ha
  | cons y ys ih =>
    simp only [List.foldl_cons]
    apply ih
    · have := h y (by simp); omega
    · intro x hx; exact h x (by simp [hx])

end BinTree

/-- the Huffman-shaped binary wavelet tree returned by `new` is serialisation-well-formed.
    (`hsig` is needed: for a 64-bit element type containing the symbol `2^64 - 1` the code table
    has `2^64` entries, whose length does not fit a `u64`.) -/
theorem hwtWF_of_new (c : Cfg) (wbytes : Nat) (hWb : c.W = 8 * wbytes) (hW : c.W ≤ 64)
    (S : List Nat) (hb : ∀ x ∈ S, x < 2 ^ c.W) (hS : S.length < 2 ^ 43)
    (hsig : ∀ x ∈ S, x + 1 < 2 ^ 64)
    (lens : List (Nat × Nat)) (hlens : Props.C02.LensOK 2 lens)
    (hocc : ∀ s, s ∈ lens.map (·.1) ↔ s ∈ S)
    (hWl : ∀ (bits : List Bool) (r : RSW.RSWide), bits.length < 2 ^ 43 →
      RSW.mkLevel bits = .ok r → Codec.rswWF r)
    {t : BinWT.WT} (ht : BinWT.new c true S.toArray lens = .ok t) : Codec.wtWF wbytes t := by
  cases hS0 : S with
  | nil =>
    subst hS0
    cases ht
    exact Qwt.C11.wtWF_default wbytes
  | cons y ys =>
    have hne : S ≠ [] := by rw [hS0]; simp
    obtain ⟨codes, hc, hv⟩ := Props.Closed.hwt_codes c hW S hne hb hS lens hlens hocc
    have inv : HWMb c S codes t :=
      Props.C03.hwt_inv c hW Props.Closed.binLevelLaw S hne hb hS lens codes hc _ hv hocc ht
    have h43 := two_pow_43_le
    -- the size of the code table
    have hmax : Spec.maxNat S < 2 ^ c.W := maxNat_lt (Nat.pow_pos (by omega)) hb
    have hmax64 : Spec.maxNat S < 2 ^ 64 - 1 :=
      maxNat_lt (by decide) (fun x hx => by have := hsig x hx; omega)
    have hus : Utils.asUsize (Spec.maxNat S) = Spec.maxNat S := by
      unfold Utils.asUsize two64; omega
    have hsize : codes.size = Spec.maxNat S + 1 := by
      rw [hus] at hc
      refine (Props.C02.craft_lens (Or.inr rfl) hlens ?_ hc).1
      intro p hp
      have : p.1 ∈ lens.map (·.1) := List.mem_map.mpr ⟨p, hp, rfl⟩
      exact le_maxNat ((hocc p.1).mp this)
    have hsz : codes.size < 2 ^ 64 := by omega
    have hsz' : codes.size ≤ 256 ^ wbytes := by
      rw [← pow_bytes, ← hWb]; omega
    have hlen32 : ∀ x ∈ codes.toList, x.len ≤ 32 := by
      intro x hx
      obtain ⟨i, hi, rfl⟩ := List.mem_iff_getElem.mp hx
      simp only [Array.length_toList] at hi
      have := (inv.code_bound i).1
      unfold clen at this
      rw [getElem!_pos codes i hi] at this
      simpa using this
    have hml : codes.foldl (fun m x => max m x.len) 0 ≤ 32 := by
      rw [← Array.foldl_toList]
      exact foldl_max_len_bound _ 0 32 (by omega) hlen32
    have hemp : S.toArray.isEmpty = false := by rw [hS0]; rfl
    have hfold : S.toArray.foldl max 0 = Spec.maxNat S := by simp [Spec.maxNat]
    have hfacts : t.nLevels = codes.foldl (fun m x => max m x.len) 0 ∧
        t.codesDecode = some (Huff.decodeTables codes (codes.foldl (fun m x => max m x.len) 0)) ∧
        ∀ r ∈ t.bvs.toList, ∃ bits, RSW.mkLevel bits = .ok r ∧ bits.length ∈ t.lens.toList := by
      unfold BinWT.new at ht
      simp only [hemp, Bool.false_eq_true, if_false, hfold, if_true, hc, ok_bind, pure_bind',
        Option.getD_some] at ht
      obtain ⟨st, h1, h2⟩ := bind_inv ht
      cases h2
      exact ⟨rfl, rfl, loop_inv c true _ _ _ _ st (lvInv_init _) h1⟩
    obtain ⟨hnl, hdec, hinv⟩ := hfacts
    refine wtWF_assemble wbytes t S.length hS hWl ?_ ?_ ?_ ?_ ?_ inv.levels.size_eq
      inv.levels.lens_size ?_ hinv
    · rw [inv.n_eq]; omega
    · rw [hnl]; omega
    · rw [inv.sigma_eq]; trivial
    · rw [inv.codes_eq]
      refine ⟨hsz, ?_⟩
      intro x hx
      obtain ⟨i, hi, rfl⟩ := List.mem_iff_getElem.mp hx
      simp only [Array.length_toList] at hi
      obtain ⟨b1, b2⟩ := inv.code_bound i
      unfold clen at b1 b2
      rw [getElem!_pos codes i hi] at b1 b2
      have hp : 2 ^ codes[i].len ≤ 2 ^ 32 := Nat.pow_le_pow_right (by decide) b1
      simp only [Array.getElem_toList]
      refine ⟨Nat.lt_of_lt_of_le b2 hp, ?_⟩
      have : (32 : Nat) < 2 ^ 32 := by decide
      omega
    · rw [hdec]
      refine decodeTables_wf wbytes codes _ (by omega) ?_ hsz hsz'
      intro x
      obtain ⟨b1, b2⟩ := inv.code_bound x
      unfold clen at b1 b2
      exact Nat.lt_of_lt_of_le b2 (Nat.pow_le_pow_right (by decide) b1)
    · intro x hx
      obtain ⟨k, hk, rfl⟩ := List.mem_iff_getElem.mp hx
      simp only [Array.length_toList] at hk
      simp only [Array.getElem_toList]
      rw [inv.levels.lens_eq k hk]
      exact lvlH_length_le _ _ _ _

/-- for element types of fewer than 64 bits `hsig` is automatic -/
theorem hwtWF_of_new_lt64 (c : Cfg) (wbytes : Nat) (hWb : c.W = 8 * wbytes) (hW : c.W < 64)
    (S : List Nat) (hb : ∀ x ∈ S, x < 2 ^ c.W) (hS : S.length < 2 ^ 43)
    (lens : List (Nat × Nat)) (hlens : Props.C02.LensOK 2 lens)
    (hocc : ∀ s, s ∈ lens.map (·.1) ↔ s ∈ S)
    (hWl : ∀ (bits : List Bool) (r : RSW.RSWide), bits.length < 2 ^ 43 →
      RSW.mkLevel bits = .ok r → Codec.rswWF r)
    {t : BinWT.WT} (ht : BinWT.new c true S.toArray lens = .ok t) : Codec.wtWF wbytes t := by
  refine hwtWF_of_new c wbytes hWb (by omega) S hb hS ?_ lens hlens hocc hWl ht
  intro x hx
  have h1 := hb x hx
  have h2 : 2 ^ c.W ≤ 2 ^ 63 := Nat.pow_le_pow_right (by decide) (by omega)
  have h3 : (2 : Nat) ^ 63 + 1 < 2 ^ 64 := by decide
  omega

end Qwt.Closure2
