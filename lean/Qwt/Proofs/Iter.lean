import Qwt.Model.Iter

/-! The `WTIterator` state machine refines the deque specification, for every history of
`next` / `next_back` / `len` calls, whenever `get_unchecked` returns the indexed element. -/
namespace Qwt.Iter

theorem Out_ofOpt_ok_some (v : Nat) : Out.ofOpt ((Except.ok v : M Nat).map some) = Out.some v := rfl

theorem window_cons (S : List Nat) (i e : Nat) (h : i < e) (he : e ≤ S.length) :
    (S.drop i).take (e - i) = S.getD i 0 :: (S.drop (i + 1)).take (e - (i + 1)) := by
  have hi : i < S.length := by omega
  rw [List.drop_eq_getElem_cons hi]
  have : e - i = (e - (i + 1)) + 1 := by omega
  rw [this, List.take_succ_cons]
  simp [List.getD_eq_getElem?_getD, List.getElem?_eq_getElem hi]

theorem window_length (S : List Nat) (i e : Nat) (he : e ≤ S.length) :
    ((S.drop i).take (e - i)).length = e - i := by
  simp [List.length_take, List.length_drop]; omega

theorem window_getLast (S : List Nat) (i e : Nat) (h : i < e) (he : e ≤ S.length) :
    ((S.drop i).take (e - i)).getLast? = some (S.getD (e - 1) 0) := by
  have hlen := window_length S i e he
  rw [List.getLast?_eq_getElem?, hlen]
  have h1 : e - i - 1 < e - i := by omega
  rw [List.getElem?_take_of_lt h1, List.getElem?_drop]
  have : i + (e - i - 1) = e - 1 := by omega
  rw [this]
  have hi : e - 1 < S.length := by omega
  simp [List.getD_eq_getElem?_getD, List.getElem?_eq_getElem hi]

theorem window_dropLast (S : List Nat) (i e : Nat) (h : i < e) (he : e ≤ S.length) :
    ((S.drop i).take (e - i)).dropLast = (S.drop i).take (e - 1 - i) := by
  rw [List.dropLast_eq_take, window_length S i e he, List.take_take]
  congr 1; omega

theorem run_eq_spec (getU : Nat → M Nat) (S : List Nat)
    (hget : ∀ i, i < S.length → getU i = .ok (S.getD i 0))
    (ops : List IterOp) :
    ∀ it : WTIter, it.i ≤ it.e → it.e ≤ S.length →
      run getU it ops = specRun ((S.drop it.i).take (it.e - it.i)) ops := by
  induction ops with
  | nil => intro it _ _; rfl
  | cons op ops ih =>
    intro it hie he
    cases op with
    | next =>
      by_cases h : it.i < it.e
      · have hi : it.i < S.length := by omega
        simp only [run, step, h, if_true, hget it.i hi, Out_ofOpt_ok_some]
        rw [window_cons S it.i it.e h he]
        simp only [specRun, specStep]
        rw [ih { it with i := it.i + 1 } (by simp; omega) (by simpa using he)]
      · have : it.e - it.i = 0 := by omega
        simp only [run, step, h, if_false, this, List.take_zero, specRun, specStep]
        have := ih it hie he
        rw [‹it.e - it.i = 0›] at this
        simpa using this
    | nextBack =>
      by_cases h : it.i < it.e
      · have hi : it.e - 1 < S.length := by omega
        simp only [run, step, h, if_true, hget (it.e - 1) hi, Out_ofOpt_ok_some]
        simp only [specRun, specStep, window_getLast S it.i it.e h he, window_dropLast S it.i it.e h he]
        rw [ih { it with e := it.e - 1 } (by simp; omega) (by simp; omega)]
      · have h0 : it.e - it.i = 0 := by omega
        simp only [run, step, h, if_false, h0, List.take_zero, specRun, specStep, List.getLast?_nil]
        have := ih it hie he
        rw [h0] at this
        simpa using this
    | len =>
      have hs : sub it.e it.i = .ok (it.e - it.i) := by simp [sub, hie]
      simp only [run, step, hs, specRun, specStep, window_length S it.i it.e he]
      rw [ih it hie he]
      rfl

end Qwt.Iter
