import Qwt.Model.Iter

/-! The `WTIterator` state machine refines the deque specification, for every history of
`next` / `next_back` / `len` / `nth` / `nth_back` / `count` / `last` calls, whenever
`get_unchecked` returns the indexed element. -/
namespace Qwt.Iter

theorem Out_ofOpt_ok_some (v : Nat) : Out.ofOpt ((Except.ok v : M Nat).map some) = Out.some v := rfl

theorem window_cons (S : List Nat) (i e : Nat) (h : i < e) (he : e ≤ S.length) :
    (S.drop i).take (e - i) = S.getD i 0 :: (S.drop (i + 1)).take (e - (i + 1)) := by
  have hi : i < S.length := by omega
  rw [List.drop_eq_getElem_cons hi]
  have : e - i = (e - (i + 1)) + 1 := by omega
  rw [this, List.take_succ_cons]
  simp [List.getD_eq_getElem?_getD, List.getElem?_eq_getElem hi]

theorem window_length (S : List Nat) (i e : Nat) (he : e ≤ S.length) :
    ((S.drop i).take (e - i)).length = e - i := by
  simp [List.length_take, List.length_drop]; omega

theorem window_getLast (S : List Nat) (i e : Nat) (h : i < e) (he : e ≤ S.length) :
    ((S.drop i).take (e - i)).getLast? = some (S.getD (e - 1) 0) := by
  have hlen := window_length S i e he
  rw [List.getLast?_eq_getElem?, hlen]
  have h1 : e - i - 1 < e - i := by omega
  rw [List.getElem?_take_of_lt h1, List.getElem?_drop]
  have : i + (e - i - 1) = e - 1 := by omega
  rw [this]
  have hi : e - 1 < S.length := by omega
  simp [List.getD_eq_getElem?_getD, List.getElem?_eq_getElem hi]

theorem window_dropLast (S : List Nat) (i e : Nat) (h : i < e) (he : e ≤ S.length) :
    ((S.drop i).take (e - i)).dropLast = (S.drop i).take (e - 1 - i) := by
  rw [List.dropLast_eq_take, window_length S i e he, List.take_take]
  congr 1; omega

/-- the elements not yet yielded -/
def window (S : List Nat) (it : WTIter) : List Nat := (S.drop it.i).take (it.e - it.i)

/-- front index ≤ end index ≤ length -/
def Inv (S : List Nat) (it : WTIter) : Prop := it.i ≤ it.e ∧ it.e ≤ S.length

/-- a single-call function on states `σ` implements a specification step on the remaining elements
    `win s`, preserving the invariant -/
def RefinesG {σ : Type} (inv : σ → Prop) (win : σ → List Nat) (one : σ → σ × Out)
    (sp : List Nat → List Nat × Out) : Prop :=
  ∀ s, inv s → inv (one s).1 ∧ sp (win s) = (win (one s).1, (one s).2)

/-- the instance for `WTIterator` -/
abbrev Refines (S : List Nat) (one : WTIter → WTIter × Out) (sp : List Nat → List Nat × Out) : Prop :=
  RefinesG (Inv S) (window S) one sp

section
variable (getU : Nat → M Nat) (S : List Nat) (hget : ∀ i, i < S.length → getU i = .ok (S.getD i 0))
include hget

theorem next_refines : Refines S (stepNext getU) (fun rem => specStep rem .next) := by
  intro it ⟨hie, he⟩
  by_cases h : it.i < it.e
  · have hi : it.i < S.length := by omega
    simp only [stepNext, h, if_true, hget it.i hi, Out_ofOpt_ok_some, window, Inv]
    refine ⟨⟨by omega, he⟩, ?_⟩
    rw [window_cons S it.i it.e h he]; rfl
  · have h0 : it.e - it.i = 0 := by omega
    simp only [stepNext, h, if_false, window, h0, List.take_zero, Inv]
    exact ⟨⟨hie, he⟩, rfl⟩

theorem back_refines : Refines S (stepBack getU) (fun rem => specStep rem .nextBack) := by
  intro it ⟨hie, he⟩
  by_cases h : it.i < it.e
  · have hi : it.e - 1 < S.length := by omega
    simp only [stepBack, h, if_true, hget (it.e - 1) hi, Out_ofOpt_ok_some, window, Inv]
    refine ⟨⟨by omega, by omega⟩, ?_⟩
    simp only [specStep, window_getLast S it.i it.e h he, window_dropLast S it.i it.e h he]
  · have h0 : it.e - it.i = 0 := by omega
    simp only [stepBack, h, if_false, window, h0, List.take_zero, Inv]
    exact ⟨⟨hie, he⟩, rfl⟩

end

/-- a refined front step never answers with a fault -/
theorem next_out (rem : List Nat) : ∀ f, (specStep rem .next).2 ≠ Out.fault f := by
  intro f; cases rem <;> simp [specStep]

theorem back_out (rem : List Nat) : ∀ f, (specStep rem .nextBack).2 ≠ Out.fault f := by
  intro f; simp only [specStep]; cases rem.getLast? <;> simp

/-- `nth` through a refined `next`: the provided method yields element `k` of what remains and
    leaves everything after it -/
theorem nth_refines {σ : Type} (inv : σ → Prop) (win : σ → List Nat) (one : σ → σ × Out)
    (h1 : RefinesG inv win one (fun rem => specStep rem .next)) (k : Nat) :
    RefinesG inv win (stepNth one k) (fun rem => specStep rem (.nth k)) := by
  induction k with
  | zero =>
    intro it hi
    obtain ⟨hinv, hs⟩ := h1 it hi
    refine ⟨hinv, ?_⟩
    simp only [stepNth]
    rw [← hs]
    cases win it <;> simp [specStep]
  | succ k ih =>
    intro it hi
    obtain ⟨hinv, hs⟩ := h1 it hi
    cases hw : win it with
    | nil =>
      -- exhausted: `next` answers `None`, the provided method stops there
      rw [hw] at hs
      have ho : (one it).2 = Out.none := by
        have := congrArg Prod.snd hs; simpa [specStep] using this.symm
      have hw' : win (one it).1 = [] := by
        have := congrArg Prod.fst hs; simpa [specStep] using this.symm
      have hstep : stepNth one (k + 1) it = ((one it).1, Out.none) := by
        rw [stepNth]; simp only [ho]
      rw [hstep]
      exact ⟨hinv, by simp [specStep, hw']⟩
    | cons x xs =>
      rw [hw] at hs
      have ho : (one it).2 = Out.some x := by
        have := congrArg Prod.snd hs; simpa [specStep] using this.symm
      have hw' : win (one it).1 = xs := by
        have := congrArg Prod.fst hs; simpa [specStep] using this.symm
      obtain ⟨hinv', hs'⟩ := ih (one it).1 hinv
      have hstep : stepNth one (k + 1) it = stepNth one k (one it).1 := by
        rw [stepNth]; simp only [ho]
      rw [hstep]
      refine ⟨hinv', ?_⟩
      rw [← hs', hw']
      simp [specStep]

theorem dropLast_take (l : List Nat) (k : Nat) :
    l.dropLast.take (l.dropLast.length - (k + 1)) = l.take (l.length - (k + 1 + 1)) := by
  rw [List.dropLast_eq_take, List.take_take, List.length_take]
  congr 1; omega

theorem reverse_dropLast_getElem? (l : List Nat) (k : Nat) :
    l.dropLast.reverse[k]? = l.reverse[k + 1]? := by
  rcases List.eq_nil_or_concat l with rfl | ⟨ys, y, rfl⟩
  · simp
  · simp

theorem nthBack_refines {σ : Type} (inv : σ → Prop) (win : σ → List Nat) (one : σ → σ × Out)
    (h1 : RefinesG inv win one (fun rem => specStep rem .nextBack)) (k : Nat) :
    RefinesG inv win (stepNth one k) (fun rem => specStep rem (.nthBack k)) := by
  induction k with
  | zero =>
    intro it hi
    obtain ⟨hinv, hs⟩ := h1 it hi
    refine ⟨hinv, ?_⟩
    simp only [stepNth]
    rw [← hs]
    simp only [specStep]
    rcases List.eq_nil_or_concat (win it) with h | ⟨ys, y, h⟩
    · simp [h]
    · simp [h]
  | succ k ih =>
    intro it hi
    obtain ⟨hinv, hs⟩ := h1 it hi
    rcases List.eq_nil_or_concat (win it) with hw | ⟨ys, y, hw⟩
    · rw [hw] at hs
      have ho : (one it).2 = Out.none := by
        have := congrArg Prod.snd hs; simpa [specStep] using this.symm
      have hw' : win (one it).1 = [] := by
        have := congrArg Prod.fst hs; simpa [specStep] using this.symm
      have hstep : stepNth one (k + 1) it = ((one it).1, Out.none) := by
        rw [stepNth]; simp only [ho]
      rw [hstep, hw]
      exact ⟨hinv, by simp [specStep, hw']⟩
    · rw [hw] at hs
      have ho : (one it).2 = Out.some y := by
        have := congrArg Prod.snd hs; simpa [specStep] using this.symm
      have hw' : win (one it).1 = ys := by
        have := congrArg Prod.fst hs; simpa [specStep] using this.symm
      obtain ⟨hinv', hs'⟩ := ih (one it).1 hinv
      have hstep : stepNth one (k + 1) it = stepNth one k (one it).1 := by
        rw [stepNth]; simp only [ho]
      rw [hstep]
      refine ⟨hinv', ?_⟩
      rw [← hs', hw', hw]
      have h1' : (ys ++ [y]).dropLast = ys := by simp
      have := dropLast_take (ys ++ [y]) k
      have h2 := reverse_dropLast_getElem? (ys ++ [y]) k
      rw [h1'] at this h2
      simp only [specStep, this, h2, List.concat_eq_append]

/-- draining through a refined `next` with enough fuel: all remaining elements are consumed, counted,
    and the last one is remembered -/
theorem drain_spec {σ : Type} (inv : σ → Prop) (win : σ → List Nat) (one : σ → σ × Out)
    (h1 : RefinesG inv win one (fun rem => specStep rem .next)) :
    ∀ fuel it c l, inv it → (win it).length < fuel →
      let r := drain one fuel it c l
      inv r.1 ∧ win r.1 = [] ∧ r.2.1 = c + (win it).length ∧
        r.2.2 = (match (win it).getLast? with | some x => Out.some x | none => l) := by
  intro fuel
  induction fuel with
  | zero => intro it c l _ h; omega
  | succ fuel ih =>
    intro it c l hi hlen
    obtain ⟨hinv, hs⟩ := h1 it hi
    cases hw : win it with
    | nil =>
      rw [hw] at hs
      have ho : (one it).2 = Out.none := by
        have := congrArg Prod.snd hs; simpa [specStep] using this.symm
      have hw' : win (one it).1 = [] := by
        have := congrArg Prod.fst hs; simpa [specStep] using this.symm
      simp only [drain, ho]
      exact ⟨hinv, hw', by simp, by simp⟩
    | cons x xs =>
      rw [hw] at hs
      have ho : (one it).2 = Out.some x := by
        have := congrArg Prod.snd hs; simpa [specStep] using this.symm
      have hw' : win (one it).1 = xs := by
        have := congrArg Prod.fst hs; simpa [specStep] using this.symm
      have hlen' : (win (one it).1).length < fuel := by
        rw [hw']; rw [hw] at hlen; simp at hlen; omega
      have := ih (one it).1 (c + 1) (Out.some x) hinv hlen'
      simp only [drain, ho]
      obtain ⟨a, b, c', d⟩ := this
      refine ⟨a, b, ?_, ?_⟩
      · rw [c', hw']; simp; omega
      · rw [d, hw']
        cases xs with
        | nil => simp
        | cons y ys => simp [List.getLast?_cons_cons]; rfl

section
variable (getU : Nat → M Nat) (S : List Nat) (hget : ∀ i, i < S.length → getU i = .ok (S.getD i 0))
include hget

/-- every single call refines the specification step -/
theorem step_refines (op : IterOp) : Refines S (fun it => step getU it op) (fun rem => specStep rem op) := by
  cases op with
  | next => exact next_refines getU S hget
  | nextBack => exact back_refines getU S hget
  | len =>
    intro it hi
    have hs : sub it.e it.i = .ok (it.e - it.i) := by simp [sub, hi.1]
    refine ⟨hi, ?_⟩
    simp only [step, hs, specStep, window, window_length S it.i it.e hi.2]
    rfl
  | nth k => exact nth_refines _ _ _ (next_refines getU S hget) k
  | nthBack k => exact nthBack_refines _ _ _ (back_refines getU S hget) k
  | count =>
    intro it hi
    have hl : (window S it).length < it.e - it.i + 1 := by
      simp only [window, window_length S it.i it.e hi.2]; omega
    obtain ⟨a, b, c, d⟩ := drain_spec _ _ _ (next_refines getU S hget) (it.e - it.i + 1) it 0 .none hi hl
    refine ⟨a, ?_⟩
    simp only [step, specStep, b, c, d]
    cases (window S it).getLast? <;> simp
  | last =>
    intro it hi
    have hl : (window S it).length < it.e - it.i + 1 := by
      simp only [window, window_length S it.i it.e hi.2]; omega
    obtain ⟨a, b, _, d⟩ := drain_spec _ _ _ (next_refines getU S hget) (it.e - it.i + 1) it 0 .none hi hl
    refine ⟨a, ?_⟩
    simp only [step, specStep, b, d]
    trivial

theorem run_eq_spec (ops : List IterOp) :
    ∀ it : WTIter, it.i ≤ it.e → it.e ≤ S.length →
      run getU it ops = specRun ((S.drop it.i).take (it.e - it.i)) ops := by
  induction ops with
  | nil => intro it _ _; rfl
  | cons op ops ih =>
    intro it hie he
    obtain ⟨hinv, hs⟩ := step_refines getU S hget op it ⟨hie, he⟩
    simp only [run, specRun]
    have hs' : specStep ((S.drop it.i).take (it.e - it.i)) op = (window S (step getU it op).1, (step getU it op).2) := hs
    rw [hs']
    simp only
    rw [ih (step getU it op).1 hinv.1 hinv.2]
    rfl

end

/-! ### one-ended iterators -/

section
variable (getO : Nat → M (Option Nat)) (S : List Nat) (hget : ∀ i, getO i = .ok S[i]?)
include hget

theorem fwdNext_refines :
    RefinesG (fun _ : Nat => True) (fun i => S.drop i) (fwdNext getO) (fun rem => specStep rem .next) := by
  intro i _
  refine ⟨trivial, ?_⟩
  simp only [fwdNext, hget i]
  by_cases h : i < S.length
  · rw [List.drop_eq_getElem_cons h]
    simp [specStep, Out.ofOpt, List.getElem?_eq_getElem h]
  · have h1 : S.drop i = [] := List.drop_eq_nil_of_le (by omega)
    have h2 : S.drop (i + 1) = [] := List.drop_eq_nil_of_le (by omega)
    have h3 : S[i]? = none := List.getElem?_eq_none (by omega)
    simp [specStep, Out.ofOpt, h1, h2, h3]

theorem fwdStep_refines (op : FwdOp) :
    RefinesG (fun _ : Nat => True) (fun i => S.drop i) (fun i => fwdStep getO S.length i op)
      (fun rem => specStep rem op.toIterOp) := by
  cases op with
  | next => exact fwdNext_refines getO S hget
  | nth k => exact nth_refines _ _ _ (fwdNext_refines getO S hget) k
  | count =>
    intro i hi
    have hl : (S.drop i).length < S.length - i + 1 := by simp [List.length_drop]
    obtain ⟨a, b, c, d⟩ := drain_spec _ _ _ (fwdNext_refines getO S hget) (S.length - i + 1) i 0 .none hi hl
    refine ⟨a, ?_⟩
    simp only [fwdStep, FwdOp.toIterOp, specStep, b, c, d]
    cases (S.drop i).getLast? <;> simp
  | last =>
    intro i hi
    have hl : (S.drop i).length < S.length - i + 1 := by simp [List.length_drop]
    obtain ⟨a, b, _, d⟩ := drain_spec _ _ _ (fwdNext_refines getO S hget) (S.length - i + 1) i 0 .none hi hl
    refine ⟨a, ?_⟩
    simp only [fwdStep, FwdOp.toIterOp, specStep, b, d]
    trivial

/-- every history of `next` / `nth` / `count` / `last` on an index-driven iterator whose indexed read
    is correct yields what the deque specification yields on the elements from the start index on -/
theorem fwdRun_eq_spec (ops : List FwdOp) :
    ∀ i, fwdRun getO S.length i ops = specRun (S.drop i) (ops.map FwdOp.toIterOp) := by
  induction ops with
  | nil => intro i; rfl
  | cons op ops ih =>
    intro i
    obtain ⟨_, hs⟩ := fwdStep_refines getO S hget op i trivial
    simp only [fwdRun, List.map_cons, specRun]
    have hs' : specStep (S.drop i) op.toIterOp =
        (S.drop (fwdStep getO S.length i op).1, (fwdStep getO S.length i op).2) := hs
    rw [hs']
    simp only
    rw [ih]

end

end Qwt.Iter
