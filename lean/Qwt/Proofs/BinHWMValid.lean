import Qwt.Proofs.CraftDefs
import Qwt.Proofs.BinHWMSim

/-!
From the validity predicate `WMValid 2 codes occ` of the code table (C02, what
`craftWmCodes` is proved to deliver) to the condition `HOK` used by the list-level Huffman
matrix: prefix-freeness on bits and "continuing elements precede ending ones" at every level
(the latter from the reverse-lexicographic matrix order, by sortedness of every level under
the bit-reversed prefix).  Core Lean only.
-/
set_option linter.unusedSimpArgs false

namespace Qwt.BinWM
open Qwt
open Qwt.Huff (PrefixCode)
open Qwt.Props.C02 (WMValid digits revLex bitsOf)

theorem bitsOf_two : bitsOf 2 = 1 := rfl

theorem digits_length (cd : PrefixCode) : (digits 2 cd).length = cd.len := by
  simp [digits, bitsOf_two]

theorem bitAt_toNat (L k x : Nat) : (bitAt L k x).toNat = x / 2 ^ (L - 1 - k) % 2 := by
  rw [bitAt, Nat.shiftRight_eq_div_pow, Nat.sub_sub, Nat.add_comm 1 k]
  have : x / 2 ^ (L - (k + 1)) % 2 = 0 ∨ x / 2 ^ (L - (k + 1)) % 2 = 1 := by omega
  rcases this with h | h <;> simp [h]

theorem digits_get (codes : Array PrefixCode) (x t : Nat) :
    (digits 2 codes[x]!)[t]? = if t < clen codes x then some (cbit codes t x).toNat else none := by
  unfold digits
  rw [List.getElem?_map, bitsOf_two, Nat.div_one]
  by_cases ht : t < clen codes x
  · have ht' : t < codes[x]!.len := ht
    rw [List.getElem?_range ht', if_pos ht, cbit, bitAt_toNat]
    rfl
  · have ht' : codes[x]!.len ≤ t := Nat.le_of_not_lt ht
    rw [if_neg ht, List.getElem?_eq_none (by simpa using ht')]
    rfl

/-- the bit-reversed value of the first `k` bits of the code of `x` -/
def rkey (codes : Array PrefixCode) : Nat → Nat → Nat
  | 0, _ => 0
  | k + 1, x => rkey codes k x + 2 ^ k * (cbit codes k x).toNat

theorem rkey_lt (codes : Array PrefixCode) (k x : Nat) : rkey codes k x < 2 ^ k := by
  induction k with
  | zero => simp [rkey]
  | succ k ih =>
    rw [rkey, Nat.pow_succ]
    cases cbit codes k x <;> simp <;> omega

theorem revLex_append (l : List Nat) (d : Nat) :
    revLex 2 (l ++ [d]) = revLex 2 l + 2 ^ l.length * d := by
  induction l with
  | nil => simp [revLex]
  | cons a as ih =>
    simp only [List.cons_append, revLex, ih, List.length_cons, Nat.pow_succ]
    rw [Nat.mul_add, Nat.add_assoc, Nat.mul_comm (2 ^ as.length) 2, Nat.mul_assoc]

theorem revLex_take (codes : Array PrefixCode) (x k : Nat) (hk : k ≤ clen codes x) :
    revLex 2 ((digits 2 codes[x]!).take k) = rkey codes k x := by
  induction k with
  | zero => simp [revLex, rkey]
  | succ k ih =>
    rw [List.take_add_one, digits_get, if_pos (by omega)]
    simp only [Option.toList_some]
    rw [revLex_append, ih (by omega), rkey, List.length_take, digits_length]
    have : min k codes[x]!.len = k := Nat.min_eq_left (by unfold clen at hk; omega)
    rw [this]

theorem part_sorted (codes : Array PrefixCode) (k : Nat) (l : List Nat)
    (hl : l.Pairwise (fun a b => rkey codes k a ≤ rkey codes k b)) :
    (part (cbit codes k) l).Pairwise (fun a b => rkey codes (k + 1) a ≤ rkey codes (k + 1) b) := by
  unfold part
  rw [List.pairwise_append]
  refine ⟨?_, ?_, ?_⟩
  · apply (hl.filter _).imp_of_mem
    intro a b ha hb hab
    have ha' := (List.mem_filter.mp ha).2
    have hb' := (List.mem_filter.mp hb).2
    simp only [Bool.not_eq_true'] at ha' hb'
    simp [rkey, ha', hb', hab]
  · apply (hl.filter _).imp_of_mem
    intro a b ha hb hab
    have ha' := (List.mem_filter.mp ha).2
    have hb' := (List.mem_filter.mp hb).2
    simp [rkey, ha', hb', hab]
  · intro a ha b hb
    have ha' := (List.mem_filter.mp ha).2
    have hb' := (List.mem_filter.mp hb).2
    simp only [Bool.not_eq_true'] at ha'
    have := rkey_lt codes k a
    simp [rkey, ha', hb']
    omega

theorem lvlH_sorted (codes : Array PrefixCode) (S : List Nat) (k : Nat) :
    (lvlH (cbit codes) (clen codes) k S).Pairwise (fun a b => rkey codes k a ≤ rkey codes k b) := by
  induction k with
  | zero => exact List.pairwise_of_forall (fun _ _ => Nat.le_refl _)
  | succ k ih => rw [lvlH]; exact (part_sorted codes k _ ih).filter _

theorem lvlH_live (β : Nat → Nat → Bool) (len : Nat → Nat) (S : List Nat)
    (hpos : ∀ x ∈ S, 0 < len x) (k : Nat) : ∀ x ∈ lvlH β len k S, k < len x := by
  cases k with
  | zero => exact hpos
  | succ k =>
    intro x hx
    rw [lvlH, List.mem_filter] at hx
    simpa using hx.2

/-- `WMValid` gives the validity condition of the list-level Huffman matrix -/
theorem hok_of_valid {codes : Array PrefixCode} {occ S : List Nat} (hv : WMValid 2 codes occ)
    (hocc : ∀ s, s ∈ occ ↔ s ∈ S) : HOK (cbit codes) (clen codes) S := by
  have hpos : ∀ x ∈ S, 0 < clen codes x := by
    intro x hx
    have := (hv.occ_len x ((hocc x).mpr hx)).2
    unfold clen; omega
  refine ⟨hpos, ?_, ?_⟩
  · intro x hx y hy hle hbits
    apply Classical.byContradiction
    intro hne
    apply hv.prefix_free x ((hocc x).mpr hx) y ((hocc y).mpr hy) hne
    have : digits 2 codes[x]! = (digits 2 codes[y]!).take (clen codes x) := by
      apply List.ext_getElem?
      intro i
      rw [List.getElem?_take, digits_get, digits_get]
      by_cases hi : i < clen codes x
      · rw [if_pos hi, if_pos hi, if_pos (by omega), hbits i hi]
      · rw [if_neg hi, if_neg hi]
    rw [this]
    exact List.take_prefix _ _
  · intro k
    have hsorted := part_sorted codes k _ (lvlH_sorted codes S k)
    apply hsorted.imp_of_mem
    intro a b ha hb hab hbl
    apply Classical.byContradiction
    intro hal
    rw [mem_part] at ha hb
    have haS := lvlH_subset _ _ _ _ a ha
    have hbS := lvlH_subset _ _ _ _ b hb
    have halive := lvlH_live _ _ S hpos k a ha
    have hlen_a : clen codes a = k + 1 := by omega
    have := hv.matrix_order b ((hocc b).mpr hbS) a ((hocc a).mpr haS) k
      (by rw [digits_length]; exact hlen_a) (by rw [digits_length]; exact hbl)
    rw [revLex_take codes b (k + 1) (by omega)] at this
    have e : digits 2 codes[a]! = (digits 2 codes[a]!).take (k + 1) := by
      rw [List.take_of_length_le]; rw [digits_length]; unfold clen at hlen_a; omega
    rw [e, revLex_take codes a (k + 1) (by omega)] at this
    omega

end Qwt.BinWM
