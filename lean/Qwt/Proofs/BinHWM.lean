import Qwt.Proofs.BinWMSelect

/-!
Pure list-level Huffman-shaped binary wavelet matrix (property C03, `compressed = true`):
an element with a code of `len x` bits takes part in levels `0 … len x − 1` only.  Level `k`
stores the bits `β k` of the *live* elements (`k < len x`); the next level is the stable
partition of the live elements with the ended ones removed.  The validity condition `HOK`
(what `WMValid` gives): every element has a non-empty code, the table is prefix-free, and in
every partitioned level the continuing elements precede the ending ones.  Core Lean only.
-/
set_option linter.unusedSimpArgs false

namespace Qwt.BinWM
open Qwt

variable {α : Type}

/-- the live elements of level `k` -/
def lvlH (β : Nat → α → Bool) (len : α → Nat) : Nat → List α → List α
  | 0, S => S
  | k + 1, S => (part (β k) (lvlH β len k S)).filter (fun x => decide (k + 1 < len x))

/-- the bit list of level `k` -/
def bitsH (β : Nat → α → Bool) (len : α → Nat) (k : Nat) (S : List α) : List Bool :=
  (lvlH β len k S).map (β k)

/-- validity of the code assignment for the sequence `S` -/
structure HOK (β : Nat → α → Bool) (len : α → Nat) (S : List α) : Prop where
  pos : ∀ x ∈ S, 0 < len x
  /-- prefix-free -/
  pf : ∀ x ∈ S, ∀ y ∈ S, len x ≤ len y → (∀ j, j < len x → β j x = β j y) → x = y
  /-- matrix order: after the partition of level `k` the continuing elements come first -/
  pre : ∀ k, (part (β k) (lvlH β len k S)).Pairwise
    (fun a b => k + 1 < len b → k + 1 < len a)

/-- `x` is live at level `k` and agrees with `c` on the bits of the levels before -/
def agP (β : Nat → α → Bool) (len : α → Nat) (c : α) (k : Nat) (x : α) : Bool :=
  agree β c k x && decide (k < len x)

/-- `x` has at least `k` bits and agrees with `c` on them -/
def agR (β : Nat → α → Bool) (len : α → Nat) (c : α) (k : Nat) (x : α) : Bool :=
  agree β c k x && decide (k ≤ len x)

/-- start of the block of `c` at level `k` -/
def blkStartH (β : Nat → α → Bool) (len : α → Nat) (c : α) (S : List α) : Nat → Nat
  | 0 => 0
  | k + 1 => mapPos (β k c) (bitsH β len k S) (blkStartH β len c S k)

theorem mem_part {p : α → Bool} {l : List α} {x : α} : x ∈ part p l ↔ x ∈ l := by
  unfold part
  simp only [List.mem_append, List.mem_filter]
  cases p x <;> simp

theorem lvlH_subset (β : Nat → α → Bool) (len : α → Nat) (S : List α) (k : Nat) :
    ∀ x ∈ lvlH β len k S, x ∈ S := by
  induction k with
  | zero => intro x hx; exact hx
  | succ k ih =>
    intro x hx
    rw [lvlH, List.mem_filter, mem_part] at hx
    exact ih x hx.1

theorem agP_and_bit (β : Nat → α → Bool) (len : α → Nat) (c : α) (k : Nat) (x : α) :
    (agP β len c k x && (β k x == β k c)) = agR β len c (k + 1) x := by
  unfold agP agR
  rw [agree_succ]
  have : decide (k < len x) = decide (k + 1 ≤ len x) := rfl
  rw [this]
  cases agree β c k x <;> cases (β k x == β k c) <;> cases decide (k + 1 ≤ len x) <;> rfl

theorem agR_and_live (β : Nat → α → Bool) (len : α → Nat) (c : α) (k : Nat) (x : α) :
    (agR β len c k x && decide (k < len x)) = agP β len c k x := by
  unfold agP agR
  by_cases h : k < len x
  · have h' : k ≤ len x := by omega
    simp [h, h']
  · simp [h]

/-- under prefix-freeness, below the length of `c`, having `k` agreeing bits means being live -/
theorem agR_eq_agP {β : Nat → α → Bool} {len : α → Nat} {S : List α} (h : HOK β len S)
    {c : α} (hc : c ∈ S) {k : Nat} (hk : k < len c) {x : α} (hx : x ∈ S) :
    agR β len c k x = agP β len c k x := by
  unfold agR agP
  cases hag : agree β c k x
  · rfl
  · by_cases hl : k < len x
    · have : k ≤ len x := by omega
      simp [hl, this]
    · by_cases hl2 : k ≤ len x
      · exfalso
        have hlen : len x = k := by omega
        have := h.pf x hx c hc (by omega) (fun j hj => agree_bit β c x (by omega) hag)
        subst this; omega
      · simp [hl, hl2]

/-- at the full length of `c`, agreeing means being (a copy of) `c` -/
theorem agR_full {β : Nat → α → Bool} {len : α → Nat} {S : List α} (h : HOK β len S)
    {c : α} (hc : c ∈ S) [BEq α] [LawfulBEq α] {x : α} (hx : x ∈ S) :
    agR β len c (len c) x = (x == c) := by
  by_cases hxc : x = c
  · subst hxc; simp [agR, agree_self]
  · have : (x == c) = false := by simpa using hxc
    rw [this]
    unfold agR
    cases hag : agree β c (len c) x
    · rfl
    · by_cases hl : len c ≤ len x
      · exfalso
        apply hxc
        exact (h.pf c hc x hx hl (fun j hj => (agree_bit β c x hj hag).symm)).symm
      · simp [hl]

/-- the block invariant: for `k < len c` the live elements agreeing with `c` on `k` bits form
    a contiguous block of level `k`, in original order, starting at `blkStartH k` -/
theorem blkH {β : Nat → α → Bool} {len : α → Nat} {S : List α} (h : HOK β len S)
    {c : α} (hc : c ∈ S) (k : Nat) (hk : k < len c) :
    ∃ A C, lvlH β len k S = A ++ S.filter (agP β len c k) ++ C ∧
      A.length = blkStartH β len c S k := by
  induction k with
  | zero =>
    refine ⟨[], [], ?_, rfl⟩
    simp only [lvlH, List.nil_append, List.append_nil]
    symm
    apply List.filter_eq_self.mpr
    intro x hx
    simp [agP, agree_zero, h.pos x hx]
  | succ k ih =>
    obtain ⟨A, C, h1, h2⟩ := ih (by omega)
    obtain ⟨A', C', h3, h4⟩ := part_block (β k) (β k c) A (S.filter (agP β len c k)) C
    have hpre := h.pre k
    rw [h1, h3, List.append_assoc, List.pairwise_append] at hpre
    -- `c` itself is in the middle part and continues
    have hcB : c ∈ (S.filter (agP β len c k)).filter (fun x => β k x == β k c) := by
      simp only [List.mem_filter]
      refine ⟨⟨hc, ?_⟩, by simp⟩
      simp [agP, agree_self]; omega
    have hA' : A'.filter (fun x => decide (k + 1 < len x)) = A' := by
      apply List.filter_eq_self.mpr
      intro a ha
      have := hpre.2.2 a ha c (by simp only [List.mem_append]; exact Or.inl hcB) hk
      simpa using this
    refine ⟨A', C'.filter (fun x => decide (k + 1 < len x)), ?_, ?_⟩
    · rw [lvlH, h1, h3, List.filter_append, List.filter_append, hA']
      congr 2
      rw [List.filter_filter, List.filter_filter]
      apply List.filter_congr
      intro x _
      rw [← agR_and_live (k := k + 1), ← agP_and_bit]
      cases decide (k + 1 < len x) <;> cases (β k x == β k c) <;> cases agP β len c k x <;> rfl
    · rw [h4, blkStartH, bitsH, h1, h2]

/-- numbers of elements of `S[0..i)` in the block -/
def cntP (β : Nat → α → Bool) (len : α → Nat) (c : α) (S : List α) (k i : Nat) : Nat :=
  (S.take i).countP (agP β len c k)

def cntR (β : Nat → α → Bool) (len : α → Nat) (c : α) (S : List α) (k i : Nat) : Nat :=
  (S.take i).countP (agR β len c k)

theorem cntP_le (β : Nat → α → Bool) (len : α → Nat) (c : α) (S : List α) (k i : Nat) :
    cntP β len c S k i ≤ (S.filter (agP β len c k)).length := by
  unfold cntP
  rw [← List.countP_eq_length_filter]
  exact (List.take_sublist i S).countP_le

theorem cntR_eq_cntP {β : Nat → α → Bool} {len : α → Nat} {S : List α} (h : HOK β len S)
    {c : α} (hc : c ∈ S) {k : Nat} (hk : k < len c) (i : Nat) :
    cntR β len c S k i = cntP β len c S k i := by
  unfold cntR cntP
  apply List.countP_congr
  intro x hx
  rw [agR_eq_agP h hc hk (List.mem_of_mem_take hx)]

theorem cntR_zero (β : Nat → α → Bool) (len : α → Nat) (c : α) (S : List α) (i : Nat)
    (hi : i ≤ S.length) : cntR β len c S 0 i = i := by
  have : agR β len c 0 = fun _ => true := by funext x; simp [agR, agree_zero]
  simp [cntR, this, hi]

theorem cntR_full {β : Nat → α → Bool} {len : α → Nat} {S : List α} (h : HOK β len S)
    {c : α} (hc : c ∈ S) [BEq α] [LawfulBEq α] (i : Nat) :
    cntR β len c S (len c) i = Spec.rank c i S := by
  unfold cntR Spec.rank
  exact countP_eq_count _ _ _ (fun x hx => agR_full h hc (List.mem_of_mem_take hx))

/-- the tracked positions stay inside the level -/
theorem blkStartH_cnt_le {β : Nat → α → Bool} {len : α → Nat} {S : List α} (h : HOK β len S)
    {c : α} (hc : c ∈ S) (k : Nat) (hk : k < len c) (i : Nat) :
    blkStartH β len c S k + cntP β len c S k i ≤ (bitsH β len k S).length := by
  obtain ⟨A, C, h1, h2⟩ := blkH h hc k hk
  have := congrArg List.length h1
  simp only [List.length_append] at this
  have := cntP_le β len c S k i
  rw [bitsH, List.length_map]
  omega

/-- the rank walk on a level `k < len c` -/
theorem walk_stepH {β : Nat → α → Bool} {len : α → Nat} {S : List α} (h : HOK β len S)
    {c : α} (hc : c ∈ S) (k : Nat) (hk : k < len c) (i : Nat) :
    mapPos (β k c) (bitsH β len k S) (blkStartH β len c S k + cntP β len c S k i) =
      blkStartH β len c S (k + 1) + cntR β len c S (k + 1) i := by
  obtain ⟨A, C, h1, h2⟩ := blkH h hc k hk
  rw [blkStartH, bitsH, h1, ← h2, mapPos_block _ _ _ _ _ _ (cntP_le β len c S k i)]
  congr 1
  unfold cntP cntR
  rw [filter_take, List.countP_filter]
  congr 1; funext x
  rw [Bool.and_comm, agP_and_bit]

end Qwt.BinWM
