import Qwt.Proofs.RSQBits

/-! `QV.Holds q s`: the word-level meaning of a `QVector`, and what `lineGet`, `normalize`,
`lineRank`, `getUnchecked`, `get` compute under it. -/
namespace Qwt.QV
open Qwt

/-- `q` stores the quaternary sequence `s`: four `u128` words per 256 symbols, symbol `i`
    at bit `i % 128` of word `4·(i/256) + (i%256)/128` (high bit) and of that word `+ 2`
    (low bit); padding positions (`s.getD _ 0 = 0`) are zero. -/
structure Holds (q : QVector) (s : List Nat) : Prop where
  size_eq : q.data.size = 4 * ((s.length + 255) / 256)
  pos_eq : q.position = 2 * s.length
  word_lt : ∀ w, w < q.data.size → q.data.getD w 0 < 2 ^ 128
  high : ∀ l p, l < (s.length + 255) / 256 → p < 256 →
    (q.data.getD (4 * l + p / 128) 0).testBit (p % 128) = (s.getD (256 * l + p) 0).testBit 1
  low : ∀ l p, l < (s.length + 255) / 256 → p < 256 →
    (q.data.getD (4 * l + p / 128 + 2) 0).testBit (p % 128) = (s.getD (256 * l + p) 0).testBit 0

end Qwt.QV

namespace Qwt.RSQP
open Qwt Qwt.QV

theorem uidx_ok {a : Array Nat} {i : Nat} (h : i < a.size) : uidx a i = .ok (a.getD i 0) := by
  unfold uidx; rw [dif_pos h]; simp [Array.getD, h]

theorem idx_ok {a : Array Nat} {i : Nat} (h : i < a.size) : idx a i = .ok (a.getD i 0) := by
  unfold idx; rw [dif_pos h]; simp [Array.getD, h]

theorem dbgAssert_true (dbg : Bool) {c : Bool} (h : c = true) : dbgAssert dbg c = .ok () := by
  subst h; unfold dbgAssert; simp

theorem mask128_eq : mask128 = 2 ^ 128 - 1 := by decide
theorem two128_eq : two128 = 2 ^ 128 := by decide
theorem two64_eq : two64 = 2 ^ 64 := by decide

section
variable {q : QVector} {s : List Nat}

theorem holds_len (h : Holds q s) : QV.len q = s.length := by
  unfold QV.len; rw [h.pos_eq, Nat.shiftRight_eq_div_pow]; omega

theorem holds_nLines (h : Holds q s) : nLines q = (s.length + 255) / 256 := by
  unfold nLines; rw [h.size_eq]; omega

theorem sym_of_bits {x : Nat} (hx : x < 4) :
    ((x.testBit 1).toNat <<< 1) ||| (x.testBit 0).toNat = x := by
  have : x = 0 ∨ x = 1 ∨ x = 2 ∨ x = 3 := by omega
  rcases this with rfl | rfl | rfl | rfl <;> decide

theorem shr_and_one (w k : Nat) : (w >>> k) &&& 1 = (w.testBit k).toNat := by
  rw [Nat.and_one_is_mod, Nat.toNat_testBit, Nat.shiftRight_eq_div_pow]

theorem lineGet_ok (h : Holds q s) (hs : ∀ x ∈ s, x < 4) {l p : Nat}
    (hl : l < (s.length + 255) / 256) (hp : p < 256) :
    lineGet q.data l p = .ok (s.getD (256 * l + p) 0) := by
  unfold lineGet
  have e7 : p >>> 7 = p / 128 := by rw [Nat.shiftRight_eq_div_pow]
  have e127 : p &&& 127 = p % 128 := Nat.and_two_pow_sub_one_eq_mod p 7
  have hsz := h.size_eq
  simp only [e7, e127]
  rw [uidx_ok (by omega), uidx_ok (by omega)]
  simp only [bind, Except.bind, pure, Except.pure]
  rw [shr_and_one, shr_and_one, show 4 * l + (p / 128 + 2) = 4 * l + p / 128 + 2 by omega,
    h.high l p hl hp, h.low l p hl hp]
  congr 1
  apply sym_of_bits
  rcases Nat.lt_or_ge (256 * l + p) s.length with h1 | h1
  · rw [List.getD_eq_getElem?_getD, List.getElem?_eq_getElem h1]; exact hs _ (List.getElem_mem h1)
  · rw [List.getD_eq_getElem?_getD, List.getElem?_eq_none h1]; decide

theorem getUnchecked_ok (h : Holds q s) (hs : ∀ x ∈ s, x < 4) (dbg : Bool) {i : Nat} (hi : i < s.length) :
    QV.getUnchecked dbg q i = .ok (s.getD i 0) := by
  unfold QV.getUnchecked
  rw [dbgAssert_true dbg (by rw [h.pos_eq]; simp; omega)]
  simp only [bind, Except.bind]
  have e8 : i >>> 8 = i / 256 := by rw [Nat.shiftRight_eq_div_pow]
  have e255 : i &&& 255 = i % 256 := Nat.and_two_pow_sub_one_eq_mod i 8
  rw [e8, e255, holds_nLines h, if_neg (by omega)]
  have := lineGet_ok h hs (l := i / 256) (p := i % 256) (by omega) (by omega)
  rw [show 256 * (i / 256) + i % 256 = i by omega] at this
  exact this

theorem get_ok (h : Holds q s) (hs : ∀ x ∈ s, x < 4) (dbg : Bool) (i : Nat) :
    QV.get dbg q i = .ok s[i]? := by
  unfold QV.get
  have : q.position >>> 1 = s.length := holds_len h
  rw [this]
  by_cases hi : i ≥ s.length
  · rw [if_pos hi, List.getElem?_eq_none hi]; rfl
  · rw [if_neg hi, getUnchecked_ok h hs dbg (by omega)]
    simp only [bind, Except.bind, pure, Except.pure]
    rw [List.getD_eq_getElem?_getD, List.getElem?_eq_getElem (by omega)]; rfl

end

theorem mask128_testBit {j : Nat} (hj : j < 128) : mask128.testBit j = true := by
  rw [mask128_eq, Nat.testBit_two_pow_sub_one]; exact decide_eq_true hj

theorem mask128_lt : mask128 < 2 ^ 128 := by decide

theorem maskHigh_spec {c : Nat} (hc : c < 4) :
    (if (c >>> 1 == 0) = true then mask128 else 0) < 2 ^ 128 ∧
    ∀ j, j < 128 → (if (c >>> 1 == 0) = true then mask128 else 0).testBit j = !c.testBit 1 := by
  have : c = 0 ∨ c = 1 ∨ c = 2 ∨ c = 3 := by omega
  rcases this with rfl | rfl | rfl | rfl
  · exact ⟨mask128_lt, fun j hj => by rw [if_pos (by decide), mask128_testBit hj]; decide⟩
  · exact ⟨mask128_lt, fun j hj => by rw [if_pos (by decide), mask128_testBit hj]; decide⟩
  · exact ⟨by decide, fun j hj => by rw [if_neg (by decide), Nat.zero_testBit]; decide⟩
  · exact ⟨by decide, fun j hj => by rw [if_neg (by decide), Nat.zero_testBit]; decide⟩

theorem maskLow_spec {c : Nat} (hc : c < 4) :
    (if (c &&& 1 == 0) = true then mask128 else 0) < 2 ^ 128 ∧
    ∀ j, j < 128 → (if (c &&& 1 == 0) = true then mask128 else 0).testBit j = !c.testBit 0 := by
  have : c = 0 ∨ c = 1 ∨ c = 2 ∨ c = 3 := by omega
  rcases this with rfl | rfl | rfl | rfl
  · exact ⟨mask128_lt, fun j hj => by rw [if_pos (by decide), mask128_testBit hj]; decide⟩
  · exact ⟨by decide, fun j hj => by rw [if_neg (by decide), Nat.zero_testBit]; decide⟩
  · exact ⟨mask128_lt, fun j hj => by rw [if_pos (by decide), mask128_testBit hj]; decide⟩
  · exact ⟨by decide, fun j hj => by rw [if_neg (by decide), Nat.zero_testBit]; decide⟩

theorem sym_eq_bits {x c : Nat} (hx : x < 4) (hc : c < 4) :
    ((x.testBit 1 ^^ !c.testBit 1) && (x.testBit 0 ^^ !c.testBit 0)) = decide (x = c) := by
  have h1 : x = 0 ∨ x = 1 ∨ x = 2 ∨ x = 3 := by omega
  have h2 : c = 0 ∨ c = 1 ∨ c = 2 ∨ c = 3 := by omega
  rcases h1 with rfl | rfl | rfl | rfl <;> rcases h2 with rfl | rfl | rfl | rfl <;> decide



theorem sym_lt {s : List Nat} (hs : ∀ x ∈ s, x < 4) (j : Nat) : s.getD j 0 < 4 := by
  rcases Nat.lt_or_ge j s.length with h1 | h1
  · rw [List.getD_eq_getElem?_getD, List.getElem?_eq_getElem h1]; exact hs _ (List.getElem_mem h1)
  · rw [List.getD_eq_getElem?_getD, List.getElem?_eq_none h1]; decide

/-- the two normalised words of line `l` for symbol `c`: bit `j` of the first (second) word
    tells whether the padded sequence has `c` at position `256 l + j` (`256 l + 128 + j`) -/
theorem normalize_ok {q : QVector} {s : List Nat} (h : Holds q s) (hs : ∀ x ∈ s, x < 4) {l c : Nat}
    (hl : l < (s.length + 255) / 256) (hc : c < 4) :
    ∃ w0 w1, normalize q.data l c = .ok (w0, w1) ∧ w0 < 2 ^ 128 ∧ w1 < 2 ^ 128 ∧
      (∀ j, j < 128 → w0.testBit j = decide (s.getD (256 * l + j) 0 = c)) ∧
      (∀ j, j < 128 → w1.testBit j = decide (s.getD (256 * l + 128 + j) 0 = c)) := by
  unfold normalize
  have hsz := h.size_eq
  have hc1 : ¬ (c >>> 1 ≥ 2) := by rw [Nat.shiftRight_eq_div_pow]; omega
  rw [if_neg hc1]
  simp only [bind, Except.bind, pure, Except.pure]
  rw [uidx_ok (by omega), uidx_ok (by omega), uidx_ok (by omega), uidx_ok (by omega)]
  simp only []
  obtain ⟨mh_lt, mh⟩ := maskHigh_spec hc
  obtain ⟨ml_lt, ml⟩ := maskLow_spec hc
  refine ⟨_, _, rfl, ?_, ?_, ?_, ?_⟩
  · exact Nat.and_lt_two_pow _ (Nat.xor_lt_two_pow (h.word_lt _ (by omega)) ml_lt)
  · exact Nat.and_lt_two_pow _ (Nat.xor_lt_two_pow (h.word_lt _ (by omega)) ml_lt)
  · intro j hj
    rw [Nat.testBit_and, Nat.testBit_xor, Nat.testBit_xor, mh j hj, ml j hj]
    have e1 := h.high l j hl (by omega)
    have e2 := h.low l j hl (by omega)
    rw [show j / 128 = 0 by omega, show j % 128 = j by omega] at e1 e2
    rw [Nat.add_zero] at e1 e2
    rw [e1, e2]
    exact sym_eq_bits (sym_lt hs _) hc
  · intro j hj
    rw [Nat.testBit_and, Nat.testBit_xor, Nat.testBit_xor, mh j hj, ml j hj]
    have e1 := h.high l (128 + j) hl (by omega)
    have e2 := h.low l (128 + j) hl (by omega)
    rw [show (128 + j) / 128 = 1 by omega, show (128 + j) % 128 = j by omega] at e1 e2
    rw [show 4 * l + 1 + 2 = 4 * l + 3 by omega] at e2
    rw [e1, e2, ← Nat.add_assoc]
    exact sym_eq_bits (sym_lt hs _) hc

theorem and_mask128 {w : Nat} (hw : w < 2 ^ 128) : w &&& mask128 = w := by
  rw [mask128_eq, Nat.and_two_pow_sub_one_eq_mod, Nat.mod_eq_of_lt hw]

theorem popc_and_low {w : Nat} (k : Nat) :
    Qwt.popc (w &&& ((1 <<< k) - 1)) = cntF (fun j => w.testBit j) k := by
  rw [Nat.one_shiftLeft, Nat.and_two_pow_sub_one_eq_mod, popc_mod_two_pow]

/-- `lineRank` counts the occurrences of `c` among the first `i` positions of line `l`
    of the padded sequence -/
theorem lineRank_ok {q : QVector} {s : List Nat} (h : Holds q s) (hs : ∀ x ∈ s, x < 4) (dbg : Bool)
    {l c i : Nat} (hl : l < (s.length + 255) / 256) (hc : c < 4) (hi : i ≤ 256) :
    lineRank dbg q.data l c i = .ok (cntF (fun j => decide (s.getD (256 * l + j) 0 = c)) i) := by
  unfold lineRank
  obtain ⟨w0, w1, hn, hw0, hw1, hb0, hb1⟩ := normalize_ok h hs hl hc
  rw [dbgAssert_true dbg (by simp; omega), dbgAssert_true dbg (by simp; omega), hn]
  simp only [bind, Except.bind, pure, Except.pure]
  have e7 : i >>> 7 = i / 128 := by rw [Nat.shiftRight_eq_div_pow]
  have e127 : i &&& 127 = i % 128 := Nat.and_two_pow_sub_one_eq_mod i 7
  rw [e7, e127]
  congr 1
  have c0 : ∀ k, k ≤ 128 → cntF (fun j => w0.testBit j) k =
      cntF (fun j => decide (s.getD (256 * l + j) 0 = c)) k := fun k hk =>
    cntF_congr (fun j hj => hb0 j (by omega))
  have c1 : ∀ k, k ≤ 128 → cntF (fun j => w1.testBit j) k =
      cntF (fun j => decide (s.getD (256 * l + (128 + j)) 0 = c)) k := fun k hk =>
    cntF_congr (fun j hj => by rw [hb1 j (by omega), Nat.add_assoc])
  have hcases : i / 128 = 0 ∨ i / 128 = 1 ∨ i / 128 = 2 := by omega
  rcases hcases with h0 | h0 | h0
  · rw [h0]
    simp only [beq_self_eq_true, if_true, show ((0:Nat) == 1) = false from rfl,
      show ((0:Nat) == 2) = false from rfl, Bool.false_eq_true, if_false]
    rw [popc_and_low, Nat.and_zero, popc_zero, c0 _ (by omega), show i % 128 = i by omega]; rfl
  · rw [h0]
    simp only [beq_self_eq_true, if_true, show ((1:Nat) == 0) = false from rfl,
      Bool.false_eq_true, if_false]
    rw [popc_and_low, and_mask128 hw0, popc_of_lt hw0, c0 _ (Nat.le_refl _), c1 _ (by omega)]
    rw [show i = 128 + i % 128 by omega, cntF_add, show (128 + i % 128) % 128 = i % 128 by omega]
  · rw [h0]
    simp only [beq_self_eq_true, if_true, show ((2:Nat) == 0) = false from rfl,
      show ((2:Nat) == 1) = false from rfl, Bool.false_eq_true, if_false]
    rw [and_mask128 hw0, and_mask128 hw1, popc_of_lt hw0, popc_of_lt hw1, c0 _ (Nat.le_refl _),
      c1 _ (Nat.le_refl _)]
    rw [show i = 128 + 128 by omega, cntF_add]


end Qwt.RSQP
