import Qwt.Spec.Basic
import Qwt.Model.BinWT
import Qwt.Model.DArray

/-!
Interfaces between the layers of the proof (DESIGN.md §3.2).

* `RSQ.Represents B r s` — the rank/select quad vector `r` (model state) answers every
  level query like the plain quaternary list `s`.  It is what property C05 establishes for
  every vector produced by the constructors, and all the wavelet trees need from a level.
* `RSW.Represents r s`, `RSN.Represents r s` — the same for the rank/select bit vectors (C06).
* `LevelLaw c` / `BinLevelLaw` — "the level constructor used by the tree builders yields a
  representing structure": the hypothesis under which the wavelet-matrix theorems (C01–C03)
  are first proved, and which C05/C13 (resp. C06/C08) discharge.
-/
namespace Qwt

namespace RSQ
open Qwt.QV

/-- `r` represents the quaternary sequence `s` -/
structure Represents (B : Nat) (r : RSQVector) (s : List Nat) : Prop where
  symbols : ∀ x ∈ s, x < 4
  len_eq : RSQ.len r = s.length
  get : ∀ dbg i, RSQ.get dbg r i = .ok s[i]?
  getU : ∀ dbg i, i < s.length → RSQ.getUnchecked dbg r i = .ok (s.getD i 0)
  rank : ∀ dbg c i, RSQ.rank dbg B r c i =
    .ok (if c ≤ 3 ∧ i ≤ s.length then some (Spec.rank c i s) else none)
  rankU : ∀ dbg c i, c ≤ 3 → i ≤ s.length → RSQ.rankUnchecked dbg B r c i = .ok (Spec.rank c i s)
  select : ∀ dbg c k, RSQ.select dbg B r c k = .ok (if c ≤ 3 then Spec.select c k s else none)
  occs : ∀ dbg c, RSQ.occs dbg r c = .ok (if c ≤ 3 then some (s.count c) else none)
  occsSmaller : ∀ dbg c, RSQ.occsSmaller dbg r c =
    .ok (if c ≤ 3 then some (Spec.occsSmaller id c s) else none)
  occsSmallerU : ∀ dbg c, c ≤ 3 → RSQ.occsSmallerUnchecked dbg r c = .ok (Spec.occsSmaller id c s)
  /-- the block counter used by the prefetch estimate never faults and is a lower estimate -/
  rankBlock : ∀ dbg c i, c ≤ 3 → i ≤ s.length →
    ∃ v, RSQ.rankBlock dbg B r.rs c i = .ok v ∧ v ≤ Spec.rank c i s

/-- the level constructor of the quad trees: push every digit, build, add rank/select support -/
def mkLevel (dbg : Bool) (B : Nat) (digits : List Nat) : M RSQVector := do
  let qvb ← digits.foldlM (fun (b : QVectorBuilder) d => QV.push b d) {}
  RSQ.fromQV dbg B (QV.build qvb)

end RSQ

/-- what C05 (with C13) proves for both block sizes and both build profiles -/
def LevelLaw (dbg : Bool) (B : Nat) : Prop :=
  ∀ digits : List Nat, (∀ d ∈ digits, d < 4) → digits.length < 2 ^ Extracted.rsqLenLimitLog →
    ∃ r, RSQ.mkLevel dbg B digits = .ok r ∧ RSQ.Represents B r digits

namespace RSW
open Qwt.BV

/-- the rank/select bit vector `r` represents the bit list `s` -/
structure Represents (r : RSWide) (s : List Bool) : Prop where
  len_eq : r.bv.nBits = s.length
  nZeros_eq : r.nZeros = s.count false
  get : ∀ i, RSW.get r i = .ok s[i]?
  getU : ∀ i, i < s.length → RSW.getUnchecked r i = .ok (s.getD i false)
  rank1 : ∀ i, RSW.rank1 r i =
    .ok (if s ≠ [] ∧ i ≤ s.length then some (Spec.rank true i s) else none)
  rank0 : ∀ i, RSW.rank0 r i =
    .ok (if s ≠ [] ∧ i ≤ s.length then some (Spec.rank false i s) else none)
  rank1U : ∀ i, i ≤ s.length → RSW.rank1Unchecked r i = .ok (Spec.rank true i s)
  select1 : ∀ k, RSW.select1 r k = .ok (Spec.select true k s)
  select0 : ∀ k, RSW.select0 r k = .ok (Spec.select false k s)

/-- the level constructor of the binary trees -/
def mkLevel (bits : List Bool) : M RSWide := do
  let bvm ← bits.foldlM (fun (b : BitVectorMut) x => BV.push b x) {}
  RSW.new bvm

end RSW

/-- what C06 (with C08) proves -/
def BinLevelLaw : Prop :=
  ∀ bits : List Bool, bits.length < 2 ^ 43 → ∃ r, RSW.mkLevel bits = .ok r ∧ RSW.Represents r bits

namespace RSN
open Qwt.BV

structure Represents (r : RSNarrow) (s : List Bool) : Prop where
  len_eq : r.bv.nBits = s.length
  get : ∀ i, RSN.get r i = .ok s[i]?
  rank1 : ∀ i, RSN.rank1 r i =
    .ok (if s ≠ [] ∧ i ≤ s.length then some (Spec.rank true i s) else none)
  rank0 : ∀ i, RSN.rank0 r i =
    .ok (if s ≠ [] ∧ i ≤ s.length then some (Spec.rank false i s) else none)
  select1 : ∀ k, RSN.select1 r k = .ok (Spec.select true k s)
  select0 : ∀ k, RSN.select0 r k = .ok (Spec.select false k s)
  nOnes : RSN.nOnes r = .ok (s.count true)
  nZeros : RSN.nZeros r = .ok (s.count false)

end RSN

end Qwt
