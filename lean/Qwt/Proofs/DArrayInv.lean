import Qwt.Model.DArray

/-!
The inventory invariant of `DArray` (C07, part 1): `chunks`, `everyNth`, and the
`flushBlock` fold.  The central statement is `FoldInv`: after flushing the groups `cs`

* `blockInventory` has one entry per group,
* `subblockInventory` has `⌈|c|/32⌉` entries per group `c`, *dense or sparse* (alignment),
* the entries of a dense group are its first position and the 16-bit offsets of every
  32nd position; a sparse group stores `-(off)-1` and all its positions from `off` on in
  `overflowPositions`.
-/
namespace Qwt.DAProofs
open Qwt Qwt.DA Qwt.Extracted

theorem daBlockSize_eq : daBlockSize = 1024 := by decide
theorem daSubblockSize_eq : daSubblockSize = 32 := by decide
theorem daMaxInBlockDistance_eq : daMaxInBlockDistance = 65536 := by decide

/-! ### `chunks` -/

theorem chunks_getElem? (n : Nat) (hn : 0 < n) (l : List Nat) (g : Nat) :
    (chunks n l)[g]? = if n * g < l.length then some ((l.drop (n * g)).take n) else none := by
  induction g generalizing l with
  | zero =>
    rw [chunks]
    by_cases hl : l = []
    · subst hl; simp
    · have : 0 < l.length := List.length_pos_iff.mpr hl
      simp [hl, Nat.ne_of_gt hn, this]
  | succ g ih =>
    rw [chunks]
    by_cases hl : l = []
    · subst hl; simp
    · have hpos : 0 < l.length := List.length_pos_iff.mpr hl
      simp only [Nat.ne_of_gt hn, hl, or_self, dite_false, List.getElem?_cons_succ]
      rw [ih, List.length_drop, List.drop_drop]
      have e : n * (g + 1) = n + n * g := by rw [Nat.mul_succ, Nat.add_comm]
      rw [e]
      by_cases h : n * g < l.length - n
      · rw [if_pos h, if_pos (by omega)]
      · rw [if_neg h, if_neg (by omega)]

theorem chunks_ne_nil (n : Nat) (hn : 0 < n) (l : List Nat) :
    ∀ c ∈ chunks n l, c ≠ [] := by
  intro c hc
  obtain ⟨g, hg⟩ := List.getElem?_of_mem hc
  rw [chunks_getElem? n hn] at hg
  split at hg
  · rename_i hlt
    cases hg
    intro h
    have := congrArg List.length h
    simp only [List.length_take, List.length_drop, List.length_nil] at this
    omega
  · cases hg

theorem chunks_length_1024 (l : List Nat) :
    (chunks 1024 l).length = (l.length + 1023) / 1024 := by
  have h1 := chunks_getElem? 1024 (by omega) l (chunks 1024 l).length
  rw [List.getElem?_eq_none (Nat.le_refl _)] at h1
  have hA : l.length ≤ 1024 * (chunks 1024 l).length := by
    split at h1
    · cases h1
    · omega
  by_cases h0 : (chunks 1024 l).length = 0
  · omega
  · have h2 := chunks_getElem? 1024 (by omega) l ((chunks 1024 l).length - 1)
    have hB : 1024 * ((chunks 1024 l).length - 1) < l.length := by
      split at h2
      · assumption
      · rw [List.getElem?_eq_none_iff] at h2; omega
    omega

/-! ### `everyNth` -/

theorem everyNth_length (step : Nat) (l : List Nat) :
    (everyNth step l).length = (l.length + step - 1) / step := by
  simp [everyNth]

theorem everyNth_getElem? (step : Nat) (l : List Nat) (j : Nat)
    (hj : j < (l.length + step - 1) / step) :
    (everyNth step l)[j]? = some (l.getD (j * step) 0) := by
  simp [everyNth, hj]

/-! ### array helpers -/

theorem getElem?_push_of_some {α} {a : Array α} {i : Nat} {v x : α} (h : a[i]? = some v) :
    (a.push x)[i]? = some v := by
  have hi : i < a.size := by
    apply Classical.byContradiction; intro hn
    rw [Array.getElem?_eq_none (by omega)] at h; cases h
  rw [Array.getElem?_push]
  rw [if_neg (by omega)]; exact h

theorem getElem?_append_of_some {α} {a b : Array α} {i : Nat} {v : α} (h : a[i]? = some v) :
    (a ++ b)[i]? = some v := by
  have hi : i < a.size := by
    apply Classical.byContradiction; intro hn
    rw [Array.getElem?_eq_none (by omega)] at h; cases h
  rw [Array.getElem?_append_left hi]; exact h

theorem getElem?_append_add {α} (a b : Array α) (j : Nat) :
    (a ++ b)[a.size + j]? = b[j]? := by
  rw [Array.getElem?_append_right (by omega)]
  congr 1; omega

/-! ### the fold invariant -/

/-- sub-block slots reserved for a group -/
def slots (c : List Nat) : Nat := (c.length + 31) / 32

/-- first sub-block slot of group `g` -/
def subOff (cs : List (List Nat)) (g : Nat) : Nat := ((cs.take g).map slots).sum

/-- the dense/sparse test of `flush_block` -/
def isDense (c : List Nat) (first : Nat) : Prop := c.getLast?.getD first - first < 65536

instance (c : List Nat) (first : Nat) : Decidable (isDense c first) := by
  unfold isDense; infer_instance

/-- what group `c` (first element `first`), stored as group number `g` with its
    sub-block entries from slot `so` on, looks like in `inv` -/
def GroupOK (inv : Inventories) (g so : Nat) (c : List Nat) (first : Nat) : Prop :=
  (isDense c first →
      inv.blockInventory[g]? = some (Int.ofNat first) ∧
      ∀ j, j < slots c → inv.subblockInventory[so + j]? = some ((c.getD (j * 32) 0 - first) % 65536))
  ∧ (¬ isDense c first →
      ∃ off : Nat, inv.blockInventory[g]? = some (-(Int.ofNat off) - 1) ∧
        ∀ j, j < c.length → inv.overflowPositions[off + j]? = some (c.getD j 0))

structure FoldInv (cs : List (List Nat)) (inv : Inventories) : Prop where
  bsize : inv.blockInventory.size = cs.length
  ssize : inv.subblockInventory.size = (cs.map slots).sum
  grp : ∀ g c first, cs[g]? = some c → c.head? = some first → GroupOK inv g (subOff cs g) c first

theorem foldInv_nil : FoldInv [] {} where
  bsize := rfl
  ssize := rfl
  grp := by intro g c first h; simp at h

theorem flushBlock_cons (inv : Inventories) (first : Nat) (rest : List Nat) :
    flushBlock inv (first :: rest) =
      if isDense (first :: rest) first then
        { inv with
          blockInventory := inv.blockInventory.push (Int.ofNat first),
          subblockInventory := inv.subblockInventory ++
            ((everyNth 32 (first :: rest)).map (fun p => (p - first) % 65536)).toArray }
      else
        { inv with
          blockInventory := inv.blockInventory.push (-(Int.ofNat inv.overflowPositions.size) - 1),
          overflowPositions := inv.overflowPositions ++ (first :: rest).toArray,
          subblockInventory := inv.subblockInventory ++
            Array.replicate (slots (first :: rest)) 65535 } := by
  simp only [flushBlock, isDense, slots, daSubblockSize_eq, daMaxInBlockDistance_eq]
  rfl

theorem groupOK_mono {inv inv' : Inventories} {g so : Nat} {c : List Nat} {first : Nat}
    (hb : ∀ (i : Nat) v, inv.blockInventory[i]? = some v → inv'.blockInventory[i]? = some v)
    (hs : ∀ (i : Nat) v, inv.subblockInventory[i]? = some v → inv'.subblockInventory[i]? = some v)
    (ho : ∀ (i : Nat) v, inv.overflowPositions[i]? = some v → inv'.overflowPositions[i]? = some v)
    (h : GroupOK inv g so c first) : GroupOK inv' g so c first := by
  refine ⟨fun hd => ?_, fun hd => ?_⟩
  · obtain ⟨h1, h2⟩ := h.1 hd
    exact ⟨hb _ _ h1, fun j hj => hs _ _ (h2 j hj)⟩
  · obtain ⟨off, h1, h2⟩ := h.2 hd
    exact ⟨off, hb _ _ h1, fun j hj => ho _ _ (h2 j hj)⟩

theorem subOff_append_lt (cs : List (List Nat)) (c : List Nat) (g : Nat) (hg : g ≤ cs.length) :
    subOff (cs ++ [c]) g = subOff cs g := by
  unfold subOff
  rw [List.take_append_of_le_length hg]

theorem subOff_length (cs : List (List Nat)) : subOff cs cs.length = (cs.map slots).sum := by
  unfold subOff; rw [List.take_length]

theorem foldInv_step {cs : List (List Nat)} {inv : Inventories} (h : FoldInv cs inv)
    (c : List Nat) (hc : c ≠ []) : FoldInv (cs ++ [c]) (flushBlock inv c) := by
  obtain ⟨first, rest, rfl⟩ : ∃ f r, c = f :: r := by
    cases c with
    | nil => exact absurd rfl hc
    | cons f r => exact ⟨f, r, rfl⟩
  rw [flushBlock_cons]
  by_cases hd : isDense (first :: rest) first
  · rw [if_pos hd]
    refine ⟨?_, ?_, ?_⟩
    · simp [h.bsize]
    · simp only [Array.size_append, List.size_toArray, List.length_map, everyNth_length,
        h.ssize, List.map_append, List.sum_append, List.map_cons, List.map_nil, List.sum_cons,
        List.sum_nil, slots]
      omega
    · intro g c' first' hg hf
      by_cases hlt : g < cs.length
      · rw [List.getElem?_append_left hlt] at hg
        rw [subOff_append_lt _ _ _ (by omega)]
        exact groupOK_mono (fun i v hv => getElem?_push_of_some hv)
          (fun i v hv => getElem?_append_of_some hv) (fun i v hv => hv) (h.grp g c' first' hg hf)
      · have hge : g = cs.length := by
          have : g < (cs ++ [first :: rest]).length := by
            apply Classical.byContradiction; intro hn
            rw [List.getElem?_eq_none (by omega)] at hg; cases hg
          simp at this; omega
        subst hge
        rw [List.getElem?_append_right (Nat.le_refl _), Nat.sub_self] at hg
        simp only [List.getElem?_cons_zero, Option.some.injEq] at hg
        subst hg
        simp only [List.head?_cons, Option.some.injEq] at hf
        subst hf
        rw [subOff_append_lt _ _ _ (Nat.le_refl _), subOff_length, ← h.ssize]
        refine ⟨fun _ => ⟨?_, ?_⟩, fun hnd => absurd hd hnd⟩
        · show (inv.blockInventory.push (Int.ofNat first))[cs.length]? = _
          rw [← h.bsize]; simp
        · intro j hj
          show (inv.subblockInventory ++ _)[inv.subblockInventory.size + j]? = _
          rw [getElem?_append_add]
          have hj' : j < ((first :: rest).length + 32 - 1) / 32 := by
            unfold slots at hj; omega
          simp only [List.getElem?_toArray, List.getElem?_map, everyNth_getElem? 32 _ j hj',
            Option.map_some]
  · rw [if_neg hd]
    refine ⟨?_, ?_, ?_⟩
    · simp [h.bsize]
    · simp only [Array.size_append, Array.size_replicate,
        h.ssize, List.map_append, List.sum_append, List.map_cons, List.map_nil, List.sum_cons,
        List.sum_nil]
      omega
    · intro g c' first' hg hf
      by_cases hlt : g < cs.length
      · rw [List.getElem?_append_left hlt] at hg
        rw [subOff_append_lt _ _ _ (by omega)]
        exact groupOK_mono (fun i v hv => getElem?_push_of_some hv)
          (fun i v hv => getElem?_append_of_some hv) (fun i v hv => getElem?_append_of_some hv)
          (h.grp g c' first' hg hf)
      · have hge : g = cs.length := by
          have : g < (cs ++ [first :: rest]).length := by
            apply Classical.byContradiction; intro hn
            rw [List.getElem?_eq_none (by omega)] at hg; cases hg
          simp at this; omega
        subst hge
        rw [List.getElem?_append_right (Nat.le_refl _), Nat.sub_self] at hg
        simp only [List.getElem?_cons_zero, Option.some.injEq] at hg
        subst hg
        simp only [List.head?_cons, Option.some.injEq] at hf
        subst hf
        refine ⟨fun hd' => absurd hd' hd, fun _ => ⟨inv.overflowPositions.size, ?_, ?_⟩⟩
        · show (inv.blockInventory.push _)[cs.length]? = _
          rw [← h.bsize]; simp
        · intro j hj
          show (inv.overflowPositions ++ _)[inv.overflowPositions.size + j]? = _
          rw [getElem?_append_add]
          simp only [List.getElem?_toArray]
          rw [List.getD_eq_getElem?_getD, List.getElem?_eq_getElem hj]
          rfl

theorem foldInv_foldl (cs : List (List Nat)) (hcs : ∀ c ∈ cs, c ≠ []) :
    ∀ (pre : List (List Nat)) (inv : Inventories), FoldInv pre inv →
      FoldInv (pre ++ cs) (cs.foldl flushBlock inv) := by
  induction cs with
  | nil => intro pre inv h; simpa using h
  | cons c cs ih =>
    intro pre inv h
    have h1 := foldInv_step h c (hcs c (List.mem_cons_self))
    have h2 := ih (fun c' hc' => hcs c' (List.mem_cons_of_mem _ hc')) (pre ++ [c]) _ h1
    simpa using h2

/-- the invariant holds for the inventories built from any list of positions -/
theorem foldInv_chunks (ps : List Nat) :
    FoldInv (chunks 1024 ps) ((chunks 1024 ps).foldl flushBlock {}) := by
  have := foldInv_foldl (chunks 1024 ps) (chunks_ne_nil 1024 (by omega) ps) [] {} foldInv_nil
  simpa using this

/-! ### the groups of `chunks 1024 ps` -/

theorem chunk_getD (ps : List Nat) (g j : Nat) (hj : j < 1024) :
    ((ps.drop (1024 * g)).take 1024).getD j 0 = ps.getD (1024 * g + j) 0 := by
  simp only [List.getD_eq_getElem?_getD, List.getElem?_take, if_pos hj, List.getElem?_drop]

theorem chunk_length (ps : List Nat) (g : Nat) :
    ((ps.drop (1024 * g)).take 1024).length = min 1024 (ps.length - 1024 * g) := by
  simp [List.length_take, List.length_drop]

theorem chunk_head? (ps : List Nat) (g : Nat) (hg : 1024 * g < ps.length) :
    ((ps.drop (1024 * g)).take 1024).head? = some (ps.getD (1024 * g) 0) := by
  rw [List.head?_eq_getElem?, List.getElem?_take, if_pos (by omega), List.getElem?_drop,
    List.getD_eq_getElem?_getD, Nat.add_zero, List.getElem?_eq_getElem hg]
  rfl

theorem chunk_getLast? (ps : List Nat) (g : Nat) (hg : 1024 * g < ps.length) :
    ((ps.drop (1024 * g)).take 1024).getLast? =
      some (ps.getD (min (1024 * g + 1023) (ps.length - 1)) 0) := by
  rw [List.getLast?_eq_getElem?, chunk_length, List.getElem?_take, if_pos (by omega),
    List.getElem?_drop, List.getD_eq_getElem?_getD]
  have e : 1024 * g + (min 1024 (ps.length - 1024 * g) - 1) = min (1024 * g + 1023) (ps.length - 1) := by
    omega
  rw [e, List.getElem?_eq_getElem (by omega)]
  rfl

theorem subOff_succ (cs : List (List Nat)) (g : Nat) (hg : g < cs.length) :
    subOff cs (g + 1) = subOff cs g + slots cs[g] := by
  unfold subOff
  rw [List.take_add_one, List.getElem?_eq_getElem hg, List.map_append, List.sum_append]
  simp

theorem subOff_chunks (ps : List Nat) (g : Nat) (hg : 1024 * g < ps.length) :
    subOff (chunks 1024 ps) g = 32 * g := by
  induction g with
  | zero => simp [subOff]
  | succ g ih =>
    have hlt : g < (chunks 1024 ps).length := by
      rw [chunks_length_1024]; omega
    rw [subOff_succ _ _ hlt, ih (by omega)]
    have hc : (chunks 1024 ps)[g]? = some ((ps.drop (1024 * g)).take 1024) := by
      rw [chunks_getElem? 1024 (by omega), if_pos (by omega)]
    rw [List.getElem?_eq_getElem hlt] at hc
    simp only [Option.some.injEq] at hc
    rw [hc, slots, chunk_length]
    omega

theorem slots_sum_chunks (ps : List Nat) :
    ((chunks 1024 ps).map slots).sum = (ps.length + 31) / 32 := by
  rw [← subOff_length]
  by_cases h0 : ps.length = 0
  · have : (chunks 1024 ps).length = 0 := by rw [chunks_length_1024]; omega
    rw [this]; simp [subOff, h0]
  · have hL := chunks_length_1024 ps
    obtain ⟨m, hm⟩ : ∃ m, (chunks 1024 ps).length = m + 1 := ⟨(chunks 1024 ps).length - 1, by omega⟩
    have hlt : m < (chunks 1024 ps).length := by omega
    have hmg : 1024 * m < ps.length := by omega
    rw [hm, subOff_succ _ _ hlt, subOff_chunks ps m hmg]
    have hc : (chunks 1024 ps)[m]? = some ((ps.drop (1024 * m)).take 1024) := by
      rw [chunks_getElem? 1024 (by omega), if_pos hmg]
    rw [List.getElem?_eq_getElem hlt] at hc
    simp only [Option.some.injEq] at hc
    rw [hc, slots, chunk_length]
    omega

/-- The inventory invariant in terms of the list of positions (property C07, part 1).
    Group `g` consists of `ps[1024 g ..]` (1024 elements, fewer for the last group); its
    sub-block entries start at slot `32 g` whatever the kinds of the groups before it. -/
structure InvSpec (ps : List Nat) (inv : Inventories) : Prop where
  bsize : inv.blockInventory.size = (ps.length + 1023) / 1024
  ssize : inv.subblockInventory.size = (ps.length + 31) / 32
  dense : ∀ g, 1024 * g < ps.length →
    ps.getD (min (1024 * g + 1023) (ps.length - 1)) 0 - ps.getD (1024 * g) 0 < 65536 →
      inv.blockInventory[g]? = some (Int.ofNat (ps.getD (1024 * g) 0)) ∧
      ∀ j, j < 32 → 1024 * g + 32 * j < ps.length →
        inv.subblockInventory[32 * g + j]? =
          some ((ps.getD (1024 * g + 32 * j) 0 - ps.getD (1024 * g) 0) % 65536)
  sparse : ∀ g, 1024 * g < ps.length →
    ¬ ps.getD (min (1024 * g + 1023) (ps.length - 1)) 0 - ps.getD (1024 * g) 0 < 65536 →
      ∃ off : Nat, inv.blockInventory[g]? = some (-(Int.ofNat off) - 1) ∧
        ∀ j, j < 1024 → 1024 * g + j < ps.length →
          inv.overflowPositions[off + j]? = some (ps.getD (1024 * g + j) 0)

theorem invSpec_fold (ps : List Nat) : InvSpec ps ((chunks 1024 ps).foldl flushBlock {}) := by
  have hF := foldInv_chunks ps
  have hgrp : ∀ g, 1024 * g < ps.length →
      GroupOK ((chunks 1024 ps).foldl flushBlock {}) g (32 * g)
        ((ps.drop (1024 * g)).take 1024) (ps.getD (1024 * g) 0) := by
    intro g hg
    have := hF.grp g _ _ (by rw [chunks_getElem? 1024 (by omega), if_pos hg]) (chunk_head? ps g hg)
    rwa [subOff_chunks ps g hg] at this
  refine ⟨?_, ?_, ?_, ?_⟩
  · rw [hF.bsize, chunks_length_1024]
  · rw [hF.ssize, slots_sum_chunks]
  · intro g hg hd
    have hd' : isDense ((ps.drop (1024 * g)).take 1024) (ps.getD (1024 * g) 0) := by
      unfold isDense; rw [chunk_getLast? ps g hg]; exact hd
    obtain ⟨h1, h2⟩ := (hgrp g hg).1 hd'
    refine ⟨h1, fun j hj hlt => ?_⟩
    have := h2 j (by rw [slots, chunk_length]; omega)
    rw [chunk_getD ps g (j * 32) (by omega)] at this
    rw [this, Nat.mul_comm j 32]
  · intro g hg hd
    have hd' : ¬ isDense ((ps.drop (1024 * g)).take 1024) (ps.getD (1024 * g) 0) := by
      unfold isDense; rw [chunk_getLast? ps g hg]; exact hd
    obtain ⟨off, h1, h2⟩ := (hgrp g hg).2 hd'
    refine ⟨off, h1, fun j hj hlt => ?_⟩
    have := h2 j (by rw [chunk_length]; omega)
    rw [chunk_getD ps g j hj] at this
    exact this

end Qwt.DAProofs
