import Mathlib.Analysis.SpecialFunctions.Log.Base
import Mathlib.Analysis.SpecialFunctions.Pow.Real
import Mathlib.Algebra.Order.Floor.Semiring
import Mathlib.Algebra.BigOperators.Fin
import Mathlib.Algebra.Order.BigOperators.Group.Finset

/-!
Helper lemmas for property C15 (`Qwt.Props.C15`): the information-theoretic inequality
behind "the level data of a Huffman-shaped wavelet tree is entropy bounded".

Everything is stated over a finite alphabet `Fin k`, a frequency vector `f : Fin k → ℕ`
and a vector `ℓ : Fin k → ℕ` of code lengths counted in *fragments* (one fragment = one
level of the tree = `b` bits, code arity `D = 2 ^ b`).

This file is the only one of the development that imports Mathlib modules (the entropy is a
real number).  Nothing in `Qwt/Model` depends on it.
-/
namespace Qwt.Entropy
open Finset

variable {k : ℕ}

/-! ## Definitions -/

/-- `n`: the length of the sequence = the sum of all frequencies -/
def total (f : Fin k → ℕ) : ℕ := ∑ i, f i

/-- `Σ fᵢ·ℓᵢ`: the number of *fragments* written to the levels (every occurrence of symbol
    `i` is written to the first `ℓᵢ` levels). -/
def cost (f ℓ : Fin k → ℕ) : ℕ := ∑ i, f i * ℓ i

/-- zero-order empirical entropy, bits per symbol: `Σ (fᵢ/n)·log₂(n/fᵢ)` -/
noncomputable def H0 (f : Fin k → ℕ) : ℝ :=
  ∑ i, ((f i : ℝ) / (total f : ℝ)) * Real.logb 2 ((total f : ℝ) / (f i : ℝ))

/-- Kraft feasibility for arity `D`, with every length at least one fragment (a symbol of a
    wavelet tree is written to at least one level). -/
def Kraft (D : ℕ) (ℓ : Fin k → ℕ) : Prop :=
  (∀ i, 1 ≤ ℓ i) ∧ ∑ i, (1 / (D : ℝ) ^ ℓ i) ≤ 1

/-- What a `D`-ary minimum-redundancy code guarantees: its lengths are Kraft-feasible and
    no Kraft-feasible length vector is cheaper.  (ASSUMPTION about the external crate
    `minimum_redundancy`; validated per case by the harness, never proved here.) -/
def Optimal (D : ℕ) (f ℓ : Fin k → ℕ) : Prop :=
  Kraft D ℓ ∧ ∀ ℓ' : Fin k → ℕ, Kraft D ℓ' → cost f ℓ ≤ cost f ℓ'

/-- Shannon lengths `max 1 ⌈log_D (n / fᵢ)⌉` (natural ceiling). -/
noncomputable def shannonLen (D : ℕ) (f : Fin k → ℕ) (i : Fin k) : ℕ :=
  max 1 ⌈Real.logb (D : ℝ) ((total f : ℝ) / (f i : ℝ))⌉₊

/-! ## Basic facts -/

theorem le_total (f : Fin k → ℕ) (i : Fin k) : f i ≤ total f :=
  Finset.single_le_sum (f := f) (fun _ _ => Nat.zero_le _) (Finset.mem_univ i)

theorem total_pos {f : Fin k → ℕ} (hf : ∀ i, 0 < f i) (hk : 0 < k) : 0 < total f :=
  lt_of_lt_of_le (hf ⟨0, hk⟩) (le_total f _)

/-- with at least two symbols of positive frequency, no symbol fills the whole sequence -/
theorem lt_total {f : Fin k → ℕ} (hf : ∀ i, 0 < f i) (hk : 2 ≤ k) (i : Fin k) :
    f i < total f := by
  have hne : (Finset.univ.erase i).Nonempty := by
    rw [← Finset.card_pos, Finset.card_erase_of_mem (Finset.mem_univ i), Finset.card_univ,
      Fintype.card_fin]
    omega
  have hpos : 0 < ∑ j ∈ Finset.univ.erase i, f j :=
    Finset.sum_pos (fun j _ => hf j) hne
  have : f i + ∑ j ∈ Finset.univ.erase i, f j = total f :=
    Finset.add_sum_erase _ f (Finset.mem_univ i)
  omega

theorem total_mul_H0 {f : Fin k → ℕ} (hn : 0 < total f) :
    (total f : ℝ) * H0 f = ∑ i, (f i : ℝ) * Real.logb 2 ((total f : ℝ) / (f i : ℝ)) := by
  have hn' : (total f : ℝ) ≠ 0 := by exact_mod_cast hn.ne'
  unfold H0
  rw [Finset.mul_sum]
  refine Finset.sum_congr rfl fun i _ => ?_
  field_simp

theorem total_cast (f : Fin k → ℕ) : (total f : ℝ) = ∑ i, (f i : ℝ) := by
  simp [total]

theorem cost_cast (f ℓ : Fin k → ℕ) : (cost f ℓ : ℝ) = ∑ i, (f i : ℝ) * (ℓ i : ℝ) := by
  simp [cost]

/-! ## 1. Shannon lengths are Kraft-feasible -/

theorem one_le_shannonLen (D : ℕ) (f : Fin k → ℕ) (i : Fin k) : 1 ≤ shannonLen D f i :=
  le_max_left _ _

/-- `D^(−ℓ'ᵢ) ≤ fᵢ / n` -/
theorem inv_pow_shannonLen_le {D : ℕ} (hD : 1 < D) {f : Fin k → ℕ} {i : Fin k}
    (hfi : 0 < f i) :
    1 / (D : ℝ) ^ shannonLen D f i ≤ (f i : ℝ) / (total f : ℝ) := by
  have hD' : (1 : ℝ) < D := by exact_mod_cast hD
  have hD0 : (0 : ℝ) < D := by linarith
  have hfi' : (0 : ℝ) < f i := by exact_mod_cast hfi
  have hn' : (0 : ℝ) < total f := by exact_mod_cast lt_of_lt_of_le hfi (le_total f i)
  have hx : (0 : ℝ) < (total f : ℝ) / (f i : ℝ) := div_pos hn' hfi'
  have h1 : Real.logb (D : ℝ) ((total f : ℝ) / (f i : ℝ)) ≤ (shannonLen D f i : ℝ) := by
    refine le_trans (Nat.le_ceil _) ?_
    exact_mod_cast le_max_right _ _
  have h2 : (total f : ℝ) / (f i : ℝ) ≤ (D : ℝ) ^ shannonLen D f i := by
    calc (total f : ℝ) / (f i : ℝ)
        = (D : ℝ) ^ Real.logb (D : ℝ) ((total f : ℝ) / (f i : ℝ)) :=
          (Real.rpow_logb hD0 hD'.ne' hx).symm
      _ ≤ (D : ℝ) ^ ((shannonLen D f i : ℕ) : ℝ) :=
          Real.rpow_le_rpow_of_exponent_le hD'.le h1
      _ = (D : ℝ) ^ shannonLen D f i := Real.rpow_natCast _ _
  calc 1 / (D : ℝ) ^ shannonLen D f i ≤ 1 / ((total f : ℝ) / (f i : ℝ)) :=
        one_div_le_one_div_of_le hx h2
    _ = (f i : ℝ) / (total f : ℝ) := one_div_div _ _

theorem shannon_feasible {D : ℕ} (hD : 1 < D) {f : Fin k → ℕ} (hf : ∀ i, 0 < f i) :
    Kraft D (shannonLen D f) := by
  refine ⟨one_le_shannonLen D f, ?_⟩
  calc ∑ i, 1 / (D : ℝ) ^ shannonLen D f i
      ≤ ∑ i, (f i : ℝ) / (total f : ℝ) :=
        Finset.sum_le_sum fun i _ => inv_pow_shannonLen_le hD (hf i)
    _ = (total f : ℝ) / (total f : ℝ) := by rw [← Finset.sum_div, total_cast]
    _ ≤ 1 := div_self_le_one _

/-! ## 2. The entropy bound -/

/-- `b · log_{2^b} x = log₂ x` -/
theorem mul_logb_two_pow {b : ℕ} (hb : 1 ≤ b) (x : ℝ) :
    (b : ℝ) * Real.logb (((2 ^ b : ℕ) : ℝ)) x = Real.logb 2 x := by
  have hb' : (b : ℝ) ≠ 0 := by exact_mod_cast (by omega : b ≠ 0)
  have hl : Real.log 2 ≠ 0 := (Real.log_pos one_lt_two).ne'
  simp only [Real.logb, Nat.cast_pow, Nat.cast_ofNat, Real.log_pow]
  field_simp

/-- `b · ℓ'ᵢ < log₂(n/fᵢ) + b` as soon as `fᵢ < n` -/
theorem mul_shannonLen_lt {b : ℕ} (hb : 1 ≤ b) {f : Fin k → ℕ} {i : Fin k}
    (hfi : 0 < f i) (hlt : f i < total f) :
    (b : ℝ) * (shannonLen (2 ^ b) f i : ℝ)
      < Real.logb 2 ((total f : ℝ) / (f i : ℝ)) + b := by
  have hfi' : (0 : ℝ) < f i := by exact_mod_cast hfi
  have hlt' : (f i : ℝ) < total f := by exact_mod_cast hlt
  have hx : (1 : ℝ) < (total f : ℝ) / (f i : ℝ) := (one_lt_div hfi').2 hlt'
  have hD' : (1 : ℝ) < ((2 ^ b : ℕ) : ℝ) := by
    exact_mod_cast Nat.one_lt_two_pow (by omega)
  have hpos : 0 < Real.logb ((2 ^ b : ℕ) : ℝ) ((total f : ℝ) / (f i : ℝ)) :=
    Real.logb_pos hD' hx
  have hmax : shannonLen (2 ^ b) f i
      = ⌈Real.logb ((2 ^ b : ℕ) : ℝ) ((total f : ℝ) / (f i : ℝ))⌉₊ :=
    max_eq_right (Nat.one_le_ceil_iff.2 hpos)
  have hceil := Nat.ceil_lt_add_one hpos.le
  have hbpos : (0 : ℝ) < b := by exact_mod_cast hb
  rw [hmax, ← mul_logb_two_pow hb]
  nlinarith [mul_lt_mul_of_pos_left hceil hbpos]

/-- **Entropy bound, generic fragment width.**  If the lengths are optimal for arity `2^b`
    and there are at least two symbols, the level data `b · Σ fᵢ ℓᵢ` is strictly below
    `n · (H0 + b)` bits. -/
theorem level_bits_lt {b : ℕ} (hb : 1 ≤ b) {f ℓ : Fin k → ℕ} (hopt : Optimal (2 ^ b) f ℓ)
    (hk : 2 ≤ k) (hf : ∀ i, 0 < f i) :
    (b : ℝ) * (cost f ℓ : ℝ) < (total f : ℝ) * (H0 f + b) := by
  have hD : 1 < 2 ^ b := Nat.one_lt_two_pow (by omega)
  have hn : 0 < total f := total_pos hf (by omega)
  have h1 : (cost f ℓ : ℝ) ≤ (cost f (shannonLen (2 ^ b) f) : ℝ) := by
    exact_mod_cast hopt.2 _ (shannon_feasible hD hf)
  have hb0 : (0 : ℝ) ≤ b := Nat.cast_nonneg _
  have hne : (Finset.univ : Finset (Fin k)).Nonempty := ⟨⟨0, by omega⟩, Finset.mem_univ _⟩
  calc (b : ℝ) * (cost f ℓ : ℝ)
      ≤ (b : ℝ) * (cost f (shannonLen (2 ^ b) f) : ℝ) := mul_le_mul_of_nonneg_left h1 hb0
    _ = ∑ i, (f i : ℝ) * ((b : ℝ) * (shannonLen (2 ^ b) f i : ℝ)) := by
        rw [cost_cast, Finset.mul_sum]
        exact Finset.sum_congr rfl fun i _ => by ring
    _ < ∑ i, (f i : ℝ) * (Real.logb 2 ((total f : ℝ) / (f i : ℝ)) + b) := by
        refine Finset.sum_lt_sum_of_nonempty hne fun i _ => ?_
        have hfi' : (0 : ℝ) < f i := by exact_mod_cast hf i
        exact mul_lt_mul_of_pos_left (mul_shannonLen_lt hb (hf i) (lt_total hf hk i)) hfi'
    _ = (total f : ℝ) * (H0 f + b) := by
        rw [mul_add, total_mul_H0 hn, total_cast f, Finset.sum_mul, ← Finset.sum_add_distrib]
        exact Finset.sum_congr rfl fun i _ => by ring

/-! ## 3. One symbol -/

theorem H0_one (f : Fin 1 → ℕ) : H0 f = 0 := by
  have ht : total f = f 0 := by simp [total]
  unfold H0
  rw [Fin.sum_univ_one, ht]
  rcases Nat.eq_zero_or_pos (f 0) with h | h
  · simp [h]
  · have : ((f 0 : ℕ) : ℝ) ≠ 0 := by exact_mod_cast h.ne'
    rw [div_self this]; simp

/-! ## 4. Never more than the plain tree -/

theorem const_feasible {D L : ℕ} (hk : k ≤ D ^ L) (hL : 1 ≤ L) :
    Kraft D (fun _ : Fin k => L) := by
  refine ⟨fun _ => hL, ?_⟩
  have hk' : (k : ℝ) ≤ (D : ℝ) ^ L := by exact_mod_cast hk
  have h0 : (0 : ℝ) ≤ (D : ℝ) ^ L := by positivity
  simp only [Finset.sum_const, Finset.card_univ, Fintype.card_fin, nsmul_eq_mul, mul_one_div]
  exact div_le_one_of_le₀ hk' h0

theorem cost_const (f : Fin k → ℕ) (L : ℕ) : cost f (fun _ => L) = total f * L := by
  simp [cost, total, Finset.sum_mul]

/-! ## 5. Exact-arithmetic form -/

/-- `2^(n·H0) · Π fᵢ^fᵢ = n^n` (all frequencies positive) -/
theorem two_rpow_total_mul_H0 {f : Fin k → ℕ} (hf : ∀ i, 0 < f i) (hk : 0 < k) :
    (2 : ℝ) ^ ((total f : ℝ) * H0 f) * ∏ i, ((f i : ℝ) ^ f i) = (total f : ℝ) ^ total f := by
  have hn : 0 < total f := total_pos hf hk
  have hn' : (0 : ℝ) < total f := by exact_mod_cast hn
  have h2 : (0 : ℝ) < 2 := two_pos
  have h21 : (2 : ℝ) ≠ 1 := by norm_num
  rw [total_mul_H0 hn, Real.rpow_sum_of_pos h2, ← Finset.prod_mul_distrib]
  have hterm : ∀ i : Fin k,
      (2 : ℝ) ^ ((f i : ℝ) * Real.logb 2 ((total f : ℝ) / (f i : ℝ))) * (f i : ℝ) ^ f i
        = (total f : ℝ) ^ f i := by
    intro i
    have hfi' : (0 : ℝ) < f i := by exact_mod_cast hf i
    rw [mul_comm (f i : ℝ), Real.rpow_mul h2.le, Real.rpow_logb h2 h21 (div_pos hn' hfi'),
      Real.rpow_natCast, div_pow, div_mul_cancel₀]
    exact (pow_pos hfi' _).ne'
  rw [Finset.prod_congr rfl fun i _ => hterm i, Finset.prod_pow_eq_pow_sum]
  rfl

/-- **Exact-arithmetic form** (what a checker without real numbers evaluates):
    `bits < n·(H0 + b)` iff `2^bits · Π fᵢ^fᵢ < 2^(b·n) · n^n` over `ℕ`. -/
theorem bits_lt_iff_nat {f : Fin k → ℕ} (hf : ∀ i, 0 < f i) (hk : 0 < k) (b bits : ℕ) :
    (bits : ℝ) < (total f : ℝ) * (H0 f + b)
      ↔ 2 ^ bits * ∏ i, f i ^ f i < 2 ^ (b * total f) * total f ^ total f := by
  have hP : (0 : ℝ) < ∏ i, ((f i : ℝ) ^ f i) :=
    Finset.prod_pos fun i _ => pow_pos (by exact_mod_cast hf i) _
  have key := two_rpow_total_mul_H0 hf hk
  rw [← Nat.cast_lt (α := ℝ)]
  push_cast
  rw [← key, ← mul_assoc, mul_lt_mul_iff_left₀ hP, ← Real.rpow_natCast 2 bits,
    ← Real.rpow_natCast 2 (b * total f), ← Real.rpow_add two_pos,
    Real.rpow_lt_rpow_left_iff one_lt_two]
  push_cast
  constructor <;> intro h <;> linarith

/-- the same with real exponents: `2^(bits − b·n) · Π fᵢ^fᵢ < n^n` -/
theorem bits_lt_iff_rpow {f : Fin k → ℕ} (hf : ∀ i, 0 < f i) (hk : 0 < k) (b bits : ℕ) :
    (bits : ℝ) < (total f : ℝ) * (H0 f + b)
      ↔ (2 : ℝ) ^ ((bits : ℝ) - (b : ℝ) * (total f : ℝ)) * ∏ i, ((f i : ℝ) ^ (f i : ℝ))
          < (total f : ℝ) ^ (total f : ℝ) := by
  have hP : (0 : ℝ) < ∏ i, ((f i : ℝ) ^ f i) :=
    Finset.prod_pos fun i _ => pow_pos (by exact_mod_cast hf i) _
  have key := two_rpow_total_mul_H0 hf hk
  simp only [Real.rpow_natCast]
  rw [← key, mul_lt_mul_iff_left₀ hP, Real.rpow_lt_rpow_left_iff one_lt_two]
  constructor <;> intro h <;> linarith

/-- integer form, case `b·n ≤ bits` -/
theorem bits_lt_iff_nat_ge {f : Fin k → ℕ} (hf : ∀ i, 0 < f i) (hk : 0 < k) {b bits : ℕ}
    (h : b * total f ≤ bits) :
    (bits : ℝ) < (total f : ℝ) * (H0 f + b)
      ↔ 2 ^ (bits - b * total f) * ∏ i, f i ^ f i < total f ^ total f := by
  rw [bits_lt_iff_nat hf hk]
  obtain ⟨d, rfl⟩ := Nat.exists_eq_add_of_le h
  rw [Nat.add_sub_cancel_left, pow_add, mul_assoc]
  exact Nat.mul_lt_mul_left (Nat.pow_pos (by norm_num))

/-- integer form, case `bits ≤ b·n` -/
theorem bits_lt_iff_nat_le {f : Fin k → ℕ} (hf : ∀ i, 0 < f i) (hk : 0 < k) {b bits : ℕ}
    (h : bits ≤ b * total f) :
    (bits : ℝ) < (total f : ℝ) * (H0 f + b)
      ↔ ∏ i, f i ^ f i < 2 ^ (b * total f - bits) * total f ^ total f := by
  rw [bits_lt_iff_nat hf hk]
  obtain ⟨d, hd⟩ := Nat.exists_eq_add_of_le h
  rw [hd, Nat.add_sub_cancel_left, pow_add, mul_assoc]
  exact Nat.mul_lt_mul_left (Nat.pow_pos (by norm_num))

/-! ## Bridge to lists -/

theorem total_get (f : List ℕ) : total f.get = f.sum := by
  simp [total, Fin.sum_univ_getElem]

end Qwt.Entropy
