import Qwt.Proofs.WordPlace

/-! Helper lemmas for C17: the byte table of `select_in_word` and byte extraction. -/
namespace Qwt.Proofs.Word
open Qwt Qwt.Utils Qwt.Extracted

/-- value of the table entry according to the specification -/
def selOr (k b : Nat) : Nat :=
  match Spec.select true k (Spec.bitsOf b 8) with | some p => p | none => 8

theorem table_list :
    kSelectInByte.toList = (List.range 2048).map (fun i => selOr (i / 256) (i % 256)) := by
  decide +kernel

theorem table_get (k b : Nat) (hk : k < 8) (hb : b < 256) :
    idx kSelectInByte (k * 256 + b) = .ok (selOr k b) ∧ kSelectInByte[k * 256 + b]! = selOr k b := by
  have h : kSelectInByte = ((List.range 2048).map (fun i => selOr (i / 256) (i % 256))).toArray := by
    rw [← table_list]
  have hi : k * 256 + b < 2048 := by omega
  have e1 : (k * 256 + b) / 256 = k := by omega
  have e2 : (k * 256 + b) % 256 = b := by omega
  rw [h]
  unfold idx
  simp [hi, e1, e2]

theorem W8_shr_nth {b0 b1 b2 b3 b4 b5 b6 b7 : Nat}
    (h0 : b0 < 256) (h1 : b1 < 256) (h2 : b2 < 256) (h3 : b3 < 256) (h4 : b4 < 256)
    (h5 : b5 < 256) (h6 : b6 < 256) (_h7 : b7 < 256) (t : Nat) (ht : t < 8) :
    (W8 b0 b1 b2 b3 b4 b5 b6 b7 >>> (t * 8)) &&& 0xFF = nth8 b0 b1 b2 b3 b4 b5 b6 b7 t := by
  have h : (0xFF : Nat) = 2 ^ 8 - 1 := by decide
  rw [h, Nat.and_two_pow_sub_one_eq_mod]
  have : t = 0 ∨ t = 1 ∨ t = 2 ∨ t = 3 ∨ t = 4 ∨ t = 5 ∨ t = 6 ∨ t = 7 := by omega
  unfold W8
  rcases this with h | h | h | h | h | h | h | h <;> subst h <;> simp only [nth8] <;> omega

theorem W8_shl_nth {b0 b1 b2 b3 b4 b5 b6 b7 : Nat}
    (h0 : b0 < 256) (h1 : b1 < 256) (h2 : b2 < 256) (h3 : b3 < 256) (h4 : b4 < 256)
    (h5 : b5 < 256) (h6 : b6 < 256) (_h7 : b7 < 256) (t : Nat) (ht : t < 8) :
    (((W8 b0 b1 b2 b3 b4 b5 b6 b7 <<< 8) % two64) >>> (t * 8)) &&& 0xFF =
      nth8 0 b0 b1 b2 b3 b4 b5 b6 t := by
  have h : (0xFF : Nat) = 2 ^ 8 - 1 := by decide
  rw [h, Nat.and_two_pow_sub_one_eq_mod]
  have : t = 0 ∨ t = 1 ∨ t = 2 ∨ t = 3 ∨ t = 4 ∨ t = 5 ∨ t = 6 ∨ t = 7 := by omega
  unfold W8 two64
  rcases this with h | h | h | h | h | h | h | h <;> subst h <;> simp only [nth8] <;> omega

end Qwt.Proofs.Word
