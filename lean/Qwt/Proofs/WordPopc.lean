import Qwt.Spec.Basic
import Qwt.Model.Utils

/-! Helper lemmas for C17: population count, msb, the select table. -/
namespace Qwt.Proofs.Word
open Qwt Qwt.Utils

theorem popc_eq_spec (w : Nat) : Qwt.popc w = Spec.popc w := by
  induction w using Nat.strongRecOn with
  | _ w ih =>
    unfold Qwt.popc Spec.popc
    by_cases h : w = 0
    · simp [h]
    · simp only [h, dite_false]
      rw [ih (w / 2) (by omega)]

theorem spec_popc_zero : Spec.popc 0 = 0 := by unfold Spec.popc; simp

theorem spec_popc_step (w : Nat) : Spec.popc w = w % 2 + Spec.popc (w / 2) := by
  by_cases h : w = 0
  · subst h; simp [spec_popc_zero]
  · rw [Spec.popc]; simp [h]

theorem popc_eq_count (n : Nat) : ∀ (w : Nat), w < 2 ^ n →
    Spec.popc w = (Spec.bitsOf w n).count true := by
  induction n with
  | zero => intro w hw; have : w = 0 := by simpa using hw
            subst this; simp [spec_popc_zero, Spec.bitsOf]
  | succ n ih =>
    intro w hw
    rw [spec_popc_step, Spec.bitsOf, List.count_cons, ih (w / 2) (by rw [Nat.pow_succ] at hw; omega)]
    have : w % 2 = 0 ∨ w % 2 = 1 := by omega
    rcases this with h | h <;> simp [h] <;> omega

theorem foldl_add_popc (l : List Nat) : ∀ acc,
    l.foldl (fun acc w => acc + Qwt.popc w) acc = acc + (l.map Spec.popc).sum := by
  induction l with
  | nil => simp
  | cons a l ih => intro acc; rw [List.foldl_cons, ih, popc_eq_spec]; simp; omega

theorem msb_ok (W v : Nat) (_hW : 0 < W) (hv : v < 2 ^ W) : Utils.msb W v = .ok (Nat.log2 v) := by
  unfold Utils.msb
  by_cases h : v = 0
  · subst h; simp [pure, Except.pure]
  · have hl : Nat.log2 v < W := (Nat.log2_lt h).2 hv
    simp [h, clz, sub]
    omega

end Qwt.Proofs.Word
